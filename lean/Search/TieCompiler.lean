/- Search for an input on which the translated `Precedence::from`, `patch_jump`, `emit_loop`, `patch_offset_at` and their
models disagree (run when a tie of Props/FnsTie/Compiler.lean no longer checks). -/
import Yarel.Gen.Fns
import Yarel.Gen.Rules
import Yarel.Model.JumpLimits
open Yarel Yarel.Gen

def loByte (n : Nat) : BitVec 8 := BitVec.ofNat 8 (n % 256)
def hiByte (n : Nat) : BitVec 8 := BitVec.ofNat 8 (n / 256 % 256)
def effByte (b : BitVec 8) : Rs.Eff := Rs.Eff.mk "self.emit_byte" [.n b.toNat]

def allPrecedences : List Fns.Precedence :=
  [.None, .Assignment, .Or, .And, .Equality, .Comparison, .BitwiseOr, .BitwiseXor, .BitwiseAnd, .BitShift, .Term, .Factor,
   .Range, .Unary, .Call, .Primary]

def flat (r : Rs.M (Except Fns.CompilerError Unit × List (BitVec 8))) : Option (Option String × List (BitVec 8)) :=
  match r with
  | .panic => none
  | .ok (.ok (), c) => some (none, c)
  | .ok (.error e, c) => some (some (Fns.CompilerError.name e), c)

def lensToTry : List Nat := [0, 1, 2, 3, 4, 5, 10, 65535, 65536, 65537, 65538, 65539, 65540, 70000]

def main : IO Unit := do
  let mut n := 0
  for p in allPrecedences do
    let g := Fns.precedence_from (Fns.Precedence.discr p)
    if g != .ok p then
      n := n + 1
      IO.println s!"DISAGREE Precedence::from value={Fns.Precedence.discr p} gen={reprStr g} model={reprStr p}"
  for v in [(-1 : Int), 16, 17, 255] do
    if Fns.precedence_from v != .panic then
      n := n + 1
      IO.println s!"DISAGREE Precedence::from value={v} gen={reprStr (Fns.precedence_from v)} model=panic"
  if allPrecedences.map Fns.Precedence.name != Gen.precedences then
    n := n + 1
    IO.println s!"DISAGREE Precedence-enum order gen={allPrecedences.map Fns.Precedence.name} model={Gen.precedences}"
  let mut shown := 0
  for len in lensToTry do
    let code : List (BitVec 8) := List.replicate len 0
    for off in [0, 1, 2, 3, 4, len - 3, len - 2, len - 1, len, len + 1] do
      -- patch_jump
      let g := Fns.patch_jump (off : Int) code
      let m : Rs.M (Except Fns.CompilerError Unit × List (BitVec 8)) := match JumpLimits.patchJump len off with
        | .fault => .panic
        | .tooLarge => .ok (.error .JumpTooLarge, code)
        | .ok operand => .ok (.ok (), (code.set off (loByte operand)).set (off + 1) (hiByte operand))
      if flat g != flat m then
        n := n + 1
        if shown < 6 then
          shown := shown + 1
          IO.println s!"DISAGREE patch_jump code_len={len} offset={off} model={reprStr (JumpLimits.patchJump len off)}"
      -- emit_loop: compare the emitted operand bytes and the error report
      let g := Fns.emit_loop (off : Int) code
      let okOperand (operand : Nat) (effs : List Rs.Eff) : Bool := effs.drop 1 == [effByte (loByte operand), effByte (hiByte operand)]
      let agree : Bool := match JumpLimits.emitLoop len off, g with
        | .fault, .panic => true
        | .tooLarge, .ok (_, effs) => effs.any (·.callee == "self.error")
        | .ok operand, .ok (_, effs) => okOperand operand effs
        | _, _ => false
      if !agree then
        n := n + 1
        if shown < 6 then
          shown := shown + 1
          IO.println s!"DISAGREE emit_loop code_len_after_opcode={len} loop_start={off} gen={reprStr g} model={reprStr (JumpLimits.emitLoop len off)}"
      -- patch_offset_at (operand positions 0,1 of the chunk itself)
      let g := Fns.patch_offset_at 0 (off : Int) code
      let agree : Bool := match JumpLimits.patchOffsetAt len off, g with
        | .fault, .panic => true
        | .tooLarge, .ok (_, _, effs) => effs.any (·.callee == "self.error")
        | .ok operand, .ok (_, c, effs) => c == (code.set 0 (loByte operand)).set 1 (hiByte operand) && effs.isEmpty
        | .ok _, .panic => len < 2      -- no room for the two operand bytes
        | _, _ => false
      if !agree then
        n := n + 1
        if shown < 6 then
          shown := shown + 1
          IO.println s!"DISAGREE patch_offset_at code_len={len} offset={off} gen={reprStr g} model={reprStr (JumpLimits.patchOffsetAt len off)}"
  IO.println s!"SEARCHED TieCompiler disagreements={n}"
