/- Search for a heap on which the translated collector passes (`Heap::mark_roots`, `Heap::trace_references`, `Heap::sweep`) and the
collector model (Model/Gc.lean) disagree (run when a tie of Props/FnsTie/GcPasses.lean no longer checks).  Heaps: every graph on up to 3
boxes with 0/1 roots per box and every edge traced mark/blacken, plus a few larger chains and cycles; every initial colouring. -/
import Yarel.Gen.Fns
import Yarel.Model.RustSemGc
open Yarel Yarel.Gen

def colours : List Gc.Colour := [.white, .grey, .black]

def mkObj (roots size : Nat) (targets : List Nat) : Gc.Obj :=
  { kind := 0, roots := roots, size := size, colour := .white,
    edges := targets.map fun t => { target := t, inMark := some .mark, inBlacken := some .blacken } }

/-- all subsets of `xs` -/
def subsets : List Nat → List (List Nat)
  | [] => [[]]
  | x :: xs => (subsets xs) ++ (subsets xs).map (x :: ·)

def heapsOfSize (n : Nat) : List (List Gc.Obj) :=
  let targets := subsets (List.range n)
  let perBox : List (List Gc.Obj) := (List.range n).map fun i =>
    (targets.map fun t => mkObj 0 (8 * (i + 1)) t) ++ (targets.map fun t => mkObj 1 (8 * (i + 1)) t)
  perBox.foldr (fun choices acc => choices.flatMap fun o => acc.map fun rest => o :: rest) [[]]

def colourings : Nat → List (List Gc.Colour)
  | 0 => [[]]
  | n + 1 => (colourings n).flatMap fun cs => colours.map fun c => c :: cs

def showCols (c : Array Gc.Colour) : String := reprStr c.toList

def flatCols (r : Rs.M (Unit × Rs.GcHeap)) : Option (List Gc.Colour) := match r with | .ok (_, g) => some g.cols.toList | .panic => none
def flatModel (r : Except Gc.Fault (Array Gc.Colour)) : Option (List Gc.Colour) := match r with | .ok c => some c.toList | .error _ => none

def describe (objs : List Gc.Obj) (cols : List Gc.Colour) : String :=
  s!"boxes={reprStr (objs.map fun o => (o.roots, o.size, o.edges.map (·.target)))} colours={reprStr cols}"

def main : IO Unit := do
  let mut n := 0
  let mut shownM := 0
  let mut shownT := 0
  let mut shownS := 0
  let mut tried := 0
  let chain : List Gc.Obj := [mkObj 1 8 [1], mkObj 0 8 [2], mkObj 0 8 [3], mkObj 0 8 [4], mkObj 0 8 [], mkObj 0 40 [5], mkObj 0 8 [0]]
  let extra : List (List Gc.Obj) := [chain, chain.reverse.map fun o => { o with edges := o.edges.map fun e => { e with target := 6 - e.target } }]
  for objs in (heapsOfSize 0 ++ heapsOfSize 1 ++ heapsOfSize 2 ++ heapsOfSize 3 ++ extra) do
    let sz := objs.length
    for cols in (if sz ≤ 3 then colourings sz else [List.replicate sz .white, List.replicate sz .grey, List.replicate sz .black]) do
      for fuel in [0, 2, 40] do
        tried := tried + 1
        let g : Rs.GcHeap := { objs := objs.toArray, cols := cols.toArray, live := List.range sz, fuel := fuel }
        -- mark_roots
        let a := flatCols (Fns.gc_mark_roots g)
        let b := flatModel (Gc.markRoots g.objs fuel)
        if a != b then
          n := n + 1
          if shownM < 3 then
            shownM := shownM + 1
            IO.println s!"DISAGREE mark_roots {describe objs cols} fuel={fuel} gen={reprStr a} model={reprStr b}"
        -- trace_references
        let a := flatCols (Fns.gc_trace_references fuel g)
        let b := flatModel (Gc.traceReferences g.objs fuel g.cols)
        if a != b then
          n := n + 1
          if shownT < 3 then
            shownT := shownT + 1
            IO.println s!"DISAGREE trace_references {describe objs cols} fuel={fuel} gen={reprStr a} model={reprStr b}"
        -- sweep
        let m := Gc.sweep g.objs g.cols
        let a := match Fns.gc_sweep g with | .ok (bytes, g') => some (bytes, g'.live, g'.cols.toList) | .panic => none
        let b := some ((m.bytesFreed : Int), m.retained, m.colours.toList)
        if a != b then
          n := n + 1
          if shownS < 3 then
            shownS := shownS + 1
            IO.println s!"DISAGREE sweep {describe objs cols} gen={reprStr a} model={reprStr b}"
  IO.println s!"heaps_tried={tried} disagreements={n}"
