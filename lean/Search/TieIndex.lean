/- Search for a concrete input on which a TRANSLATED function body (Gen/Fns.lean) and its hand-written model disagree.
Run when a tie theorem of Props/FnsTie/Index.lean no longer checks:  lake env lean --run Search/TieIndex.lean
Prints one line `DISAGREE <function> <input> gen=<…> model=<…>` per disagreement found (at most 5 per function). -/
import Yarel.Gen.Fns
import Yarel.Props.FnsTie.Base
open Yarel Yarel.Gen Yarel.FnsTie

def doubles : List UInt64 :=
  [0x0, 0x8000000000000000, 0x3FF0000000000000, 0xBFF0000000000000, 0x4000000000000000, 0xC000000000000000, 0x4008000000000000,
   0xC008000000000000, 0x4010000000000000, 0xC010000000000000, 0x4014000000000000, 0xC014000000000000, 0x3FE0000000000000,
   0x7FF8000000000000, 0x7FF0000000000000, 0xFFF0000000000000, 0x43E0000000000000, 0xC3E0000000000000, 0x4340000000000001,
   0x4018000000000000, 0xC018000000000000]

def vals : List Rs.Value := doubles.map .Number ++ [.Boolean true, .None, .Other 0]
def ints : List Int := [-9223372036854775808, -9223372036854775807, -6, -5, -4, -3, -2, -1, 0, 1, 2, 3, 4, 5, 6, 9223372036854775806, 9223372036854775807]
def lens : List Nat := [0, 1, 2, 3, 4]

def report (fn input : String) (g m : String) : IO Unit := IO.println s!"DISAGREE {fn} {input} gen={g} model={m}"

def firstN {α : Type} (n : Nat) (l : List α) : List α := l.take n

def main : IO Unit := do
  let mut bad : List (String × String × String × String) := []
  for v in vals do
    let g := obsGen (Fns.validate_integer v)
    let m := obsModel id (Index.validateInteger (toVal v))
    if g != m then bad := bad ++ [("validate_integer", reprStr v, reprStr g, reprStr m)]
  for v in vals do
    for len in lens do
      let g := obsGen (Fns.try_as_bounded_index (len : Int) "kind" v)
      let m := obsModel (fun n : Nat => (n : Int)) (Index.boundedIndex (toVal v) len .Vec)
      if g != m then bad := bad ++ [("try_as_bounded_index", s!"value={reprStr v} len={len}", reprStr g, reprStr m)]
  for b in ints do
    for e in ints do
      for len in lens do
        let g := obsGen (Fns.make_bounded_range (len : Int) "t" b e)
        let m := obsModel (fun p : Nat × Nat => ((p.1 : Int), (p.2 : Int))) (Index.boundedRange b e len .Vec)
        if g != m then bad := bad ++ [("make_bounded_range", s!"begin={b} end={e} len={len}", reprStr g, reprStr m)]
  for b in ints do
    for e in ints do
      let g := Fns.range_iter_new b e
      let m : Rs.M (Int × Int) := .ok (Index.rangeIterNew b e)
      if g != m then bad := bad ++ [("ObjRangeIter::new", s!"begin={b} end={e}", reprStr g, reprStr m)]
  for e in ints do
    for cur in ints do
      for step in [(-1 : Int), 1] do
        let g : Index.Outcome (Option Rs.Value × Int) := match Fns.range_iter_next cur e step with
          | .ok (v, c) => .ok (v, c)
          | .panic => .fault .rangeIterOverflow
        let m : Index.Outcome (Option Rs.Value × Int) := match Index.rangeIterNext e cur step with
          | .ok (some i, c) => .ok (some (.Number (Index.intToBits i)), c)
          | .ok (none, c) => .ok (none, c)
          | .err x => .err x
          | .fault s => .fault s
        if g != m then bad := bad ++ [("ObjRangeIter::next", s!"end={e} current={cur} step={step}", reprStr g, reprStr m)]
  for n in lens do
    let elems : List Rs.Value := (List.range n).map fun i => .Number (Index.natToBits i)
    for cur in ([0, 1, 2, 3, 4, 5] : List Nat) do
      for (name, f) in [("ObjVecIter::next", Fns.vec_iter_next), ("ObjTupleIter::next", Fns.tuple_iter_next)] do
        let g := f (cur : Int) elems
        let m : Rs.M (Option Rs.Value × Int) := match Index.elemIterNext (elems.map toVal) cur with
          | .ok (some _, c) => (match elems[cur]? with | some v => .ok (some v, (c : Int)) | none => .panic)
          | .ok (none, c) => .ok (none, (c : Int))
          | _ => .panic
        if g != m then bad := bad ++ [(name, s!"len={n} current={cur}", reprStr g, reprStr m)]
  let mut seen : List String := []
  for (fn, i, g, m) in bad do
    if (seen.filter (· == fn)).length < 5 then
      report fn i g m
      seen := fn :: seen
  IO.println s!"SEARCHED TieIndex disagreements={bad.length}"
