/- Search for a state on which a translated function of the exception-handler mechanics differs from the contract the C08
theorems state (run when a tie of Props/FnsTie/HandlerSteps.lean no longer checks). -/
import Yarel.Gen.Fns
open Yarel Yarel.Gen

def num (i : Int) : Rs.Value := .Number (F64.ofInt i)

def mk (stack : List Rs.Value) (handlers : List Rs.Handler) (frames : Int := 2) (handling := false) (returnIp : Option Int := none)
    (returnValue : Rs.Value := .None) : Rs.Vm :=
  { stack := stack, ip := 100, code := [], consts := [], slotBase := 0, raised := [], handled := .ok (), handlers := handlers,
    frames := frames, handling := handling, returnIp := returnIp, returnValue := returnValue }

instance : Inhabited Rs.Handler := ⟨⟨0, 0, 0, 0⟩⟩

def hs : List Rs.Handler := [⟨10, 20, 0, 1⟩, ⟨30, 30, 1, 2⟩, ⟨40, 50, 2, 1⟩, ⟨60, 60, 3, 3⟩]

def main : IO Unit := do
  let mut n := 0
  let st : List Rs.Value := [num 1, num 2, num 3, num 4, .Other 9]
  for outer in [[], [hs[0]!], [hs[0]!, hs[1]!]] do
    for h in hs do
      for frames in [(1 : Int), 2, 3] do
        let vm := mk st (outer ++ [h]) frames
        -- unwind: handlers, stack, frames, flag, ip, close-before-cut
        match Fns.vm_unwind_stack vm with
        | .ok (.ok (), vm') =>
          let want := st.take h.init_stack_size.toNat ++ [Rs.Value.Other 9]
          let bad := vm'.handlers != outer || vm'.stack != want || vm'.frames != min frames h.frame_count || vm'.ip != h.catch_ip ||
            vm'.handling != decide (h.finally_ip = h.catch_ip) || vm'.closed != [(h.init_stack_size, 5)]
          if bad then
            n := n + 1
            if n ≤ 6 then IO.println s!"DISAGREE vm_unwind_stack handler={reprStr h} outer={outer.length} frames={frames} stack_height=5 -> handlers={vm'.handlers.length} stack={reprStr vm'.stack} frames={vm'.frames} ip={vm'.ip} handling={vm'.handling} closed={reprStr vm'.closed}"
        | other =>
          n := n + 1
          if n ≤ 6 then IO.println s!"DISAGREE vm_unwind_stack handler={reprStr h} frames={frames}: expected a handled exception, got {reprStr (match other with | .panic => "panic" | .ok (r, _) => reprStr r)}"
        -- JumpFinally
        match Fns.vm_jump_finally_impl vm with
        | .ok ((), vm') =>
          let want := (st.dropLast).take h.init_stack_size.toNat
          let bad := vm'.handlers != outer || vm'.stack != want || vm'.ip != h.finally_ip || vm'.returnIp != some 100 ||
            vm'.returnValue != Rs.Value.Other 9 || vm'.closed != [(h.init_stack_size, 4)]
          if bad then
            n := n + 1
            if n ≤ 6 then IO.println s!"DISAGREE vm_jump_finally_impl handler={reprStr h} outer={outer.length} -> handlers={vm'.handlers.length} stack={reprStr vm'.stack} ip={vm'.ip} returnIp={reprStr vm'.returnIp} closed={reprStr vm'.closed}"
        | .panic =>
          n := n + 1
          if n ≤ 6 then IO.println s!"DISAGREE vm_jump_finally_impl handler={reprStr h}: panic"
  -- no handler: the run ends, nothing touched
  match Fns.vm_unwind_stack (mk st []) with
  | .ok (.error _, vm') => if vm'.stack != st then n := n + 1; IO.println "DISAGREE vm_unwind_stack no-handler: stack changed"
  | _ => n := n + 1; IO.println "DISAGREE vm_unwind_stack no-handler: expected the run-ending error"
  -- push / pop
  match Fns.fiber_push_exc_handler 7 9 (mk st [hs[0]!] 3) with
  | .ok ((), vm') => if vm'.handlers != [hs[0]!, ⟨7, 9, 5, 3⟩] then n := n + 1; IO.println s!"DISAGREE fiber_push_exc_handler -> {reprStr vm'.handlers}"
  | .panic => n := n + 1; IO.println "DISAGREE fiber_push_exc_handler: panic"
  match Fns.vm_pop_exc_handler_impl (mk st [hs[0]!, hs[1]!]) with
  | .ok ((), vm') => if vm'.handlers != [hs[0]!] then n := n + 1; IO.println s!"DISAGREE vm_pop_exc_handler_impl -> {reprStr vm'.handlers}"
  | .panic => n := n + 1; IO.println "DISAGREE vm_pop_exc_handler_impl: panic"
  -- EndFinally
  match Fns.vm_end_finally_impl (mk st [] 2 false (some 77) (num 5)) with
  | .ok (.ok (), vm') => if vm'.stack != st ++ [num 5] || vm'.ip != 77 || vm'.returnIp != none then n := n + 1; IO.println s!"DISAGREE vm_end_finally_impl pending return -> stack={reprStr vm'.stack} ip={vm'.ip}"
  | _ => n := n + 1; IO.println "DISAGREE vm_end_finally_impl pending return: not ok"
  match Fns.vm_end_finally_impl (mk st [] 2 false none) with
  | .ok (.ok (), vm') => if vm'.stack != st || vm'.ip != 100 then n := n + 1; IO.println "DISAGREE vm_end_finally_impl nothing pending: state changed"
  | _ => n := n + 1; IO.println "DISAGREE vm_end_finally_impl nothing pending: not ok"
  match Fns.vm_end_finally_impl (mk st [] 2 true none) with
  | .ok (.error _, _) => pure ()
  | _ => n := n + 1; IO.println "DISAGREE vm_end_finally_impl exception in flight, no handler: expected the run-ending error"
  IO.println s!"SEARCHED TieHandlers disagreements={n}"
