/- Search for an interpreter state on which the translated `Vm::call_closure` / `Vm::return_impl` differ from what
Props/FnsTie/CallReturn.lean proves of them (run when one of its theorems no longer checks). -/
import Yarel.Gen.Fns
import Yarel.Props.FnsTie.CallReturn
open Yarel Yarel.Gen Yarel.FnsTie

def mkVm (stack : List Rs.Value) (frames : Int) (outer : List Rs.FrameRec) (slotBase : Int) : Rs.Vm :=
  { stack := stack, ip := 21, code := [], consts := [], slotBase := slotBase, raised := [], handled := .ok (), frames := frames,
    frameIp := 5, outer := outer, curClosure := .Other 41 }

def show' {α : Type} [Repr α] (r : Rs.M (Except Rs.Err α × Rs.Vm)) : String :=
  match r with
  | .panic => "panic"
  | .ok (.ok a, vm) => "ok " ++ reprStr a ++ " " ++ reprStr vm
  | .ok (.error e, vm) => "err " ++ e.fmt ++ " " ++ reprStr vm

def main : IO Unit := do
  let mut n := 0
  let stacks : List (List Rs.Value) := [[], [.Other 50], [.Other 1, .Other 50, .Number 3], [.Other 1, .Other 50, .Number 3, .Number 4]]
  for st in stacks do
    for arity in [1, 2, 3, 4] do
      for argc in [0, 1, 2, 3] do
        for frames in [1, 2, 63, 64] do
          let outer : List Rs.FrameRec := (List.range (frames.toNat - 1)).map fun (i : Nat) => (⟨(i : Int), 0, .Other 40⟩ : Rs.FrameRec)
          let vm := mkVm st frames outer 0
          let c : Rs.ClosureRec := ⟨arity, 100, .Other 50⟩
          let g := show' (Fns.vm_call_closure c argc vm)
          let want : String :=
            if argc != arity - 1 then "ok () " ++ reprStr ({ vm with raised := [errArity] } : Rs.Vm)
            else if frames == 64 then "ok () " ++ reprStr ({ vm with raised := [errDepth] } : Rs.Vm)
            else if (st.length : Int) < arity then "panic"
            else "ok () " ++ reprStr (afterCall vm c)
          if g != want then
            n := n + 1
            IO.println s!"DISAGREE vm_call_closure stack={reprStr st} arity={arity} argc={argc} frames={frames} translated={g.take 300} proved={want.take 300}"
  -- return to a caller frame
  for st in stacks do
    for base in [(0 : Int), 1, 2] do
      for below in [(1 : Nat), 2] do
        let outer : List Rs.FrameRec := (List.range below).map fun (i : Nat) => (⟨30 + (i : Int), (i : Int), .Other 40⟩ : Rs.FrameRec)
        let vm := mkVm st ((below : Int) + 1) outer base
        let g := show' (Fns.vm_return_impl vm)
        let want : String :=
          match st.getLast?, outer.getLast? with
          | some result, some fr =>
            let s := st.dropLast
            if base.toNat ≤ s.length then
              let after : Rs.Vm := { vm with stack := s.take base.toNat ++ [result], frames := (below : Int), outer := outer.dropLast, frameIp := fr.ip, slotBase := fr.slotBase, curClosure := fr.closure, ip := fr.ip, closed := [(base, (s.length : Int))] }
              "ok none " ++ reprStr after
            else "panic"
          | _, _ => "panic"
        if g != want then
          n := n + 1
          IO.println s!"DISAGREE vm_return_impl stack={reprStr st} slotBase={base} frames-below={below} translated={g.take 300} proved={want.take 300}"
  IO.println s!"SEARCHED TieCalls disagreements={n}"
