/- Search for an interpreter state on which the translated `Vm::load_fiber` / `Vm::unload_fiber` differ from what
Props/FnsTie/FiberSwitch.lean proves of them (run when one of its theorems no longer checks). -/
import Yarel.Gen.Fns
import Yarel.Props.FnsTie.FiberSwitch
open Yarel Yarel.Gen Yarel.FnsTie

def rec (stack : List Rs.Value) (frames : Int) (frameIp : Int) (caller : Option Nat := none) (entryIp : Int := 10) : Rs.FiberRec :=
  { stack := stack, handlers := [], frames := frames, frameIp := frameIp, returnIp := none, returnValue := .None, errorIp := none,
    caller := caller, entryIp := entryIp, closure0 := .Other 70 }

def base (stack : List Rs.Value) (frames : Int) (parked : List (Nat × Rs.FiberRec)) (caller : Option Nat := none) : Rs.Vm :=
  { stack := stack, ip := 17, code := [], consts := [], slotBase := 0, raised := [], handled := .ok (), frames := frames,
    curId := some 0, unsafeId := some 0, caller := caller, parked := parked }

def targets : List (String × Rs.FiberRec) :=
  [("new", rec [] 1 10), ("resumed", rec [.Other 1, .Other 2] 2 33), ("resumed-one-slot", rec [.None] 1 12),
   ("finished", rec [.Other 3] 0 50), ("waiting", rec [.Other 4] 1 20 (some 5)), ("resumed-empty-stack", rec [] 1 12)]

def args : List (Option Rs.Value) := [none, some (.Number 5), some .None]

def show' (r : Rs.M (Except Rs.Err Unit × Rs.Vm)) : String :=
  match r with
  | .panic => "panic"
  | .ok (.ok (), vm) => "ok " ++ reprStr vm
  | .ok (.error e, vm) => "err " ++ e.fmt ++ " " ++ reprStr vm

def main : IO Unit := do
  let mut n := 0
  for (tn, t) in targets do
    for a in args do
      for st in [[], [Rs.Value.Other 9], [Rs.Value.Other 8, Rs.Value.Number 5]] do
        let vm := base st 2 [(3, t), (5, rec [.Other 6] 1 77)]
        let g := show' (Fns.vm_load_fiber 3 a vm)
        let want :=
          if t.hasFinished then "err Cannot call a finished fiber. " ++ reprStr vm
          else if t.caller.isSome then "err Cannot call a fiber that has already been called. " ++ reprStr vm
          else if (a.isSome && st.isEmpty) || (!t.isNew && t.stack.isEmpty) then "panic"
          else "ok " ++ reprStr (afterLoad vm 0 3 t a)
        if g != want then
          n := n + 1
          IO.println s!"DISAGREE vm_load_fiber target={tn} arg={reprStr a} caller-stack={reprStr st} translated={g.take 400} proved={want.take 400}"
      -- a fiber that names no object
      if show' (Fns.vm_load_fiber 4 a (base [.Other 1] 2 [(3, t)])) != "panic" then
        n := n + 1
        IO.println s!"DISAGREE vm_load_fiber dangling target does not panic"
  -- unload: the running fiber 3 was called by 0
  for a in args do
    for st in [[], [Rs.Value.Other 9], [Rs.Value.Other 8, Rs.Value.Number 5]] do
      for fr in [0, 1, 2] do
        for cs in [[], [Rs.Value.Other 1, Rs.Value.Other 2]] do
          let rc := rec cs 2 41
          let vm : Rs.Vm := { (base st fr [(0, rc), (5, rec [.Other 6] 1 77)] (some 0)) with curId := some 3, unsafeId := some 3 }
          let g := show' (Fns.vm_unload_fiber a vm)
          let want := if (a.isSome && st.isEmpty) || cs.isEmpty then "panic" else "ok " ++ reprStr (afterUnload vm 3 0 rc a)
          if g != want then
            n := n + 1
            IO.println s!"DISAGREE vm_unload_fiber arg={reprStr a} stack={reprStr st} frames={fr} caller-stack={reprStr cs} translated={g.take 400} proved={want.take 400}"
      let vm0 := base st 1 [(5, rec [.Other 6] 1 77)]
      let g := show' (Fns.vm_unload_fiber a vm0)
      let want := if a.isSome && st.isEmpty then "panic" else
        "err Cannot yield from module-level code. " ++ reprStr ({ vm0 with stack := if a.isSome then st.dropLast else st, frameIp := 17 } : Rs.Vm)
      if g != want then
        n := n + 1
        IO.println s!"DISAGREE vm_unload_fiber no-caller arg={reprStr a} translated={g.take 300} proved={want.take 300}"
  IO.println s!"SEARCHED TieFibers disagreements={n}"
