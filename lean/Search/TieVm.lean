/- Search for an interpreter state on which a translated one-instruction handler of vm.rs differs from what the frame machine /
the reference interpreter assume about it (run when a tie of Props/FnsTie/VmSteps.lean no longer checks). -/
import Yarel.Gen.Fns
import Yarel.Spec.NumStub
open Yarel Yarel.Gen

def num (i : Int) : Rs.Value := .Number (F64.ofInt i)
def vals : List Rs.Value := [num 5, num 3, num 0, .Boolean true, .Boolean false, .None, .Other 7]

def mk (stack : List Rs.Value) (code : List (BitVec 8)) (ip : Int := 0) (slotBase : Int := 0) : Rs.Vm :=
  { stack := stack, ip := ip, code := code, consts := [], slotBase := slotBase, raised := [], handled := .ok () }

def showVm (r : Rs.M (α × Rs.Vm)) [Repr α] : String :=
  match r with
  | .panic => "panic"
  | .ok (a, vm) => s!"{reprStr a} stack={reprStr vm.stack} ip={vm.ip} raised={reprStr (vm.raised.map (·.fmt))}"

def truthy : Rs.Value → Bool
  | .Boolean b => b
  | .None => false
  | _ => true

def main : IO Unit := do
  let mut n := 0
  let base : List Rs.Value := [.Other 1]
  for a in vals do
    for b in vals do
      -- Equal
      let g := Fns.vm_equal_impl (mk (base ++ [a, b]) [])
      let want := base ++ [Rs.Value.Boolean (Rs.Value.eq a b)]
      if (match g with | .ok (_, vm) => vm.stack != want | .panic => true) then
        n := n + 1
        IO.println s!"DISAGREE vm_equal_impl stack_top=[{reprStr a}, {reprStr b}] gen={showVm g} expected_stack={reprStr want}"
      -- binary operator: operand order and type check
      let g := Fns.vm_binary_op_impl Fns.op_Subtract (mk (base ++ [a, b]) [])
      let wantS : Option (List Rs.Value) := match a, b with
        | .Number x, .Number y => some (base ++ [.Number (Spec.Num.sub x y)])
        | _, _ => none
      let bad : Bool := match g, wantS with
        | .ok (_, vm), some w => vm.stack != w || !vm.raised.isEmpty
        | .ok (_, vm), none => vm.stack != base || vm.raised.map (·.kind) != ["TypeError"]
        | .panic, _ => true
      if bad then
        n := n + 1
        IO.println s!"DISAGREE vm_binary_op_impl(Subtract) stack_top=[{reprStr a}, {reprStr b}] gen={showVm g}"
  for a in vals do
    let g := Fns.vm_logical_not_impl (mk (base ++ [a]) [])
    if (match g with | .ok (_, vm) => vm.stack != base ++ [Rs.Value.Boolean (!truthy a)] | .panic => true) then
      n := n + 1
      IO.println s!"DISAGREE vm_logical_not_impl top={reprStr a} gen={showVm g}"
    let g := Fns.vm_negate_impl (mk (base ++ [a]) [])
    let bad : Bool := match g, a with
      | .ok (_, vm), .Number x => vm.stack != base ++ [Rs.Value.Number (Spec.Num.neg x)]
      | .ok (_, vm), _ => vm.stack != base || vm.raised.map (·.kind) != ["TypeError"]
      | .panic, _ => true
    if bad then
      n := n + 1
      IO.println s!"DISAGREE vm_negate_impl top={reprStr a} gen={showVm g}"
    let g := Fns.vm_bitwise_not_impl (mk (base ++ [a]) [])
    let bad : Bool := match g, a with
      | .ok (_, vm), .Number x => vm.stack != base ++ [Rs.Value.Number (Spec.Num.bitNot x)]
      | .ok (_, vm), _ => vm.stack != base || vm.raised.map (·.kind) != ["TypeError"]
      | .panic, _ => true
    if bad then
      n := n + 1
      IO.println s!"DISAGREE vm_bitwise_not_impl top={reprStr a} gen={showVm g}"
  -- locals
  let st : List Rs.Value := [num 10, num 11, num 12, num 13]
  for slotBase in ([0, 1, 2] : List Nat) do
    for slot in ([0, 1, 2, 3] : List Nat) do
      let code : List (BitVec 8) := [0, BitVec.ofNat 8 slot, 0]
      let g := Fns.vm_get_local_impl (mk st code 1 (slotBase : Int))
      let want : Option (List Rs.Value) := (st[slotBase + slot]?).map fun v => st ++ [v]
      let bad : Bool := match g, want with
        | .ok (_, vm), some w => vm.stack != w || vm.ip != 2
        | .panic, none => false
        | _, _ => true
      if bad then
        n := n + 1
        IO.println s!"DISAGREE vm_get_local_impl slot_base={slotBase} slot={slot} height=4 gen={showVm g}"
      let g := Fns.vm_set_local_impl (mk st code 1 (slotBase : Int))
      let want : Option (List Rs.Value) := if slotBase + slot < 4 then some (st.set (slotBase + slot) (num 13)) else none
      let bad : Bool := match g, want with
        | .ok (_, vm), some w => vm.stack != w || vm.ip != 2
        | .panic, none => false
        | _, _ => true
      if bad then
        n := n + 1
        IO.println s!"DISAGREE vm_set_local_impl slot_base={slotBase} slot={slot} height=4 gen={showVm g}"
  -- jumps: operand bytes lo hi at offset 3
  for (lo, hi) in [((0 : Nat), (0 : Nat)), (5, 0), (255, 0), (0, 1), (3, 2), (255, 255)] do
    let code : List (BitVec 8) := [9, 9, 9, BitVec.ofNat 8 lo, BitVec.ofNat 8 hi, 9]
    let operand : Int := lo + 256 * hi
    let g := Fns.vm_jump_impl (mk [] code 3)
    if (match g with | .ok (_, vm) => vm.ip != 5 + operand | .panic => true) then
      n := n + 1
      IO.println s!"DISAGREE vm_jump_impl operand_bytes=[{lo}, {hi}] at=3 gen={showVm g} expected_ip={5 + operand}"
    let g := Fns.vm_loop_impl (mk [] code 3)
    if (match g with | .ok (_, vm) => vm.ip != 5 - operand | .panic => true) then
      n := n + 1
      IO.println s!"DISAGREE vm_loop_impl operand_bytes=[{lo}, {hi}] at=3 gen={showVm g} expected_ip={5 - operand}"
    for v in vals do
      let g := Fns.vm_jump_if_false_impl (mk [v] code 3)
      let want : Int := if truthy v then 5 else 5 + operand
      if (match g with | .ok (_, vm) => vm.ip != want || vm.stack != [v] | .panic => true) then
        n := n + 1
        IO.println s!"DISAGREE vm_jump_if_false_impl top={reprStr v} operand_bytes=[{lo}, {hi}] gen={showVm g} expected_ip={want}"
  -- the arms of the dispatch loop that work inline
  for v in vals do
    let st : List Rs.Value := [num 1, v]
    let chk (name : String) (g : Rs.M (Unit × Rs.Vm)) (want : List Rs.Value) (wantIp : Int) : IO Bool := do
      if (match g with | .ok (_, vm) => vm.stack != want || vm.ip != wantIp | .panic => true) then
        IO.println s!"DISAGREE inline-arms {name} stack={reprStr st} gen={showVm g} expected_stack={reprStr want} expected_ip={wantIp}"
        return true
      return false
    if (← chk "Nil" (Fns.vm_arm_Nil (mk st [])) (st ++ [.None]) 0) then n := n + 1
    if (← chk "True" (Fns.vm_arm_True (mk st [])) (st ++ [.Boolean true]) 0) then n := n + 1
    if (← chk "False" (Fns.vm_arm_False (mk st [])) (st ++ [.Boolean false]) 0) then n := n + 1
    if (← chk "Pop" (Fns.vm_arm_Pop (mk st [])) [num 1] 0) then n := n + 1
    if (← chk "CopyTop" (Fns.vm_arm_CopyTop (mk st [])) (st ++ [v]) 0) then n := n + 1
    let vmc : Rs.Vm := { (mk st [9, 1, 0, 9] 1) with consts := [num 7, v] }
    if (← chk "Constant" (Fns.vm_arm_Constant vmc) (st ++ [v]) 3) then n := n + 1
  if (match Fns.vm_arm_Pop (mk [] []) with | .panic => false | .ok _ => true) then
    n := n + 1
    IO.println "DISAGREE inline-arms Pop on an empty stack does not panic"
  IO.println s!"SEARCHED TieVm disagreements={n}"
