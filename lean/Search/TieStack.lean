/- Search for a stack, an operation and a build configuration on which the translated methods of `stack.rs: Stack` and the two stack
models (checked: every guard present; unchecked: raw pointer arithmetic) disagree (run when a tie of Props/FnsTie/StackTie.lean no
longer checks). -/
import Yarel.Gen.Fns
import Yarel.Model.StackGuard
import Yarel.Props.FnsTie.StackTie
open Yarel Yarel.Gen Yarel.FnsTie Yarel.StackGuard

def enc : Rs.Value → Nat
  | .Number b => 1000 + b.toNat
  | .Boolean b => if b then 1 else 0
  | .None => 2
  | .Other t => 10 + t

def cells : List (List Rs.Value) := [[], [.Other 1], [.Other 1, .Other 2, .Other 3], [.Other 1, .Other 2, .Other 3, .Other 4]]

/-- what the model says, flattened: `none` = guard fired (checked) / access outside the array (unchecked) -/
def showC (r : St × Out) : String := s!"{reprStr r.1.mem} top={r.1.top} out={reprStr r.2}"

def main : IO Unit := do
  let mut n := 0
  for stack in cells do
    for top in List.range (stack.length + 2) do
      let s := stackView enc stack top
      for d in List.range 5 do
        -- peek
        let gc := Fns.stack_peek (d : Int) (top : Int) stack true
        let mc := stepC s (.peek d)
        let okc := match gc with | .panic => isGuard mc.2 | .ok v => mc.2 == .val (enc v)
        if !okc then
          n := n + 1; IO.println s!"DISAGREE Stack::peek checked stack={reprStr stack} top={top} depth={d} gen={reprStr gc} model={showC mc}"
        let gu := Fns.stack_peek (d : Int) (top : Int) stack false
        let mu := stepU s (.peek d)
        let oku := match gu, mu with | .panic, none => true | .ok v, some r => r.2 == .val (enc v) | _, _ => false
        if !oku then
          n := n + 1; IO.println s!"DISAGREE Stack::peek unchecked stack={reprStr stack} top={top} depth={d} gen={reprStr gu} model={reprStr (mu.map showC)}"
        -- truncate
        let tc := Fns.stack_truncate (d : Int) (top : Int) stack true
        let mtc := (stepC s (.truncate d)).1
        let okt := match tc with | .ok r => mtc.top == r.2.toNat | .panic => false
        if !okt then
          n := n + 1; IO.println s!"DISAGREE Stack::truncate checked stack={reprStr stack} top={top} size={d} gen={reprStr tc} model top={mtc.top}"
        let tu := Fns.stack_truncate (d : Int) (top : Int) stack false
        let okt2 := match tu, stepU s (.truncate d) with | .ok r, some m => m.1.top == r.2.toNat | _, _ => false
        if !okt2 then
          n := n + 1; IO.println s!"DISAGREE Stack::truncate unchecked stack={reprStr stack} top={top} size={d} gen={reprStr tu}"
      -- push
      let v := Rs.Value.Other 9
      for c in [true, false] do
        let g := Fns.stack_push v stack (top : Int) c
        let ok := if c then
            (let m := stepC s (.push (enc v));
             match g with | .panic => isGuard m.2 | .ok r => m == (stackView enc r.2.1 r.2.2.toNat, .unit))
          else
            (match g, stepU s (.push (enc v)) with | .panic, none => true | .ok r, some m => m == (stackView enc r.2.1 r.2.2.toNat, .unit) | _, _ => false)
        if !ok then
          n := n + 1; IO.println s!"DISAGREE Stack::push checked={c} stack={reprStr stack} top={top} gen={reprStr g}"
        let p := Fns.stack_pop (top : Int) stack c
        let okp := if c then
            (let m := stepC s .pop;
             match p with
             | .panic => isGuard m.2
             | .ok (none, t') => m.2 == .guard .popEmpty && t' == (top : Int)
             | .ok (some x, t') => m == (stackView enc stack t'.toNat, .val (enc x)))
          else
            (match p, stepU s .pop with | .panic, none => true | .ok (some x, t'), some m => m == (stackView enc stack t'.toNat, .val (enc x)) | _, _ => false)
        if !okp then
          n := n + 1; IO.println s!"DISAGREE Stack::pop checked={c} stack={reprStr stack} top={top} gen={reprStr p}"
  IO.println s!"SEARCHED TieStack disagreements={n}"
