/- Search for an input on which the translated statement compilers (`emit_return`, `return_statement`, `throw_statement`, `try_statement`, `break_statement`,
`continue_statement`, `while_statement`, `if_statement`)
and their reference skeletons disagree (run when a tie of Props/FnsTie/Statements.lean no longer checks). -/
import Yarel.Gen.Fns
import Yarel.Model.StmtSkeleton
open Yarel Yarel.Gen Yarel.StmtSkeleton

def kinds : List Fns.FunctionKind := [.Function, .Initialiser, .Method, .Script, .StaticMethod]
def bools : List Bool := [false, true]

def effsOf2 (r : Rs.M (Unit × List Rs.Eff)) : Option (List Rs.Eff) := match r with | .ok (_, e) => some e | .panic => none
def effsOf3 (r : Rs.M (Unit × Bool × List Rs.Eff)) : Option (List Rs.Eff) := match r with | .ok (_, _, e) => some e | .panic => none

def effsOf3i (r : Rs.M (Unit × Int × List Rs.Eff)) : Option (List Rs.Eff) := match r with | .ok (_, _, e) => some e | .panic => none

def showEffs (e : Option (List Rs.Eff)) : String := match e with
  | none => "panic"
  | some l => " ".intercalate (l.map fun x => x.callee ++ reprStr x.args)

def main : IO Unit := do
  let mut n := 0
  for k in kinds do
    for t in bools do
      let g := effsOf2 (Fns.emit_return k t)
      if g != some (emitReturnSkeleton k t) then
        n := n + 1
        IO.println s!"DISAGREE emit_return kind={Fns.FunctionKind.name k} in_try_block={t} gen=[{showEffs g}] model=[{showEffs (some (emitReturnSkeleton k t))}]"
  let g := effsOf2 Fns.throw_statement
  if g != some throwSkeleton then
    n := n + 1
    IO.println s!"DISAGREE throw_statement gen=[{showEffs g}] model=[{showEffs (some throwSkeleton)}]"
  let mut shown := 0
  for k in kinds do
    for bare in bools do
      for k2 in kinds do
        for t in bools do
          let g := effsOf2 (Fns.return_statement k bare k2 t)
          if g != some (returnSkeleton k bare k2 t) then
            n := n + 1
            if shown < 4 then
              shown := shown + 1
              IO.println s!"DISAGREE return_statement kind={Fns.FunctionKind.name k} bare={bare} kind_after={Fns.FunctionKind.name k2} in_try_block={t} gen=[{showEffs g}] model=[{showEffs (some (returnSkeleton k bare k2 t))}]"
  shown := 0
  for before in bools do
    for len in [0, 1, 7, 300] do
      let c1 : List (BitVec 8) := List.replicate len 0
      let c3 : List (BitVec 8) := List.replicate (len + 4) 0
      let c10 : List (BitVec 8) := List.replicate (len + 20) 0
      for hc in bools do
        for hf in bools do
          for other in bools do
            if hc || hf then
              let g := effsOf3 (Fns.try_statement before c1 c3 other (len + 6) c10 hc true other hf other hf other)
              let m := trySkeleton before len (len + 4) (len + 6) (len + 20) hc hf
              if g != some m then
                n := n + 1
                if shown < 4 then
                  shown := shown + 1
                  IO.println s!"DISAGREE try_statement in_try_block_before={before} code_len={len} have_catch={hc} have_finally={hf} gen=[{showEffs g}] model=[{showEffs (some m)}]"
  -- break / continue / while / if
  let errs : List (Except Fns.CompilerError Unit) := [.ok (), .error .InvalidControlStatement, .error .JumpTooLarge]
  let headers : List (Option (Int × Int)) := [none, some (0, 0), some (12, 3)]
  shown := 0
  for h in headers do
    let g := effsOf2 (Fns.continue_statement h)
    if g != some (continueSkeleton h) then
      n := n + 1
      IO.println s!"DISAGREE continue_statement loop_header={reprStr h} gen=[{showEffs g}] model=[{showEffs (some (continueSkeleton h))}]"
    for p in errs do
      let g := effsOf2 (Fns.break_statement h 40 p 40 p)
      if g != some (breakSkeleton h 40 p) then
        n := n + 1
        if shown < 4 then
          shown := shown + 1
          IO.println s!"DISAGREE break_statement loop_header={reprStr h} push_break={reprStr p} gen=[{showEffs g}] model=[{showEffs (some (breakSkeleton h 40 p))}]"
  shown := 0
  for len in [0, 5, 300] do
    for p in errs do
      let g := effsOf2 (Fns.while_statement (List.replicate len 0) (len + 3) p)
      let m := whileSkeleton len (len + 3) p
      if g != some m then
        n := n + 1
        if shown < 4 then
          shown := shown + 1
          IO.println s!"DISAGREE while_statement code_len={len} pop_loop={reprStr p} gen=[{showEffs g}] model=[{showEffs (some m)}]"
  shown := 0
  for he in bools do
    for ok in bools do
      for other in bools do
        let g := effsOf2 (Fns.if_statement 10 20 he other ok)
        let m := ifSkeleton 10 20 he ok
        if g != some m then
          n := n + 1
          if shown < 4 then
            shown := shown + 1
            IO.println s!"DISAGREE if_statement have_else={he} else_starts_ok={ok} gen=[{showEffs g}] model=[{showEffs (some m)}]"
  -- expressions
  shown := 0
  for e in binaryTable do
    let g := effsOf2 (Fns.parse_binary false e.1)
    let m := binarySkeleton e.2.2.1 e.2.2.2
    if g != some m || Fns.rule_precedence e.1 != e.2.1 then
      n := n + 1
      IO.println s!"DISAGREE binary operator={Fns.TokenKind.name e.1} level={Fns.Precedence.name (Fns.rule_precedence e.1)} gen=[{showEffs g}] model_level={Fns.Precedence.name e.2.1} model=[{showEffs (some m)}]"
  for e in unaryTable do
    let g := effsOf2 (Fns.parse_unary false e.1)
    if g != some (unarySkeleton e.2) then
      n := n + 1
      IO.println s!"DISAGREE unary operator={Fns.TokenKind.name e.1} gen=[{showEffs g}] model=[{showEffs (some (unarySkeleton e.2))}]"
  if effsOf2 (Fns.parse_and false 7) != some (andSkeleton 7) then
    n := n + 1
    IO.println s!"DISAGREE and gen=[{showEffs (effsOf2 (Fns.parse_and false 7))}] model=[{showEffs (some (andSkeleton 7))}]"
  if effsOf2 (Fns.parse_or false 7 9) != some (orSkeleton 7 9) then
    n := n + 1
    IO.println s!"DISAGREE or gen=[{showEffs (effsOf2 (Fns.parse_or false 7 9))}] model=[{showEffs (some (orSkeleton 7 9))}]"
  if effsOf2 (Fns.parse_dotdot false) != some dotdotSkeleton then
    n := n + 1
    IO.println s!"DISAGREE dotdot gen=[{showEffs (effsOf2 (Fns.parse_dotdot false))}] model=[{showEffs (some dotdotSkeleton)}]"
  -- declarations, scopes, for
  for b in bools do
    if effsOf2 (Fns.var_declaration 5 b) != some (varDeclSkeleton 5 b) then
      n := n + 1
      IO.println s!"DISAGREE var_declaration has_initialiser={b} gen=[{showEffs (effsOf2 (Fns.var_declaration 5 b))}] model=[{showEffs (some (varDeclSkeleton 5 b))}]"
  if effsOf2 Fns.expression_statement != some exprStmtSkeleton then
    n := n + 1
    IO.println s!"DISAGREE expression_statement gen=[{showEffs (effsOf2 Fns.expression_statement)}] model=[{showEffs (some exprStmtSkeleton)}]"
  for d in [(1 : Int), 2, 7] do
    let g := effsOf3i (Fns.end_scope d 99)
    if g != some (endScopeSkeleton d) then
      n := n + 1
      IO.println s!"DISAGREE end_scope scope_depth={d} gen=[{showEffs g}] model=[{showEffs (some (endScopeSkeleton d))}]"
  for d in [(0 : Int), 1, 7] do
    let g := effsOf3i (Fns.begin_scope d)
    if g != some [storeDepth (d + 1)] then
      n := n + 1
      IO.println s!"DISAGREE begin_scope scope_depth={d} gen=[{showEffs g}] model=[{showEffs (some [storeDepth (d + 1)])}]"
    let g := effsOf2 (Fns.define_variable 5 d)
    if g != some (defineVarSkeleton d) then
      n := n + 1
      IO.println s!"DISAGREE define_variable scope_depth={d} gen=[{showEffs g}] model=[{showEffs (some (defineVarSkeleton d))}]"
  shown := 0
  for nlocals in [1, 2, 200, 300] do
    let locals : List (String × Option Int × Bool) := List.replicate nlocals ("x", some 1, false)
    for ok in bools do
      for p in errs do
        let g := match Fns.for_statement locals true locals locals ok 3 (some (40, 2)) 50 p locals locals with
          | .ok (_, _, e) => some e
          | .panic => none
        let m := forSkeleton (nlocals - 1) 3 ok 40 50 p
        if g != some m then
          n := n + 1
          if shown < 4 then
            shown := shown + 1
            IO.println s!"DISAGREE for_statement locals={nlocals} add_local_ok={ok} pop_loop={reprStr p} gen=[{showEffs g}] model=[{showEffs (some m)}]"
  IO.println s!"disagreements={n}"
