/- Search for operands on which a translated operator closure of `Vm::run` and the verified soft-float disagree, and for the
dispatch arms that differ from the pinned table (run when a tie of Props/FnsTie/Ops.lean no longer checks). -/
import Yarel.Gen.Fns
import Yarel.Spec.NumStub
open Yarel Yarel.Gen

def doubles : List UInt64 :=
  [0x0, 0x8000000000000000, 0x3FF0000000000000, 0xBFF0000000000000, 0x4000000000000000, 0xC000000000000000, 0x4008000000000000,
   0x3FE0000000000000, 0x4014000000000000, 0x401C000000000000, 0x7FF8000000000000, 0x7FF0000000000000, 0xFFF0000000000000,
   0x43E0000000000000, 0xC3E0000000000000, 0x4340000000000001, 0x4050000000000000, 0x404F800000000000, 0x4050400000000000,
   0x41F0000000000000, 0x3FB999999999999A, 0x4059000000000000, 0xC059000000000000, 0x1, 0x7FEFFFFFFFFFFFFF]

def numOp (f : UInt64 → UInt64 → UInt64) : UInt64 → UInt64 → Rs.M Rs.Value := fun a b => .ok (.Number (f a b))
def boolOp (f : UInt64 → UInt64 → Bool) : UInt64 → UInt64 → Rs.M Rs.Value := fun a b => .ok (.Boolean (f a b))

def pairs : List (String × (UInt64 → UInt64 → Rs.M Rs.Value) × (UInt64 → UInt64 → Rs.M Rs.Value)) :=
  [ ("op_Greater", Fns.op_Greater, boolOp fun a b => F64.lt b a), ("op_Less", Fns.op_Less, boolOp fun a b => F64.lt a b),
    ("op_Subtract", Fns.op_Subtract, numOp Spec.Num.sub), ("op_Multiply", Fns.op_Multiply, numOp Spec.Num.mul),
    ("op_Divide", Fns.op_Divide, numOp Spec.Num.div), ("op_Modulo", Fns.op_Modulo, numOp Spec.Num.fmod),
    ("op_BitwiseAnd", Fns.op_BitwiseAnd, numOp Spec.Num.bitAnd), ("op_BitwiseOr", Fns.op_BitwiseOr, numOp Spec.Num.bitOr),
    ("op_BitwiseXor", Fns.op_BitwiseXor, numOp Spec.Num.bitXor), ("op_BitShiftLeft", Fns.op_BitShiftLeft, numOp Spec.Num.shl),
    ("op_BitShiftRight", Fns.op_BitShiftRight, numOp Spec.Num.shr) ]

def main : IO Unit := do
  let mut n := 0
  for (name, g, m) in pairs do
    let mut shown := 0
    for a in doubles do
      for b in doubles do
        if g a b != m a b then
          n := n + 1
          if shown < 2 then
            shown := shown + 1
            IO.println s!"DISAGREE {name} a_bits={a} b_bits={b} a={NumText.display a} b={NumText.display b} gen={reprStr (g a b)} model={reprStr (m a b)}"
  IO.println s!"SEARCHED TieOps disagreements={n}"
