/- Search for an allocation on which the glued translated bodies of allocate_raw / collect_if_required / collect and the
pacing model disagree (run when a tie of Props/FnsTie/Pacing.lean no longer checks). -/
import Yarel.Gen.Fns
import Yarel.Props.FnsTie.Base
import Yarel.Model.Pacing
open Yarel Yarel.Gen

/-- the glue of Props/FnsTie/Pacing.lean, restated here so that the search still runs when that module does not compile -/
def allocGlued (cfg : Bool) (st : Pacing.State) (size freed : Nat) : Rs.M (Pacing.State × Bool) :=
  Rs.M.bind (Fns.allocate_raw (st.bytes : Int) "" "" (size : Int) 0 cfg) fun r0 =>
  let callee := (r0.2.2.head?.map (·.callee)).getD ""
  Rs.M.bind
    (if callee = "self.collect" then Rs.M.ok true
     else Rs.M.bind (Fns.collect_if_required (st.bytes : Int) (st.thr : Int)) fun r => Rs.M.ok (r.2.any (·.callee = "self.collect")))
    fun collects =>
  Rs.M.bind
    (if collects then
      Rs.M.bind (Fns.collect (st.bytes : Int) (st.thr : Int) (freed : Int) (st.bytes : Int) (st.thr : Int)) fun r => Rs.M.ok (r.2.1, r.2.2.1)
     else Rs.M.ok ((st.bytes : Int), (st.thr : Int)))
    fun bt =>
  Rs.M.bind (Fns.allocate_raw (st.bytes : Int) "" "" (size : Int) bt.1 cfg) fun r =>
  Rs.M.ok ({ bytes := r.2.1.toNat, thr := bt.2.toNat }, collects)

def main : IO Unit := do
  let mut n := 0
  for cfg in [false, true] do
    for bytes in [0, 1, 2, 3, 8, 100, 65536] do
      for thr in [0, 1, 2, 3, 8, 100, 65536] do
        for size in [0, 1, 16, 24] do
          for freed in [0, 1, 2, 50, 100] do
            if freed ≤ bytes then
              let st : Pacing.State := { bytes := bytes, thr := thr }
              let g := allocGlued cfg st size freed
              let m : Rs.M (Pacing.State × Bool) := .ok (Pacing.alloc (if cfg then .always else .paced) st size (bytes - freed))
              if g != m then
                n := n + 1
                if n ≤ 5 then
                  IO.println s!"DISAGREE allocate_raw checked_build={cfg} bytes_allocated={bytes} threshold={thr} size={size} bytes_freed_if_collected={freed} gen={reprStr g} model={reprStr m}"
  IO.println s!"SEARCHED TiePacing disagreements={n}"
