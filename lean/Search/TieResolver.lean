/- Search for a list of locals / captured variables on which the translated `Compiler::resolve_local` / `Compiler::add_upvalue` and
the reference parser's `resolveLocalIn` / `addUpvalueIn` disagree (run when a tie of Props/FnsTie/Resolver.lean no longer checks). -/
import Yarel.Gen.Fns
import Yarel.Spec.ParserBase
open Yarel Yarel.Gen Yarel.Spec

abbrev RLocal := String × Option Int × Bool
def decLocal (r : RLocal) : Local := { name := r.1, depth := r.2.1.map Int.toNat }

def choices : List RLocal :=
  [("a", some 1, false), ("a", none, false), ("b", some 2, true), ("b", none, false), ("c", some 0, false)]

def listsUpTo : Nat → List (List RLocal)
  | 0 => [[]]
  | n + 1 => (listsUpTo n) ++ ((listsUpTo n).filter (·.length == n)).flatMap fun l => choices.map fun c => l ++ [c]

def showSpec : Except P.ResolveErr Nat → String
  | .ok i => s!"slot {i}"
  | .error .notFound => "LocalNotFound"
  | .error .readInInit => "ReadVarInInitialiser"

def showGen : Rs.M (Except Fns.CompilerError (BitVec 8)) → String
  | .panic => "panic"
  | .ok (.ok b) => s!"slot {b.toNat}"
  | .ok (.error e) => Fns.CompilerError.name e

def main : IO Unit := do
  let mut n := 0
  let mut tried := 0
  let mut shown := 0
  for ls in listsUpTo 4 do
    let c : Compiler := { kind := default, name := "", locals := (ls.map decLocal).toArray }
    for name in ["a", "b", "c", "z"] do
      tried := tried + 1
      let g := showGen (Fns.compiler_resolve_local ls name)
      let m := showSpec (P.resolveLocalIn c name)
      if g != m then
        n := n + 1
        if shown < 6 then
          shown := shown + 1
          IO.println s!"DISAGREE Compiler::resolve_local locals={reprStr ls} name={name} gen={g} model={m}"
  -- add_upvalue: lists of (index, is_local) of length 0..3 and the boundary lengths 255, 256
  let ups0 : List (List (BitVec 8 × Bool)) :=
    [[], [(1, true)], [(1, true), (1, false)], [(2, false), (1, true), (2, false)],
     (List.range 255).map (fun i => (BitVec.ofNat 8 i, true)), (List.range 256).map (fun i => (BitVec.ofNat 8 i, true))]
  let mut shown2 := 0
  for ups in ups0 do
    for (idx, isl) in [((1 : BitVec 8), true), (1, false), (2, false), (7, true), (255, true), (0, false)] do
      tried := tried + 1
      let c : Compiler := { kind := default, name := "", locals := #[], upvalues := (ups.map fun r => (r.1.toNat, r.2)).toArray }
      let g := Fns.compiler_add_upvalue idx isl 3 ups
      let m := P.addUpvalueIn c idx.toNat isl
      let agree : Bool := match g, m with
        | .ok (.error _, cnt, u), none => cnt == 3 && u == ups
        | .ok (.ok b, cnt, u), some (i, c') =>
            b.toNat == i % 256 && c'.upvalues.toList == u.map (fun r => (r.1.toNat, r.2)) && cnt == (if u.length == ups.length then 3 else 4)
        | _, _ => false
      if !agree then
        n := n + 1
        if shown2 < 6 then
          shown2 := shown2 + 1
          IO.println s!"DISAGREE Compiler::add_upvalue upvalues_len={ups.length} index={idx.toNat} is_local={isl} model={reprStr (m.map (·.1))}"
  -- emit_scope_end: every list of up to 4 initialised locals, depths 0..2, both flags; expected = one instruction per local deeper than
  -- the scope that stays, innermost first (CloseUpvalue 56 if captured, else Pop 4), and those locals forgotten when asked
  let locChoices : List RLocal := [("a", some 0, false), ("b", some 1, true), ("c", some 1, false), ("d", some 2, true), ("e", some 2, false)]
  let rec lists : Nat → List (List RLocal)
    | 0 => [[]]
    | k + 1 => (lists k) ++ ((lists k).filter (·.length == k)).flatMap fun l => locChoices.map fun c => l ++ [c]
  let mut shown3 := 0
  for ls in lists 4 do
    for d in [(0 : Int), 1, 2] do
      for pop in [true, false] do
        tried := tried + 1
        let leaving := ls.reverse.takeWhile fun l => match l.2.1 with | some k => decide (d < k) | none => false
        let wantEffs := leaving.map fun l => Rs.Eff.mk "self.emit_byte" [Rs.Arg.n (if l.2.2 then 56 else 4)]
        let wantLocals := if pop then ls.take (ls.length - leaving.length) else ls
        let ok : Bool := match Fns.emit_scope_end pop d ls with
          | .ok ((), rest, effs) => rest == wantLocals && effs == wantEffs
          | .panic => false
        if !ok then
          n := n + 1
          if shown3 < 6 then
            shown3 := shown3 + 1
            IO.println s!"DISAGREE Parser::emit_scope_end locals={reprStr ls} scope_depth={d} pop_locals={pop} expected_instructions={reprStr (wantEffs.map (·.args))}"
  -- declare_variable: one "already declared" report per same-named local of the current scope, then the new uninitialised local
  let mut shown4 := 0
  let declChoices : List RLocal := [("a", some 1, false), ("a", some 2, false), ("b", some 2, true), ("a", none, false), ("b", some 1, false)]
  let rec dlists : Nat → List (List RLocal)
    | 0 => [[]]
    | k + 1 => (dlists k) ++ ((dlists k).filter (·.length == k)).flatMap fun l => declChoices.map fun c => l ++ [c]
  for ls in dlists 4 do
    for d in [(0 : Int), 1, 2, 3] do
      for name in ["a", "b", "z"] do
        tried := tried + 1
        let inScope := fun (l : RLocal) => match l.2.1 with | some v => !decide (v < d) | none => true
        let k := ((ls.reverse.takeWhile inScope).filter fun l => l.1 == name).length
        let errA := Rs.Eff.mk "self.error" [Rs.Arg.s "Variable with this name already declared in this scope."]
        let want : Unit × List RLocal × List Rs.Eff := if d == 0 then ((), ls, []) else ((), ls ++ [(name, none, false)], List.replicate k errA)
        let ok : Bool := match Fns.declare_variable ls d name with
          | .ok r => r.2.1 == want.2.1 && r.2.2 == want.2.2
          | .panic => false
        if !ok then
          n := n + 1
          if shown4 < 6 then
            shown4 := shown4 + 1
            IO.println s!"DISAGREE Parser::declare_variable locals={reprStr ls} scope_depth={d} name={name} expected_reports={k}"
  for ls in dlists 2 do
    for name in ["a", "q"] do
      tried := tried + 1
      let ok : Bool := match Fns.compiler_add_local ls name with
        | .ok (true, r) => r == ls ++ [(name, none, false)]
        | _ => false
      let full := List.replicate 256 (("x", some 1, false) : RLocal)
      let ok2 : Bool := match Fns.compiler_add_local full name with
        | .ok (false, r) => r == full
        | _ => false
      if !(ok && ok2) then
        n := n + 1
        IO.println s!"DISAGREE Compiler::add_local locals_len={ls.length} name={name}"
  IO.println s!"SEARCHED resolver ties cases={tried} disagreements={n}"
