/- Search for an input on which the translated `hash_number` / `FnvHasher::write` and their models disagree
(run when a tie of Props/FnsTie/Hash.lean no longer checks). -/
import Yarel.Gen.Fns
import Yarel.Model.HashMapM
import Yarel.Model.Intern
open Yarel Yarel.Gen

def doubles : List UInt64 :=
  [0x0, 0x8000000000000000, 0x3FF0000000000000, 0xBFF0000000000000, 0x4000000000000000, 0x3FE0000000000000, 0x7FF8000000000000,
   0x7FF0000000000000, 0xFFF0000000000000, 0x43E0000000000000, 0x4340000000000001, 0x400921FB54442D18, 0x1, 0x8000000000000001,
   0xFFFFFFFFFFFFFFFF, 0x7FEFFFFFFFFFFFFF]

def texts : List (List UInt8) := [[], [0], [97], [104, 101, 108, 108, 111], [255, 255, 255, 255], [195, 169, 226, 130, 172], List.replicate 40 200]

def main : IO Unit := do
  let mut n := 0
  for b in doubles do
    let g := Fns.hash_number b
    let m : Rs.M (BitVec 64) := .ok (HashMapM.hashNumberFixed b).toBitVec
    if g != m then
      n := n + 1
      IO.println s!"DISAGREE hash_number bits={b} gen={reprStr g} model={reprStr m}"
  -- the property behind it: equal numbers hash alike (0 and -0)
  if Fns.hash_number 0x0 != Fns.hash_number 0x8000000000000000 then
    n := n + 1
    IO.println s!"DISAGREE hash_number 0.0-vs--0.0 gen={reprStr (Fns.hash_number 0x0)} model={reprStr (Fns.hash_number 0x8000000000000000)}"
  for t in texts do
    for h in [(2166136261 : UInt64), 0, 0xFFFFFFFFFFFFFFFF] do
      let g := Fns.fnv_write (t.map (·.toBitVec)) h.toBitVec
      let m : Rs.M (Unit × BitVec 64) := .ok ((), (Intern.fnvWrite h t).toBitVec)
      if g != m then
        n := n + 1
        IO.println s!"DISAGREE FnvHasher::write bytes={t} hash={h} gen={reprStr g} model={reprStr m}"
  IO.println s!"SEARCHED TieHash disagreements={n}"
