/- Search for a table and key on which the translated `find_index` / `ObjStringStore::get` and the model's probe loop disagree
(run when a tie of Props/FnsTie/Intern.lean no longer checks). -/
import Yarel.Gen.Fns
import Yarel.Model.Intern
import Yarel.Props.FnsTie.Intern
import Yarel.Props.FnsTie.InternStoreTie
open Yarel Yarel.Gen Yarel.FnsTie

/-- tables of capacity 4 and 8 with chains, wrap-around at the end of the array, equal hashes with different texts, equal low bits -/
def tables : List (List (Option (BitVec 64 × String)) × Nat) :=
  [ ([none, none, none, none], 3),
    ([some (0#64, "a"), none, none, none], 3),
    ([some (0#64, "a"), some (0#64, "b"), none, none], 3),
    ([some (4#64, "a"), some (0#64, "b"), some (8#64, "c"), none], 3),
    ([some (3#64, "w"), none, none, some (3#64, "a")], 3),
    ([some (7#64, "y"), some (3#64, "z"), none, some (3#64, "x")], 3),
    ([none, some (1#64, "p"), some (1#64, "q"), some (5#64, "r")], 3),
    ([some (0#64, "a"), some (0#64, "b"), some (0#64, "c"), none, none, none, none, none], 7),
    ([some (15#64, "k"), none, none, none, none, none, some (6#64, "m"), some (7#64, "n")], 7),
    ([some (7#64, "wrapped"), none, none, none, none, none, some (6#64, "é"), some (6#64, "€")], 7),
    ([some (0#64, "a"), some (1#64, "b"), some (2#64, "c")], 3),   -- a table shorter than its mask + 1: the probe may leave it
    ([some (0#64, "a"), some (1#64, "b"), some (2#64, "c"), some (3#64, "d")], 3) ]  -- a full table: the probe of an absent key never ends

def keys : List (BitVec 64 × String) :=
  [(0#64, "a"), (0#64, "b"), (0#64, "c"), (0#64, "zz"), (4#64, "a"), (8#64, "c"), (3#64, "a"), (3#64, "x"), (7#64, "y"), (3#64, "z"),
   (1#64, "q"), (5#64, "r"), (15#64, "k"), (7#64, "wrapped"), (6#64, "€"), (6#64, "é"), (6#64, "e"), (0xFFFFFFFFFFFFFFFF#64, "a"),
   (0x100000000#64, "a"), (2#64, ""), (2#64, "c")]

def main : IO Unit := do
  let mut n := 0
  for (es, mask) in tables do
    for (h, s) in keys do
      for fuel in [es.length, 1, 0] do
        let g := Fns.store_find_index fuel es (h, s) (mask : Int)
        let m := obsFind (Intern.findIndexAux (viewSlots id es) (UInt64.ofBitVec h) (bytesOf s) mask fuel ((UInt64.ofBitVec h).toNat &&& mask))
        if g != m then
          n := n + 1
          IO.println s!"DISAGREE find_index table={reprStr es} mask={mask} key=({h.toNat}, {reprStr s}) fuel={fuel} gen={reprStr g} model={reprStr m}"
      let g := Rs.M.bind (Fns.store_get es.length (h, s) es (mask : Int)) fun r => Rs.M.ok (r.map fun p => (UInt64.ofBitVec p.1, bytesOf p.2))
      let m : Rs.M (Option (UInt64 × List UInt8)) :=
        match Intern.Store.get ⟨viewSlots id es, 0, mask⟩ (UInt64.ofBitVec h) (bytesOf s) with
        | .ok o => .ok (o.map fun e => (e.hash, e.text))
        | .error _ => .panic
      if g != m then
        n := n + 1
        IO.println s!"DISAGREE ObjStringStore::get table={reprStr es} mask={mask} key=({h.toNat}, {reprStr s}) gen={reprStr g} model={reprStr m}"
  -- the writing half: adjust_capacity and insert, compared on what they leave in the table (hash and bytes per slot), count and mask
  let eraseT (es : List (Option (BitVec 64 × String))) : List (Option (UInt64 × List UInt8)) := es.map (Option.map viewP)
  let eraseM (a : Array (Option Intern.Entry)) : List (Option (UInt64 × List UInt8)) := a.toList.map (Option.map eraseE)
  for (es, mask) in tables do
    let size := (es.filter Option.isSome).length
    for newCap in [es.length * 2, es.length, 1, 4] do
      let g : Rs.M (List (Option (UInt64 × List UInt8)) × Int) :=
        Rs.M.bind (Fns.store_adjust_capacity newCap (newCap : Int) es (mask : Int)) fun r => Rs.M.ok (eraseT r.2.1, r.2.2)
      let m : Rs.M (List (Option (UInt64 × List UInt8)) × Int) :=
        match Intern.Store.adjustCapacity ⟨viewSlots id es, size, mask⟩ newCap with
        | .ok s' => .ok (eraseM s'.entries, (s'.mask : Int))
        | .error _ => .panic
      if reprStr g != reprStr m then
        n := n + 1
        IO.println s!"DISAGREE ObjStringStore::adjust_capacity table={reprStr es} mask={mask} new_capacity={newCap} gen={reprStr g} model={reprStr m}"
    for (h, s) in keys do
      let st : Intern.Store := ⟨viewSlots id es, size, mask⟩
      let fuel := if st.needsGrow then es.length * 2 else es.length
      let g : Rs.M (List (Option (UInt64 × List UInt8)) × Int × Int) :=
        Rs.M.bind (Fns.store_insert fuel (h, s) es (size : Int) (mask : Int)) fun r => Rs.M.ok (eraseT r.2.1, r.2.2.1, r.2.2.2)
      let m : Rs.M (List (Option (UInt64 × List UInt8)) × Int × Int) :=
        match st.insert (viewEntry 999 (h, s)) with
        | .ok s' => .ok (eraseM s'.entries, (s'.size : Int), (s'.mask : Int))
        | .error _ => .panic
      if reprStr g != reprStr m then
        n := n + 1
        IO.println s!"DISAGREE ObjStringStore::insert table={reprStr es} size={size} mask={mask} key=({h.toNat}, {reprStr s}) gen={reprStr g} model={reprStr m}"
  IO.println s!"SEARCHED TieIntern disagreements={n}"
