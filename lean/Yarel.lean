import Yarel.Model.Basic
import Yarel.Model.F64Core
import Yarel.Model.Intern
import Yarel.Props.C11
import Yarel.Drv.Intern
