import Yarel.Model.Basic
import Yarel.Model.F64Core
