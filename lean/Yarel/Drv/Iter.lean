/-
Line-protocol driver for property C18 (iteration). One request per line, one answer line.
All numbers are decimal integers (a leading `-` for negatives). Values are integers.

Requests
  range <begin> <end> <n>
      the first n answers of `(begin..end).iter()`; `stop` for the sentinel; `-` if n = 0.
      begin/end outside isize -> `bad-op`.
      e.g. `range 3 0 5` -> `3,2,1,stop,stop`      `range -1 2 4` -> `-1,0,1,stop`
  vecops <op>;<op>;…
      ops, executed in order (fields inside an op separated by single spaces):
        new <k>       a new vector [0, 1, …, k-1]; it becomes THE vector (an iterator made earlier keeps
                      iterating the vector it was made from)
        iter          THE iterator := a new iterator over the vector
        next          one `next()` on the iterator
        push <v> | pop | set <i> <v>    mutate the vector (`set` accepts negative indices like `v[i] = x`)
      answer: the answers of the `next` ops, comma-separated, `stop` for the sentinel; `-` if there was none.
      A `pop` on an empty vector or a `set` out of bounds raises a runtime error in yarel: the run ends
      there and the answer is what was collected so far followed by `error` (just `error` if nothing was).
      `iter`/`push`/`pop`/`set` before `new`, or `next` before `iter`, or a malformed op -> `bad-op`.
      e.g. `vecops new 3;iter;next;next;pop;pop;next;push 9;push 8;next` -> `0,1,stop,8`
  chain <src> <stage>… <final>
      <src>   comma-separated integers, or `-` for the empty vector; the chain starts at `src.iter()`
      <stage> map:add:<k> | map:mul:<k> | filter:even | filter:gt:<k>
      <final> collect            -> the list `a,b,c` (`-` if empty)
            | reduce:add:<init>  -> the number
      e.g. `chain 1,2,3,4 map:mul:3 filter:even collect` -> `6,12`    `chain 1,2,3 reduce:add:10` -> `16`
  anything else -> `bad-op`
(`fault <site>` would mean the Rust code panics; proved impossible, see Props/C18.)
-/
import Yarel.Model.Basic
import Yarel.Model.Iter
import Yarel.Model.IterObj
namespace Yarel.Drv.Iter

open Yarel Yarel.Iter
open Yarel.Index (Outcome)

def showItem : Item Int → String
  | .val a => toString a
  | .stop => "stop"
  | .stopSub a => s!"stopsub:{a}"

def showItems (xs : List (Item Int)) : String :=
  if xs.isEmpty then "-" else ",".intercalate (xs.map showItem)

def showFault {β : Type} (o : Outcome β) (f : β → String) : String :=
  match o with
  | .ok b => f b
  | .err _ => "error"
  | .fault s => s!"fault {repr s}"

/-! ### range -/

def runRange (b e : Int) (n : Nat) : String :=
  if b < F64.isizeMin ∨ b > F64.isizeMax ∨ e < F64.isizeMin ∨ e > F64.isizeMax then "bad-op"
  else showFault (takeN rangeNext n (rangeIterNew b e)) showItems

/-! ### vecops -/

inductive Op
  | new (k : Nat)
  | iter
  | next
  | mut (o : VecOp Int)

def parseOp (s : String) : Option Op :=
  match s.trimAscii.toString.splitOn " " with
  | ["new", k] => k.toNat?.map Op.new
  | ["iter"] => some .iter
  | ["next"] => some .next
  | ["push", v] => v.toInt?.map fun v => .mut (.push (.val v))
  | ["pop"] => some (.mut .pop)
  | ["set", i, v] =>
    match i.toInt?, v.toInt? with
    | some i, some v => some (.mut (.set i (.val v)))
    | _, _ => none
  | _ => none

structure VState where
  store : Store Int := []
  vec : Option Nat := none
  it : Option VecIter := none
  out : List (Item Int) := []

inductive VRes
  | ok (s : VState)
  | error (s : VState)
  | bad
  | fault (site : Index.Site)

def stepOp (s : VState) : Op → VRes
  | .new k => .ok { s with store := s.store ++ [(List.range k).map fun (i : Nat) => Item.val (Int.ofNat i)], vec := some s.store.length }
  | .iter =>
    match s.vec with
    | some v => .ok { s with it := some (vecIterNew v) }
    | none => .bad
  | .next =>
    match s.it with
    | some it =>
      match vecIterNext s.store it with
      | .ok (it1, x) => .ok { s with it := some it1, out := s.out ++ [x] }
      | .err _ => .error s
      | .fault site => .fault site
    | none => .bad
  | .mut o =>
    match s.vec with
    | some v =>
      match s.store[v]? with
      | some xs =>
        match vecApply xs o with
        | some _ => .ok { s with store := s.store.apply v o }
        | none => .error s
      | none => .bad
    | none => .bad

def runOps : VState → List Op → String
  | s, [] => showItems s.out
  | s, o :: rest =>
    match stepOp s o with
    | .ok s1 => runOps s1 rest
    | .error s1 => if s1.out.isEmpty then "error" else showItems s1.out ++ ",error"
    | .bad => "bad-op"
    | .fault site => s!"fault {repr site}"

def runVecOps (arg : String) : String :=
  let ops := (arg.splitOn ";").map parseOp
  if ops.any Option.isNone then "bad-op"
  else runOps {} (ops.filterMap id)

/-! ### chain -/

abbrev Src (σ : Type) := Step σ Unit Int

def parseInts (s : String) : Option (List Int) :=
  if s == "-" then some []
  else (s.splitOn ",").foldr (fun t acc => match t.toInt?, acc with
    | some i, some l => some (i :: l)
    | _, _ => none) (some [])

def applyStage {σ : Type} (fuel : Nat) (src : Src σ) (stage : String) : Option (Src σ) :=
  match stage.splitOn ":" with
  | ["map", "add", k] => k.toInt?.map fun k => mapNext src (pureFn fun a => .val (a + k))
  | ["map", "mul", k] => k.toInt?.map fun k => mapNext src (pureFn fun a => .val (a * k))
  | ["filter", "even"] => some (filterNext src (pureFn fun a => a % 2 == 0) fuel)
  | ["filter", "gt", k] => k.toInt?.map fun k => filterNext src (pureFn fun a => decide (a > k)) fuel
  | _ => none

def runFinal {σ : Type} (fuel : Nat) (src : Src σ) (it : σ) (final : String) : String :=
  match final.splitOn ":" with
  | ["collect"] => showFault (collect src fuel it ()) fun r => showItems r.2.2
  | ["reduce", "add", i] =>
    match i.toInt? with
    | some init =>
      showFault (reduce src (fun (b : Int) => pureFn fun v => match v with | .val a => b + a | _ => b) init fuel it ())
        fun r => toString r.2.2
    | none => "bad-op"
  | _ => "bad-op"

def runChainAux {σ : Type} (fuel : Nat) (it : σ) : Src σ → List String → String
  | _, [] => "bad-op"
  | src, [final] => runFinal fuel src it final
  | src, stage :: rest =>
    match applyStage fuel src stage with
    | some src1 => runChainAux fuel it src1 rest
    | none => "bad-op"

def runChain (srcArg : String) (stages : List String) : String :=
  match parseInts srcArg with
  | some xs =>
    let store : Store Int := [xs.map Item.val]
    runChainAux (xs.length + 1) (vecIterNew 0) (lift (vecIterNext store)) stages
  | none => "bad-op"

/-! ### obj: chains applied to an OBJECT deriving `Iter` (`Yarel/Model/IterObj.lean`)

`obj counter <max> <pos> <stage>… <final>`  a `Counter(max)` left at position `pos` (by a loop that broke there)
`obj bag <src> <stage>… <final>`            a `Bag` over the vector `src`
The first stage (or the final, if there is none) is applied to the object: it goes through `Proto.mapObj` /
`filterObj` / `collectObj` / `reduceObj`, i.e. through the object's `iter()`; what follows works on adapters. -/

def showStart {σ : Type} (r : Outcome (σ × Unit)) (k : σ → String) : String :=
  match r with
  | .ok (it, _) => k it
  | .err _ => "error"
  | .fault site => s!"fault {repr site}"

/-- Adapters answer themselves from `iter()` (`Proto.ofStep`), so what follows the first stage runs on the
iterator-level functions, as in `chain`. -/
def runObj {σ : Type} (P : Proto σ Unit Int) (fuel : Nat) (o : σ) : List String → String
  | [] => "bad-op"
  | [final] =>
    match final.splitOn ":" with
    | ["collect"] => showFault (P.collectObj fuel o ()) fun r => showItems r.2.2
    | ["reduce", "add", i] =>
      match i.toInt? with
      | some init =>
        showFault (P.reduceObj (fun (b : Int) => pureFn fun v => match v with | .val a => b + a | _ => b) init fuel o ())
          fun r => toString r.2.2
      | none => "bad-op"
    | _ => "bad-op"
  | stage :: rest =>
    match stage.splitOn ":" with
    | ["map", "add", k] =>
      match k.toInt? with
      | some k => let r := P.mapObj (pureFn fun a => .val (a + k)) o (); showStart r.1 fun it => runChainAux fuel it r.2.next rest
      | none => "bad-op"
    | ["map", "mul", k] =>
      match k.toInt? with
      | some k => let r := P.mapObj (pureFn fun a => .val (a * k)) o (); showStart r.1 fun it => runChainAux fuel it r.2.next rest
      | none => "bad-op"
    | ["filter", "even"] =>
      let r := P.filterObj (pureFn fun a => a % 2 == 0) fuel o (); showStart r.1 fun it => runChainAux fuel it r.2.next rest
    | ["filter", "gt", k] =>
      match k.toInt? with
      | some k => let r := P.filterObj (pureFn fun a => decide (a > k)) fuel o (); showStart r.1 fun it => runChainAux fuel it r.2.next rest
      | none => "bad-op"
    | _ => "bad-op"

/-! ### dispatch -/

def answer (line : String) : String :=
  match line.trimAscii.toString.splitOn " " with
  | ["range", b, e, n] =>
    match b.toInt?, e.toInt?, n.toNat? with
    | some b, some e, some n => runRange b e n
    | _, _, _ => "bad-op"
  | "vecops" :: rest => if rest.isEmpty then "bad-op" else runVecOps (" ".intercalate rest)
  | "chain" :: src :: stages => runChain src stages
  | "obj" :: "counter" :: mx :: pos :: stages =>
    match mx.toNat?, pos.toNat? with
    | some mx, some pos => if stages.isEmpty then "bad-op" else runObj (counterProto mx) (mx + 1) pos stages
    | _, _ => "bad-op"
  | "obj" :: "bag" :: src :: stages =>
    match parseInts src with
    | some xs => if stages.isEmpty then "bad-op" else runObj (bagProto [xs.map Item.val]) (xs.length + 1) none stages
    | none => "bad-op"
  | _ => "bad-op"

def run (_args : List String) : IO Unit := do
  let stdin ← IO.getStdin
  lineLoop stdin () fun st line => (st, answer line)

end Yarel.Drv.Iter
