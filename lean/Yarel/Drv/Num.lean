/-
Line-protocol driver for the number model (F64 arithmetic, parse, display).
-/
import Yarel.Model.Basic
import Yarel.Model.NumText

namespace Yarel.Drv.Num
open Yarel Yarel.F64 Yarel.NumText

def bitsOfHex (s : String) : Option Bits :=
  if s.length = 16 then (natOfHex s).map UInt64.ofNat else none

def hexNibble (n : UInt64) : Char :=
  let v := (n &&& 0xF).toNat
  if v < 10 then Char.ofNat (48 + v) else Char.ofNat (87 + v)

def showBits (b : Bits) : String :=
  if isNaN b then "nan"
  else String.ofList ((List.range 16).map fun i => hexNibble (b >>> (UInt64.ofNat (60 - 4 * i))))

def showBool (b : Bool) : String := if b then "true" else "false"

def binOp (op : String) (a b : Bits) : Option String :=
  match op with
  | "add" => some (showBits (add a b))
  | "sub" => some (showBits (sub a b))
  | "mul" => some (showBits (mul a b))
  | "div" => some (showBits (div a b))
  | "mod" => some (showBits (fmod a b))
  | "lt" => some (showBool (lt a b))
  | "gt" => some (showBool (gt a b))
  | "eq" => some (showBool (eq a b))
  | "band" => some (showBits (band a b))
  | "bor" => some (showBits (bor a b))
  | "bxor" => some (showBits (bxor a b))
  | "shl" => some (showBits (shl a b))
  | "shr" => some (showBits (shr a b))
  | _ => none

def unOp (op : String) (a : Bits) : Option String :=
  match op with
  | "neg" => some (showBits (neg a))
  | "bnot" => some (showBits (bnot a))
  | _ => none

def answer (line : String) : String :=
  match line.splitOn " " with
  | ["print", h] =>
    match bitsOfHex h with
    | some b => hexField ((displayChars b).map fun c => UInt8.ofNat c.toNat)
    | none => "bad-op"
  | ["parse", h] =>
    match bytesOfHex h with
    | some bs =>
      match parseDec (bs.map fun x => Char.ofNat x.toNat) with
      | some r => showBits r
      | none => "err"
    | none => "bad-op"
  | ["bin", op, x, y] =>
    match bitsOfHex x, bitsOfHex y with
    | some a, some b => (binOp op a b).getD "bad-op"
    | _, _ => "bad-op"
  | ["un", op, x] =>
    match bitsOfHex x with
    | some a => (unOp op a).getD "bad-op"
    | none => "bad-op"
  | ["ofint", d] =>
    match d.toInt? with
    | some i => showBits (ofInt i)
    | none => "bad-op"
  | ["toisize", x] =>
    match bitsOfHex x with
    | some a => toString (toIsize a)
    | none => "bad-op"
  | _ => "bad-op"

def run (_args : List String) : IO Unit := do
  let stdin ← IO.getStdin
  lineLoop stdin () (fun _ l => ((), answer l))

end Yarel.Drv.Num
