import Yarel.Model.Basic
import Yarel.Model.Pacing

/-!
Driver `pace`: validates the allocation event stream recorded from the real heap (`memory::verif::AllocEvent`)
against the pacing model.  One answer line per input line.

    reset                       -> ok      model state := (bytes 0, thr initBudget); the mode is kept
    reset <bytes> <thr>         -> ok      model state := (bytes, thr)
    mode paced | mode always    -> ok      expected policy for the following allocations (initially paced)
    alloc <size> <bytes_before> <thr_before> <collected:0|1> <bytes_after> <thr_after>
        -> ok                                   the model, from its current state, predicts exactly this record
                                                (live := bytes_after - size) and its state equals bytes_before/thr_before
        -> overshoot                            as `ok`, but the recorded numbers violate `Pacing.monitor`
                                                (impossible by `Props.C16.monitor_of_model`; independent check)
        -> mismatch model=<collected> <bytes> <thr>   otherwise; the three numbers are the model's prediction of
                                                collected / bytes_after / thr_after from ITS current state
    anything else               -> bad-op   (state unchanged)

After every `alloc` line (ok or not) the model state is set to the RECORDED `bytes_after thr_after`, so one
divergence is reported once and the following lines are checked on their own.
-/
namespace Yarel.Drv.Pace
open Yarel.Pacing

structure St where
  mode : Mode
  st : State

def bit (b : Bool) : String := if b then "1" else "0"

/-- The answer to one `alloc` line. -/
def checkAlloc (growth : Nat) (d : St) (size bb tb : Nat) (c : Bool) (ba ta : Nat) : String :=
  match judge d.mode d.st size bb tb c ba ta growth with
  | .ok => "ok"
  | .overshoot => "overshoot"
  | .mismatch pc pb pt => s!"mismatch model={bit pc} {pb} {pt}"

def parseBit (s : String) : Option Bool :=
  if s == "0" then some false else if s == "1" then some true else none

def handle (growth initBudget : Nat) (d : St) (line : String) : St × String :=
  match line.splitOn " " with
  | ["reset"] => ({ d with st := init initBudget }, "ok")
  | ["reset", b, t] =>
    match b.toNat?, t.toNat? with
    | some b, some t => ({ d with st := { bytes := b, thr := t } }, "ok")
    | _, _ => (d, "bad-op")
  | ["mode", "paced"] => ({ d with mode := .paced }, "ok")
  | ["mode", "always"] => ({ d with mode := .always }, "ok")
  | ["alloc", size, bb, tb, c, ba, ta] =>
    match size.toNat?, bb.toNat?, tb.toNat?, parseBit c, ba.toNat?, ta.toNat? with
    | some size, some bb, some tb, some c, some ba, some ta =>
      ({ d with st := { bytes := ba, thr := ta } }, checkAlloc growth d size bb tb c ba ta)
    | _, _, _, _, _, _ => (d, "bad-op")
  | _ => (d, "bad-op")

/-- The driver with explicit policy constants (plug the generated `HEAP_GROWTH_FACTOR` / `HEAP_INIT_BYTES_MAX` in here). -/
def runWith (growth initBudget : Nat) (_args : List String) : IO Unit := do
  let stdin ← IO.getStdin
  Yarel.lineLoop stdin ({ mode := .paced, st := init initBudget } : St) (handle growth initBudget)

def run (args : List String) : IO Unit :=
  runWith HEAP_GROWTH_FACTOR HEAP_INIT_BYTES_MAX args

end Yarel.Drv.Pace
