/-
Line-protocol driver for property C13 (indexing, slicing, string natives).

One request per line, one answer line.  Fields are separated by single spaces.
  <bits16>  = 16 hex digits, the IEEE-754 binary64 bit pattern of a number
  <hex>     = hex bytes of a string, "-" for the empty string

Requests
  idx <kind> <recv> <bits16>                 recv[number]
  rng <kind> <recv> <beginBits16> <endBits16> recv[begin..end]  (the range is built first: `build_range_impl`)
      <kind> = str | vec | tuple ; <recv> = <hex> for str, a decimal length n ≤ 65536 for vec/tuple
      (the vec/tuple holds the numbers 0, 1, …, n-1)
  set <len> <bits16>                         vec[number] = nil on the vec 0..len-1; answers the updated vec
  str <fn> <recv hex> <arg>…                 native method of String; <fn> = iter | len | is_alpha | is_digit |
      is_hexdigit | count_chars | char_byte_index | find | replace | split | starts_with | ends_with | to_num |
      to_bytes | to_code_points
  sfn <fn> <arg>…                            static native; <fn> = from | from_ascii | from_utf8 | from_code_points
  iter <hex>                                 full iteration `for c in s`: the list of pieces
  next <hex> <pos>                           one `StringIter.next()` at byte position pos (decimal):
                                             answers the value and the new position as `ok <val> <pos>`
  <arg> = s:<hex> | n:<bits16> | nil | b:true | b:false | x | v:<item>,<item>,…   (`v:` alone = empty vec)
  <item> = <bits16> (a number) | any <arg> that is not a vec
  `x` = some value that is neither nil, boolean, number, string, vec, tuple nor range.

Answers
  ok <val>            <val> = s:<hex> | n:<bits16> | b:true | b:false | nil | v:<val>,… | t:<val>,… (tuple) |
                              r:<begin>:<end> (range, decimal isize) | iter:<hex>:<pos> | stop (StopIter) | x
  err <Kind> <id> [<param>…]   <Kind> = TypeError | ValueError | IndexError | …
  fault <site>        the Rust code would panic here (never happens on valid UTF-8 input: theorem `no_fault`)
  unsupported <why>   request outside the model (to_num / from of a number need the C19 number text model;
                      `Yarel.Drv.Str.runWith` takes them as parameters)
  bad <why>           malformed request

Message template ids (id -> Rust format string; `{…}` that are printed as <param> are marked):
  expected_integer        "Expected an integer value but found '{}'."
  index_out_of_bounds K   "{K} index out of bounds."                         K = String | Vec | Tuple
  slice_start_out_of_range K  "{K} slice start out of range."
  slice_end_out_of_range K    "{K} slice end out of range."
  not_char_boundary D     "Provided {D} is not on a character boundary."     D = string_index | string_slice_start |
                                                                              string_slice_end (spaces -> '_')
  expected_int_or_range   "Expected an integer or range."
  not_indexable           "Value '{}' is not indexable."
  only_vec_assignable     "Only Vec objects are index-assignable."
  num_args E F            "Expected {E} parameter{s} but found {F}."          (decimal; "s" iff E ≠ 1)
  expected_vec            "Expected a Vec instance but found '{}'."
  expected_number         "Expected a number but found '{}'."
  expected_byte           "Expected a positive integer less than 256 but found '{}'."
  expected_u32            "Expected a positive integer less than 4294967295 but found '{}'."
  invalid_code_point C    "Expected a valid Unicode code point but found '{C}'."  (decimal)
  unable_to_create        "Unable to create a string from byte sequence."     (unreachable: `from_ascii_never_fails`)
  invalid_unicode B I     "Invalid Unicode encountered at byte {B} with index {I}."  (decimal)
  expected_string         "Expected a string but found '{}'."
  cannot_find_empty       "Cannot find empty string."
  cannot_replace_empty    "Cannot replace empty string."
  cannot_split_empty      "Cannot split using an empty string."
  char_index_out_of_range "Provided character index out of range."            (unreachable: `no_fault`/`char_count_spec`)
  unable_to_parse         "Unable to parse number from '{}'."

Example:  `idx str f09f9981f09f9890 c020000000000000`  (s = "🙁😐", index -8)  ->  `ok s:f09f9981`
-/
import Yarel.Model.Basic
import Yarel.Model.Str
namespace Yarel.Drv.Str

open Yarel Yarel.Index Yarel.Str

def kindName : Kind → String
  | .String => "String" | .Vec => "Vec" | .Tuple => "Tuple"

def descName : Desc → String
  | .stringIndex => "string_index" | .sliceStart => "string_slice_start" | .sliceEnd => "string_slice_end"

def errKindName : ErrKind → String
  | .AttributeError => "AttributeError" | .CompileError => "CompileError" | .ImportError => "ImportError"
  | .IndexError => "IndexError" | .NameError => "NameError" | .RuntimeError => "RuntimeError"
  | .TypeError => "TypeError" | .ValueError => "ValueError"

def msgText : Msg → String
  | .expectedInteger _ => "expected_integer"
  | .indexOutOfBounds k => s!"index_out_of_bounds {kindName k}"
  | .sliceStartOutOfRange k => s!"slice_start_out_of_range {kindName k}"
  | .sliceEndOutOfRange k => s!"slice_end_out_of_range {kindName k}"
  | .notCharBoundary d => s!"not_char_boundary {descName d}"
  | .expectedIntOrRange => "expected_int_or_range"
  | .notIndexable _ => "not_indexable"
  | .onlyVecAssignable => "only_vec_assignable"
  | .numArgs e f => s!"num_args {e} {f}"
  | .expectedVec _ => "expected_vec"
  | .expectedNumber _ => "expected_number"
  | .expectedByte _ => "expected_byte"
  | .expectedU32 _ => "expected_u32"
  | .invalidCodePoint c => s!"invalid_code_point {c}"
  | .unableToCreate => "unable_to_create"
  | .invalidUnicode b i => s!"invalid_unicode {b} {i}"
  | .expectedString _ => "expected_string"
  | .cannotFindEmpty => "cannot_find_empty"
  | .cannotReplaceEmpty => "cannot_replace_empty"
  | .cannotSplitEmpty => "cannot_split_empty"
  | .charIndexOutOfRange => "char_index_out_of_range"
  | .unableToParse _ => "unable_to_parse"
  | .undefinedProperty => "undefined_property"

def siteName : Site → String
  | .elemIndex => "elem_index" | .elemSlice => "elem_slice" | .setIndex => "set_index"
  | .iterElem => "iter_elem" | .rangeIterOverflow => "range_iter_overflow" | .strSlice => "str_slice"
  | .iterSlice => "iter_slice" | .findSlice => "find_slice" | .fromUtf8Byte => "from_utf8_byte"
  | .charsInvalid => "chars_invalid" | .modelFuel => "model_fuel"

mutual
  def showVal : Val → String
    | .nil => "nil"
    | .bool b => if b then "b:true" else "b:false"
    | .num bits => "n:" ++ hex16 bits.toNat
    | .str s => "s:" ++ hexField s
    | .vec xs => "v:" ++ showVals xs
    | .tuple xs => "t:" ++ showVals xs
    | .range b e => s!"r:{b}:{e}"
    | .strIter s pos => s!"iter:{hexField s}:{pos}"
    | .stopIter => "stop"
    | .other => "x"
  def showVals : List Val → String
    | [] => ""
    | [v] => showVal v
    | v :: vs => showVal v ++ "," ++ showVals vs
end

def showOutcome {α : Type} (f : α → String) : Outcome α → String
  | .ok a => "ok " ++ f a
  | .err e => s!"err {errKindName e.kind} {msgText e.msg}"
  | .fault s => "fault " ++ siteName s

def parseBits (s : String) : Option UInt64 :=
  if s.length == 16 then (natOfHex s).map UInt64.ofNat else none

def parseScalarArg (a : String) : Option Val :=
  if a == "nil" then some .nil
  else if a == "x" then some .other
  else if a == "b:true" then some (.bool true)
  else if a == "b:false" then some (.bool false)
  else if a.startsWith "s:" then (bytesOfHex (a.drop 2).toString).map .str
  else if a.startsWith "n:" then (parseBits (a.drop 2).toString).map .num
  else none

def parseItem (a : String) : Option Val :=
  match parseBits a with
  | some b => some (.num b)
  | none => parseScalarArg a

def parseArg (a : String) : Option Val :=
  if a.startsWith "v:" then
    let body := (a.drop 2).toString
    if body.isEmpty then some (.vec [])
    else (body.splitOn ",").mapM parseItem |>.map .vec
  else parseScalarArg a

def parseArgs (as : List String) : Option (List Val) := as.mapM parseArg

def strFnOfName : String → Option StrFn
  | "iter" => some .iter | "len" => some .len | "is_alpha" => some .isAlpha | "is_digit" => some .isDigit
  | "is_hexdigit" => some .isHexdigit | "count_chars" => some .countChars
  | "char_byte_index" => some .charByteIndex | "find" => some .find | "replace" => some .replace
  | "split" => some .split | "starts_with" => some .startsWith | "ends_with" => some .endsWith
  | "to_num" => some .toNum | "to_bytes" => some .toBytes | "to_code_points" => some .toCodePoints
  | _ => none

def staticFnOfName : String → Option StaticFn
  | "from" => some .from | "from_ascii" => some .fromAscii | "from_utf8" => some .fromUtf8
  | "from_code_points" => some .fromCodePoints
  | _ => none

def numbersUpTo (n : Nat) : List Val := (List.range n).map numOfNat

/-- The receiver of an `idx`/`rng` request. -/
def parseRecv (kind recv : String) : Except String Val :=
  match kind with
  | "str" =>
    match bytesOfHex recv with
    | some s => .ok (.str s)
    | none => .error "bad hex"
  | "vec" | "tuple" =>
    match recv.toNat? with
    | some n =>
      if n ≤ 65536 then .ok (if kind == "vec" then .vec (numbersUpTo n) else .tuple (numbersUpTo n))
      else .error "len too large"
    | none => .error "bad len"
  | _ => .error "bad kind"

/-- `none` for `parseNum`/`displayOther` = not available (answers `unsupported`). -/
structure Hooks where
  parseNum : Option (Bytes → Option UInt64) := none
  displayOther : Option (Val → Bytes) := none

def Hooks.env (h : Hooks) : Env :=
  { parseNum := h.parseNum.getD (fun _ => none), displayOther := h.displayOther.getD (fun _ => []) }

def answer (h : Hooks) (line : String) : String :=
  let env := h.env
  match line.splitOn " " with
  | ["idx", kind, recv, bits] =>
    match parseRecv kind recv, parseBits bits with
    | .ok r, some b => showOutcome showVal (getItem r (.num b))
    | .error e, _ => "bad " ++ e
    | _, none => "bad bits"
  | ["rng", kind, recv, bb, eb] =>
    match parseRecv kind recv, parseBits bb, parseBits eb with
    | .ok r, some b, some e =>
      showOutcome showVal ((buildRange (.num b) (.num e)).bind fun rg => getItem r rg)
    | .error e, _, _ => "bad " ++ e
    | _, _, _ => "bad bits"
  | ["set", len, bits] =>
    match parseRecv "vec" len, parseBits bits with
    | .ok r, some b => showOutcome showVal (setItem r (.num b) .nil)
    | .error e, _ => "bad " ++ e
    | _, none => "bad bits"
  | "str" :: fn :: recv :: args =>
    match strFnOfName fn, bytesOfHex recv, parseArgs args with
    | some f, some s, some as =>
      if f == .toNum && h.parseNum.isNone && as.isEmpty then "unsupported to_num"
      else showOutcome showVal (callNative env f s as)
    | none, _, _ => "bad fn"
    | _, none, _ => "bad hex"
    | _, _, none => "bad arg"
  | "sfn" :: fn :: args =>
    match staticFnOfName fn, parseArgs args with
    | some f, some as =>
      let needsDisplay := match f, as with
        | .from, [.str _] | .from, [.nil] | .from, [.bool _] => false
        | .from, [_] => true
        | _, _ => false
      if needsDisplay && h.displayOther.isNone then "unsupported from"
      else showOutcome showVal (callStatic env f as)
    | none, _ => "bad fn"
    | _, none => "bad arg"
  | ["iter", recv] =>
    match bytesOfHex recv with
    | some s => showOutcome (fun ps => "v:" ++ showVals (ps.map .str)) (iterAll s)
    | none => "bad hex"
  | ["next", recv, pos] =>
    match bytesOfHex recv, pos.toNat? with
    | some s, some p => showOutcome (fun (v, p') => s!"{showVal v} {p'}") (stringIterNext s p)
    | _, _ => "bad request"
  | _ => "bad request"

def runWith (h : Hooks) (_args : List String) : IO Unit := do
  let stdin ← IO.getStdin
  lineLoop stdin () (fun _ l => ((), answer h l))

def run (args : List String) : IO Unit := runWith {} args

end Yarel.Drv.Str
