/-
Driver for the spec model (S): same line protocol as /verif/harness (the real runner).

  case <id> [key=value]... -- <step> <step> ...
    options: fuel=<n> (machine steps per S step, default 20000000); every other option is ignored
    steps:   M:<name-hex>:<src-hex>  define a module source for imports
             S:<src-hex>             compile + run a snippet on the case's interpreter (REPL-like)
             C:<src-hex>             compile only
             R                       Vm::reset
             N                       new interpreter
             SCAN:<src-hex>          token stream
             G, ID:…, I:…, IDUMP, VDUMP   (collector / intern-table steps of the real runner)
                                     are answered {"status":"unsupported"}
  answer: {"id":"…","steps":[{…},…]}
-/
import Yarel.Model.Basic
import Yarel.Spec.Interp
import Yarel.Spec.Census

namespace Yarel.Drv.Spec
open Yarel.Spec

def jsonStr (s : String) : String :=
  let body := s.toList.foldl (fun (acc : String) c =>
    if c == '"' then acc ++ "\\\""
    else if c == '\\' then acc ++ "\\\\"
    else if c == '\n' then acc ++ "\\n"
    else if c == '\r' then acc ++ "\\r"
    else if c == '\t' then acc ++ "\\t"
    else if c.toNat < 0x20 then
      acc ++ "\\u00" ++ String.singleton (hexDigit (c.toNat / 16)) ++ String.singleton (hexDigit (c.toNat % 16))
    else acc.push c) ""
  "\"" ++ body ++ "\""

def jsonStrList (xs : List String) : String :=
  "[" ++ ",".intercalate (xs.map jsonStr) ++ "]"

def unhexStr (s : String) : Option String :=
  match bytesOfHex s with
  | some bs => String.fromUTF8? ⟨bs.toArray⟩
  | none => none

def badStep : String := "{\"status\":\"bad-step\"}"

def scanStep (hex : String) : String :=
  match unhexStr hex with
  | none => badStep
  | some src =>
    let toks := scanAll src
    let items := toks.toList.map fun t =>
      "[" ++ toString t.kind.index ++ "," ++ jsonStr t.kind.debugName ++ "," ++ toString t.line ++ "," ++ jsonStr t.text ++ "]"
    "{\"status\":\"tokens\",\"tokens\":[" ++ ",".intercalate items ++ "]}"

def resultJson (r : State.SnippetResult) (st : State) : String :=
  let tail := ",\"printed\":" ++ jsonStrList st.printed.toList ++
    (if st.heap.unordered then ",\"unordered\":true" else "") ++ "}"
  match r with
  | .ok => "{\"status\":\"ok\"" ++ tail
  | .error k msgs =>
    "{\"status\":\"err\",\"kind\":" ++ jsonStr k.name ++ ",\"messages\":" ++ jsonStrList msgs ++ tail
  | .timeout => "{\"status\":\"timeout\"" ++ tail
  | .fault m => "{\"status\":\"fault\",\"message\":" ++ jsonStr m ++ tail

structure Case where
  st : State
  sources : List (String × String) := []
  fuel : Nat := 20000000
  out : Array String := #[]

def assocPut (l : List (String × String)) (k v : String) : List (String × String) :=
  (k, v) :: l.filter fun (k', _) => k' != k

def stepCase (c : Case) (step : String) : Case :=
  if step.startsWith "M:" then
    match ((step.drop 2).toString.splitOn ":") with
    | [n, s] =>
      match unhexStr n, unhexStr s with
      | some name, some src =>
        let sources := assocPut c.sources name src
        { c with sources := sources, st := { c.st with sources := sources },
                 out := c.out.push "{\"status\":\"module\"}" }
      | _, _ => { c with out := c.out.push badStep }
    | _ => { c with out := c.out.push badStep }
  else if step.startsWith "S:" then
    match unhexStr (step.drop 2).toString with
    | some src =>
      let (r, st) := c.st.runSnippet src c.fuel
      { c with st := st, out := c.out.push (resultJson r st) }
    | none => { c with out := c.out.push badStep }
  else if step.startsWith "C:" then
    match unhexStr (step.drop 2).toString with
    | some src =>
      let (r, st) := c.st.runSnippet src c.fuel (compileOnly := true)
      { c with st := st, out := c.out.push (resultJson r st) }
    | none => { c with out := c.out.push badStep }
  else if step == "R" then
    { c with st := c.st.reset, out := c.out.push "{\"status\":\"reset\"}" }
  else if step == "N" then
    { c with st := State.bootstrap c.sources, out := c.out.push "{\"status\":\"new\"}" }
  else if step.startsWith "SCAN:" then
    { c with out := c.out.push (scanStep (step.drop 5).toString) }
  else if step == "G" then
    -- the collector has no counterpart here; what it may KEEP does: the reachability census of the store
    { c with out := c.out.push (Yarel.Spec.Census.censusJson c.st) }
  else if step == "IDUMP" || step == "VDUMP" || step.startsWith "ID:" || step.startsWith "I:" then
    -- steps of the real runner that concern the collector / intern table: not modelled here
    { c with out := c.out.push "{\"status\":\"unsupported\"}" }
  else { c with out := c.out.push badStep }

/-- The freshly booted interpreter (computed once). -/
def initialState : State := State.bootstrap

def handleLine (line : String) : String :=
  let parts := (line.splitOn " ").filter (· ≠ "")
  match parts with
  | "case" :: id :: rest =>
    let opts := rest.takeWhile (· ≠ "--")
    let steps := (rest.dropWhile (· ≠ "--")).drop 1
    let fuel := opts.foldl (fun acc o =>
      if o.startsWith "fuel=" then ((o.drop 5).toString.toNat?).getD acc else acc) 20000000
    let c : Case := { st := initialState, fuel := fuel }
    let c := steps.foldl stepCase c
    "{\"id\":" ++ jsonStr id ++ ",\"steps\":[" ++ ",".intercalate c.out.toList ++ "]}"
  | _ => "{\"error\":\"bad-case\"}"

/-- One answer line per input line, flushed immediately (the protocol may be used interactively). -/
partial def loop (stdin stdout : IO.FS.Stream) : IO Unit := do
  let line ← stdin.getLine
  if line.isEmpty then return ()
  let l := line.trimAscii.toString
  if !l.isEmpty then
    stdout.putStrLn (handleLine l)
    stdout.flush
  loop stdin stdout

def run (_args : List String) : IO Unit := do
  loop (← IO.getStdin) (← IO.getStdout)

end Yarel.Drv.Spec
