/-
Line-protocol driver for the collector model.

request : gc <nobj> ; <kind> <roots> <size> ; ... (nobj object records) ; E <parent> <child> <inMark> <inBlacken> ; ...
          tokens are separated by spaces, `;` is its own token, inMark/inBlacken ∈ {n, m, b}
          (n = not traced, m = `mark()`, b = `blacken()`); the `E` records of one parent appear in visiting order
          (records of different parents may be interleaved); a trailing `;` is tolerated.
answer  : retained <i> <i> ... freed_bytes <n>     indices ascending
        | nonterminating                            fuel `fuelBound h * 4 + 1000` exhausted
        | bad-op                                    malformed request (also: parent/child index ≥ nobj)
-/
import Yarel.Model.Basic
import Yarel.Model.Gc

namespace Yarel.Drv.Gc
open Yarel.Gc

/-- split a token list at the `;` tokens -/
def splitGroups : List String → List String → List (List String) → List (List String)
  | [], cur, acc => (cur.reverse :: acc).reverse
  | t :: ts, cur, acc =>
    if t == ";" then splitGroups ts [] (cur.reverse :: acc) else splitGroups ts (t :: cur) acc

def dropTrailingEmpty (gs : List (List String)) : List (List String) :=
  (gs.reverse.dropWhile (·.isEmpty)).reverse

def parseOp (s : String) : Option (Option TraceOp) :=
  if s == "n" then some none
  else if s == "m" then some (some .mark)
  else if s == "b" then some (some .blacken)
  else none

/-- `(kind, roots, size)` -/
def parseObj : List String → Option (Nat × Nat × Nat)
  | [k, r, s] =>
    match k.toNat?, r.toNat?, s.toNat? with
    | some k, some r, some s => some (k, r, s)
    | _, _, _ => none
  | _ => none

/-- `(parent, edge)` -/
def parseEdge (nobj : Nat) : List String → Option (Nat × Edge)
  | ["E", p, c, im, ib] =>
    match p.toNat?, c.toNat?, parseOp im, parseOp ib with
    | some p, some c, some im, some ib =>
      if p < nobj ∧ c < nobj then some (p, { target := c, inMark := im, inBlacken := ib }) else none
    | _, _, _, _ => none
  | _ => none

def parseAll {α β : Type} (f : α → Option β) : List α → Option (List β)
  | [] => some []
  | a :: as =>
    match f a, parseAll f as with
    | some b, some bs => some (b :: bs)
    | _, _ => none

/-- the `E` records bucketed by parent, order preserved (all parents are `< objs.length`, checked by `parseEdge`) -/
def bucketEdges (nobj : Nat) (edges : List (Nat × Edge)) : Array (List Edge) :=
  edges.reverse.foldl (fun acc pe => acc.modify pe.1 (pe.2 :: ·)) (Array.replicate nobj [])

def buildHeap (objs : List (Nat × Nat × Nat)) (edges : List (Nat × Edge)) : Heap :=
  let buckets := bucketEdges objs.length edges
  (objs.zipIdx.map fun (o, i) =>
    { kind := o.1, roots := o.2.1, size := o.2.2, colour := .white
      edges := buckets.getD i [] : Obj }).toArray

def parseRequest (line : String) : Option Heap :=
  let toks := (line.trimAscii.toString.splitOn " ").filter (· ≠ "")
  match dropTrailingEmpty (splitGroups toks [] []) with
  | ["gc", n] :: rest =>
    match n.toNat? with
    | none => none
    | some nobj =>
      if rest.length < nobj then none
      else
        match parseAll parseObj (rest.take nobj), parseAll (parseEdge nobj) (rest.drop nobj) with
        | some objs, some edges => some (buildHeap objs edges)
        | _, _ => none
  | _ => none

def answerHeap (h : Heap) : String :=
  match collectE (fuelBound h * 4 + 1000) h with
  | .ok r =>
    "retained" ++ String.join (r.retained.map fun i => " " ++ toString i) ++ " freed_bytes " ++ toString r.bytesFreed
  | .error .outOfFuel => "nonterminating"
  | .error .dangling => "bad-op"

def answer (line : String) : String :=
  match parseRequest line with
  | some h => answerHeap h
  | none => "bad-op"

def run (_args : List String) : IO Unit := do
  let stdin ← IO.getStdin
  Yarel.lineLoop stdin () fun st line => (st, answer line)

end Yarel.Drv.Gc
