/-
Line-protocol driver for the HashMap model (Yarel/Model/HashMapM.lean).  The map is `Bucketed` with the
FIXED hash (`valueHashFixed`); by `C12.bucketed_fixed_refines_assoc` that is the `==`-keyed map.

  reset                            -> ok                       (empty map)
  op insert <key> <val>            -> ok <previous value|nil>  | err ValueError
  op remove <key>                  -> ok <removed value|nil>   | err ValueError
  op get <key>                     -> ok <value|nil>           | err ValueError
  op has_key <key>                 -> ok t | ok f              | err ValueError
  clear                            -> ok nil
  len                              -> ok <n>
  keys | values                    -> ok [<k>,<k>,...]         (printed elements, SORTED as strings; `ok []` if empty)
  items                            -> ok [T(<k>,<v>),...]      (likewise sorted)
  lit <key> <val> <key> <val> ...  -> ok                       | err ValueError (map unchanged)
                                      (a literal REPLACES the map; `lit` alone is `{}`)
  hash <key>                       -> <16 hex>  (PRESENT hash)  | err unhashable
  hashfixed <key>                  -> <16 hex>  (repaired hash) | err unhashable
  anything else / unparsable       -> bad-op

Key / value syntax (no spaces inside):
  nil | t | f | n<16 hex: f64 bits> | s<hex of bytes, or -> | c<id>:<hex of name, or -> | r<id>:<begin>:<end>
  | T(<key>,<key>,...) | T() | u<tag>           (ids, tags: decimal; begin/end: decimal, optional leading -)
-/
import Yarel.Model.Basic
import Yarel.Model.HashMapM

namespace Yarel.Drv.Map

open Yarel Yarel.HashMapM

/-! ### printing -/

mutual
def showKey : Key → String
  | .nil => "nil"
  | .bool true => "t"
  | .bool false => "f"
  | .num b => "n" ++ hex16 b.toNat
  | .str bs => "s" ++ hexField bs
  | .cls i n => "c" ++ toString i ++ ":" ++ hexField n
  | .range i b e => "r" ++ toString i ++ ":" ++ toString b ++ ":" ++ toString e
  | .tuple xs => "T(" ++ String.intercalate "," (showKeys xs) ++ ")"
  | .unhashable t => "u" ++ toString t
def showKeys : List Key → List String
  | [] => []
  | x :: xs => showKey x :: showKeys xs
end

/-- The canonical order of enumerations: the printed elements sorted as strings (code-point lexicographic). -/
def showSorted (xs : List String) : String :=
  "[" ++ String.intercalate "," (xs.mergeSort (fun a b => !decide (b < a))) ++ "]"

/-! ### parsing -/

def parseAtom (tok : List Char) : Option Key :=
  match tok with
  | ['n', 'i', 'l'] => some .nil
  | ['t'] => some (.bool true)
  | ['f'] => some (.bool false)
  | 'n' :: hex =>
    if hex.length == 16 then
      match natOfHex (String.ofList hex) with
      | some n => some (.num (UInt64.ofNat n))
      | none => none
    else none
  | 's' :: hex =>
    match bytesOfHex (String.ofList hex) with
    | some bs => some (.str bs)
    | none => none
  | 'c' :: rest =>
    match (String.ofList rest).splitOn ":" with
    | [i, n] =>
      match i.toNat?, bytesOfHex n with
      | some i, some n => some (.cls i n)
      | _, _ => none
    | _ => none
  | 'r' :: rest =>
    match (String.ofList rest).splitOn ":" with
    | [i, b, e] =>
      match i.toNat?, b.toInt?, e.toInt? with
      | some i, some b, some e => some (.range i b e)
      | _, _, _ => none
    | _ => none
  | 'u' :: rest =>
    match (String.ofList rest).toNat? with
    | some t => some (.unhashable t)
    | none => none
  | _ => none

mutual
/-- Parse one key from the front of the input; returns it and the rest.  `fuel` bounds the recursion. -/
def parseKey : Nat → List Char → Option (Key × List Char)
  | 0, _ => none
  | fuel + 1, 'T' :: '(' :: rest =>
    match rest with
    | ')' :: r => some (.tuple [], r)
    | _ =>
      match parseElems fuel rest with
      | some (ks, r) => some (.tuple ks, r)
      | none => none
  | _ + 1, cs =>
    let (tok, rest) := cs.span (fun c => c != ',' && c != ')')
    match parseAtom tok with
    | some k => some (k, rest)
    | none => none
/-- One or more comma-separated keys up to and including the closing parenthesis. -/
def parseElems : Nat → List Char → Option (List Key × List Char)
  | 0, _ => none
  | fuel + 1, cs =>
    match parseKey fuel cs with
    | some (k, ',' :: r) =>
      match parseElems fuel r with
      | some (ks, r') => some (k :: ks, r')
      | none => none
    | some (k, ')' :: r) => some ([k], r)
    | _ => none
end

def parseKeyStr (s : String) : Option Key :=
  let cs := s.toList
  match parseKey (2 * cs.length + 2) cs with
  | some (k, []) => some k
  | _ => none

def parsePairs : List String → Option (List (Key × Key))
  | [] => some []
  | [_] => none
  | k :: v :: rest =>
    match parseKeyStr k, parseKeyStr v, parsePairs rest with
    | some k, some v, some ps => some ((k, v) :: ps)
    | _, _, _ => none

/-! ### the protocol -/

def showRes : Res → String
  | .value v => "ok " ++ showKey v
  | .count n => "ok " ++ toString n
  | .keyList ks => "ok " ++ showSorted (showKeys ks)
  | .itemList kvs => "ok " ++ showSorted (kvs.map fun kv => showKey (.tuple [kv.1, kv.2]))
  | .built => "ok"
  | .valueError => "err ValueError"

def exec (m : Entries) (op : Op) : Entries × String :=
  let r := Bucketed.step valueHashFixed m op
  (r.1, showRes r.2)

def hashLine (h : Key → UInt64) (k : String) : String :=
  match parseKeyStr k with
  | some k => if hasHash k then hex16 (h k).toNat else "err unhashable"
  | none => "bad-op"

def step (m : Entries) (line : String) : Entries × String :=
  match line.splitOn " " with
  | ["reset"] => ([], "ok")
  | ["clear"] => exec m .clear
  | ["len"] => exec m .len
  | ["keys"] => exec m .keys
  | ["values"] => exec m .values
  | ["items"] => exec m .items
  | ["hash", k] => (m, hashLine valueHash k)
  | ["hashfixed", k] => (m, hashLine valueHashFixed k)
  | ["op", "insert", k, v] =>
    match parseKeyStr k, parseKeyStr v with
    | some k, some v => exec m (.insert k v)
    | _, _ => (m, "bad-op")
  | ["op", name, k] =>
    match parseKeyStr k with
    | some k =>
      if name == "get" then exec m (.get k)
      else if name == "has_key" then exec m (.hasKey k)
      else if name == "remove" then exec m (.remove k)
      else (m, "bad-op")
    | none => (m, "bad-op")
  | "lit" :: rest =>
    match parsePairs rest with
    | some ps => exec m (.literal ps)
    | none => (m, "bad-op")
  | _ => (m, "bad-op")

def run (_args : List String) : IO Unit := do
  let stdin ← IO.getStdin
  lineLoop stdin ([] : Entries) step

end Yarel.Drv.Map
