/-
Line-protocol driver validating the import events of the real VM against Yarel/Model/Modules.lean.

The real hooks emit `import_start path=<p> state=<absent|loading|cached>` (at the top of `start_import_impl`, before
anything happens) and `import_finish path=<p>` (in `finish_import_impl`); the harness knows what its module loader
served. One event per line, one answer per line. `<path>` is one token without blanks; "main" is the root module.

  reset
      a new VM, or `Vm::reset`: the registry holds only "main" (registered, never `imported`).   -> ok
      (The driver starts in this state, so a leading `reset` is optional.)
  start <path> <absent|loading|cached>
      the VM is about to import `<path>` and found it in that registry state. The model predicts the state from ITS
      registry (`Modules.regState`).                                 -> ok | mismatch expected <absent|loading|cached>
      After an agreed `absent` the driver waits for exactly one of the next three lines for the same path
      (any other line first:  -> mismatch pending <path>, and the wait is dropped).
      After an agreed `loading` the VM raises "Circular dependency…": nothing changes.
      After an agreed `cached` the VM pushes the cached object; the `finish <path>` that follows is accepted.
  loaded <path>
      the loader returned a source and it compiled: the model registers the module (not imported) and enters its body
      (`State.register`, `State.enterBody`).                                          -> ok | mismatch no-start
  loaderror <path>     the loader failed:  registry unchanged.                         -> ok | mismatch no-start
  compileerror <path>  the source did not compile: registry unchanged.                 -> ok | mismatch no-start
  finish <path>
      `FinishImport` ran for `<path>`: either directly after `start <path> cached` (nothing to do), or the body of
      `<path>` returned: it must be one of the bodies in progress; bodies started later and not finished are taken to
      have raised (`State.abortImport`: they stay registered, not imported); the model marks `<path>` imported
      (`State.finishImport`).                      -> ok | mismatch not-running <absent|loading|cached>
  abort <path>
      the body of `<path>` raised (or its frame could not be pushed): it and the bodies started after it are
      abandoned and stay registered, not imported.   -> ok | mismatch not-running <absent|loading|cached>
  anything else (unknown word, wrong number of fields, unknown state word)             -> bad-op

Example (b fails, a catches and finishes; b is poisoned):
  reset                 ok
  start a absent        ok
  loaded a              ok
  start b absent        ok
  loaded b              ok
  abort b               ok
  finish a              ok
  start b absent        mismatch expected loading
  start a cached        ok
  finish a              ok
  start nope absent     ok
  loaderror nope        ok
  start nope absent     ok
-/
import Yarel.Model.Basic
import Yarel.Model.Modules

namespace Yarel.Drv.Mod

open Yarel.Modules

structure St where
  /-- path token of model path `i` at index `i`; index 0 = "main" = `mainPath` -/
  names : List String
  vm : State
  /-- `start p absent` was agreed; waiting for loaded / loaderror / compileerror -/
  pending : Option Nat
  /-- `start p cached` was agreed; a `finish p` may follow -/
  lastCached : Option Nat

def St.init : St := { names := ["main"], vm := boot, pending := none, lastCached := none }

def findIdx (names : List String) (s : String) (i : Nat) : Option Nat :=
  match names with
  | [] => none
  | n :: t => if n == s then some i else findIdx t s (i + 1)

/-- the model path of a token (new tokens get the next free number). -/
def intern (st : St) (s : String) : St × Nat :=
  match findIdx st.names s 0 with
  | some i => (st, i)
  | none => ({ st with names := st.names ++ [s] }, st.names.length)

def nameOf (st : St) (i : Nat) : String :=
  match st.names[i]? with
  | some s => s
  | none => "?"

def showState : RegState → String
  | .absent => "absent"
  | .loading => "loading"
  | .cached => "cached"

def parseState (s : String) : Option RegState :=
  if s == "absent" then some .absent
  else if s == "loading" then some .loading
  else if s == "cached" then some .cached
  else none

/-- the state of the frame below the top one. -/
def importerOf (vm : State) : Option State :=
  match vm.callers with
  | [] => none
  | m :: rest => some { vm with active := m, callers := rest }

/-- abandon the bodies in progress above `p` (they raised); `none` if `p` has no body in progress.
The root module (bottom of the stack) is never a candidate. -/
def unwindTo (p : Nat) : Nat → State → Option State
  | 0, _ => none
  | fuel + 1, vm =>
    match importerOf vm with
    | none => none
    | some imp =>
      if vm.active = p then some vm
      else unwindTo p fuel (State.abortImport imp vm vm.active (.runtime 0))

def handle (st : St) (line : String) : St × String :=
  let toks := (line.splitOn " ").filter (· ≠ "")
  match toks with
  | ["reset"] => ({ st with vm := st.vm.reset, pending := none, lastCached := none }, "ok")
  | [op, path] =>
    if op == "loaded" || op == "loaderror" || op == "compileerror" then
      let (st, p) := intern st path
      let st := { st with lastCached := none }
      if st.pending = some p then
        let st := { st with pending := none }
        if op == "loaded" then ({ st with vm := (st.vm.register p).enterBody p }, "ok")
        else (st, "ok")
      else ({ st with pending := none }, "mismatch no-start")
    else if op == "finish" || op == "abort" then
      let (st, p) := intern st path
      match st.pending with
      | some q => ({ st with pending := none, lastCached := none }, s!"mismatch pending {nameOf st q}")
      | none =>
        if op == "finish" && st.lastCached = some p then ({ st with lastCached := none }, "ok")
        else
          let st := { st with lastCached := none }
          match unwindTo p (st.vm.callers.length + 1) st.vm with
          | none => (st, s!"mismatch not-running {showState (regState st.vm.registry p)}")
          | some body =>
            match importerOf body with
            | none => (st, s!"mismatch not-running {showState (regState st.vm.registry p)}")
            | some imp =>
              if op == "finish" then ({ st with vm := State.finishImport imp body p }, "ok")
              else ({ st with vm := State.abortImport imp body p (.runtime 0) }, "ok")
    else (st, "bad-op")
  | ["start", path, stateWord] =>
    match parseState stateWord with
    | none => (st, "bad-op")
    | some seen =>
      let (st, p) := intern st path
      match st.pending with
      | some q => ({ st with pending := none, lastCached := none }, s!"mismatch pending {nameOf st q}")
      | none =>
        let st := { st with lastCached := none }
        let predicted := regState st.vm.registry p
        if predicted = seen then
          match seen with
          | .absent => ({ st with pending := some p }, "ok")
          | .cached => ({ st with lastCached := some p }, "ok")
          | .loading => (st, "ok")
        else (st, s!"mismatch expected {showState predicted}")
  | _ => (st, "bad-op")

def run (_args : List String) : IO Unit := do
  let stdin ← IO.getStdin
  Yarel.lineLoop stdin St.init handle

end Yarel.Drv.Mod
