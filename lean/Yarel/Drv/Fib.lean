/-
Line-protocol driver validating fiber-switch event traces against Yarel/Model/Fibers.lean.

One event per line, one answer per line (`ok` or `mismatch <expected>`). Fiber tokens are opaque strings;
the token `0` means "no fiber".

  reset <root>
      a new VM and `execute`: the model runs `Fibers.execute` on `Vm.fresh`; `<root>` names the root fiber.
      (The `load_fiber` event that `execute` itself emits — `load <root> 0 0 1` — may follow; it is accepted as
      the echo of this boot and checked: caller must be `0`, agree must be `1`.)
  load <to> <caller or 0> <arg:0|1> <agree:0|1>
      a successful `load_fiber`. An unknown `<to>` is a fiber the model has not seen: `Fibers.newFiber`.
      The model runs `Fibers.load` and predicts `caller` = the fiber that was running, and `agree = 1`
      (`fiber` and `unsafe_fiber` designate the same fiber).
      mismatch answers:  mismatch caller=<token> agree=<0|1>
                         mismatch error:<message>       (the model's load_fiber rejects this call)
  unload <to> <arg:0|1> <agree:0|1>
      a successful `unload_fiber` (a yield, or the return from a fiber's last frame). The model runs
      `Fibers.unload` and predicts `to` = the caller of the running fiber, and `agree = 1`.
      mismatch answers:  mismatch to=<token> agree=<0|1>
                         mismatch error:<message>
  anything else -> bad-op ;  any event before the first `reset` -> mismatch no-reset

`args`: `checked` selects the checked build's `active_fiber()` (default: unchecked); by `active_fiber_dual`
the answers cannot differ.
-/
import Yarel.Model.Basic
import Yarel.Model.Fibers

namespace Yarel.Drv.Fib

open Yarel.Fibers

structure State where
  /-- token of model fiber `i` at index `i` -/
  names : List String
  vm : Vm
  booted : Bool
  /-- no event since `reset` -/
  justBooted : Bool

def State.init : State := { names := [], vm := Vm.fresh, booted := false, justBooted := false }

def b2s (b : Bool) : String := if b then "1" else "0"

def parseBit (s : String) : Option Bool :=
  if s == "0" then some false else if s == "1" then some true else none

def tokOf (names : List String) (id : Option Nat) : String :=
  match id with
  | none => "0"
  | some i =>
    match names[i]? with
    | some t => t
    | none => "?"

def agree (vm : Vm) : Bool := vm.fiber == vm.unsafeFiber

/-- what the interpreter does before a native call: evaluate receiver and argument onto the running
fiber's stack (local computation). -/
def pushActive (vm : Vm) (vs : List Val) : Vm :=
  match vm.fiber with
  | none => vm
  | some a =>
    match vm.fibers[a]? with
    | none => vm
    | some cur => { vm with fibers := vm.fibers.set a { cur with st := { cur.st with stack := cur.st.stack ++ vs } } }

def faultName : Fault → String
  | .badId => "badId"
  | .noActive => "noActive"
  | .emptyStack => "emptyStack"
  | .noFrame => "noFrame"
  | .notLastFrame => "notLastFrame"

def step (b : Build) (st : State) (line : String) : State × String :=
  match line.splitOn " " with
  | ["reset", root] =>
    match execute b Vm.fresh 0 true with
    | (.ok vm, _) => ({ names := [root], vm := vm, booted := true, justBooted := true }, "ok")
    | _ => (st, "mismatch boot")
  | ["load", to, caller, arg, ag] =>
    match parseBit arg, parseBit ag with
    | some arg, some ag =>
      if !st.booted then (st, "mismatch no-reset") else
      if st.justBooted && st.names[0]? == some to && caller == "0" then
        ({ st with justBooted := false },
          if ag && !arg then "ok" else "mismatch caller=0 agree=1")
      else
        -- find or allocate the target
        let (names, vm0, id) :=
          match st.names.findIdx? (· == to) with
          | some i => (st.names, st.vm, i)
          | none =>
            let (vm1, i) := newFiber st.vm st.names.length
            (st.names ++ [to], vm1, i)
        let argv : Option Val := if arg then some (.num 0) else none
        let vm1 := pushActive vm0 (Val.fiber id :: argv.toList)
        let st0 : State := { st with names := names, vm := vm0, justBooted := false }
        match load b false vm1 id argv with
        | .ok vm' =>
          let predCaller := tokOf names vm0.fiber
          let good := predCaller == caller && agree vm' && ag && tokOf names vm'.fiber == to
          ({ st0 with vm := vm' },
            if good then "ok" else "mismatch caller=" ++ predCaller ++ " agree=" ++ b2s (agree vm'))
        | .error e _ => (st0, "mismatch error:" ++ e.msg)
        | .done _ _ => (st0, "mismatch done")
        | .fault f => (st0, "mismatch fault-" ++ faultName f)
    | _, _ => (st, "bad-op")
  | ["unload", to, arg, ag] =>
    match parseBit arg, parseBit ag with
    | some arg, some ag =>
      if !st.booted then (st, "mismatch no-reset") else
      let argv : Option Val := if arg then some (.num 0) else none
      let vm1 := pushActive st.vm (Val.fiberClass :: argv.toList)
      let st0 : State := { st with justBooted := false }
      match unload b vm1 argv with
      | .ok vm' =>
        let predTo := tokOf st.names vm'.fiber
        let good := predTo == to && agree vm' && ag
        ({ st0 with vm := vm' },
          if good then "ok" else "mismatch to=" ++ predTo ++ " agree=" ++ b2s (agree vm'))
      | .error e _ => (st0, "mismatch error:" ++ e.msg)
      | .done _ _ => (st0, "mismatch done")
      | .fault f => (st0, "mismatch fault-" ++ faultName f)
    | _, _ => (st, "bad-op")
  | _ => (st, "bad-op")

def run (args : List String) : IO Unit := do
  let stdin ← IO.getStdin
  let b : Build := if args.contains "checked" then .checked else .unchecked
  lineLoop stdin State.init (step b)

end Yarel.Drv.Fib
