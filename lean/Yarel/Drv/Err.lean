/-
Line-protocol driver for the C17 model (Yarel/Model/ChunkLines.lean): error kind ↔ class conversions and the
line-table lookup of `Vm::runtime_error`.  One request per line, one answer per line.

  kind <ErrorKind>
      A host native (or the VM) fails with that Rust `ErrorKind` and nothing catches it.
      answer:  <class a handler sees> <kind the embedder gets back> <className|exception> <contextField|valueItself>
      e.g.     kind CompileError      ->  RuntimeError RuntimeError className contextField
               kind IndexError        ->  IndexError IndexError className contextField
  thrown <Class> <0|1>
      An instance of the core class <Class> (Error StopIter RuntimeError AttributeError IndexError ImportError
      NameError TypeError ValueError, or `other` for any other class incl. user subclasses) is thrown and not caught;
      1 = it has a field `context`.
      answer:  <kind> className <contextField|valueItself>        e.g.  thrown StopIter 1 -> RuntimeError className contextField
  thrown value
      A non-instance value (nil, number, string, vec, class object, …) is thrown and not caught.
      answer:  RuntimeError exception valueItself
  prekind <Class>
      The pre-repair `new_error_from_value` (ledger F20) on an instance of <Class>: answer <kind>.
  chunk <code_len> <lines_len>
      A dumped chunk: answer `parallel` or `mismatch`.
  trace <code_len> <lines_len> <ip_offset>
      The lookup `lines[code_offset(ip) - 1]` on such a chunk: answer `ok <index>` or
      `fault emptyCode | fault offsetZero | fault outOfRange`.
  anything else -> bad-op
-/
import Yarel.Model.Basic
import Yarel.Model.ChunkLines

namespace Yarel.Drv.Err
open Yarel.ChunkLines

def parseKind (s : String) : Option ErrorKind := ErrorKind.all.find? (·.name == s)

def parseClass (s : String) : Option ErrClass :=
  if s == "other" then some .other else ErrClass.all.find? (·.yarelName == some s)

def className (c : ErrClass) : String := (c.yarelName).getD "other"

def showDescr : Described → String | .className => "className" | .exception => "exception"
def showShown : Shown → String | .contextField => "contextField" | .valueItself => "valueItself"

def fakeChunk (codeLen linesLen : Nat) : Chunk := ⟨List.replicate codeLen 0, List.replicate linesLen 0, []⟩

def answer (line : String) : String :=
  match line.splitOn " " with
  | ["kind", k] =>
    match parseKind k with
    | some k =>
      let r := hostErrorUncaught k
      s!"{className (classOfKind k)} {r.1.name} {showDescr r.2.1} {showShown r.2.2}"
    | none => "bad-op"
  | ["thrown", "value"] =>
    let r := uncaught .nonInstance
    s!"{r.1.name} {showDescr r.2.1} {showShown r.2.2}"
  | ["thrown", c, ctx] =>
    match parseClass c, ctx with
    | some c, "0" => let r := uncaught (.instance c false); s!"{r.1.name} {showDescr r.2.1} {showShown r.2.2}"
    | some c, "1" => let r := uncaught (.instance c true); s!"{r.1.name} {showDescr r.2.1} {showShown r.2.2}"
    | _, _ => "bad-op"
  | ["prekind", c] =>
    match parseClass c with
    | some c => (kindOfClassPreRepair c).name
    | none => "bad-op"
  | ["chunk", a, b] =>
    match a.toNat?, b.toNat? with
    | some a, some b => if (fakeChunk a b).lines.length = (fakeChunk a b).code.length then "parallel" else "mismatch"
    | _, _ => "bad-op"
  | ["trace", a, b, o] =>
    match a.toNat?, b.toNat?, o.toNat? with
    | some a, some b, some o =>
      match traceLine (fakeChunk a b) o with
      | .ok _ => s!"ok {o - 1}"
      | .error .emptyCode => "fault emptyCode"
      | .error .offsetZero => "fault offsetZero"
      | .error (.outOfRange _ _) => "fault outOfRange"
    | _, _, _ => "bad-op"
  | _ => "bad-op"

def run (_args : List String) : IO Unit := do
  let stdin ← IO.getStdin
  Yarel.lineLoop stdin () (fun st line => (st, answer line))

end Yarel.Drv.Err
