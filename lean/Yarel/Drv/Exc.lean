/-
Line-protocol driver validating exception-handler event traces against Yarel/Model/Handlers.lean.

One event per line, one answer per line (`ok` or `mismatch <expected>`). Fiber tokens are opaque strings.

  reset
      forget everything (new VM / new run).
  push <fiber> <depth_after> <stack> <frames> <no_catch:0|1>
      `ObjFiber::push_exc_handler`: the model installs a handler with `initStack = <stack>`,
      `frameCount = <frames>` (`Handlers.pushHandler`) and predicts `depth_after`.
      mismatch answer:  mismatch depth=<d>
  pop <fiber> <depth_before> <frames>
      a raw `ObjFiber::pop_exc_handler` call (PopExcHandler, or the pop inside unwind_stack / jump_finally_impl):
      `Handlers.popHandler`; the model predicts `depth_before` (0 if it has no handler: the Rust pop is then a no-op).
      mismatch answer:  mismatch depth=<d>
  unwind <fiber> <handlers_before> <stack_before> <frames_before>          (OPTIONAL)
      the state at the start of `unwind_stack`; if sent (directly before the `pop` of that unwind) the model uses
      the real stack height instead of assuming it was high enough.  mismatch answer:  mismatch depth=<d>
  unwound <fiber> <handlers_after> <stack_after> <frames_after> <init_stack> <frame_count> <handling:0|1>
      `unwind_stack` selected a handler. The model runs `Handlers.unwind` on its state from before the
      preceding `pop` of this fiber and predicts all six numbers from ITS OWN record of that fiber's pushes:
      the selected handler is the innermost one of this fiber, `stack_after = init_stack + 1`,
      `frames_after = min frames_before frame_count`, `handling = no_catch` of that handler.
      mismatch answer:  mismatch <handlers_after> <stack_after> <frames_after> <init_stack> <frame_count> <handling>
                        mismatch no-pop-before-unwound | mismatch no-handler | mismatch fault-<name>
  anything else -> bad-op
-/
import Yarel.Model.Basic
import Yarel.Model.Handlers

namespace Yarel.Drv.Exc

open Yarel.Handlers

structure FibSt where
  tok : String
  fb : Handlers.Fiber
  /-- the state before the most recent raw pop (candidate start of an unwind), and whether its stack height
  is the real one (from an `unwind` event) -/
  pend : Option (Handlers.Vm × Bool)
  /-- stack height announced by an `unwind` event, consumed by the next `pop` -/
  height : Option Nat

structure State where
  fibers : List FibSt

def State.init : State := ⟨[]⟩

def emptyFiber : Handlers.Fiber :=
  { stack := [], frames := 1, handlers := [], returnIp := none, returnValue := .nil, errorIp := none }

def State.get (st : State) (tok : String) : FibSt :=
  match st.fibers.find? (fun f => f.tok == tok) with
  | some f => f
  | none => { tok := tok, fb := emptyFiber, pend := none, height := none }

def State.put (st : State) (f : FibSt) : State :=
  if st.fibers.any (fun g => g.tok == f.tok) then
    ⟨st.fibers.map fun g => if g.tok == f.tok then f else g⟩
  else ⟨f :: st.fibers⟩

def slots (n : Nat) : List Val := List.replicate n .nil

def mkVm (fb : Handlers.Fiber) : Handlers.Vm := { fb := fb, handling := false, pc := 0 }

def b2s (b : Bool) : String := if b then "1" else "0"

def faultName : Fault → String
  | .emptyStack => "emptyStack"
  | .growTruncate => "growTruncate"
  | .overflow => "overflow"
  | .noFrame => "noFrame"
  | .noHandler => "noHandler"

def parseBit (s : String) : Option Bool :=
  if s == "0" then some false else if s == "1" then some true else none

def step (st : State) (line : String) : State × String :=
  match line.splitOn " " with
  | ["reset"] => (State.init, "ok")
  | ["push", f, d, s, fr, nc] =>
    match d.toNat?, s.toNat?, fr.toNat?, parseBit nc with
    | some d, some s, some fr, some nc =>
      let cur := st.get f
      let m := mkVm { cur.fb with stack := slots s, frames := fr }
      let m' := pushHandler m 1 (if nc then 0 else 1)
      let pred := m'.fb.handlers.length
      (st.put { cur with fb := m'.fb, pend := none, height := none },
        if pred == d then "ok" else "mismatch depth=" ++ toString pred)
    | _, _, _, _ => (st, "bad-op")
  | ["unwind", f, d, s, fr] =>
    match d.toNat?, s.toNat?, fr.toNat? with
    | some d, some s, some fr =>
      let cur := st.get f
      let pred := cur.fb.handlers.length
      (st.put { cur with fb := { cur.fb with frames := fr }, height := some s, pend := none },
        if pred == d then "ok" else "mismatch depth=" ++ toString pred)
    | _, _, _ => (st, "bad-op")
  | ["pop", f, d, fr] =>
    match d.toNat?, fr.toNat? with
    | some d, some fr =>
      let cur := st.get f
      let real := cur.height.isSome
      let pre := mkVm { cur.fb with frames := fr,
                                    stack := match cur.height with
                                      | some h => slots h
                                      | none => cur.fb.stack }
      let pred := pre.fb.handlers.length
      let m' := popHandler pre
      (st.put { cur with fb := m'.fb, pend := some (pre, real), height := none },
        if pred == d then "ok" else "mismatch depth=" ++ toString pred)
    | _, _ => (st, "bad-op")
  | ["unwound", f, ha, sa, fa, is, fc, hd] =>
    match ha.toNat?, sa.toNat?, fa.toNat?, is.toNat?, fc.toNat?, parseBit hd with
    | some ha, some sa, some fa, some is, some fc, some hd =>
      let cur := st.get f
      match cur.pend with
      | none => (st, "mismatch no-pop-before-unwound")
      | some (pre, real) =>
        match pre.fb.handlers with
        | [] => (st.put { cur with pend := none }, "mismatch no-handler")
        | h :: _ =>
          -- without an `unwind` event the height before is unknown: assume the exception sits on a stack
          -- that is at least as high as when the handler was installed
          let pre' : Handlers.Vm :=
            if real then pre else { pre with fb := { pre.fb with stack := slots (h.initStack + 1) } }
          match unwind pre' with
          | .ok m' =>
            let ok := m'.fb.handlers.length == ha && m'.fb.stack.length == sa && m'.fb.frames == fa &&
                      h.initStack == is && h.frameCount == fc && m'.handling == hd
            (st.put { cur with fb := m'.fb, pend := none },
              if ok then "ok"
              else "mismatch " ++ toString m'.fb.handlers.length ++ " " ++ toString m'.fb.stack.length ++ " " ++
                toString m'.fb.frames ++ " " ++ toString h.initStack ++ " " ++ toString h.frameCount ++ " " ++
                b2s m'.handling)
          | .ended _ _ => (st.put { cur with pend := none }, "mismatch no-handler")
          | .fault e => (st.put { cur with pend := none }, "mismatch fault-" ++ faultName e)
    | _, _, _, _, _, _ => (st, "bad-op")
  | _ => (st, "bad-op")

def run (_args : List String) : IO Unit := do
  let stdin ← IO.getStdin
  lineLoop stdin State.init step

end Yarel.Drv.Exc
