/-
Line-protocol driver for the bytecode verifier.

request : `fn <arity> <upvalue_count> <code-hex> <nconst> <const>...`
          const ::= `s` | `n` | `b` | `nil` | `o` | `f:<arity>:<upvalues>`        (`-` = empty code)
answer  : `ok <pc>:<height>:<handler-depth>,...`      all reachable instruction offsets, ascending
        | `reject <ErrorClass> <pc> <detail>...`      first verification error
        | `error <text>`                              malformed request
-/
import Yarel.Model.Basic
import Yarel.Model.Verifier

namespace Yarel.Drv.Verify
open Yarel.Bytecode Yarel.Verifier

def parseConst (s : String) : Option Const :=
  match s.splitOn ":" with
  | ["s"] => some .str
  | ["n"] => some .num
  | ["b"] => some .bool
  | ["nil"] => some .nil
  | ["o"] => some .other
  | ["f", a, u] =>
    match a.toNat?, u.toNat? with
    | some a, some u => some (.fn a u)
    | _, _ => none
  | _ => none

def parseConsts : List String → Option (List Const)
  | [] => some []
  | s :: rest =>
    match parseConst s, parseConsts rest with
    | some c, some cs => some (c :: cs)
    | _, _ => none

def parseRequest (line : String) : Except String FnDump :=
  match line.trimAscii.toString.splitOn " " with
  | "fn" :: ar :: up :: code :: nc :: consts =>
    match ar.toNat?, up.toNat?, Yarel.bytesOfHex code, nc.toNat?, parseConsts consts with
    | some ar, some up, some code, some nc, some cs =>
      if cs.length = nc then .ok { arity := ar, upvalues := up, code := code.toArray, consts := cs.toArray }
      else .error "constant count mismatch"
    | _, _, _, _, _ => .error "malformed field"
  | _ => .error "expected: fn <arity> <upvalues> <code-hex> <nconst> <const>..."

def decodeErrorText : DecodeError → String
  | .pcOutsideCode => "PcOutsideCode"
  | .badOpcode b => s!"BadOpcode {b}"
  | .truncated => "TruncatedOperands"
  | .badConstant k => s!"ClosureConstantOutOfRange {k}"
  | .constKind k => s!"ClosureConstantNotFunction {k}"

def errorText : VerifyError → String
  | .emptyCode => "EmptyCode 0"
  | .unparsableCode => "UnparsableCode 0"
  | .notBoundary pc => s!"NotBoundary {pc}"
  | .decode pc e => s!"Decode {pc} {decodeErrorText e}"
  | .stackUnderflow pc h n => s!"StackUnderflow {pc} height={h} needs={n}"
  | .badConstant pc k => s!"BadConstant {pc} index={k}"
  | .constKind pc k => s!"ConstKind {pc} index={k}"
  | .badLocal pc s h => s!"BadLocal {pc} slot={s} height={h}"
  | .badUpvalue pc k n => s!"BadUpvalue {pc} index={k} count={n}"
  | .badCapture pc => s!"BadCapture {pc}"
  | .jumpOutOfRange pc t => s!"JumpOutOfRange {pc} target={t}"
  | .heightMismatch pc h1 h2 => s!"HeightMismatch {pc} {h1} {h2}"
  | .handlerMismatch pc d1 d2 => s!"HandlerMismatch {pc} depth={d1} depth={d2}"
  | .popWithoutHandler pc => s!"PopWithoutHandler {pc}"
  | .jumpFinallyWithoutHandler pc => s!"JumpFinallyWithoutHandler {pc}"
  | .handlerAboveOperands pc i h => s!"HandlerAboveOperands {pc} init={i} height={h}"
  | .handlerLeakAtReturn pc d => s!"HandlerLeakAtReturn {pc} depth={d}"
  | .pendingReturnLeak pc => s!"PendingReturnLeak {pc}"
  | .outOfFuel => "OutOfFuel 0"
  | .checkFailed pc => s!"CheckFailed {pc}"

def annotText (σ : Annot) : String :=
  let items := (List.range σ.size).filterMap fun pc =>
    match σ.at pc with
    | some a => some s!"{pc}:{a.height}:{a.handlers.length}"
    | none => none
  ",".intercalate items

def answer (line : String) : String :=
  match parseRequest line with
  | .error e => s!"error {e}"
  | .ok fn =>
    match verify fn with
    | .ok σ => s!"ok {annotText σ}"
    | .error e => s!"reject {errorText e}"

def run (_args : List String) : IO Unit := do
  let stdin ← IO.getStdin
  Yarel.lineLoop stdin () fun _ line => ((), answer line)

end Yarel.Drv.Verify
