/-
Line-protocol driver validating upvalue event traces recorded from the real VM against the open-list part of the
model (Yarel/Model/Upvalues.lean: `captureList`, `closeList`, the same functions the full model uses; here the
cell component of a node is the opaque cell name from the trace).

  reset                                        -> ok                     forget all fibers
  newfiber <fiber>                             -> ok                     forget that fiber's open list (a fiber
                                                                         object was created at this token/address)
  cap <fiber> <slot> <cellname> <new:0|1>      -> ok | mismatch expected new | mismatch expected reuse <cellname>
        the VM captured stack slot <slot> on <fiber> and returned cell <cellname>, creating it iff new=1.
        The model runs `captureList` on that fiber's list (an unknown fiber has the empty list).
        ok iff it predicts the same isNew and, for reuse, the same cell.
  close <fiber> <from> <name,name,...|->       -> ok | mismatch expected <name,name,...|->
        the VM ran close_upvalues(from) on <fiber> and closed exactly these cells in this order.
        The model runs `closeList`.
  anything else (wrong arity, non-numeric slot/from, new not 0/1, a name that is empty, "-" or contains ',')
                                               -> bad-op
On `mismatch`/`bad-op` the state is left unchanged.
-/
import Yarel.Model.Basic
import Yarel.Model.Upvalues

namespace Yarel.Drv.Upv

open Yarel.Upv

/-- per fiber token: its open list, nodes = (cell name, slot), head first. Fibers with an empty list are not stored. -/
structure St where
  fibers : List (String × List (String × Nat)) := []

def St.get (st : St) (f : String) : List (String × Nat) :=
  match st.fibers.find? (fun p => p.1 == f) with
  | some p => p.2
  | none => []

def St.set (st : St) (f : String) (l : List (String × Nat)) : St :=
  let rest := st.fibers.filter (fun p => p.1 != f)
  if l.isEmpty then ⟨rest⟩ else ⟨(f, l) :: rest⟩

def validName (n : String) : Bool :=
  !n.isEmpty && n != "-" && !n.toList.contains ','

def namesField (l : List (String × Nat)) : String :=
  if l.isEmpty then "-" else String.intercalate "," (l.map (·.1))

def step (st : St) (line : String) : St × String :=
  match line.splitOn " " with
  | ["reset"] => ({}, "ok")
  | ["newfiber", f] => if f.isEmpty then (st, "bad-op") else (st.set f [], "ok")
  | ["cap", f, slotS, cname, newS] =>
    if f.isEmpty || !validName cname then (st, "bad-op") else
    match slotS.toNat?, newS with
    | some slot, "1" =>
      let r := captureList cname slot (st.get f)
      if r.1.2 then (st.set f r.2, "ok")
      else (st, "mismatch expected reuse " ++ r.1.1)
    | some slot, "0" =>
      let r := captureList cname slot (st.get f)
      if r.1.2 then (st, "mismatch expected new")
      else if r.1.1 == cname then (st, "ok")
      else (st, "mismatch expected reuse " ++ r.1.1)
    | _, _ => (st, "bad-op")
  | ["close", f, fromS, names] =>
    if f.isEmpty || names.isEmpty then (st, "bad-op") else
    match fromS.toNat? with
    | some idx =>
      let r := closeList idx (st.get f)
      let predicted := namesField r.1
      if predicted == names then (st.set f r.2, "ok")
      else (st, "mismatch expected " ++ predicted)
    | none => (st, "bad-op")
  | _ => (st, "bad-op")

def run (_args : List String) : IO Unit := do
  let stdin ← IO.getStdin
  lineLoop stdin ({} : St) step

end Yarel.Drv.Upv
