/-
Line-protocol driver for the intern-table model (Yarel/Model/Intern.lean).

  reset                               -> ok
  intern <hash:16 hex> <text hex|->   -> <id> hit | <id> miss      (internWith with the given hash)
  fnv <text hex|->                    -> 16 hex digits              (the real hash of the text)
  dump                                -> cap=<n> size=<n> slots=<i>:<id>,<i>:<id>,...   (slots=- if none)
  anything else                       -> bad-op
(`fault-spin` / `fault-oob` would be printed if the model faulted; proven impossible.)
-/
import Yarel.Model.Basic
import Yarel.Model.Intern

namespace Yarel.Drv.Intern

open Yarel.Intern

def dumpSlots (es : Array (Option Entry)) : String :=
  let occ := (List.range es.size).filterMap fun i =>
    match es[i]? with
    | some (some e) => some (toString i ++ ":" ++ toString e.id)
    | _ => none
  if occ.isEmpty then "-" else String.intercalate "," occ

def step (st : State) (line : String) : State × String :=
  match line.splitOn " " with
  | ["reset"] => (State.init, "ok")
  | ["dump"] =>
    (st, "cap=" ++ toString st.1.entries.size ++ " size=" ++ toString st.1.size ++
      " slots=" ++ dumpSlots st.1.entries)
  | ["fnv", t] =>
    match bytesOfHex t with
    | some bs => (st, hex16 (fnv bs).toNat)
    | none => (st, "bad-op")
  | ["intern", h, t] =>
    if h.length != 16 then (st, "bad-op") else
    match natOfHex h, bytesOfHex t with
    | some hv, some bs =>
      match internWith (UInt64.ofNat hv) st bs with
      | .ok (st', id) => (st', toString id ++ (if st'.2 == st.2 then " hit" else " miss"))
      | .error .spin => (st, "fault-spin")
      | .error .oob => (st, "fault-oob")
    | _, _ => (st, "bad-op")
  | _ => (st, "bad-op")

def run (_args : List String) : IO Unit := do
  let stdin ← IO.getStdin
  lineLoop stdin State.init step

end Yarel.Drv.Intern
