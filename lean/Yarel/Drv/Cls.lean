/-
Line-protocol driver for spot-checking Yarel/Model/ClassTable.lean (class tables after a sequence of class statements).

One request per line, one answer line per request:

  hier <class>;<class>;... | <query>;<query>;...

  <class>  = <name>:<super>:<methods>:<statics>
             <super>   = a class/variable name or `-` (no `#[derive(..)]`)
             <methods> = comma-separated method names or `-`   (ordinary `fn m(self)`)
             <statics> = comma-separated method names or `-`   (`#[static] fn m()`)
             The classes are defined in the order given, each by ONE class statement whose body defines the ordinary
             methods first and then the static ones (so a name in both lists ends up static). A name may be reused
             (the later class statement rebinds the variable, earlier class objects are unaffected). The variables
             `Object` and `Type` are predefined. A statement whose superclass is undefined or not a class fails and
             leaves the variable `nil` (as the VM does); the run continues.
  <query>  = <class>.<name>    lookup of <name> for an INSTANCE of <class> (the class's method table: what
                               `GetProperty`/`Invoke` on a field-less instance select)
           | <class>::<name>   lookup of <name> THROUGH THE CLASS VALUE (the table of the class's metaclass)
  answer per query (comma-separated, in order):
           <definingClass>          body defined by that class as an ordinary method (`Object` for the native `derives`)
           static:<definingClass>   body defined by that class as a static method
           none                     AttributeError: Undefined property
           noclass                  <class> is not a variable holding a class
  Example:  hier A:-:m1,m2:-;B:A:m2:make;C:B:-:- | C.m1;C.m2;C.make;A.make;B::make;C::make;C::m1;C.derives
         -> A,B,static:B,none,static:B,none,none,Object
  (`C.make`: copy-down inheritance copies static methods into the subclass's table, so an INSTANCE of C reaches B's
  static `make`; `C::make`: metaclass tables are not inherited, so the class value C does not.)

  anything else -> bad-request
-/
import Yarel.Model.Basic
import Yarel.Model.ClassTable

namespace Yarel.Drv.Cls

open Yarel.ClassTable

structure Ctx where
  /-- interned strings: `Name n` ↔ `names[n]` (`derives` is 0) -/
  names : List String
  /-- body id ↦ (defining class, declared static) -/
  bodies : List (String × Bool)
  st : State
  env : Env

def Ctx.init : Ctx :=
  { names := ["derives", "Object", "Type"],
    bodies := [("Object", false)],
    st := State.init,
    env := [(1, .cls objectId), (2, .cls typeId)] }

def internAux (s : String) : List String → Nat → Option Nat
  | [], _ => none
  | x :: xs, i => if x == s then some i else internAux s xs (i + 1)

def Ctx.intern (c : Ctx) (s : String) : Ctx × Name :=
  match internAux s c.names 0 with
  | some i => (c, i)
  | none => ({ c with names := c.names ++ [s] }, c.names.length)

def listField (s : String) : List String :=
  if s == "-" then [] else (s.splitOn ",").filter (fun x => !x.isEmpty)

/-- Add method declarations of one kind, allocating a fresh body id for each. -/
def addDecls (c : Ctx) (cls : String) (kind : DeclKind) : List String → List MethodDecl → Ctx × List MethodDecl
  | [], acc => (c, acc)
  | m :: ms, acc =>
    let (c1, n) := c.intern m
    let body := c1.bodies.length
    let c2 := { c1 with bodies := c1.bodies ++ [(cls, kind != .method)] }
    addDecls c2 cls kind ms (acc ++ [{ name := n, kind := kind, body := body, arity := 0 }])

def defineClass (c : Ctx) (spec : String) : Option Ctx :=
  match spec.splitOn ":" with
  | [name, sup, meths, stats] =>
    if name.isEmpty then none else
    let (c1, nm) := c.intern name
    let (c2, derive) :=
      if sup == "-" then (c1, none)
      else let (c', s) := c1.intern sup; (c', some s)
    let (c3, ds1) := addDecls c2 name .method (listField meths) []
    let (c4, ds2) := addDecls c3 name .static (listField stats) ds1
    let decl : ClassDecl := { name := nm, derive := derive, ctor := none, methods := ds2 }
    let r := exec (c4.st, c4.env) (.classDecl decl)
    some { c4 with st := r.1, env := r.2 }
  | _ => none

def defineAllClasses (c : Ctx) : List String → Option Ctx
  | [] => some c
  | s :: ss =>
    match defineClass c s with
    | some c' => defineAllClasses c' ss
    | none => none

def showMethod (c : Ctx) (m : Option Method) : String :=
  match m with
  | none => "none"
  | some m =>
    match c.bodies[m.body]? with
    | some (cls, true) => "static:" ++ cls
    | some (cls, false) => cls
    | none => "?"

def answer (c : Ctx) (q : String) : Option String :=
  match q.splitOn "::" with
  | [cls, name] =>
    let (c1, cn) := c.intern cls
    let (c2, n) := c1.intern name
    match tget c2.env cn with
    | some (.cls k) =>
      match c2.st.metaMethods k with
      | some t => some (showMethod c2 (tget t n))
      | none => some "noclass"
    | _ => some "noclass"
  | _ =>
    match q.splitOn "." with
    | [cls, name] =>
      let (c1, cn) := c.intern cls
      let (c2, n) := c1.intern name
      match tget c2.env cn with
      | some (.cls k) =>
        match c2.st.classes[k]? with
        | some K => some (showMethod c2 (tget K.methods n))
        | none => some "noclass"
      | _ => some "noclass"
    | _ => none

def answers (c : Ctx) : List String → Option (List String)
  | [] => some []
  | q :: qs =>
    match answer c q, answers c qs with
    | some a, some as => some (a :: as)
    | _, _ => none

def nonEmptyParts (s : String) (sep : String) : List String :=
  ((s.splitOn sep).map (fun x => x.trimAscii.toString)).filter (fun x => !x.isEmpty)

def handle (line : String) : String :=
  if line.startsWith "hier " then
    match (line.drop 5).toString.splitOn "|" with
    | [cs, qs] =>
      match defineAllClasses Ctx.init (nonEmptyParts cs ";") with
      | none => "bad-request"
      | some c =>
        match answers c (nonEmptyParts qs ";") with
        | some as => if as.isEmpty then "-" else ",".intercalate as
        | none => "bad-request"
    | _ => "bad-request"
  else "bad-request"

def run (_args : List String) : IO Unit := do
  let stdin ← IO.getStdin
  Yarel.lineLoop stdin () (fun _ l => ((), handle l))

end Yarel.Drv.Cls
