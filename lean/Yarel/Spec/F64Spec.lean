/-
Specification vocabulary for the rounding theorems (not executable model code).
-/
import Yarel.Model.F64

namespace Yarel.F64

/-- `|a - b|` on naturals. -/
def absDiff (a b : Nat) : Nat := (a - b) + (b - a)

/-- Magnitude of a finite double in units of `2^-1074` (the smallest subnormal): an exact natural number. -/
def unitsOf (b : Bits) : Nat :=
  if expField b = 0 then mantField b else (mantField b + 2 ^ 52) * 2 ^ (expField b - 1)

/-- The natural numbers (in units of `2^-1074`) that are magnitudes of doubles, were the exponent unbounded. -/
def Representable (X : Nat) : Prop :=
  ∃ mx tx, X = mx * 2 ^ tx ∧ mx < 2 ^ 53 ∧ (tx = 0 ∨ 2 ^ 52 ≤ mx)

end Yarel.F64
