/-
Tokens of Yarel (mirror of `TokenKind` / `Token` in yarel/src/scanner.rs).
The constructor ORDER is the order of the Rust enum (it indexes the rule table).
-/
namespace Yarel.Spec

inductive TokenKind
  | leftParen | rightParen | leftBrace | rightBrace | leftBracket | rightBracket
  | comma | dot | dotDot | minus | minusEqual | plus | plusEqual | colon | semiColon
  | slash | slashEqual | star | starEqual | bang | bangEqual | equal | equalEqual
  | greater | greaterEqual | less | lessEqual | amp | ampEqual | bar | barEqual
  | caret | caretEqual | percent | percentEqual | greaterGreater | greaterGreaterEqual
  | lessLess | lessLessEqual | ampAmp | barBar | tilde | hash
  | identifier | str | interpolation | number
  | capSelf | catch_ | class_ | else_ | false_ | finally_ | for_ | fn_ | if_ | import_ | as_ | in_
  | nil_ | return_ | self_ | super_ | break_ | continue_ | throw_ | true_ | try_ | var_ | while_
  | error | eof
  deriving DecidableEq, Repr, Inhabited

/-- Rust `{:?}` name of the kind (used by the SCAN protocol of the real runner). -/
def TokenKind.debugName : TokenKind → String
  | .leftParen => "LeftParen" | .rightParen => "RightParen" | .leftBrace => "LeftBrace"
  | .rightBrace => "RightBrace" | .leftBracket => "LeftBracket" | .rightBracket => "RightBracket"
  | .comma => "Comma" | .dot => "Dot" | .dotDot => "DotDot" | .minus => "Minus"
  | .minusEqual => "MinusEqual" | .plus => "Plus" | .plusEqual => "PlusEqual" | .colon => "Colon"
  | .semiColon => "SemiColon" | .slash => "Slash" | .slashEqual => "SlashEqual" | .star => "Star"
  | .starEqual => "StarEqual" | .bang => "Bang" | .bangEqual => "BangEqual" | .equal => "Equal"
  | .equalEqual => "EqualEqual" | .greater => "Greater" | .greaterEqual => "GreaterEqual"
  | .less => "Less" | .lessEqual => "LessEqual" | .amp => "Amp" | .ampEqual => "AmpEqual"
  | .bar => "Bar" | .barEqual => "BarEqual" | .caret => "Caret" | .caretEqual => "CaretEqual"
  | .percent => "Percent" | .percentEqual => "PercentEqual" | .greaterGreater => "GreaterGreater"
  | .greaterGreaterEqual => "GreaterGreaterEqual" | .lessLess => "LessLess"
  | .lessLessEqual => "LessLessEqual" | .ampAmp => "AmpAmp" | .barBar => "BarBar"
  | .tilde => "Tilde" | .hash => "Hash" | .identifier => "Identifier" | .str => "Str"
  | .interpolation => "Interpolation" | .number => "Number" | .capSelf => "CapSelf"
  | .catch_ => "Catch" | .class_ => "Class" | .else_ => "Else" | .false_ => "False"
  | .finally_ => "Finally" | .for_ => "For" | .fn_ => "Fn" | .if_ => "If" | .import_ => "Import"
  | .as_ => "As" | .in_ => "In" | .nil_ => "Nil" | .return_ => "Return" | .self_ => "Self_"
  | .super_ => "Super" | .break_ => "Break" | .continue_ => "Continue" | .throw_ => "Throw"
  | .true_ => "True" | .try_ => "Try" | .var_ => "Var" | .while_ => "While" | .error => "Error"
  | .eof => "Eof"

/-- Discriminant of the Rust enum (`kind as u8`). -/
def TokenKind.index : TokenKind → Nat
  | .leftParen => 0 | .rightParen => 1 | .leftBrace => 2 | .rightBrace => 3 | .leftBracket => 4
  | .rightBracket => 5 | .comma => 6 | .dot => 7 | .dotDot => 8 | .minus => 9 | .minusEqual => 10
  | .plus => 11 | .plusEqual => 12 | .colon => 13 | .semiColon => 14 | .slash => 15
  | .slashEqual => 16 | .star => 17 | .starEqual => 18 | .bang => 19 | .bangEqual => 20
  | .equal => 21 | .equalEqual => 22 | .greater => 23 | .greaterEqual => 24 | .less => 25
  | .lessEqual => 26 | .amp => 27 | .ampEqual => 28 | .bar => 29 | .barEqual => 30 | .caret => 31
  | .caretEqual => 32 | .percent => 33 | .percentEqual => 34 | .greaterGreater => 35
  | .greaterGreaterEqual => 36 | .lessLess => 37 | .lessLessEqual => 38 | .ampAmp => 39
  | .barBar => 40 | .tilde => 41 | .hash => 42 | .identifier => 43 | .str => 44
  | .interpolation => 45 | .number => 46 | .capSelf => 47 | .catch_ => 48 | .class_ => 49
  | .else_ => 50 | .false_ => 51 | .finally_ => 52 | .for_ => 53 | .fn_ => 54 | .if_ => 55
  | .import_ => 56 | .as_ => 57 | .in_ => 58 | .nil_ => 59 | .return_ => 60 | .self_ => 61
  | .super_ => 62 | .break_ => 63 | .continue_ => 64 | .throw_ => 65 | .true_ => 66 | .try_ => 67
  | .var_ => 68 | .while_ => 69 | .error => 70 | .eof => 71

/-- A token: for `str`/`interpolation` the text is the processed literal, for `error` the message,
otherwise the source slice.  `Token::default()` in Rust is `{Eof, 0, ""}`. -/
structure Token where
  kind : TokenKind := .eof
  line : Nat := 0
  text : String := ""
  deriving DecidableEq, Repr, Inhabited

end Yarel.Spec
