/-
The native methods of the built-in classes, as tables: which method name is bound to which native, per function of
core.rs that builds the class.  `bootstrap` (Interp.lean) installs exactly these tables; `Yarel/Props/SpecTables.lean` proves
them equal to the bindings regenerated from /repo/yarel/src/core.rs (`Yarel.Gen.nativeBindings`).
-/
import Yarel.Spec.Value
namespace Yarel.Spec

/-- The Rust function of core.rs a native stands for (`none`: defined by vm.rs or by the runner, not by a class). -/
def NativeId.rustName : NativeId → Option String
  | .clock | .type_ | .print | .hostRaise | .hostId => none
  | .objectDerives => some "object_derives"
  | .stringFrom => some "string_from" | .stringFromAscii => some "string_from_ascii"
  | .stringFromUtf8 => some "string_from_utf8" | .stringFromCodePoints => some "string_from_code_points"
  | .stringIter => some "string_iter" | .stringLen => some "string_len" | .stringIsAlpha => some "string_is_alpha"
  | .stringIsDigit => some "string_is_digit" | .stringIsHexdigit => some "string_is_hexdigit"
  | .stringCountChars => some "string_count_chars" | .stringCharByteIndex => some "string_char_byte_index"
  | .stringFind => some "string_find" | .stringReplace => some "string_replace" | .stringSplit => some "string_split"
  | .stringStartsWith => some "string_starts_with" | .stringEndsWith => some "string_ends_with"
  | .stringToNum => some "string_to_num" | .stringToBytes => some "string_to_bytes"
  | .stringToCodePoints => some "string_to_code_points" | .stringIterNext => some "string_iter_next"
  | .tupleLen => some "tuple_len" | .tupleIter => some "tuple_iter" | .tupleIterNext => some "tuple_iter_next"
  | .vecPush => some "vec_push" | .vecPop => some "vec_pop" | .vecLen => some "vec_len" | .vecIter => some "vec_iter"
  | .vecIterNext => some "vec_iter_next" | .rangeIter => some "range_iter" | .rangeIterNext => some "range_iter_next"
  | .mapHasKey => some "hash_map_has_key" | .mapGet => some "hash_map_get" | .mapInsert => some "hash_map_insert"
  | .mapRemove => some "hash_map_remove" | .mapClear => some "hash_map_clear" | .mapLen => some "hash_map_len"
  | .mapKeys => some "hash_map_keys" | .mapValues => some "hash_map_values" | .mapItems => some "hash_map_items"
  | .fiberNew => some "fiber_init" | .fiberCall => some "fiber_call" | .fiberYield => some "fiber_yield"
  | .fiberHasFinished => some "fiber_has_finished"

namespace NativeTables

def object : List (String × NativeId) := [("derives", .objectDerives)]
def stringStatics : List (String × NativeId) := [("from", .stringFrom), ("from_ascii", .stringFromAscii),
  ("from_utf8", .stringFromUtf8), ("from_code_points", .stringFromCodePoints)]
def string : List (String × NativeId) := [
  ("iter", .stringIter), ("len", .stringLen), ("is_alpha", .stringIsAlpha),
  ("is_digit", .stringIsDigit), ("is_hexdigit", .stringIsHexdigit),
  ("count_chars", .stringCountChars), ("char_byte_index", .stringCharByteIndex),
  ("find", .stringFind), ("replace", .stringReplace), ("split", .stringSplit),
  ("starts_with", .stringStartsWith), ("ends_with", .stringEndsWith), ("to_num", .stringToNum),
  ("to_bytes", .stringToBytes), ("to_code_points", .stringToCodePoints)]
def stringIter : List (String × NativeId) := [("next", .stringIterNext)]
def tuple : List (String × NativeId) := [("len", .tupleLen), ("iter", .tupleIter)]
def tupleIter : List (String × NativeId) := [("next", .tupleIterNext)]
def vec : List (String × NativeId) := [("push", .vecPush), ("pop", .vecPop), ("len", .vecLen), ("iter", .vecIter)]
def vecIter : List (String × NativeId) := [("next", .vecIterNext)]
def range : List (String × NativeId) := [("iter", .rangeIter)]
def rangeIter : List (String × NativeId) := [("next", .rangeIterNext)]
def hashMap : List (String × NativeId) := [
  ("has_key", .mapHasKey), ("get", .mapGet), ("insert", .mapInsert), ("remove", .mapRemove),
  ("clear", .mapClear), ("len", .mapLen), ("keys", .mapKeys), ("values", .mapValues), ("items", .mapItems)]
def fiberMeta : List (String × NativeId) := [("yield", .fiberYield), ("new", .fiberNew)]
def fiber : List (String × NativeId) := [("call", .fiberCall), ("has_finished", .fiberHasFinished)]

/-- Per class-building function of core.rs, in source order. -/
def all : List (String × List (String × NativeId)) := [
  ("bind_object_class", object),
  ("bind_gc_obj_string_class", stringStatics ++ string),
  ("new_root_obj_string_iter_class", stringIter),
  ("new_root_obj_tuple_class", tuple),
  ("new_root_obj_tuple_iter_class", tupleIter),
  ("new_root_obj_vec_class", vec),
  ("new_root_obj_vec_iter_class", vecIter),
  ("new_root_obj_range_class", range),
  ("new_root_obj_range_iter_class", rangeIter),
  ("new_root_obj_hash_map_class", hashMap),
  ("new_root_obj_fiber_metaclass", fiberMeta),
  ("new_root_obj_fiber_class", fiber)]

end NativeTables
end Yarel.Spec
