/-
The interpreter instance around the machine: bootstrap (`Vm::with_built_ins` + the runner's natives),
`execute` of a compiled script on a fresh root fiber, `reset`, and running a snippet.
-/
import Yarel.Spec.Machine
import Yarel.Spec.CoreSource
import Yarel.Spec.NativeTables

namespace Yarel.Spec
namespace State
open Heap

/-- A class object with natives merged over the inherited method table. -/
def allocNativeClass (st : State) (name : String) (metaclass : Nat) (superclass : Nat)
    (defs : List (String × NativeId)) : Nat × State :=
  let inherited := (st.heap.classData superclass).methods
  let (natives, heap) := nativeDefs st.heap defs
  let data : ClassData :=
    { name := name, metaclass := metaclass, superclass := some superclass,
      methods := assocMerge inherited natives }
  let (r, heap) := heap.alloc (.cls data)
  (r, { st with heap := heap })

/-- `Vm::execute`: a new root fiber running `script` in module "main". -/
def execute (st : State) (script : FnDecl) : State :=
  let (m, st) := st.getModule "main"
  let (c, heap) := st.heap.alloc (.closure script #[] m)
  let (f, heap) := heap.alloc (.fiber { closure := c, status := .running })
  let (c0, heap) := heap.newCell (.obj c)
  { st with heap := heap, fiber := f, ctl := .exec script.body, env := #[c0],
            fn := { name := script.name, kind := script.kind, module := m, upvals := #[] },
            kont := [.fiberBase], depth := 1, errLine := none, outcome := none }

def bootstrapFuel : Nat := 100000

/-- `Vm::with_built_ins()` followed by what the runner's `new_vm()` adds. -/
def bootstrap (sources : List (String × String) := []) (tbl : List Rule := rules) : State :=
  let st : State := { sources := sources, tbl := tbl }
  -- Object, Type (its own metaclass), StringClass, String
  let objectRef := st.heap.objs.size + 1        -- after the `derives` native
  let (objNatives, heap) := nativeDefs st.heap NativeTables.object
  let typeRef := objectRef + 1
  let objectData : ClassData :=
    { name := "Object", metaclass := typeRef, superclass := none, methods := objNatives }
  let (_, heap) := heap.alloc (.cls objectData)
  let typeData : ClassData :=
    { name := "Type", metaclass := typeRef, superclass := some objectRef, methods := objNatives }
  let (_, heap) := heap.alloc (.cls typeData)
  let (statics, heap) := nativeDefs heap NativeTables.stringStatics
  -- the String metaclass gets exactly the static natives (the inherited table is overwritten)
  let stringMetaData : ClassData :=
    { name := "StringClass", metaclass := typeRef, superclass := some objectRef, methods := statics }
  let (stringMeta, heap) := heap.alloc (.cls stringMetaData)
  let core0 : CoreRefs := { object := objectRef, typeC := typeRef, stringMeta := stringMeta }
  let st := { st with heap := { heap with core := core0 } }
  let (stringRef, st) := st.allocNativeClass "String" stringMeta objectRef NativeTables.string
  let st := { st with heap := { st.heap with core := { st.heap.core with string := stringRef } } }
  -- core.yl runs in module "main" before any built-in global exists
  let st :=
    match compileWith tbl coreSource "main" with
    | .ok script => run bootstrapFuel (st.execute script)
    | .error _ => st
  let (mainRef, st) := st.getModule "main"
  let global (name : String) : Nat :=
    match assocGet (st.moduleAttrs mainRef) name with
    | some (.obj r) => r
    | _ => 0
  let iterRef := global "Iter"
  let core := { st.heap.core with
    iter := iterRef, mapIter := global "MapIter", filterIter := global "FilterIter",
    error := global "Error", stopIter := global "StopIter", runtimeError := global "RuntimeError",
    attributeError := global "AttributeError", indexError := global "IndexError",
    importError := global "ImportError", nameError := global "NameError",
    typeError := global "TypeError", valueError := global "ValueError" }
  let st := { st with heap := { st.heap with core := core } }
  -- value classes
  let (nilC, st) := st.allocNativeClass "Nil" typeRef objectRef []
  let (boolean, st) := st.allocNativeClass "Boolean" typeRef objectRef []
  let (num, st) := st.allocNativeClass "Num" typeRef objectRef []
  let (closure, st) := st.allocNativeClass "Func" typeRef objectRef []
  let (native, st) := st.allocNativeClass "BuiltIn" typeRef objectRef []
  let (closureMethod, st) := st.allocNativeClass "Method" typeRef objectRef []
  let (nativeMethod, st) := st.allocNativeClass "BuiltInMethod" typeRef objectRef []
  -- native object classes
  let (tuple, st) := st.allocNativeClass "Tuple" typeRef objectRef NativeTables.tuple
  let (tupleIter, st) := st.allocNativeClass "TupleIter" typeRef iterRef NativeTables.tupleIter
  let (vec, st) := st.allocNativeClass "Vec" typeRef objectRef NativeTables.vec
  let (vecIter, st) := st.allocNativeClass "VecIter" typeRef iterRef NativeTables.vecIter
  let (range, st) := st.allocNativeClass "Range" typeRef objectRef NativeTables.range
  let (rangeIter, st) := st.allocNativeClass "RangeIter" typeRef iterRef NativeTables.rangeIter
  let (hashMap, st) := st.allocNativeClass "HashMap" typeRef objectRef NativeTables.hashMap
  let (moduleC, st) := st.allocNativeClass "Module" typeRef objectRef []
  let (stringIter, st) := st.allocNativeClass "StringIter" typeRef iterRef NativeTables.stringIter
  let (fiberMeta, st) := st.allocNativeClass "FiberClass" typeRef objectRef NativeTables.fiberMeta
  let (fiber, st) := st.allocNativeClass "Fiber" fiberMeta objectRef NativeTables.fiber
  let core := { st.heap.core with
    nilC := nilC, boolean := boolean, num := num, closure := closure, native := native,
    closureMethod := closureMethod, nativeMethod := nativeMethod, tuple := tuple,
    tupleIter := tupleIter, vec := vec, vecIter := vecIter, range := range, rangeIter := rangeIter,
    hashMap := hashMap, module := moduleC, stringIter := stringIter, fiberMeta := fiberMeta,
    fiber := fiber }
  let st := { st with heap := { st.heap with core := core } }
  let st := st.initBuiltInGlobals mainRef
  -- the runner: `set_printer` (re-defines print), host_raise, host_id
  let (hostNatives, heap) := nativeDefs st.heap
    [("print", .print), ("host_raise", .hostRaise), ("host_id", .hostId)]
  let st := { st with heap := heap }
  let st := match st.heap.get mainRef with
    | .module path imported attrs =>
      { st with heap := st.heap.set mainRef (.module path imported (assocMerge attrs hostNatives)) }
    | _ => st
  { st with outcome := none, printed := #[], heap := { st.heap with unordered := false } }

/-- `Vm::reset()`: forget every module but "main", clear main's globals and re-seed the built-ins
(`init_built_in_globals` re-defines the classes of core.yl too; the host natives of the runner are NOT re-defined). -/
def reset (st : State) : State :=
  let (mainRef, st) := st.getModule "main"
  let st := { st with modules := st.modules.filter fun (p, _) => p == "main" }
  let st := match st.heap.get mainRef with
    | .module path imported _ => { st with heap := st.heap.set mainRef (.module path imported []) }
    | _ => st
  st.initBuiltInGlobals mainRef

inductive SnippetResult
  | ok
  | error (kind : ErrorKind) (messages : List String)
  | timeout
  | fault (msg : String)
  deriving Repr, Inhabited

/-- Compile and run one snippet on this interpreter (globals persist, like a REPL line). -/
def runSnippet (st : State) (source : String) (fuel : Nat) (compileOnly : Bool := false) :
    SnippetResult × State :=
  let st := { st with printed := #[], outcome := none, heap := { st.heap with unordered := false } }
  match compileWith st.tbl source "main" with
  | .error msgs => (.error .compileError msgs, st)
  | .ok script =>
    if compileOnly then (.ok, st)
    else
      let st := run fuel (st.execute script)
      match st.outcome with
      | some .ok => (.ok, st)
      | some (.error k msgs) => (.error k msgs, st)
      | some .timeout => (.timeout, st)
      | some (.fault m) => (.fault m, st)
      | none => (.timeout, st.halt .timeout)

end State
end Yarel.Spec
