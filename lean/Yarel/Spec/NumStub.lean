/-
Number support of the reference interpreter: binary64 values are `UInt64` bit patterns (never `Float`).

Every operation IS the separately verified model:
* arithmetic, casts and the integer-valued operators: `Yarel/Model/F64.lean` (exact rational arithmetic, one rounding
  `roundRat`, proved nearest-even in `Yarel/Props/C19.lean`: `roundRat_nearest`, `roundRat_exact`, `roundRat_overflow_iff`,
  `ofInt_exact`), tied to the implementation by the `num` driver correspondence of C05/C19;
* text: `Yarel/Model/NumText.lean` (`parseDec` = Rust's `str::parse::<f64>`, `display` = yarel's `Display` for numbers;
  `print_parse_roundtrip`, `parse_nearest`, `parse_wellFormed`, `integral_no_fraction`, `nonintegral_one_dot`).
So the theorems about numbers hold of what (S) computes, by definition.  (The file keeps its first name; the interim
implementation it held was validated against the implementation and then replaced by these definitions.)

Interface (namespace `Yarel.Spec.Num`): `display parse add sub mul div fmod neg ofInt ofNat`, the casts `toI64 toU32 toU8`
and `bitAnd bitOr bitXor bitNot shl shr`.
-/
import Yarel.Model.F64
import Yarel.Model.NumText

namespace Yarel.Spec.Num
open Yarel.F64

abbrev Bits := UInt64

/-- `i as f64`. -/
def ofInt (i : Int) : Bits := Yarel.F64.ofInt i
def ofNat (n : Nat) : Bits := Yarel.F64.roundRat false n 1

def neg (b : Bits) : Bits := Yarel.F64.neg b
def add (a b : Bits) : Bits := Yarel.F64.add a b
def sub (a b : Bits) : Bits := Yarel.F64.sub a b
def mul (a b : Bits) : Bits := Yarel.F64.mul a b
def div (a b : Bits) : Bits := Yarel.F64.div a b
/-- Rust `%` on `f64` (C `fmod`). -/
def fmod (a b : Bits) : Bits := Yarel.F64.fmod a b

/-- `f as i64` (saturating, NaN ↦ 0). -/
def toI64 (b : Bits) : Int := Yarel.F64.toI64 b
/-- `f as u32` (saturating, NaN ↦ 0). -/
def toU32 (b : Bits) : Nat := Yarel.F64.toU32Sat b
/-- `f as u8` (saturating, NaN ↦ 0). -/
def toU8 (b : Bits) : Nat :=
  if isNaN b then 0
  else if signBit b then 0
  else if isInf b then 255
  else min (truncMag b) 255

def bitAnd (a b : Bits) : Bits := Yarel.F64.band a b
def bitOr (a b : Bits) : Bits := Yarel.F64.bor a b
def bitXor (a b : Bits) : Bits := Yarel.F64.bxor a b
def bitNot (a : Bits) : Bits := Yarel.F64.bnot a
def shl (a b : Bits) : Bits := Yarel.F64.shl a b
def shr (a b : Bits) : Bits := Yarel.F64.shr a b

/-- yarel's `Display` for numbers. -/
def display (b : Bits) : String := Yarel.NumText.display b

/-- `str.parse::<f64>()` (number literals and `String.to_num`); `none` = `Err`. -/
def parse (str : String) : Option Bits := Yarel.NumText.parseDec str.toList

end Yarel.Spec.Num
