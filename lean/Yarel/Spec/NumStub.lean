/-
Interim number support for the spec model: binary64 values are `UInt64` bit patterns (never `Float`).
Everything is exact big-`Nat` rational arithmetic with round-to-nearest-even.

Interface (namespace `Yarel.Spec.Num`), to be replaced later by a separately verified module:
  `display parse add sub mul div fmod neg ofInt` plus the casts `toI64 toU32 toU8` and the
  integer-valued operators built from them (`bitAnd bitOr bitXor bitNot shl shr`).
-/
import Yarel.Model.F64Core

namespace Yarel.Spec.Num
open Yarel.F64

abbrev Bits := UInt64

/-- Nearest-even binary64 of the positive rational `num/den` with the given sign. -/
def roundRat (sign : Bool) (num den : Nat) : Bits :=
  let signBits : UInt64 := if sign then 0x8000000000000000 else 0
  if num == 0 || den == 0 then signBits
  else
    -- choose e with 2^52 ≤ num / (den * 2^e) < 2^53 (then clamp to the subnormal exponent)
    let e0 : Int := (Nat.log2 num : Int) - (Nat.log2 den : Int) - 52
    let scaled (e : Int) : Nat × Nat :=
      if e ≥ 0 then (num, den * 2 ^ e.toNat) else (num * 2 ^ (-e).toNat, den)
    let e1 : Int :=
      let (n, d) := scaled e0
      let q := n / d
      if q < 2 ^ 52 then e0 - 1 else if q ≥ 2 ^ 53 then e0 + 1 else e0
    let e : Int := if e1 < -1074 then -1074 else e1
    let (n, d) := scaled e
    let q := n / d
    let r := n % d
    let q := if 2 * r > d || (2 * r == d && q % 2 == 1) then q + 1 else q
    let (q, e) := if q ≥ 2 ^ 53 then (q / 2, e + 1) else (q, e)
    if q < 2 ^ 52 then signBits ||| UInt64.ofNat q
    else
      let biased : Int := e + 1075
      if biased ≥ 2047 then signBits ||| posInf
      else signBits ||| (UInt64.ofNat biased.toNat <<< 52) ||| UInt64.ofNat (q - 2 ^ 52)

/-- `i as f64`. -/
def ofInt (i : Int) : Bits := roundRat (i < 0) i.natAbs 1

def ofNat (n : Nat) : Bits := roundRat false n 1

/-- Finite value as (sign, numerator, denominator). -/
def toRat (b : Bits) : Bool × Nat × Nat :=
  let (s, m, e) := decode b
  if e ≥ 0 then (s, m * 2 ^ e.toNat, 1) else (s, m, 2 ^ (-e).toNat)

def neg (b : Bits) : Bits := Yarel.F64.neg b

def add (a b : Bits) : Bits :=
  if isNaN a || isNaN b then canonNaN
  else if isInf a then
    (if isInf b && signBit a != signBit b then canonNaN else a)
  else if isInf b then b
  else
    let (sa, ma, ea) := decode a
    let (sb, mb, eb) := decode b
    let e := if ea ≤ eb then ea else eb
    let ia : Int := (if sa then -1 else 1) * ((ma * 2 ^ (ea - e).toNat : Nat) : Int)
    let ib : Int := (if sb then -1 else 1) * ((mb * 2 ^ (eb - e).toNat : Nat) : Int)
    let s := ia + ib
    if s == 0 then (if sa && sb then negZero else posZero)
    else if e ≥ 0 then roundRat (s < 0) (s.natAbs * 2 ^ e.toNat) 1
    else roundRat (s < 0) s.natAbs (2 ^ (-e).toNat)

def sub (a b : Bits) : Bits := add a (neg b)

def mul (a b : Bits) : Bits :=
  if isNaN a || isNaN b then canonNaN
  else
    let sign := signBit a != signBit b
    if isInf a || isInf b then
      (if isZero a || isZero b then canonNaN else if sign then negInf else posInf)
    else
      let (_, na, da) := toRat a
      let (_, nb, db) := toRat b
      roundRat sign (na * nb) (da * db)

def div (a b : Bits) : Bits :=
  if isNaN a || isNaN b then canonNaN
  else
    let sign := signBit a != signBit b
    if isInf a then (if isInf b then canonNaN else if sign then negInf else posInf)
    else if isInf b then (if sign then negZero else posZero)
    else if isZero b then (if isZero a then canonNaN else if sign then negInf else posInf)
    else
      let (_, na, da) := toRat a
      let (_, nb, db) := toRat b
      roundRat sign (na * db) (da * nb)

/-- Rust `a % b` on `f64` (C `fmod`): exact, sign of the dividend. -/
def fmod (a b : Bits) : Bits :=
  if isNaN a || isNaN b || isInf a || isZero b then canonNaN
  else if isInf b then a
  else if isZero a then a
  else
    let (sa, ma, ea) := decode a
    let (_, mb, eb) := decode b
    let e := if ea ≤ eb then ea else eb
    let ia := ma * 2 ^ (ea - e).toNat
    let ib := mb * 2 ^ (eb - e).toNat
    let r := ia % ib
    if r == 0 then (if sa then negZero else posZero)
    else if e ≥ 0 then roundRat sa (r * 2 ^ e.toNat) 1
    else roundRat sa r (2 ^ (-e).toNat)

/-- `f as i64` (saturating, NaN ↦ 0). -/
def toI64 (b : Bits) : Int := toIsize b

/-- `f as u32` (saturating, NaN ↦ 0). -/
def toU32 (b : Bits) : Nat :=
  if isNaN b then 0
  else if signBit b then 0
  else if isInf b then 4294967295
  else
    let t := truncMag b
    if t > 4294967295 then 4294967295 else t

/-- `f as u8` (saturating, NaN ↦ 0). -/
def toU8 (b : Bits) : Nat :=
  if isNaN b then 0
  else if signBit b then 0
  else if isInf b then 255
  else
    let t := truncMag b
    if t > 255 then 255 else t

/-- Two's-complement wrap of an integer into `i64`. -/
def wrapI64 (i : Int) : Int :=
  let m : Int := i % 18446744073709551616
  if m ≥ 9223372036854775808 then m - 18446744073709551616 else m

def i64ToU64 (i : Int) : Nat := (i % 18446744073709551616).toNat

def u64ToI64 (n : Nat) : Int :=
  if n ≥ 9223372036854775808 then (n : Int) - 18446744073709551616 else (n : Int)

def bitAnd (a b : Bits) : Bits := ofInt (u64ToI64 (i64ToU64 (toI64 a) &&& i64ToU64 (toI64 b)))
def bitOr (a b : Bits) : Bits := ofInt (u64ToI64 (i64ToU64 (toI64 a) ||| i64ToU64 (toI64 b)))
def bitXor (a b : Bits) : Bits := ofInt (u64ToI64 (i64ToU64 (toI64 a) ^^^ i64ToU64 (toI64 b)))
def bitNot (a : Bits) : Bits := ofInt (-(toI64 a) - 1)

/-- `(a as i64).checked_shl(b as u32).unwrap_or_default() as f64`. -/
def shl (a b : Bits) : Bits :=
  let sh := toU32 b
  if sh ≥ 64 then posZero else ofInt (wrapI64 (toI64 a * (2 ^ sh : Nat)))

/-- `(a as i64).checked_shr(b as u32).unwrap_or_default() as f64` (arithmetic shift). -/
def shr (a b : Bits) : Bits :=
  let sh := toU32 b
  if sh ≥ 64 then posZero else ofInt (toI64 a / (2 ^ sh : Nat))   -- Int `/` floors for positive divisors

/-! ### Shortest round-trip digits (Burger–Dybvig free-format algorithm) -/

structure DigitState where
  r : Nat
  s : Nat
  mp : Nat
  mm : Nat
  k : Int

def tooLow (even : Bool) (r mp s : Nat) : Bool := if even then r + mp ≥ s else r + mp > s

def scaleUp (even : Bool) : Nat → DigitState → DigitState
  | 0, st => st
  | n + 1, st =>
    if tooLow even st.r st.mp st.s then scaleUp even n { st with s := st.s * 10, k := st.k + 1 } else st

def scaleDown (even : Bool) : Nat → DigitState → DigitState
  | 0, st => st
  | n + 1, st =>
    if !tooLow even (st.r * 10) (st.mp * 10) st.s then
      scaleDown even n { st with r := st.r * 10, mp := st.mp * 10, mm := st.mm * 10, k := st.k - 1 }
    else st

def genDigits (even : Bool) : Nat → Nat → Nat → Nat → Nat → List Nat → List Nat
  | 0, _, _, _, _, acc => acc.reverse
  | n + 1, r, s, mp, mm, acc =>
    let r10 := r * 10
    let d := r10 / s
    let r := r10 % s
    let mp := mp * 10
    let mm := mm * 10
    let tc1 := if even then r ≤ mm else r < mm
    let tc2 := if even then r + mp ≥ s else r + mp > s
    if !tc1 && !tc2 then genDigits even n r s mp mm (d :: acc)
    else if tc1 && !tc2 then (d :: acc).reverse
    else if !tc1 && tc2 then ((d + 1) :: acc).reverse
    else if r * 2 < s then (d :: acc).reverse
    else ((d + 1) :: acc).reverse

/-- Shortest digits `d₁…dₙ` and exponent `k` with value = `0.d₁…dₙ × 10^k` (finite, non-zero input). -/
def shortestDigits (b : Bits) : List Nat × Int :=
  let (_, f, e) := decode b
  let even := f % 2 == 0
  let boundary := f == 2 ^ 52 && expField b > 1
  let st : DigitState :=
    if e ≥ 0 then
      let be := 2 ^ e.toNat
      if !boundary then { r := f * be * 2, s := 2, mp := be, mm := be, k := 0 }
      else { r := f * be * 4, s := 4, mp := be * 2, mm := be, k := 0 }
    else
      if !boundary then { r := f * 2, s := 2 ^ ((-e).toNat + 1), mp := 1, mm := 1, k := 0 }
      else { r := f * 4, s := 2 ^ ((-e).toNat + 2), mp := 2, mm := 1, k := 0 }
  let st := scaleUp even 400 st
  let st := scaleDown even 400 st
  (genDigits even 30 st.r st.s st.mp st.mm [], st.k)

def digitChar (d : Nat) : Char := Char.ofNat (48 + d)

/-- Rust `format!("{}", f)` for `f64`, except that negative zero is printed as `-0` (which both
yarel's `Value` display and current Rust do). -/
def display (b : Bits) : String :=
  if isNaN b then "NaN"
  else if isInf b then (if signBit b then "-inf" else "inf")
  else if isZero b then (if signBit b then "-0" else "0")
  else
    let (ds, k) := shortestDigits b
    let n := ds.length
    let chars := ds.map digitChar
    let body : List Char :=
      if k ≤ 0 then '0' :: '.' :: (List.replicate (-k).toNat '0' ++ chars)
      else if k.toNat < n then chars.take k.toNat ++ '.' :: chars.drop k.toNat
      else chars ++ List.replicate (k.toNat - n) '0'
    String.ofList (if signBit b then '-' :: body else body)

/-! ### Rust `f64::from_str` -/

def lowerAscii (c : Char) : Char := if 'A' ≤ c && c ≤ 'Z' then Char.ofNat (c.toNat + 32) else c

def takeDigits : List Char → List Char → List Char × List Char
  | c :: cs, acc => if '0' ≤ c && c ≤ '9' then takeDigits cs (c :: acc) else (acc.reverse, c :: cs)
  | [], acc => (acc.reverse, [])

def digitsToNat (ds : List Char) : Nat := ds.foldl (fun acc c => acc * 10 + (c.toNat - 48)) 0

def dropLeadingZeros : List Char → List Char
  | '0' :: cs => dropLeadingZeros cs
  | cs => cs

def parse (str : String) : Option Bits :=
  let cs := str.toList
  let (sign, cs) :=
    match cs with
    | '-' :: rest => (true, rest)
    | '+' :: rest => (false, rest)
    | _ => (false, cs)
  let signBits : UInt64 := if sign then 0x8000000000000000 else 0
  if cs.isEmpty then none
  else
    let low := String.ofList (cs.map lowerAscii)
    if low == "inf" || low == "infinity" then some (signBits ||| posInf)
    else if low == "nan" then some (signBits ||| canonNaN)
    else
      let (intDs, rest) := takeDigits cs []
      let (fracDs, rest) :=
        match rest with
        | '.' :: r => takeDigits r []
        | _ => ([], rest)
      if intDs.isEmpty && fracDs.isEmpty then none
      else
        let expPart : Option Int :=
          match rest with
          | [] => some 0
          | c :: r =>
            if c == 'e' || c == 'E' then
              let (esign, r) :=
                match r with
                | '-' :: r' => (true, r')
                | '+' :: r' => (false, r')
                | _ => (false, r)
              let (eds, r) := takeDigits r []
              if eds.isEmpty || !r.isEmpty then none
              else
                -- saturate absurd exponents (the result is 0 or inf anyway)
                let eds := dropLeadingZeros eds
                let mag : Nat := if eds.length > 8 then 100000000 else digitsToNat eds
                some (if esign then -(mag : Int) else (mag : Int))
            else none
        match expPart with
        | none => none
        | some ex =>
          let mantDs := dropLeadingZeros (intDs ++ fracDs)
          if mantDs.isEmpty then some signBits
          else
            let exp10 : Int := ex - (fracDs.length : Int)
            let magnitude : Int := (mantDs.length : Int) + exp10
            if magnitude > 400 then some (signBits ||| posInf)
            else if magnitude < -400 then some signBits
            else
              let mant := digitsToNat mantDs
              if exp10 ≥ 0 then some (roundRat sign (mant * 10 ^ exp10.toNat) 1)
              else some (roundRat sign mant (10 ^ (-exp10).toNat))

end Yarel.Spec.Num
