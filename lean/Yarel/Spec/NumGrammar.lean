/-
The grammar accepted by Rust's `f64::from_str`, as a decidable predicate written independently of the parser:

  number  ::= [ '+' | '-' ] ( special | mantissa [ ('e' | 'E') [ '+' | '-' ] digit+ ] )
  special ::= "inf" | "infinity" | "nan"            (ASCII case-insensitive)
  mantissa::= digit* [ '.' digit* ]                 with at least one digit in total

No whitespace, no underscores; the empty string is rejected.
-/
import Yarel.Model.NumText

namespace Yarel.NumText

def isSign (c : Char) : Bool := c == '+' || c == '-'
def isExpMark (c : Char) : Bool := c == 'e' || c == 'E'

/-- Drop one optional leading sign. -/
def stripSign : List Char → List Char
  | [] => []
  | c :: r => if isSign c then r else c :: r

/-- Only digits and at most one '.', and at least one digit. -/
def wfMantissa (m : List Char) : Bool :=
  m.all (fun c => isDigit c || c == '.') && decide (m.count '.' ≤ 1) && m.any isDigit

/-- What follows the exponent marker: optional sign, then one or more digits, nothing else. -/
def wfExponent (x : List Char) : Bool :=
  !(stripSign x).isEmpty && (stripSign x).all isDigit

/-- Split at the first `e`/`E`: mantissa before it; if there is a marker, an exponent after it. -/
def wfNumber (r : List Char) : Bool :=
  wfMantissa (r.takeWhile fun c => !isExpMark c) &&
    match r.dropWhile fun c => !isExpMark c with
    | [] => true
    | _ :: x => wfExponent x

def wfSpecial (r : List Char) : Bool :=
  lower r == ['i', 'n', 'f'] || lower r == ['i', 'n', 'f', 'i', 'n', 'i', 't', 'y'] || lower r == ['n', 'a', 'n']

/-- `s` is in the grammar of `f64::from_str`. -/
def wellFormed (s : List Char) : Bool :=
  wfSpecial (stripSign s) || wfNumber (stripSign s)

end Yarel.NumText
