/-
Abstract syntax of Yarel as produced by the spec parser.  Variables are already resolved the way the
real single-pass compiler resolves them (local slot | captured variable | global-by-name), and every
node whose execution can fail carries the line number the real compiler attaches to the
corresponding instruction (the line of the token that was `previous` when the byte was emitted).
-/
namespace Yarel.Spec

/-- Resolved variable reference.  `local i` is the i-th local of the running function (slot 0 is the
receiver / the callee itself), `upvalue i` the i-th captured variable of the running closure,
`global n` is looked up by name in the module of the running closure at run time. -/
inductive VarRef
  | local (slot : Nat)
  | upvalue (idx : Nat)
  | global (name : String)
  deriving DecidableEq, Repr, Inhabited

inductive BinOp
  | add | sub | mul | div | mod | bitAnd | bitOr | bitXor | shl | shr
  | eq | ne | lt | le | gt | ge
  deriving DecidableEq, Repr, Inhabited

inductive UnOp
  | neg | not | bitNot
  deriving DecidableEq, Repr, Inhabited

inductive FnKind
  | function | initialiser | method | script | staticMethod
  deriving DecidableEq, Repr, Inhabited

/-- One captured variable of a closure: `(isLocal, index)` exactly as in the `Closure` instruction:
`isLocal` = a local slot of the function creating the closure, otherwise one of its own upvalues. -/
abbrev Capture := Bool × Nat

mutual

inductive Expr
  | nil
  | bool (b : Bool)
  | num (bits : UInt64)
  | str (s : String)
  /-- `"a${x}b"`: parts are `str` literals and `format e` nodes; concatenated by `BuildString`. -/
  | interp (parts : List Expr)
  /-- `FormatString`: the display text of a value (strings unchanged). -/
  | format (e : Expr)
  | var (ref : VarRef) (line : Nat)
  | assign (ref : VarRef) (rhs : Expr) (line : Nat)
  /-- `a op= rhs`: reads `a`, then evaluates `rhs`, applies `op`, stores. -/
  | compoundAssign (ref : VarRef) (op : BinOp) (rhs : Expr) (getLine opLine : Nat)
  | getProp (obj : Expr) (name : String) (line : Nat)
  | setProp (obj : Expr) (name : String) (rhs : Expr) (line : Nat)
  | compoundSetProp (obj : Expr) (name : String) (op : BinOp) (rhs : Expr) (getLine opLine : Nat)
  | invoke (obj : Expr) (name : String) (args : List Expr) (line : Nat)
  | call (callee : Expr) (args : List Expr) (line : Nat)
  /-- `super.name`: `recv` is slot 0 of the method (`self`/`Self`), `sup` the hidden `super` variable. -/
  | superGet (name : String) (recv sup : VarRef) (line : Nat)
  | superInvoke (name : String) (recv : VarRef) (args : List Expr) (sup : VarRef) (line : Nat)
  /-- `GetClass` (used for `Self`). -/
  | getClass (e : Expr)
  | unary (op : UnOp) (e : Expr) (line : Nat)
  | binary (op : BinOp) (l r : Expr) (line : Nat)
  | and (l r : Expr)
  | or (l r : Expr)
  | range (l r : Expr) (line : Nat)
  | tuple (elems : List Expr)
  | vec (elems : List Expr)
  /-- `{k1: v1, k2: v2}` as the flat list `[k1, v1, k2, v2]`. -/
  | map (kvs : List Expr) (line : Nat)
  | index (obj idx : Expr) (line : Nat)
  | setIndex (obj idx rhs : Expr) (line : Nat)
  | closure (fn : FnDecl) (captures : List Capture)

inductive Stmt
  | expr (e : Expr)
  | varGlobal (name : String) (init : Expr)
  /-- declares a new local (a fresh variable cell appended to the environment). -/
  | varLocal (init : Expr)
  | fnGlobal (name : String) (fn : FnDecl) (captures : List Capture)
  /-- the local is declared first (so the function can capture itself), then assigned. -/
  | fnLocal (fn : FnDecl) (captures : List Capture)
  | classDecl (c : ClassDecl)
  | block (body : List Stmt)
  /-- `els` is empty, a single `ifElse` (`else if`) or a single `block`. -/
  | ifElse (cond : Expr) (thn : List Stmt) (els : List Stmt)
  | while (cond : Expr) (body : List Stmt)
  /-- `for v in iterable { body }`: two hidden locals (loop variable, iterator), body in its own scope.
  `line` is the line of the `iter`/`next` invocations. -/
  | for (iterable : Expr) (line : Nat) (body : List Stmt)
  | ret (value : Option Expr)
  | brk
  | cont
  | throw (e : Expr) (line : Nat)
  /-- `catch` declares one local (the exception) in the scope of the catch body.
  `endLine` is the line of the `}` closing the `finally` block. -/
  | try (body : List Stmt) (hasCatch : Bool) (catchBody : List Stmt) (hasFinally : Bool)
      (finallyBody : List Stmt) (endLine : Nat)
  /-- `import "path" [as name]`; `globalName = none` declares a local. -/
  | import (path : String) (globalName : Option String) (line : Nat)

inductive FnDecl
  | mk (name : String) (arity : Nat) (kind : FnKind) (body : List Stmt)

inductive MethodDecl
  | mk (name : String) (isStatic : Bool) (fn : FnDecl) (captures : List Capture)

inductive ClassDecl
  | mk (name : String)
      -- `some n`: defined as global `n`; `none`: a new local.
      (globalName : Option String)
      -- `#[derive(S)]`: how to read `S`, line of that read, line of the `Inherit` check.
      (hasSuper : Bool) (superRef : VarRef) (superGetLine superLine : Nat)
      -- where the finished class is stored (`SetLocal`/`SetUpvalue`/`SetGlobal`).
      (setRef : VarRef)
      -- `#[constructor(name)]` on the class: a parameterless initialiser called `name`.
      (ctorName : Option String)
      (methods : List MethodDecl)

end

instance : Inhabited Expr := ⟨.nil⟩
instance : Inhabited FnDecl := ⟨.mk "" 0 .function []⟩

def FnDecl.name : FnDecl → String | .mk n _ _ _ => n
def FnDecl.arity : FnDecl → Nat | .mk _ a _ _ => a
def FnDecl.kind : FnDecl → FnKind | .mk _ _ k _ => k
def FnDecl.body : FnDecl → List Stmt | .mk _ _ _ b => b

end Yarel.Spec
