/-
The evaluator of the spec model: a small-step abstract machine (CEK style).

  control      `Control`   what is being evaluated / executed / returned / unwound
  environment  `env`       the variable cells of the running function (slot 0 = receiver or callee)
  continuation `kont`      explicit frame stack of the CURRENT FIBER; suspended fibers keep theirs in
                           their heap object

`step : State → State` is total; `run` iterates it with fuel.  Exceptions, `return`, `break` and
`continue` are all "abrupt completions" (`Reason`) that pop frames one at a time; `try` frames
intercept them, which gives the intended semantics of `finally` (runs exactly once on every way out
of the statement) uniformly.  Fibers switch by swapping the register set.
-/
import Yarel.Spec.Builtins
import Yarel.Spec.Parser

namespace Yarel.Spec

inductive Outcome
  | ok
  | error (kind : ErrorKind) (messages : List String)
  /-- fuel ran out inside a primitive (`==` / display on cyclic data) -/
  | timeout
  /-- the machine reached a configuration that well-formed programs cannot reach -/
  | fault (msg : String)
  deriving Repr, Inhabited

structure State where
  heap : Heap := {}
  /-- the running fiber (heap reference) -/
  fiber : Nat := 0
  ctl : Control := .next
  env : Array Nat := #[]
  fn : FnInfo := default
  kont : List Frame := []
  /-- number of active calls of the running fiber (`frames.len()`) -/
  depth : Nat := 0
  /-- (depth, line) of the last `throw` statement of the running fiber (`error_ip`) -/
  errLine : Option (Nat × Nat) := none
  /-- loaded / loading modules by path -/
  modules : List (String × Nat) := []
  /-- the module loader: path ↦ source -/
  sources : List (String × String) := []
  printed : Array String := #[]
  outcome : Option Outcome := none
  /-- rule table used to compile imported modules -/
  tbl : List Rule := rules
  deriving Inhabited

def framesMax : Nat := 64

namespace State
open Heap

/-! ### Store access

The store is moved out of the state record while it is updated, so that the compiled code updates the
arrays in place (unique reference) instead of copying them.  `takeHeap` is `@[noinline]` so that the
compiler cannot sink the record update below the store operation. -/

@[noinline] def takeHeap (st : State) : Heap × State := (st.heap, { st with heap := {} })

@[inline] def withHeap (st : State) (f : Heap → α × Heap) : α × State :=
  let (h, st) := st.takeHeap
  let (a, h) := f h
  (a, { st with heap := h })

@[inline] def modHeap (st : State) (f : Heap → Heap) : State :=
  let (h, st) := st.takeHeap
  { st with heap := f h }

def alloc (st : State) (o : Obj) : Nat × State := st.withHeap fun h => h.alloc o
def setObj (st : State) (r : Nat) (o : Obj) : State := st.modHeap fun h => h.set r o
def newCell (st : State) (v : Value) : Nat × State := st.withHeap fun h => h.newCell v
def writeCell (st : State) (c : Nat) (v : Value) : State := st.modHeap fun h => h.writeCell c v

/-! ### Errors and traces -/

/-- Rust `str::lines()` -/
def rustLines (s : String) : List String :=
  let parts := s.splitOn "\n"
  -- a trailing "\n" does not start a new line
  let parts := match parts.reverse with
    | "" :: rest => rest.reverse
    | _ => parts
  -- "\r\n" is a terminator too: strip "\r" of every line that was followed by "\n"
  let n := parts.length
  let endsWithNl := s.endsWith "\n"
  (parts.zipIdx).map fun (l, i) =>
    if (i + 1 < n || endsWithNl) && l.endsWith "\r" then String.ofList l.toList.dropLast else l

def modulePath (st : State) (m : Nat) : String :=
  match st.heap.get m with
  | .module path _ _ => path
  | _ => "?"

def traceLine (st : State) (fn : FnInfo) (line : Nat) : String :=
  "[module \"" ++ st.modulePath fn.module ++ "\", line " ++ toString line ++ "] in " ++
    (if fn.name == "" then "script" else fn.name ++ "()")

/-- One line per active call of the running fiber, innermost first (`runtime_error`). -/
def traceLines (st : State) (topLine : Nat) : List String :=
  let rec go (frames : List Frame) (acc : List String) : List String :=
    match frames with
    | [] => acc.reverse
    | .call _ fn line :: rest => go rest (st.traceLine fn line :: acc)
    | _ :: rest => go rest acc
  st.traceLine st.fn topLine :: go st.kont []

/-- `new_error_from_value`: kind and first messages for an uncaught exception value.
(The real code maps the `RuntimeError` class to kind `CompileError`, defect F20.) -/
def describeUncaught (st : State) (v : Value) : ErrorKind × List String × Heap :=
  let h := st.heap
  let (kind, desc, context) :=
    match v with
    | .obj r =>
      match h.get r with
      | .instance c fields =>
        let core := h.core
        let kind :=
          if c == core.attributeError then ErrorKind.attributeError
          else if c == core.runtimeError then .runtimeError
          else if c == core.importError then .importError
          else if c == core.indexError then .indexError
          else if c == core.nameError then .nameError
          else if c == core.typeError then .typeError
          else if c == core.valueError then .valueError
          else .runtimeError
        (kind, h.className c, (assocGet fields "context").getD v)
      | _ => (ErrorKind.runtimeError, "exception", v)
    | _ => (ErrorKind.runtimeError, "exception", v)
  let (text, h) := h.display context
  (kind, rustLines ("Unhandled " ++ desc ++ ": " ++ text), h)

/-- The run ends: mark the running fiber as finished (`reset_stack`). -/
def halt (st : State) (o : Outcome) : State :=
  let st :=
    match st.heap.get st.fiber with
    | .fiber f => st.setObj st.fiber (.fiber { f with status := .finished, kont := [], env := #[], depth := 0 })
    | _ => st
  { st with outcome := some o, kont := [], env := #[], ctl := .next }

/-- An exception nobody handles: error kind, message, trace. -/
def failUncaught (st : State) (v : Value) (line : Nat) : State :=
  let (kind, msgs, heap) := st.describeUncaught v
  let st := { st with heap := heap }
  let topLine :=
    match st.errLine with
    | some (d, l) => if d == st.depth then l else line
    | none => line
  st.halt (.error kind (msgs ++ st.traceLines topLine))

/-- Is there a `try` statement of the running fiber that will see an exception? -/
def hasHandler (frames : List Frame) : Bool :=
  frames.any fun f =>
    match f with
    | .tryK .. => true
    | .catchK hasFinally .. => hasFinally
    | _ => false

/-- Raise the exception value `v` at `line` of the running function. -/
def throwValue (st : State) (v : Value) (line : Nat) : State :=
  if hasHandler st.kont then { st with ctl := .unwind (.throw v) }
  else st.failUncaught v line

/-- Raise a built-in error (`try_handle_error`). -/
def raise (st : State) (kind : ErrorKind) (msg : String) (line : Nat) : State :=
  let (v, st) := st.withHeap fun h => h.mkError kind msg
  -- like `throw`, a built-in error records where it was raised (repair F36): the report names this line
  -- even after the error has passed through a `finally` of the same call
  { st with errLine := some (st.depth, line) }.throwValue v line

def value (st : State) (v : Value) : State := { st with ctl := .value v }

def ofExcept (st : State) (r : Except (ErrorKind × String) Value) (line : Nat) : State :=
  match r with
  | .ok v => st.value v
  | .error (k, m) => st.raise k m line

/-! ### Variables -/

def cellOf (st : State) (ref : VarRef) : Option Nat :=
  match ref with
  | .local i => st.env[i]?
  | .upvalue i => st.fn.upvals[i]?
  | .global _ => none

def moduleAttrs (st : State) (m : Nat) : List (String × Value) :=
  match st.heap.get m with
  | .module _ _ attrs => attrs
  | _ => []

def setModuleAttr (st : State) (m : Nat) (name : String) (v : Value) : State :=
  match st.heap.get m with
  | .module path imported attrs =>
    st.setObj m (.module path imported (assocSet attrs name v))
  | _ => st

/-- `none` = undefined global -/
def readVar (st : State) (ref : VarRef) : Option Value :=
  match ref with
  | .global name => assocGet (st.moduleAttrs st.fn.module) name
  | _ =>
    match st.cellOf ref with
    | some c => some (st.heap.readCell c)
    | none => some .nil

/-- `false` = undefined global (`SetGlobal` on a name that was never defined) -/
def canWrite (st : State) (ref : VarRef) : Bool :=
  match ref with
  | .global name => (assocGet (st.moduleAttrs st.fn.module) name).isSome
  | _ => true

def writeVar (st : State) (ref : VarRef) (v : Value) : State :=
  match ref with
  | .global name => st.setModuleAttr st.fn.module name v
  | _ =>
    match st.cellOf ref with
    | some c => st.writeCell c v
    | none => st

def undefinedVariable (name : String) : String := "Undefined variable '" ++ name ++ "'."

def pushLocal (st : State) (v : Value) : State :=
  let (c, st) := st.newCell v
  let env := st.env
  let st := { st with env := #[] }
  { st with env := env.push c }

def truncateEnv (st : State) (n : Nat) : State :=
  if st.env.size > n then { st with env := st.env.extract 0 n } else st

/-- `Closure` instruction -/
def makeClosure (st : State) (fn : FnDecl) (caps : List Capture) : Value × State :=
  let upvals := caps.map fun (isLocal, i) =>
    if isLocal then (st.env[i]?).getD 0 else (st.fn.upvals[i]?).getD 0
  let (r, st) := st.alloc (.closure fn upvals.toArray st.fn.module)
  (.obj r, st)

/-! ### Calls -/

def isClass (st : State) (v : Value) : Option Nat :=
  match v with
  | .obj r => (match st.heap.get r with | .cls _ => some r | _ => none)
  | _ => none

/-- Save the registers of the running fiber into its heap object. -/
def saveFiber (st : State) (status : FiberStatus) (caller : Option (Option Nat)) : State :=
  match st.heap.get st.fiber with
  | .fiber f =>
    let f := { f with status := status, ctl := st.ctl, env := st.env, fn := st.fn, kont := st.kont,
                      depth := st.depth, errLine := st.errLine,
                      caller := match caller with | some c => c | none => f.caller }
    st.setObj st.fiber (.fiber f)
  | _ => st

/-- Make fiber `r` the running fiber, delivering `ctl`. -/
def loadFiber (st : State) (r : Nat) (ctl : Control) : State :=
  match st.heap.get r with
  | .fiber f =>
    let st := st.setObj r (.fiber { f with status := .running, kont := [], env := #[] })
    { st with fiber := r, ctl := ctl, env := f.env, fn := f.fn, kont := f.kont, depth := f.depth,
              errLine := f.errLine }
  | _ => st

/-- `call_closure`: arity check, frame limit, new frame.  `slot0` is the receiver slot. -/
def callClosure (st : State) (cref : Nat) (slot0 : Value) (args : Array Value) (line : Nat) : State :=
  match st.heap.get cref with
  | .closure fn upvals module =>
    if args.size != fn.arity then
      st.raise .typeError ("Expected " ++ toString fn.arity ++ " arguments but found " ++
        toString args.size ++ ".") line
    else if st.depth == framesMax then st.raise .indexError "Stack overflow." line
    else
      -- `Construct`: an initialiser called on a class first creates the instance
      let (slot0, st) :=
        if fn.kind == .initialiser then
          match st.isClass slot0 with
          | some c => let (r, st) := st.alloc (.instance c []); (Value.obj r, st)
          | none => (slot0, st)
        else (slot0, st)
      let (cells, st) := st.withHeap fun heap =>
        let (c0, heap) := heap.newCell slot0
        args.foldl (fun (acc : Array Nat × Heap) a =>
          let (c, h) := acc.2.newCell a
          (acc.1.push c, h)) (#[c0], heap)
      { st with kont := .call st.env st.fn line :: st.kont,
                env := cells,
                fn := { name := fn.name, kind := fn.kind, module := module, upvals := upvals },
                depth := st.depth + 1,
                ctl := .exec fn.body }
  | _ => st.raise .typeError "Can only call functions and methods." line

/-- `Fiber.call(arg?)` -/
def fiberCall (st : State) (recv : Value) (args : Array Value) (line : Nat) : State :=
  let target := match recv with
    | .obj r => (match st.heap.get r with | .fiber f => some (r, f) | _ => none)
    | _ => none
  match target with
  | none => st.raise .typeError ("Built-in method 'call' cannot be called on '" ++ st.heap.displayText recv ++ "'.") line
  | some (r, f) =>
    let n := args.size
    let arity := match st.heap.get f.closure with
      | .closure fn _ _ => fn.arity
      | _ => 0
    let arityErr : Option String :=
      if f.status == .fresh then
        (if n != arity then
          some ("Expected " ++ toString arity ++ " parameter" ++ (if arity == 1 then "" else "s") ++
            " but found " ++ toString n ++ ".")
         else none)
      else if n > 1 then some ("Expected at most 1 parameter but found " ++ toString n ++ ".")
      else none
    match arityErr with
    | some m => st.raise .typeError m line
    | none =>
      if f.status == .finished then st.raise .runtimeError "Cannot call a finished fiber." line
      else if f.caller.isSome then
        st.raise .runtimeError "Cannot call a fiber that has already been called." line
      else
        let arg := args[0]?
        let caller := st.fiber
        let st := st.saveFiber .suspended none
        if f.status == .fresh then
          match st.heap.get f.closure with
          | .closure fn upvals module =>
            let (cells, st) := st.withHeap fun heap =>
              let (c0, heap) := heap.newCell (.obj f.closure)
              match arg with
              | some a => let (c, h) := heap.newCell a; (#[c0, c], h)
              | none => (#[c0], heap)
            let st := st.setObj r (.fiber { f with status := .running, caller := some caller })
            { st with fiber := r, ctl := .exec fn.body, env := cells,
                      fn := { name := fn.name, kind := fn.kind, module := module, upvals := upvals },
                      kont := [.fiberBase], depth := 1, errLine := none }
          | _ => st.halt (.fault "fiber without closure")
        else
          -- resumed: the pending `Fiber.yield(..)` evaluates to the argument
          -- (to nil without argument; the real VM leaves the `Fiber` class there, defect F16)
          let st := st.setObj r (.fiber { f with caller := some caller })
          st.loadFiber r (.value (arg.getD .nil))

/-- `Fiber.yield(arg?)` -/
def fiberYield (st : State) (args : Array Value) (line : Nat) : State :=
  let n := args.size
  if n > 1 then
    st.raise .typeError ("Expected at most 1 parameter but found " ++ toString n ++ ".") line
  else
    let caller := match st.heap.get st.fiber with
      | .fiber f => f.caller
      | _ => none
    match caller with
    | none => st.raise .runtimeError "Cannot yield from module-level code." line
    | some c =>
      let st := st.saveFiber .suspended (some none)
      st.loadFiber c (.value ((args[0]?).getD .nil))

/-- The running fiber's function returned `v` (`return_impl` with no frame left). -/
def fiberFinished (st : State) (v : Value) : State :=
  let caller := match st.heap.get st.fiber with
    | .fiber f => f.caller
    | _ => none
  let st := { st with kont := [], env := #[], depth := 0 }
  let st := st.saveFiber .finished (some none)
  match caller with
  | some c => st.loadFiber c (.value v)
  | none => { st with outcome := some .ok }

def callNativeRef (st : State) (nref : Nat) (recv : Value) (args : Array Value) (line : Nat) : State :=
  match st.heap.get nref with
  | .native name id =>
    match id with
    | .fiberCall => st.fiberCall recv args line
    | .fiberYield => st.fiberYield args line
    | _ =>
      let (res, st) := st.withHeap fun h => Builtins.callNative h id name recv args
      match res with
      | .ok v => st.value v
      | .printed s =>
        let printed := st.printed
        let st := { st with printed := #[] }
        { st with printed := printed.push s, ctl := .value .nil }
      | .err k m => st.raise k m line
  | _ => st.raise .typeError "Can only call functions and methods." line

/-- `call_value` -/
def callValue (st : State) (callee : Value) (args : Array Value) (line : Nat) : State :=
  match callee with
  | .obj r =>
    match st.heap.get r with
    | .boundMethod recv m => st.callClosure m recv args line
    | .boundNative recv m => st.callNativeRef m recv args line
    | .closure .. => st.callClosure r callee args line
    | .native .. => st.callNativeRef r callee args line
    | _ => st.raise .typeError "Can only call functions and methods." line
  | _ => st.raise .typeError "Can only call functions and methods." line

def undefinedProperty (name : String) : String := "Undefined property '" ++ name ++ "'."

/-- `invoke_from_class` -/
def invokeFromClass (st : State) (cls : Nat) (name : String) (recv : Value) (args : Array Value)
    (line : Nat) : State :=
  match assocGet (st.heap.classData cls).methods name with
  | some (.obj m) =>
    match st.heap.get m with
    | .closure .. => st.callClosure m recv args line
    | .native .. => st.callNativeRef m recv args line
    | _ => st.halt (.fault "method table entry is neither closure nor native")
  | some _ => st.halt (.fault "method table entry is not an object")
  | none => st.raise .attributeError (undefinedProperty name) line

/-- `invoke`: fields of instances and attributes of modules shadow methods. -/
def invoke (st : State) (recv : Value) (name : String) (args : Array Value) (line : Nat) : State :=
  match recv with
  | .obj r =>
    match st.heap.get r with
    | .instance c fields =>
      match assocGet fields name with
      | some v => st.callValue v args line
      | none => st.invokeFromClass c name recv args line
    | .module _ _ attrs =>
      match assocGet attrs name with
      | some v => st.callValue v args line
      | none => st.invokeFromClass st.heap.core.module name recv args line
    | _ => st.invokeFromClass (st.heap.classOf recv) name recv args line
  | _ => st.invokeFromClass (st.heap.classOf recv) name recv args line

/-- `bind_method` -/
def bindMethod (st : State) (cls : Nat) (name : String) (recv : Value) (line : Nat) : State :=
  match assocGet (st.heap.classData cls).methods name with
  | some (.obj m) =>
    match st.heap.get m with
    | .closure .. =>
      let (r, st) := st.alloc (.boundMethod recv m)
      st.value (.obj r)
    | .native .. =>
      let (r, st) := st.alloc (.boundNative recv m)
      st.value (.obj r)
    | _ => st.halt (.fault "method table entry is neither closure nor native")
  | some _ => st.halt (.fault "method table entry is not an object")
  | none => st.raise .attributeError (undefinedProperty name) line

def getProperty (st : State) (recv : Value) (name : String) (line : Nat) : State :=
  let direct : Option Value :=
    match recv with
    | .obj r =>
      match st.heap.get r with
      | .instance _ fields => assocGet fields name
      | .module _ _ attrs => assocGet attrs name
      | _ => none
    | _ => none
  match direct with
  | some v => st.value v
  | none => st.bindMethod (st.heap.classOf recv) name recv line

def setProperty (st : State) (recv : Value) (name : String) (v : Value) (line : Nat) : State :=
  match recv with
  | .obj r =>
    match st.heap.get r with
    | .module path imported attrs =>
      (st.setObj r (.module path imported (assocSet attrs name v))).value v
    | .instance c fields =>
      (st.setObj r (.instance c (assocSet fields name v))).value v
    | _ => st.raise .attributeError "Only instances have fields." line
  | _ => st.raise .attributeError "Only instances have fields." line

/-! ### Operators -/

def bothNumbers : String := "Binary operands must both be numbers."

def binaryOp (st : State) (op : BinOp) (a b : Value) (line : Nat) : State :=
  match op with
  | .eq | .ne =>
    match st.heap.valueEq st.heap.eqFuel a b with
    | some r => st.value (.bool (if op == .eq then r else !r))
    | none => st.halt .timeout
  | .add =>
    match a, b with
    | .str x, .str y => st.value (.str (x ++ y))
    | .num x, .num y => st.value (.num (Num.add x y))
    | _, _ => st.raise .typeError "Binary operands must be two numbers or two strings." line
  | _ =>
    match a, b with
    | .num x, .num y =>
      let r : Value :=
        match op with
        | .sub => .num (Num.sub x y)
        | .mul => .num (Num.mul x y)
        | .div => .num (Num.div x y)
        | .mod => .num (Num.fmod x y)
        | .bitAnd => .num (Num.bitAnd x y)
        | .bitOr => .num (Num.bitOr x y)
        | .bitXor => .num (Num.bitXor x y)
        | .shl => .num (Num.shl x y)
        | .shr => .num (Num.shr x y)
        | .lt => .bool (Yarel.F64.lt x y)
        | .gt => .bool (Yarel.F64.lt y x)
        -- `a >= b` is compiled as `!(a < b)`, `a <= b` as `!(a > b)` (true when a NaN is involved)
        | .ge => .bool (!Yarel.F64.lt x y)
        | .le => .bool (!Yarel.F64.lt y x)
        | _ => .nil
      st.value r
    | _, _ => st.raise .typeError bothNumbers line

def unaryOp (st : State) (op : UnOp) (a : Value) (line : Nat) : State :=
  match op with
  | .not => st.value (.bool (!isTruthy a))
  | .neg =>
    match a with
    | .num x => st.value (.num (Num.neg x))
    | _ => st.raise .typeError "Unary operand must be a number." line
  | .bitNot =>
    match a with
    | .num x => st.value (.num (Num.bitNot x))
    | _ => st.raise .typeError "Unary operand must be a number." line

/-! ### Evaluation of operands -/

/-- Evaluate `pending` left to right, then `applyArgs k`. -/
def evalArgs (st : State) (k : ArgK) (done : Array Value) (pending : List Expr) : State :=
  match pending with
  | e :: rest => { st with kont := .args k done rest :: st.kont, ctl := .eval e }
  | [] => { st with kont := .args k done [] :: st.kont, ctl := .next }

/-- All operands are there. -/
def applyArgs (st : State) (k : ArgK) (vs : Array Value) : State :=
  let v0 := (vs[0]?).getD .nil
  let v1 := (vs[1]?).getD .nil
  let v2 := (vs[2]?).getD .nil
  match k with
  | .binary op line => st.binaryOp op v0 v1 line
  | .unary op line => st.unaryOp op v0 line
  | .assign ref line =>
    if st.canWrite ref then (st.writeVar ref v0).value v0
    else
      match ref with
      | .global name => st.raise .nameError (undefinedVariable name) line
      | _ => st.value v0
  | .compoundAssign ref op opLine =>
    -- the arithmetic, then the store (through the `assign` continuation)
    let st := { st with kont := .args (.assign ref opLine) #[] [] :: st.kont }
    st.binaryOp op v0 v1 opLine
  | .getProp name line => st.getProperty v0 name line
  | .setProp name line => st.setProperty v0 name v1 line
  | .compoundProp1 name op rhs getLine opLine =>
    -- `CopyTop; GetProperty name`, then the right-hand side
    let st := { st with kont := .args (.compoundProp2 name op opLine) #[v0] [rhs] :: st.kont }
    st.getProperty v0 name getLine
  | .compoundProp2 name op opLine =>
    let st := { st with kont := .args (.setProp name opLine) #[v0] [] :: st.kont }
    st.binaryOp op v1 v2 opLine
  | .invoke name line => st.invoke v0 name (vs.extract 1 vs.size) line
  | .call line => st.callValue v0 (vs.extract 1 vs.size) line
  | .superInvoke name recv sup line =>
    let r := (st.readVar recv).getD .nil
    match st.isClass ((st.readVar sup).getD .nil) with
    | some c => st.invokeFromClass c name r vs line
    | none => st.halt (.fault "'super' is not a class")
  | .range line =>
    -- the end is validated first (it is popped first)
    match Builtins.validateInteger st.heap v1 with
    | .error (kd, m) => st.raise kd m line
    | .ok e =>
      match Builtins.validateInteger st.heap v0 with
      | .error (kd, m) => st.raise kd m line
      | .ok b =>
        let (v, st) := st.withHeap fun h => h.buildRange b e
        st.value v
  | .tuple =>
    let (v, st) := st.withHeap fun h => h.mkTuple vs
    st.value v
  | .vec =>
    let (v, st) := st.withHeap fun h => h.mkVec vs
    st.value v
  | .map line =>
    let rec build (h : Heap) (kvs : List Value) (acc : Array (Value × Value)) :
        Except Value (Array (Value × Value)) :=
      match kvs with
      | k :: v :: rest =>
        if !h.hasHash k then .error k
        else build h rest (h.mapInsert acc k v).1
      | _ => .ok acc
    match build st.heap vs.toList #[] with
    | .error k =>
      st.raise .valueError ("Cannot use unhashable value '" ++ st.heap.displayText k ++ "' as HashMap key.") line
    | .ok entries =>
      let (r, st) := st.alloc (.map entries)
      st.value (.obj r)
  | .index line =>
    let (r, st) := st.withHeap fun h => Builtins.getItem h v0 v1
    st.ofExcept r line
  | .setIndex line =>
    let (r, st) := st.withHeap fun h => Builtins.setItem h v0 v1 v2
    st.ofExcept r line
  | .interp =>
    if vs.size == 1 then st.value v0
    else
      st.value (.str (vs.foldl (fun acc v => match v with | .str s => acc ++ s | _ => acc) ""))

/-- Start evaluating an expression. -/
def evalExpr (st : State) (e : Expr) : State :=
  match e with
  | .nil => st.value .nil
  | .bool b => st.value (.bool b)
  | .num n => st.value (.num n)
  | .str s => st.value (.str s)
  | .interp parts => st.evalArgs .interp #[] parts
  | .format e => { st with kont := .formatK :: st.kont, ctl := .eval e }
  | .var ref line =>
    match st.readVar ref with
    | some v => st.value v
    | none =>
      match ref with
      | .global name => st.raise .nameError (undefinedVariable name) line
      | _ => st.value .nil
  | .assign ref rhs line => st.evalArgs (.assign ref line) #[] [rhs]
  | .compoundAssign ref op rhs getLine opLine =>
    match st.readVar ref with
    | some v => st.evalArgs (.compoundAssign ref op opLine) #[v] [rhs]
    | none =>
      match ref with
      | .global name => st.raise .nameError (undefinedVariable name) getLine
      | _ => st.evalArgs (.compoundAssign ref op opLine) #[.nil] [rhs]
  | .getProp obj name line => st.evalArgs (.getProp name line) #[] [obj]
  | .setProp obj name rhs line => st.evalArgs (.setProp name line) #[] [obj, rhs]
  | .compoundSetProp obj name op rhs getLine opLine =>
    st.evalArgs (.compoundProp1 name op rhs getLine opLine) #[] [obj]
  | .invoke obj name args line => st.evalArgs (.invoke name line) #[] (obj :: args)
  | .call callee args line => st.evalArgs (.call line) #[] (callee :: args)
  | .superGet name recv sup line =>
    let r := (st.readVar recv).getD .nil
    match st.isClass ((st.readVar sup).getD .nil) with
    | some c => st.bindMethod c name r line
    | none => st.halt (.fault "'super' is not a class")
  | .superInvoke name recv args sup line => st.evalArgs (.superInvoke name recv sup line) #[] args
  | .getClass e => { st with kont := .getClassK :: st.kont, ctl := .eval e }
  | .unary op e line => st.evalArgs (.unary op line) #[] [e]
  | .binary op l r line => st.evalArgs (.binary op line) #[] [l, r]
  | .and l r => { st with kont := .andK r :: st.kont, ctl := .eval l }
  | .or l r => { st with kont := .orK r :: st.kont, ctl := .eval l }
  | .range l r line => st.evalArgs (.range line) #[] [l, r]
  | .tuple elems => st.evalArgs .tuple #[] elems
  | .vec elems => st.evalArgs .vec #[] elems
  | .map kvs line => st.evalArgs (.map line) #[] kvs
  | .index obj idx line => st.evalArgs (.index line) #[] [obj, idx]
  | .setIndex obj idx rhs line => st.evalArgs (.setIndex line) #[] [obj, idx, rhs]
  | .closure fn caps =>
    let (v, st) := st.makeClosure fn caps
    st.value v

/-! ### Modules -/

def nativeDefs (h : Heap) (defs : List (String × NativeId)) : List (String × Value) × Heap :=
  defs.foldl (fun (acc : List (String × Value) × Heap) (name, id) =>
    let (r, h) := acc.2.alloc (.native name id)
    (acc.1 ++ [(name, Value.obj r)], h)) ([], h)

/-- `init_built_in_globals(module)` (every call creates fresh native objects). -/
def initBuiltInGlobals (st : State) (m : Nat) : State :=
  let (natives, st) := st.withHeap fun h => nativeDefs h [("clock", .clock), ("type", .type_), ("print", .print)]
  let core := st.heap.core
  let classes : List (String × Value) := [
    ("Type", .obj core.typeC), ("Object", .obj core.object), ("Nil", .obj core.nilC),
    ("Bool", .obj core.boolean), ("Num", .obj core.num), ("Func", .obj core.closure),
    ("BuiltIn", .obj core.native), ("Method", .obj core.closureMethod),
    ("BuiltInMethod", .obj core.nativeMethod), ("String", .obj core.string),
    ("Iter", .obj core.iter), ("MapIter", .obj core.mapIter), ("FilterIter", .obj core.filterIter),
    ("Tuple", .obj core.tuple), ("Vec", .obj core.vec), ("Range", .obj core.range),
    ("HashMap", .obj core.hashMap), ("Fiber", .obj core.fiber),
    ("Error", .obj core.error), ("StopIter", .obj core.stopIter), ("RuntimeError", .obj core.runtimeError),
    ("AttributeError", .obj core.attributeError), ("IndexError", .obj core.indexError),
    ("ImportError", .obj core.importError), ("NameError", .obj core.nameError),
    ("TypeError", .obj core.typeError), ("ValueError", .obj core.valueError)]
  match st.heap.get m with
  | .module path imported attrs =>
    st.setObj m (.module path imported (assocMerge attrs (natives ++ classes)))
  | _ => st

/-- `Vm::module(path)`: the module object registered under `path`, created on demand. -/
def getModule (st : State) (path : String) : Nat × State :=
  match st.modules.lookup path with
  | some m => (m, st)
  | none =>
    let (m, st) := st.alloc (.module path false [])
    (m, { st with modules := st.modules ++ [(path, m)] })

/-- Bind the imported module object to its variable. -/
def bindImport (st : State) (m : Nat) (globalName : Option String) : State :=
  match globalName with
  | some name => { st.setModuleAttr st.fn.module name (.obj m) with ctl := .next }
  | none => { st.pushLocal (.obj m) with ctl := .next }

/-- `StartImport` -/
def startImport (st : State) (path : String) (globalName : Option String) (line : Nat) : State :=
  match st.modules.lookup path with
  | some m =>
    match st.heap.get m with
    | .module _ true _ => st.bindImport m globalName
    | _ =>
      st.raise .importError
        ("Circular dependency encountered when importing module '" ++ path ++ "'.") line
  | none =>
    match st.sources.lookup path with
    | none => st.raise .importError ("Unable to read file '" ++ path ++ ".yl' (file not found).") line
    | some src =>
      match compileWith st.tbl src path with
      | .error msgs =>
        st.raise .importError
          (joinWith "\n" ("Error compiling module:" :: msgs.map fun m => "    " ++ m)) line
      | .ok script =>
        let (m, st) := st.getModule path
        let (c, st) := st.alloc (.closure script #[] m)
        let st := { st with kont := .importK m globalName :: st.kont }
        let st := st.callClosure c (.obj c) #[] line
        -- the built-ins are defined once the call has been set up (not when it failed)
        match st.ctl with
        | .exec _ => st.initBuiltInGlobals m
        | _ => st

/-! ### Statements -/

def defineGlobal (st : State) (name : String) (v : Value) : State :=
  st.setModuleAttr st.fn.module name v

/-- Class declaration: `DeclareClass … Inherit … Method* … DefineClass`, executed as one step. -/
def execClass (st : State) (c : ClassDecl) : State :=
  match c with
  | .mk name globalName hasSuper superRef superGetLine superLine setRef ctorName methods =>
    let objectMethods := (st.heap.classData st.heap.core.object).methods
    -- the variable is defined (as nil) before the body is evaluated
    let st := match globalName with
      | some g => st.defineGlobal g .nil
      | none => st.pushLocal .nil
    -- superclass
    let sup : Except State (Option Nat × State) :=
      if hasSuper then
        match st.readVar superRef with
        | none =>
          match superRef with
          | .global g => .error (st.raise .nameError (undefinedVariable g) superGetLine)
          | _ => .error (st.halt (.fault "unresolved superclass"))
        | some v =>
          match st.isClass v with
          | some s => .ok (some s, st.pushLocal v)
          | none => .error (st.raise .runtimeError "Superclass must be a class." superLine)
      else .ok (none, st)
    match sup with
    | .error st => st
    | .ok (superclass, st) =>
      let classMethods :=
        match superclass with
        | some s => assocMerge objectMethods (st.heap.classData s).methods
        | none => objectMethods
      let metaMethods := objectMethods
      -- `#[constructor(name)]` on the class
      let (classMethods, metaMethods, st) :=
        match ctorName with
        | some cn =>
          let (v, st) := st.makeClosure (.mk cn 0 .initialiser []) []
          (assocSet classMethods cn v, assocSet metaMethods cn v, st)
        | none => (classMethods, metaMethods, st)
      let (classMethods, metaMethods, st) :=
        methods.foldl (fun (acc : List (String × Value) × List (String × Value) × State) m =>
          match m with
          | .mk mname isStatic fn caps =>
            let (cm, mm, st) := acc
            let (v, st) := st.makeClosure fn caps
            (assocSet cm mname v, if isStatic then assocSet mm mname v else assocErase mm mname, st))
          (classMethods, metaMethods, st)
      let core := st.heap.core
      let metaData : ClassData :=
        { name := name ++ "Class", metaclass := core.typeC, superclass := some core.object,
          methods := metaMethods }
      let (metaRef, st) := st.alloc (.cls metaData)
      let classData : ClassData :=
        { name := name, metaclass := metaRef, superclass := some (superclass.getD core.object),
          methods := classMethods }
      let (classRef, st) := st.alloc (.cls classData)
      let st := if st.canWrite setRef then st.writeVar setRef (.obj classRef) else st
      let st := if hasSuper then st.truncateEnv (st.env.size - 1) else st
      { st with ctl := .next }

/-- Start executing one statement (`rest` follows it in the same block). -/
def execStmt (st : State) (s : Stmt) : State :=
  match s with
  | .expr e => { st with kont := .discard :: st.kont, ctl := .eval e }
  | .varGlobal name init => { st with kont := .varGlobalK name :: st.kont, ctl := .eval init }
  | .varLocal init => { st with kont := .varLocalK :: st.kont, ctl := .eval init }
  | .fnGlobal name fn caps =>
    let (v, st) := st.makeClosure fn caps
    { st.defineGlobal name v with ctl := .next }
  | .fnLocal fn caps =>
    let st := st.pushLocal .nil
    let (v, st) := st.makeClosure fn caps
    let cell := (st.env.back?).getD 0
    { st.writeCell cell v with ctl := .next }
  | .classDecl c => st.execClass c
  | .block body => { st with kont := .scope st.env.size :: st.kont, ctl := .exec body }
  | .ifElse cond thn els => { st with kont := .ifK thn els :: st.kont, ctl := .eval cond }
  | .while cond body => { st with kont := .whileCond cond body :: st.kont, ctl := .eval cond }
  | .for iterable line body =>
    -- scope of the loop variable and the hidden iterator; the loop variable starts as nil
    let st := { st with kont := .forIterable line body :: .scope st.env.size :: st.kont }
    { st.pushLocal .nil with ctl := .eval iterable }
  | .ret none =>
    let v := if st.fn.kind == .initialiser then (st.readVar (.local 0)).getD .nil else .nil
    { st with ctl := .unwind (.ret v) }
  | .ret (some e) => { st with kont := .retK :: st.kont, ctl := .eval e }
  | .brk => { st with ctl := .unwind .brk }
  | .cont => { st with ctl := .unwind .cont }
  | .throw e line => { st with kont := .throwK line :: st.kont, ctl := .eval e }
  | .try body hasCatch catchBody hasFinally finallyBody endLine =>
    { st with kont := .tryK hasCatch catchBody hasFinally finallyBody endLine st.env.size :: st.kont,
              ctl := .exec body }
  | .import path globalName line => st.startImport path globalName line

/-! ### Continuations -/

/-- Ask the iterator in the hidden local for its next element (`IterNext`). -/
def forAdvance (st : State) (line : Nat) (body : List Stmt) : State :=
  let iter := st.heap.readCell ((st.env.back?).getD 0)
  { st with kont := .forNext line body :: st.kont }.invoke iter "next" #[] line

/-- A value arrives at the top frame. -/
def onValue (st : State) (v : Value) : State :=
  match st.kont with
  | [] => st.halt (.fault "value with empty continuation")
  | f :: rest =>
    let st := { st with kont := rest }
    match f with
    | .args k done pending =>
      let done := done.push v
      match pending with
      | e :: more => { st with kont := .args k done more :: rest, ctl := .eval e }
      | [] => st.applyArgs k done
    | .andK rhs => if isTruthy v then { st with ctl := .eval rhs } else st.value v
    | .orK rhs => if isTruthy v then st.value v else { st with ctl := .eval rhs }
    | .formatK =>
      match v with
      | .str _ => st.value v
      | _ =>
        let (s, st) := st.withHeap fun h => h.display v
        st.value (.str s)
    | .getClassK =>
      match v with
      | .obj r =>
        match st.heap.get r with
        | .cls _ => st.value v
        | _ => st.value (.obj (st.heap.classOf v))
      | _ => st.value (.obj (st.heap.classOf v))
    | .discard => { st with ctl := .next }
    | .varLocalK => { st.pushLocal v with ctl := .next }
    | .varGlobalK name => { st.defineGlobal name v with ctl := .next }
    | .retK => { st with ctl := .unwind (.ret v) }
    | .throwK line =>
      -- `error_ip`: remember where the running fiber threw
      { st with errLine := some (st.depth, line) }.throwValue v line
    | .ifK thn els =>
      if isTruthy v then { st with kont := .scope st.env.size :: rest, ctl := .exec thn }
      else { st with ctl := .exec els }
    | .whileCond cond body =>
      if isTruthy v then { st with kont := .whileBody cond body st.env.size :: rest, ctl := .exec body }
      else { st with ctl := .next }
    | .forIterable line body =>
      { st with kont := .forGotIter line body :: rest }.invoke v "iter" #[] line
    | .forGotIter line body =>
      (st.pushLocal v).forAdvance line body
    | .forNext line body =>
      -- `SetLocal loop_var` happens before the sentinel test
      let loopVar := (st.env[st.env.size - 2]?).getD 0
      let st := st.writeCell loopVar v
      let isStop := match v with
        | .obj r => (match st.heap.get r with | .instance c _ => c == st.heap.core.stopIter | _ => false)
        | _ => false
      if isStop then { st with ctl := .next }
      else { st with kont := .forBody line body st.env.size :: rest, ctl := .exec body }
    | .importK m globalName =>
      -- `FinishImport`
      let st := match st.heap.get m with
        | .module path _ attrs => st.setObj m (.module path true attrs)
        | _ => st
      st.bindImport m globalName
    | _ => st.halt (.fault "value delivered to a statement frame")

/-- The statement list above the top frame completed normally. -/
def onNext (st : State) : State :=
  match st.kont with
  | [] => st.halt (.fault "completion with empty continuation")
  | f :: rest =>
    let st := { st with kont := rest }
    match f with
    | .args k done [] => st.applyArgs k done
    | .seq stmts => { st with ctl := .exec stmts }
    | .scope n => st.truncateEnv n
    | .whileBody cond body n =>
      { st.truncateEnv n with kont := .whileCond cond body :: rest, ctl := .eval cond }
    | .forBody line body n => (st.truncateEnv n).forAdvance line body
    | .tryK _ _ hasFinally finallyBody endLine n =>
      let st := st.truncateEnv n
      if hasFinally then { st with kont := .finallyK .none endLine n :: rest, ctl := .exec finallyBody }
      else st
    | .catchK hasFinally finallyBody endLine n =>
      let st := st.truncateEnv n
      if hasFinally then { st with kont := .finallyK .none endLine n :: rest, ctl := .exec finallyBody }
      else st
    | .finallyK pending endLine n =>
      let st := st.truncateEnv n
      match pending with
      | .none => st
      | .reason (.throw v) => st.throwValue v endLine
      | .reason r => { st with ctl := .unwind r }
    | .call env fn _ =>
      -- falling off the end of a function: nil, or the instance for an initialiser
      let v := if st.fn.kind == .initialiser then (st.readVar (.local 0)).getD .nil else .nil
      { st with env := env, fn := fn, depth := st.depth - 1, ctl := .value v }
    | .fiberBase => st.fiberFinished .nil
    | _ => st.halt (.fault "completion delivered to an expression frame")

/-- An abrupt completion meets the top frame. -/
def onUnwind (st : State) (r : Reason) : State :=
  match st.kont with
  | [] => st.halt (.fault "unwinding with empty continuation")
  | f :: rest =>
    let st := { st with kont := rest }
    match f with
    | .whileBody cond body n =>
      match r with
      | .brk => { st.truncateEnv n with ctl := .next }
      | .cont => { st.truncateEnv n with kont := .whileCond cond body :: rest, ctl := .eval cond }
      | _ => st
    | .forBody line body n =>
      match r with
      | .brk => { st.truncateEnv n with ctl := .next }
      | .cont => (st.truncateEnv n).forAdvance line body
      | _ => st
    | .scope n => st.truncateEnv n
    | .tryK hasCatch catchBody hasFinally finallyBody endLine n =>
      let st := st.truncateEnv n
      match r, hasCatch with
      | .throw v, true =>
        -- handled: the exception becomes the catch variable (a local of the catch block)
        let st := { st with errLine := none,
                            kont := .catchK hasFinally finallyBody endLine n :: rest }
        { st.pushLocal v with ctl := .exec catchBody }
      | _, _ =>
        if hasFinally then
          { st with kont := .finallyK (.reason r) endLine n :: rest, ctl := .exec finallyBody }
        else st
    | .catchK hasFinally finallyBody endLine n =>
      let st := st.truncateEnv n
      if hasFinally then
        { st with kont := .finallyK (.reason r) endLine n :: rest, ctl := .exec finallyBody }
      else st
    | .finallyK _ _ n => st.truncateEnv n      -- the new completion replaces the pending one
    | .call env fn _ =>
      let st := { st with env := env, fn := fn, depth := st.depth - 1 }
      match r with
      | .ret v => st.value v
      | .throw _ => st
      | _ => st.halt (.fault "break/continue crossed a function boundary")
    | .fiberBase =>
      match r with
      | .ret v => st.fiberFinished v
      | .throw v => { st with kont := [.fiberBase] }.failUncaught v 0
      | _ => st.halt (.fault "break/continue reached the bottom of a fiber")
    | _ => st   -- expression frames, `seq`, pending value frames: dropped

/-- One machine step. -/
def step (st : State) : State :=
  match st.outcome with
  | some _ => st
  | none =>
    match st.ctl with
    | .eval e => st.evalExpr e
    | .exec [] => { st with ctl := .next }
    | .exec [s] => st.execStmt s
    | .exec (s :: rest) => { st with kont := .seq rest :: st.kont }.execStmt s
    | .value v => st.onValue v
    | .next => st.onNext
    | .unwind r => st.onUnwind r

def run : Nat → State → State
  | 0, st => st
  | n + 1, st =>
    match st.outcome with
    | some _ => st
    | none => run n (step st)

end State
end Yarel.Spec
