/-
The native functions and methods of yarel/src/core.rs (and the two host natives of the runner) as pure
functions on the object store, with the real arity checks, error kinds and message texts.
`Fiber.call` / `Fiber.yield` switch fibers and are implemented in Machine.lean.
-/
import Yarel.Spec.Heap

namespace Yarel.Spec

inductive NativeResult
  | ok (v : Value)
  | err (kind : ErrorKind) (msg : String)
  /-- `print`: the text goes to the output, the call evaluates to nil -/
  | printed (text : String)
  deriving Inhabited

namespace Builtins
open Heap

/-! ### UTF-8 / byte-level string helpers (Yarel strings are indexed by byte) -/

def isContinuation (b : UInt8) : Bool := b &&& 0xC0 == 0x80

/-- `str::is_char_boundary` -/
def isBoundary (bs : ByteArray) (pos : Nat) : Bool :=
  if pos == 0 then true
  else if pos == bs.size then true
  else if pos > bs.size then false
  else !isContinuation (bs.get! pos)

def sliceStr (bs : ByteArray) (b e : Nat) : String :=
  match String.fromUTF8? (bs.extract b e) with
  | some s => s
  | none => ""

/-- Length of the valid UTF-8 prefix (`Utf8Error::valid_up_to`), or `none` if everything is valid. -/
def utf8InvalidAt (bs : List UInt8) : Nat → Nat → Option Nat
  | 0, _ => none
  | fuel + 1, pos =>
    match bs with
    | [] => none
    | b0 :: rest =>
      let cont (b : UInt8) : Bool := isContinuation b
      if b0 < 0x80 then utf8InvalidAt rest fuel (pos + 1)
      else if 0xC2 ≤ b0 && b0 ≤ 0xDF then
        match rest with
        | b1 :: rest' => if cont b1 then utf8InvalidAt rest' fuel (pos + 2) else some pos
        | _ => some pos
      else if 0xE0 ≤ b0 && b0 ≤ 0xEF then
        match rest with
        | b1 :: b2 :: rest' =>
          let ok1 :=
            if b0 == 0xE0 then 0xA0 ≤ b1 && b1 ≤ 0xBF
            else if b0 == 0xED then 0x80 ≤ b1 && b1 ≤ 0x9F
            else cont b1
          if ok1 && cont b2 then utf8InvalidAt rest' fuel (pos + 3) else some pos
        | _ => some pos
      else if 0xF0 ≤ b0 && b0 ≤ 0xF4 then
        match rest with
        | b1 :: b2 :: b3 :: rest' =>
          let ok1 :=
            if b0 == 0xF0 then 0x90 ≤ b1 && b1 ≤ 0xBF
            else if b0 == 0xF4 then 0x80 ≤ b1 && b1 ≤ 0x8F
            else cont b1
          if ok1 && cont b2 && cont b3 then utf8InvalidAt rest' fuel (pos + 4) else some pos
        | _ => some pos
      else some pos

def isPrefixChars : List Char → List Char → Bool
  | [], _ => true
  | _ :: _, [] => false
  | p :: ps, c :: cs => p == c && isPrefixChars ps cs

/-- `str::replace` (non-overlapping, left to right); `pat` non-empty. -/
def replaceChars (pat rep : List Char) : Nat → List Char → List Char → List Char
  | 0, _, acc => acc.reverse
  | fuel + 1, s, acc =>
    match s with
    | [] => acc.reverse
    | c :: cs =>
      if isPrefixChars pat s then replaceChars pat rep fuel (s.drop pat.length) (rep.reverse ++ acc)
      else replaceChars pat rep fuel cs (c :: acc)

/-- `str::split` with a non-empty pattern. -/
def splitChars (pat : List Char) : Nat → List Char → List Char → List String → List String
  | 0, _, cur, acc => (String.ofList cur.reverse :: acc).reverse
  | fuel + 1, s, cur, acc =>
    match s with
    | [] => (String.ofList cur.reverse :: acc).reverse
    | c :: cs =>
      if isPrefixChars pat s then splitChars pat fuel (s.drop pat.length) [] (String.ofList cur.reverse :: acc)
      else splitChars pat fuel cs (c :: cur) acc

def isAsciiAlpha (c : Char) : Bool := ('a' ≤ c && c ≤ 'z') || ('A' ≤ c && c ≤ 'Z')
def isAsciiDigit (c : Char) : Bool := '0' ≤ c && c ≤ '9'
def isAsciiHex (c : Char) : Bool := isAsciiDigit c || ('a' ≤ c && c ≤ 'f') || ('A' ≤ c && c ≤ 'F')

/-! ### Shared checks -/

/-- `check_num_args` -/
def checkNumArgs (numArgs expected : Nat) : Option NativeResult :=
  if numArgs != expected then
    some (.err .typeError ("Expected " ++ toString expected ++ " parameter" ++
      (if expected == 1 then "" else "s") ++ " but found " ++ toString numArgs ++ "."))
  else none

/-- `utils::validate_integer` -/
def validateInteger (h : Heap) (v : Value) : Except (ErrorKind × String) Int :=
  match v with
  | .num n =>
    if !Yarel.F64.isIntegral n then
      .error (.valueError, "Expected an integer value but found '" ++ h.displayText v ++ "'.")
    else .ok (Yarel.F64.toIsize n)
  | _ => .error (.typeError, "Expected an integer value but found '" ++ h.displayText v ++ "'.")

/-- `Value::try_as_bounded_index` -/
def boundedIndex (h : Heap) (v : Value) (bound : Nat) (kind : String) : Except (ErrorKind × String) Nat :=
  match validateInteger h v with
  | .error e => .error e
  | .ok i =>
    let i := if i < 0 then i + bound else i
    if i < 0 || i ≥ bound then .error (.indexError, kind ++ " index out of bounds.")
    else .ok i.toNat

/-- `ObjRange::make_bounded_range` -/
def boundedRange (b e : Int) (limit : Nat) (kind : String) : Except (ErrorKind × String) (Nat × Nat) :=
  let lim : Int := limit
  let b := if b < 0 then b + lim else b
  if b < 0 || b ≥ lim then .error (.indexError, kind ++ " slice start out of range.")
  else
    let e := if e < 0 then e + lim else e
    if e < 0 || e > lim then .error (.indexError, kind ++ " slice end out of range.")
    else .ok (b.toNat, (if e ≥ b then e else b).toNat)

def invalidReceiver (h : Heap) (name : String) (recv : Value) : NativeResult :=
  .err .typeError ("Built-in method '" ++ name ++ "' cannot be called on '" ++ h.displayText recv ++ "'.")

def unhashable (h : Heap) (k : Value) : NativeResult :=
  .err .valueError ("Cannot use unhashable value '" ++ h.displayText k ++ "' as HashMap key.")

def ofExcept (r : Except (ErrorKind × String) Value) : NativeResult :=
  match r with
  | .ok v => .ok v
  | .error (k, m) => .err k m

/-- Elements of a Vec argument converted with `f` (first failure wins). -/
def mapElems (elems : List Value) (f : Value → Except (ErrorKind × String) α) :
    Except (ErrorKind × String) (List α) :=
  match elems with
  | [] => .ok []
  | v :: rest =>
    match f v with
    | .error e => .error e
    | .ok x =>
      match mapElems rest f with
      | .error e => .error e
      | .ok xs => .ok (x :: xs)

def numberElem (h : Heap) (v : Value) : Except (ErrorKind × String) UInt64 :=
  match v with
  | .num n => .ok n
  | _ => .error (.typeError, "Expected a number but found '" ++ h.displayText v ++ "'.")

def byteElem (h : Heap) (v : Value) : Except (ErrorKind × String) Nat :=
  match numberElem h v with
  | .error e => .error e
  | .ok n =>
    open Yarel.F64 in
    if lt n posZero || lt (Num.ofNat 255) n || !isIntegral n then
      .error (.valueError, "Expected a positive integer less than 256 but found '" ++ Num.display n ++ "'.")
    else .ok (Num.toU8 n)

def vecArg (h : Heap) (v : Value) : Except (ErrorKind × String) (Array Value) :=
  match v with
  | .obj r =>
    match h.get r with
    | .vec elems => .ok elems
    | _ => .error (.typeError, "Expected a Vec instance but found '" ++ h.displayText v ++ "'.")
  | _ => .error (.typeError, "Expected a Vec instance but found '" ++ h.displayText v ++ "'.")

def stringArg (h : Heap) (v : Value) : Except (ErrorKind × String) String :=
  match v with
  | .str s => .ok s
  | _ => .error (.typeError, "Expected a string but found '" ++ h.displayText v ++ "'.")

/-! ### The natives -/

def stringNative (h : Heap) (id : NativeId) (name : String) (recv : Value) (args : Array Value) :
    NativeResult × Heap :=
  let n := args.size
  let a0 := args[0]?.getD .nil
  let a1 := args[1]?.getD .nil
  match recv with
  | .str s =>
    let bs := s.toUTF8
    match id with
    | .stringIter =>
      match checkNumArgs n 0 with
      | some e => (e, h)
      | none => let (r, h) := h.alloc (.strIter s 0); (.ok (.obj r), h)
    | .stringLen =>
      match checkNumArgs n 0 with
      | some e => (e, h)
      | none => (.ok (.num (Num.ofNat bs.size)), h)
    | .stringIsAlpha =>
      match checkNumArgs n 0 with
      | some e => (e, h)
      | none => (.ok (.bool (bs.size > 0 && s.toList.all isAsciiAlpha)), h)
    | .stringIsDigit =>
      match checkNumArgs n 0 with
      | some e => (e, h)
      | none => (.ok (.bool (bs.size > 0 && s.toList.all isAsciiDigit)), h)
    | .stringIsHexdigit =>
      match checkNumArgs n 0 with
      | some e => (e, h)
      | none => (.ok (.bool (bs.size > 0 && s.toList.all isAsciiHex)), h)
    | .stringCountChars =>
      match checkNumArgs n 0 with
      | some e => (e, h)
      | none => (.ok (.num (Num.ofNat s.length)), h)
    | .stringCharByteIndex =>
      match checkNumArgs n 1 with
      | some e => (e, h)
      | none =>
        match boundedIndex h a0 s.length "String" with
        | .error (k, m) => (.err k m, h)
        | .ok ci =>
          let off := ((s.toList.take ci).map fun c => (String.singleton c).utf8ByteSize).foldl (· + ·) 0
          (.ok (.num (Num.ofNat off)), h)
    | .stringFind =>
      match checkNumArgs n 2 with
      | some e => (e, h)
      | none =>
        match stringArg h a0 with
        | .error (k, m) => (.err k m, h)
        | .ok sub =>
          if sub.isEmpty then (.err .valueError "Cannot find empty string.", h)
          else
            match validateInteger h a1 with
            | .error (k, m) => (.err k m, h)
            | .ok i =>
              let len : Int := bs.size
              let start := if i < 0 then i + len else i
              if start < 0 || start ≥ len then (.err .indexError "String index out of bounds.", h)
              else
                let start := start.toNat
                if !isBoundary bs start then
                  (.err .indexError "Provided string index is not on a character boundary.", h)
                else
                  let sb := sub.toUTF8
                  let found := (List.range (bs.size - start)).find? fun d =>
                    let i := start + d
                    isBoundary bs i && isBoundary bs (i + sb.size)
                      && (bs.extract i (i + sb.size)).data == sb.data
                  match found with
                  | some d => (.ok (.num (Num.ofNat (start + d))), h)
                  | none => (.ok .nil, h)
    | .stringReplace =>
      match checkNumArgs n 2 with
      | some e => (e, h)
      | none =>
        match stringArg h a0 with
        | .error (k, m) => (.err k m, h)
        | .ok old =>
          if old.isEmpty then (.err .valueError "Cannot replace empty string.", h)
          else
            match stringArg h a1 with
            | .error (k, m) => (.err k m, h)
            | .ok new =>
              (.ok (.str (String.ofList (replaceChars old.toList new.toList (s.length + 1) s.toList []))), h)
    | .stringSplit =>
      match checkNumArgs n 1 with
      | some e => (e, h)
      | none =>
        match stringArg h a0 with
        | .error (k, m) => (.err k m, h)
        | .ok delim =>
          if delim.isEmpty then (.err .valueError "Cannot split using an empty string.", h)
          else
            let parts := splitChars delim.toList (s.length + 1) s.toList [] []
            let (v, h) := h.mkVec (parts.map Value.str).toArray
            (.ok v, h)
    | .stringStartsWith =>
      match checkNumArgs n 1 with
      | some e => (e, h)
      | none =>
        match stringArg h a0 with
        | .error (k, m) => (.err k m, h)
        | .ok p => (.ok (.bool (isPrefixChars p.toList s.toList)), h)
    | .stringEndsWith =>
      match checkNumArgs n 1 with
      | some e => (e, h)
      | none =>
        match stringArg h a0 with
        | .error (k, m) => (.err k m, h)
        | .ok p => (.ok (.bool (isPrefixChars p.toList.reverse s.toList.reverse)), h)
    | .stringToNum =>
      match checkNumArgs n 0 with
      | some e => (e, h)
      | none =>
        match Num.parse s with
        | some b => (.ok (.num b), h)
        | none => (.err .valueError ("Unable to parse number from '" ++ s ++ "'."), h)
    | .stringToBytes =>
      match checkNumArgs n 0 with
      | some e => (e, h)
      | none =>
        let (v, h) := h.mkVec (bs.data.map fun b => Value.num (Num.ofNat b.toNat))
        (.ok v, h)
    | .stringToCodePoints =>
      match checkNumArgs n 0 with
      | some e => (e, h)
      | none =>
        let (v, h) := h.mkVec (s.toList.map fun c => Value.num (Num.ofNat c.toNat)).toArray
        (.ok v, h)
    | _ => (invalidReceiver h name recv, h)
  | _ =>
    -- defect F4: the real natives panic (`expect("Expected ObjString.")`) on a foreign receiver
    match checkNumArgs n (match id with
        | .stringCharByteIndex | .stringSplit | .stringStartsWith | .stringEndsWith => 1
        | .stringFind | .stringReplace => 2
        | _ => 0) with
    | some e => (e, h)
    | none => (invalidReceiver h name recv, h)

def stringStatic (h : Heap) (id : NativeId) (args : Array Value) : NativeResult × Heap :=
  let n := args.size
  let a0 := args[0]?.getD .nil
  match checkNumArgs n 1 with
  | some e => (e, h)
  | none =>
    match id with
    | .stringFrom =>
      let (s, h) := h.display a0
      (.ok (.str s), h)
    | .stringFromAscii =>
      match vecArg h a0 with
      | .error (k, m) => (.err k m, h)
      | .ok elems =>
        match mapElems elems.toList (byteElem h) with
        | .error (k, m) => (.err k m, h)
        | .ok bytes =>
          let out := bytes.flatMap fun b => if b > 127 then [195, b &&& 0xBF] else [b]
          match String.fromUTF8? ⟨(out.map UInt8.ofNat).toArray⟩ with
          | some s => (.ok (.str s), h)
          | none => (.err .valueError "Unable to create a string from byte sequence.", h)
    | .stringFromUtf8 =>
      match vecArg h a0 with
      | .error (k, m) => (.err k m, h)
      | .ok elems =>
        match mapElems elems.toList (byteElem h) with
        | .error (k, m) => (.err k m, h)
        | .ok bytes =>
          let bl := bytes.map UInt8.ofNat
          match utf8InvalidAt bl (bl.length + 1) 0 with
          | some idx =>
            (.err .valueError ("Invalid Unicode encountered at byte " ++
              toString ((bl[idx]?.getD 0).toNat) ++ " with index " ++ toString idx ++ "."), h)
          | none =>
            match String.fromUTF8? ⟨bl.toArray⟩ with
            | some s => (.ok (.str s), h)
            | none => (.err .valueError "Unable to create a string from byte sequence.", h)
    | .stringFromCodePoints =>
      match vecArg h a0 with
      | .error (k, m) => (.err k m, h)
      | .ok elems =>
        let conv (v : Value) : Except (ErrorKind × String) Char :=
          match numberElem h v with
          | .error e => .error e
          | .ok x =>
            open Yarel.F64 in
            if lt x posZero || lt (Num.ofNat 4294967295) x || !isIntegral x then
              .error (.valueError, "Expected a positive integer less than 4294967295 but found '" ++
                Num.display x ++ "'.")
            else
              let cp := Num.toU32 x
              if cp < 0xD800 || (0xDFFF < cp && cp ≤ 0x10FFFF) then .ok (Char.ofNat cp)
              else .error (.valueError, "Expected a valid Unicode code point but found '" ++ toString cp ++ "'.")
        match mapElems elems.toList conv with
        | .error (k, m) => (.err k m, h)
        | .ok cs => (.ok (.str (String.ofList cs)), h)
    | _ => (.ok .nil, h)

/-- `Object.derives(cls)`: is `cls` the receiver's class or one of its ancestors. -/
def derivesLoop (h : Heap) (query : Nat) : Nat → Option Nat → Bool
  | 0, _ => false
  | _, none => false
  | fuel + 1, some c => if c == query then true else derivesLoop h query fuel (h.classData c).superclass

def mapNative (h : Heap) (id : NativeId) (name : String) (recv : Value) (args : Array Value) :
    NativeResult × Heap :=
  let n := args.size
  let a0 := args[0]?.getD .nil
  let a1 := args[1]?.getD .nil
  let expected := match id with
    | .mapHasKey | .mapGet | .mapRemove => 1
    | .mapInsert => 2
    | _ => 0
  match checkNumArgs n expected with
  | some e => (e, h)
  | none =>
    match recv with
    | .obj r =>
      match h.get r with
      | .map entries =>
        match id with
        | .mapHasKey =>
          if !h.hasHash a0 then (unhashable h a0, h)
          else (.ok (.bool (h.mapFind entries a0).isSome), h)
        | .mapGet =>
          if !h.hasHash a0 then (unhashable h a0, h)
          else
            match h.mapFind entries a0 with
            | some i => (.ok ((entries[i]?.map (·.2)).getD .nil), h)
            | none => (.ok .nil, h)
        | .mapInsert =>
          if !h.hasHash a0 then (unhashable h a0, h)
          else
            match h.mapFind entries a0 with
            | some i =>
              let old := (entries[i]?.map (·.2)).getD .nil
              let k0 := (entries[i]?.map (·.1)).getD a0
              let (o, h) := h.takeObj r
              match o with
              | .map es => (.ok old, h.set r (.map (es.setIfInBounds i (k0, a1))))
              | other => (.ok old, h.set r other)
            | none =>
              let (o, h) := h.takeObj r
              match o with
              | .map es => (.ok .nil, h.set r (.map (es.push (a0, a1))))
              | other => (.ok .nil, h.set r other)
        | .mapRemove =>
          if !h.hasHash a0 then (unhashable h a0, h)
          else
            match h.mapFind entries a0 with
            | some i =>
              let old := (entries[i]?.map (·.2)).getD .nil
              (.ok old, h.set r (.map (entries.eraseIdxIfInBounds i)))
            | none => (.ok .nil, h)
        | .mapClear => (.ok .nil, h.set r (.map #[]))
        | .mapLen => (.ok (.num (Num.ofNat entries.size)), h)
        | .mapKeys =>
          let h := if entries.size ≥ 2 then { h with unordered := true } else h
          let (v, h) := h.mkVec (entries.map (·.1))
          (.ok v, h)
        | .mapValues =>
          let h := if entries.size ≥ 2 then { h with unordered := true } else h
          let (v, h) := h.mkVec (entries.map (·.2))
          (.ok v, h)
        | .mapItems =>
          let h := if entries.size ≥ 2 then { h with unordered := true } else h
          let (items, h) := entries.foldl (fun (acc : Array Value × Heap) (k, v) =>
            let (t, h') := acc.2.mkTuple #[k, v]
            (acc.1.push t, h')) (#[], h)
          let (v, h) := h.mkVec items
          (.ok v, h)
        | _ => (invalidReceiver h name recv, h)
      | _ => (invalidReceiver h name recv, h)
    | _ => (invalidReceiver h name recv, h)

/-- All natives except `Fiber.call` / `Fiber.yield`.  `recv` is the value in the receiver slot
(the native itself for a plain function call). -/
def callNative (h : Heap) (id : NativeId) (name : String) (recv : Value) (args : Array Value) :
    NativeResult × Heap :=
  let n := args.size
  let a0 := args[0]?.getD .nil
  let a1 := args[1]?.getD .nil
  match id with
  | .clock => (.ok (.num Yarel.F64.posZero), h)
  | .type_ =>
    match checkNumArgs n 1 with
    | some e => (e, h)
    | none => (.ok (.obj (h.classOf a0)), h)
  | .print =>
    if n != 1 then (.err .typeError "Expected one argument to 'print'.", h)
    else
      let (s, h) := h.display a0
      (.printed s, h)
  | .hostRaise =>
    if n != 2 then (.err .typeError "Expected two arguments to 'host_raise'.", h)
    else
      let (k, h) := h.display a0
      let (m, h) := h.display a1
      let kind : Option ErrorKind :=
        if k == "AttributeError" then some .attributeError
        else if k == "CompileError" then some .compileError
        else if k == "ImportError" then some .importError
        else if k == "IndexError" then some .indexError
        else if k == "NameError" then some .nameError
        else if k == "RuntimeError" then some .runtimeError
        else if k == "TypeError" then some .typeError
        else if k == "ValueError" then some .valueError
        else none
      match kind with
      | some kd => (.err kd m, h)
      | none => (.ok .nil, h)
  | .hostId =>
    if n != 1 then (.err .typeError "Expected one argument to 'host_id'.", h)
    else (.ok a0, h)
  | .objectDerives =>
    match checkNumArgs n 1 with
    | some e => (e, h)
    | none =>
      let isClass := match a0 with
        | .obj r => (match h.get r with | .cls _ => some r | _ => none)
        | _ => none
      match isClass with
      | none => (.err .valueError ("Expected a class name but found '" ++ h.displayText a0 ++ "'."), h)
      | some q => (.ok (.bool (derivesLoop h q (h.objs.size + 1) (some (h.classOf recv)))), h)
  | .stringFrom | .stringFromAscii | .stringFromUtf8 | .stringFromCodePoints => stringStatic h id args
  | .stringIter | .stringLen | .stringIsAlpha | .stringIsDigit | .stringIsHexdigit
  | .stringCountChars | .stringCharByteIndex | .stringFind | .stringReplace | .stringSplit
  | .stringStartsWith | .stringEndsWith | .stringToNum | .stringToBytes | .stringToCodePoints =>
    stringNative h id name recv args
  | .stringIterNext =>
    match checkNumArgs n 0 with
    | some e => (e, h)
    | none =>
      match recv with
      | .obj r =>
        match h.get r with
        | .strIter s pos =>
          let bs := s.toUTF8
          if pos == bs.size then
            let (v, h) := h.mkStopIter
            (.ok v, h)
          else
            let next := ((List.range (bs.size - pos)).map (· + pos + 1)).find? fun p => isBoundary bs p
            let next := next.getD bs.size
            (.ok (.str (sliceStr bs pos next)), h.set r (.strIter s next))
        | _ => (invalidReceiver h name recv, h)
      | _ => (invalidReceiver h name recv, h)
  | .tupleLen | .tupleIter =>
    match checkNumArgs n 0 with
    | some e => (e, h)
    | none =>
      match recv with
      | .obj r =>
        match h.get r with
        | .tuple elems =>
          if id == .tupleLen then (.ok (.num (Num.ofNat elems.size)), h)
          else let (i, h) := h.alloc (.tupleIter r 0); (.ok (.obj i), h)
        | _ => (invalidReceiver h name recv, h)
      | _ => (invalidReceiver h name recv, h)
  | .tupleIterNext =>
    match checkNumArgs n 0 with
    | some e => (e, h)
    | none =>
      match recv with
      | .obj r =>
        match h.get r with
        | .tupleIter t idx =>
          match h.get t with
          | .tuple elems =>
            match elems[idx]? with
            | some v => (.ok v, h.set r (.tupleIter t (idx + 1)))
            | none => let (v, h) := h.mkStopIter; (.ok v, h)
          | _ => let (v, h) := h.mkStopIter; (.ok v, h)
        | _ => (invalidReceiver h name recv, h)
      | _ => (invalidReceiver h name recv, h)
  | .vecPush =>
    match checkNumArgs n 1 with
    | some e => (e, h)
    | none =>
      match recv with
      | .obj r =>
        -- the vector is moved out of the store so that it is extended in place
        let (o, h) := h.takeObj r
        match o with
        | .vec elems => (.ok recv, h.set r (.vec (elems.push a0)))
        | other =>
          let h := h.set r other
          (invalidReceiver h name recv, h)
      | _ => (invalidReceiver h name recv, h)
  | .vecPop | .vecLen | .vecIter =>
    match checkNumArgs n 0 with
    | some e => (e, h)
    | none =>
      match recv with
      | .obj r =>
        match h.get r with
        | .vec elems =>
          match id with
          | .vecPop =>
            match elems.back? with
            | some v =>
              let (o, h) := h.takeObj r
              match o with
              | .vec es => (.ok v, h.set r (.vec es.pop))
              | other => (.ok v, h.set r other)
            | none => (.err .runtimeError "Cannot pop from empty Vec instance.", h)
          | .vecLen => (.ok (.num (Num.ofNat elems.size)), h)
          | _ => let (i, h) := h.alloc (.vecIter r 0); (.ok (.obj i), h)
        | _ => (invalidReceiver h name recv, h)
      | _ => (invalidReceiver h name recv, h)
  | .vecIterNext =>
    match checkNumArgs n 0 with
    | some e => (e, h)
    | none =>
      match recv with
      | .obj r =>
        match h.get r with
        | .vecIter vr idx =>
          match h.get vr with
          | .vec elems =>
            match elems[idx]? with
            | some v => (.ok v, h.set r (.vecIter vr (idx + 1)))
            | none => let (v, h) := h.mkStopIter; (.ok v, h)
          | _ => let (v, h) := h.mkStopIter; (.ok v, h)
        | _ => (invalidReceiver h name recv, h)
      | _ => (invalidReceiver h name recv, h)
  | .rangeIter =>
    match checkNumArgs n 0 with
    | some e => (e, h)
    | none =>
      match recv with
      | .obj r =>
        match h.get r with
        | .range b e =>
          let (i, h) := h.alloc (.rangeIter r b (if b < e then 1 else -1))
          (.ok (.obj i), h)
        | _ => (invalidReceiver h name recv, h)
      | _ => (invalidReceiver h name recv, h)
  | .rangeIterNext =>
    match checkNumArgs n 0 with
    | some e => (e, h)
    | none =>
      match recv with
      | .obj r =>
        match h.get r with
        | .rangeIter rr cur step =>
          let e := match h.get rr with
            | .range _ e => e
            | _ => cur
          if cur == e then let (v, h) := h.mkStopIter; (.ok v, h)
          else (.ok (.num (Num.ofInt cur)), h.set r (.rangeIter rr (cur + step) step))
        | _ => (invalidReceiver h name recv, h)
      | _ => (invalidReceiver h name recv, h)
  | .mapHasKey | .mapGet | .mapInsert | .mapRemove | .mapClear | .mapLen | .mapKeys | .mapValues
  | .mapItems => mapNative h id name recv args
  | .fiberNew =>
    match checkNumArgs n 1 with
    | some e => (e, h)
    | none =>
      let clo := match a0 with
        | .obj r => (match h.get r with | .closure fn _ _ => some (r, fn) | _ => none)
        | _ => none
      match clo with
      | none => (.err .typeError ("Expected a function but found '" ++ h.displayText a0 ++ "'."), h)
      | some (r, fn) =>
        if fn.arity > 1 then
          (.err .valueError "Fiber expects a closure that accepts at most 1 parameter.", h)
        else
          let (f, h) := h.alloc (.fiber { closure := r })
          (.ok (.obj f), h)
  | .fiberHasFinished =>
    match checkNumArgs n 0 with
    | some e => (e, h)
    | none =>
      match recv with
      | .obj r =>
        match h.get r with
        | .fiber f => (.ok (.bool (f.status == .finished)), h)
        | _ => (invalidReceiver h name recv, h)
      | _ => (invalidReceiver h name recv, h)
  | .fiberCall | .fiberYield => (.ok .nil, h)   -- handled by the machine

/-! ### Indexing (`GetItem` / `SetItem`) -/

def getItem (h : Heap) (recv idx : Value) : Except (ErrorKind × String) Value × Heap :=
  let notIndexable : Except (ErrorKind × String) Value × Heap :=
    (.error (.typeError, "Value '" ++ h.displayText recv ++ "' is not indexable."), h)
  let rangeOf (v : Value) : Option (Int × Int) :=
    match v with
    | .obj r => (match h.get r with | .range b e => some (b, e) | _ => none)
    | _ => none
  let elemsGet (elems : Array Value) (kind : String) (mk : Array Value → Heap → Value × Heap) :
      Except (ErrorKind × String) Value × Heap :=
    match idx with
    | .num _ =>
      match boundedIndex h idx elems.size kind with
      | .error e => (.error e, h)
      | .ok i => (.ok (elems[i]?.getD .nil), h)
    | _ =>
      match rangeOf idx with
      | some (b, e) =>
        match boundedRange b e elems.size kind with
        | .error err => (.error err, h)
        | .ok (b, e) =>
          let (v, h) := mk (elems.extract b e) h
          (.ok v, h)
      | none => (.error (.typeError, "Expected an integer or range."), h)
  match recv with
  | .str s =>
    let bs := s.toUTF8
    match idx with
    | .num _ =>
      match boundedIndex h idx bs.size "String" with
      | .error e => (.error e, h)
      | .ok b =>
        if !isBoundary bs b then
          (.error (.indexError, "Provided string index is not on a character boundary."), h)
        else
          let e := ((List.range (bs.size - b)).map (· + b + 1)).find? fun p => isBoundary bs p
          (.ok (.str (sliceStr bs b (e.getD bs.size))), h)
    | _ =>
      match rangeOf idx with
      | some (b, e) =>
        match boundedRange b e bs.size "String" with
        | .error err => (.error err, h)
        | .ok (b, e) =>
          if !isBoundary bs b then
            (.error (.indexError, "Provided string slice start is not on a character boundary."), h)
          else if !isBoundary bs e then
            (.error (.indexError, "Provided string slice end is not on a character boundary."), h)
          else (.ok (.str (sliceStr bs b e)), h)
      | none => (.error (.typeError, "Expected an integer or range."), h)
  | .obj r =>
    match h.get r with
    | .tuple elems => elemsGet elems "Tuple" fun es h => h.mkTuple es
    | .vec elems => elemsGet elems "Vec" fun es h => h.mkVec es
    | _ => notIndexable
  | _ => notIndexable

/-- `SetItem`: evaluates to nil. -/
def setItem (h : Heap) (recv idx v : Value) : Except (ErrorKind × String) Value × Heap :=
  match recv with
  | .obj r =>
    match h.get r with
    | .vec elems =>
      match boundedIndex h idx elems.size "Vec" with
      | .error e => (.error e, h)
      | .ok i =>
        let (o, h) := h.takeObj r
        match o with
        | .vec es => (.ok .nil, h.set r (.vec (es.setIfInBounds i v)))
        | other => (.ok .nil, h.set r other)
    | _ => (.error (.typeError, "Only Vec objects are index-assignable."), h)
  | _ => (.error (.typeError, "Only Vec objects are index-assignable."), h)

end Builtins
end Yarel.Spec
