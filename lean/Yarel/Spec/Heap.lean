/-
The object store of the spec machine and the value-level operations that need it:
class of a value, display text, equality, hashability, hash-map keys, the range cache, error objects.
-/
import Yarel.Spec.Value
import Yarel.Spec.NumStub

namespace Yarel.Spec

/-- References to the core classes (the `CoreClassStore` of the real VM plus `Object`, `Type`,
`String`, `StringClass`). -/
structure CoreRefs where
  object : Nat := 0
  typeC : Nat := 0
  stringMeta : Nat := 0
  string : Nat := 0
  nilC : Nat := 0
  boolean : Nat := 0
  num : Nat := 0
  closure : Nat := 0
  native : Nat := 0
  closureMethod : Nat := 0
  nativeMethod : Nat := 0
  iter : Nat := 0
  mapIter : Nat := 0
  filterIter : Nat := 0
  tuple : Nat := 0
  tupleIter : Nat := 0
  vec : Nat := 0
  vecIter : Nat := 0
  range : Nat := 0
  rangeIter : Nat := 0
  hashMap : Nat := 0
  module : Nat := 0
  stringIter : Nat := 0
  fiberMeta : Nat := 0
  fiber : Nat := 0
  error : Nat := 0
  stopIter : Nat := 0
  runtimeError : Nat := 0
  attributeError : Nat := 0
  indexError : Nat := 0
  importError : Nat := 0
  nameError : Nat := 0
  typeError : Nat := 0
  valueError : Nat := 0
  deriving Repr, Inhabited

structure Heap where
  objs : Array Obj := #[]
  cells : Array Value := #[]
  core : CoreRefs := {}
  /-- the 8-entry range cache of the real VM: (range object, creation stamp) -/
  rangeCache : Array (Nat × Nat) := #[]
  rangeStamp : Nat := 0
  /-- set when something observable depended on the enumeration order of a map with ≥ 2 entries -/
  unordered : Bool := false
  deriving Inhabited

namespace Heap

/-! The store operations first MOVE the array out of the record (`takeObjs` / `takeCells`), so that the
array is uniquely referenced when it is updated and the compiled code updates it in place instead of
copying the whole store on every allocation.  The movers are `@[noinline]` so that the compiler
cannot sink the record update below the array update. -/

@[noinline] def takeObjs (h : Heap) : Array Obj × Heap := (h.objs, { h with objs := #[] })
@[noinline] def takeCells (h : Heap) : Array Value × Heap := (h.cells, { h with cells := #[] })

def alloc (h : Heap) (o : Obj) : Nat × Heap :=
  let (objs, h) := h.takeObjs
  (objs.size, { h with objs := objs.push o })

def get (h : Heap) (r : Nat) : Obj :=
  match h.objs[r]? with
  | some o => o
  | none => .vec #[]

def set (h : Heap) (r : Nat) (o : Obj) : Heap :=
  let (objs, h) := h.takeObjs
  { h with objs := objs.setIfInBounds r o }

/-- Move object `r` out of the store (leaving a placeholder) so that it can be updated in place. -/
def takeObj (h : Heap) (r : Nat) : Obj × Heap :=
  let (objs, h) := h.takeObjs
  match objs[r]? with
  | some o => (o, { h with objs := objs.setIfInBounds r (.range 0 0) })
  | none => (.vec #[], { h with objs := objs })

def newCell (h : Heap) (v : Value) : Nat × Heap :=
  let (cells, h) := h.takeCells
  (cells.size, { h with cells := cells.push v })

def readCell (h : Heap) (c : Nat) : Value :=
  match h.cells[c]? with
  | some v => v
  | none => .nil

def writeCell (h : Heap) (c : Nat) (v : Value) : Heap :=
  let (cells, h) := h.takeCells
  { h with cells := cells.setIfInBounds c v }

def classData (h : Heap) (r : Nat) : ClassData :=
  match h.get r with
  | .cls c => c
  | _ => { name := "?", metaclass := 0, superclass := none, methods := [] }

def className (h : Heap) (r : Nat) : String := (h.classData r).name

/-- `Vm::get_class` -/
def classOf (h : Heap) (v : Value) : Nat :=
  match v with
  | .nil => h.core.nilC
  | .bool _ => h.core.boolean
  | .num _ => h.core.num
  | .str _ => h.core.string
  | .obj r =>
    match h.get r with
    | .vec _ => h.core.vec
    | .tuple _ => h.core.tuple
    | .map _ => h.core.hashMap
    | .range _ _ => h.core.range
    | .closure _ _ _ => h.core.closure
    | .native _ _ => h.core.native
    | .boundMethod _ _ => h.core.closureMethod
    | .boundNative _ _ => h.core.nativeMethod
    | .cls c => c.metaclass
    | .instance c _ => c
    | .module _ _ _ => h.core.module
    | .fiber _ => h.core.fiber
    | .strIter _ _ => h.core.stringIter
    | .vecIter _ _ => h.core.vecIter
    | .tupleIter _ _ => h.core.tupleIter
    | .rangeIter _ _ _ => h.core.rangeIter

def isTruthy (v : Value) : Bool :=
  match v with
  | .nil => false
  | .bool b => b
  | _ => true

def memAddr : String := "[MEMADDR]"

def joinWith (sep : String) : List String → String
  | [] => ""
  | [x] => x
  | x :: rest => x ++ sep ++ joinWith sep rest

/-- Display text of a value (`impl Display for Value`); memory addresses are printed as `[MEMADDR]`.
`active` is the set of containers being printed (the `disp_lock`/`self_lock` flags of the real
objects).  The second component reports whether a map with ≥ 2 entries was enumerated. -/
def displayAux (h : Heap) : Nat → List Nat → Value → String × Bool
  | 0, _, _ => ("<...>", false)
  | fuel + 1, active, v =>
    match v with
    | .nil => ("nil", false)
    | .bool b => (if b then "true" else "false", false)
    | .num n => (Num.display n, false)
    | .str s => (s, false)
    | .obj r =>
      match h.get r with
      | .vec elems =>
        if active.contains r then ("[...]", false)
        else
          let parts := elems.toList.map fun e => displayAux h fuel (r :: active) e
          ("[" ++ joinWith ", " (parts.map (·.1)) ++ "]", parts.any (·.2))
      | .tuple elems =>
        if active.contains r then ("(...)", false)
        else
          let parts := elems.toList.map fun e => displayAux h fuel (r :: active) e
          let body := if elems.size == 1 then (parts.map (·.1 ++ ",")) else parts.map (·.1)
          ("(" ++ joinWith ", " body ++ ")", parts.any (·.2))
      | .map entries =>
        if active.contains r then ("{...}", false)
        else
          let parts := entries.toList.map fun (k, x) =>
            let dk := displayAux h fuel (r :: active) k
            let dv := displayAux h fuel (r :: active) x
            (dk.1 ++ ": " ++ dv.1, dk.2 || dv.2)
          ("{" ++ joinWith ", " (parts.map (·.1)) ++ "}", entries.size ≥ 2 || parts.any (·.2))
      | .range b e => ("Range(" ++ toString b ++ ", " ++ toString e ++ ")", false)
      | .closure fn _ _ =>
        ((if fn.name == "" then "<script @ " else "<fn " ++ fn.name ++ " @ ") ++ memAddr ++ ">", false)
      | .native name _ => ("<built-in fn " ++ name ++ ">", false)
      | .boundMethod recv m =>
        let name := match h.get m with
          | .closure fn _ _ => fn.name
          | _ => "?"
        let d := displayAux h fuel active recv
        ("<method " ++ name ++ " on " ++ d.1 ++ " @ " ++ memAddr ++ ">", d.2)
      | .boundNative recv m =>
        let name := match h.get m with
          | .native n _ => n
          | _ => "?"
        let d := displayAux h fuel active recv
        ("<built-in method " ++ name ++ " on " ++ d.1 ++ " @ " ++ memAddr ++ ">", d.2)
      | .cls c => ("<class " ++ c.name ++ ">", false)
      | .instance c _ => ("<" ++ h.className c ++ " instance @ " ++ memAddr ++ ">", false)
      | .module path _ _ => ("<module \"" ++ path ++ "\">", false)
      | .fiber _ => ("<fiber @ " ++ memAddr ++ ">", false)
      | .strIter _ _ => ("ObjStringIter instance", false)
      | .vecIter _ _ => ("<ObjVecIter instance @ " ++ memAddr ++ ">", false)
      | .tupleIter _ _ => ("<ObjTupleIter instance @ " ++ memAddr ++ ">", false)
      | .rangeIter _ _ _ => ("ObjRangeIter instance", false)

/-- Display a value, recording map-order dependence in the heap. -/
def display (h : Heap) (v : Value) : String × Heap :=
  let (s, u) := displayAux h (h.objs.size + 2) [] v
  (s, if u then { h with unordered := true } else h)

/-- Display without recording (for contexts that cannot thread the heap). -/
def displayText (h : Heap) (v : Value) : String := (displayAux h (h.objs.size + 2) [] v).1

/-! ### Equality (`impl PartialEq for Value`) -/

mutual

/-- `none` = out of fuel (the real implementation recurses without bound on cyclic data, F5). -/
def valueEq (h : Heap) : Nat → Value → Value → Option Bool
  | 0, _, _ => none
  | fuel + 1, a, b =>
    match a, b with
    | .nil, .nil => some true
    | .bool x, .bool y => some (x == y)
    | .num x, .num y => some (Yarel.F64.eq x y)
    | .str x, .str y => some (x == y)
    | .obj x, .obj y =>
      match h.get x, h.get y with
      | .vec xs, .vec ys => if x == y then some true else listEq h fuel xs.toList ys.toList
      | .tuple xs, .tuple ys => if x == y then some true else listEq h fuel xs.toList ys.toList
      | .map xs, .map ys =>
        if x == y then some true
        else if xs.size != ys.size then some false
        else mapEq h fuel xs.toList ys
      -- bound natives never compare equal (there is no arm for them in the Rust `eq`)
      | .boundNative _ _, .boundNative _ _ => some false
      | _, _ => some (x == y)
    | _, _ => some false

def listEq (h : Heap) : Nat → List Value → List Value → Option Bool
  | 0, _, _ => none
  | fuel + 1, xs, ys =>
    match xs, ys with
    | [], [] => some true
    | x :: xs', y :: ys' =>
      match valueEq h fuel x y with
      | some true => listEq h fuel xs' ys'
      | r => r
    | _, _ => some false

/-- every entry of the first map has an equal value under the same key in the second -/
def mapEq (h : Heap) : Nat → List (Value × Value) → Array (Value × Value) → Option Bool
  | 0, _, _ => none
  | fuel + 1, xs, ys =>
    match xs with
    | [] => some true
    | (k, v) :: rest =>
      match keyFind h fuel ys.toList k 0 with
      | none => none
      | some none => some false
      | some (some i) =>
        match ys[i]? with
        | none => some false
        | some (_, v2) =>
          match valueEq h fuel v v2 with
          | some true => mapEq h fuel rest ys
          | r => r

/-- index of the entry whose key equals `k` (`HashMap::get`: hash, then `==`; keys that are `==`
denote the same entry, which the real hash of `0`/`-0` violates, F17). -/
def keyFind (h : Heap) : Nat → List (Value × Value) → Value → Nat → Option (Option Nat)
  | 0, _, _, _ => none
  | fuel + 1, entries, k, i =>
    match entries with
    | [] => some none
    | (k', _) :: rest =>
      match valueEq h fuel k' k with
      | none => none
      | some true => some (some i)
      | some false => keyFind h fuel rest k (i + 1)

end

def eqFuel (h : Heap) : Nat := 4 * h.objs.size + 64

/-- `has_hash` -/
def hasHashAux (h : Heap) : Nat → Value → Bool
  | 0, _ => true
  | fuel + 1, v =>
    match v with
    | .obj r =>
      match h.get r with
      | .cls _ => true
      | .range _ _ => true
      | .tuple elems => elems.toList.all fun e => hasHashAux h fuel e
      | _ => false
    | _ => true

def hasHash (h : Heap) (v : Value) : Bool := hasHashAux h (h.objs.size + 2) v

/-- Lookup in a map's entry list; `none` = out of fuel (cannot happen for hashable keys). -/
def mapFind (h : Heap) (entries : Array (Value × Value)) (k : Value) : Option Nat :=
  match keyFind h (h.eqFuel + entries.size) entries.toList k 0 with
  | some r => r
  | none => none

/-- `HashMap::insert`: an existing entry keeps its key and gets the new value. -/
def mapInsert (h : Heap) (entries : Array (Value × Value)) (k v : Value) :
    Array (Value × Value) × Option Value :=
  match h.mapFind entries k with
  | some i =>
    match entries[i]? with
    | some (k0, old) => (entries.setIfInBounds i (k0, v), some old)
    | none => (entries, none)
  | none => (entries.push (k, v), none)

/-! ### Allocation helpers -/

def errorClass (h : Heap) (k : ErrorKind) : Nat :=
  match k with
  | .attributeError => h.core.attributeError
  | .compileError => h.core.runtimeError
  | .importError => h.core.importError
  | .indexError => h.core.indexError
  | .nameError => h.core.nameError
  | .runtimeError => h.core.runtimeError
  | .typeError => h.core.typeError
  | .valueError => h.core.valueError

/-- `new_root_obj_err_from_error`: an instance of the error class with field `context`. -/
def mkError (h : Heap) (k : ErrorKind) (msg : String) : Value × Heap :=
  let (r, h) := h.alloc (.instance (h.errorClass k) [("context", .str msg)])
  (.obj r, h)

def mkStopIter (h : Heap) : Value × Heap :=
  let (r, h) := h.alloc (.instance h.core.stopIter [("context", .nil)])
  (.obj r, h)

def mkVec (h : Heap) (elems : Array Value) : Value × Heap :=
  let (r, h) := h.alloc (.vec elems)
  (.obj r, h)

def mkTuple (h : Heap) (elems : Array Value) : Value × Heap :=
  let (r, h) := h.alloc (.tuple elems)
  (.obj r, h)

def rangeCacheSize : Nat := 8

/-- `build_range`: ranges come from an 8-entry cache (oldest-created entry is replaced), so two
evaluations of `a..b` yield the SAME object while the entry is cached; ranges compare by identity. -/
def buildRange (h : Heap) (b e : Int) : Value × Heap :=
  let hit := h.rangeCache.toList.find? fun (r, _) =>
    match h.get r with
    | .range b' e' => b' == b && e' == e
    | _ => false
  match hit with
  | some (r, _) => (.obj r, h)
  | none =>
    let (r, h) := h.alloc (.range b e)
    let stamp := h.rangeStamp
    let h := { h with rangeStamp := stamp + 1 }
    if h.rangeCache.size ≥ rangeCacheSize then
      -- replace the entry with the smallest stamp (the oldest)
      let idx := (List.range h.rangeCache.size).foldl (fun best i =>
        match h.rangeCache[i]?, h.rangeCache[best]? with
        | some (_, s), some (_, sb) => if s < sb then i else best
        | _, _ => best) 0
      (.obj r, { h with rangeCache := h.rangeCache.setIfInBounds idx (r, stamp) })
    else
      (.obj r, { h with rangeCache := h.rangeCache.push (r, stamp) })

end Heap
end Yarel.Spec
