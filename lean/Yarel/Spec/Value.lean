/-
Run-time data of the spec machine: values, continuation frames, heap objects.

* Numbers are IEEE-754 bit patterns (`UInt64`), never `Float`.
* Strings are values (compared by content, as interning makes them in the real VM).
* Everything else with identity lives in the object store and is referred to by index (`Value.obj`).
* Variables are CELLS (`Nat` indices into the cell store); closures capture cells.
-/
import Yarel.Spec.Ast

namespace Yarel.Spec

inductive Value
  | nil
  | bool (b : Bool)
  | num (bits : UInt64)
  | str (s : String)
  | obj (ref : Nat)
  deriving DecidableEq, Repr, Inhabited

/-- The eight error kinds of error.rs. -/
inductive ErrorKind
  | attributeError | compileError | importError | indexError | nameError | runtimeError | typeError
  | valueError
  deriving DecidableEq, Repr, Inhabited

def ErrorKind.name : ErrorKind → String
  | .attributeError => "AttributeError" | .compileError => "CompileError"
  | .importError => "ImportError" | .indexError => "IndexError" | .nameError => "NameError"
  | .runtimeError => "RuntimeError" | .typeError => "TypeError" | .valueError => "ValueError"

/-- Every native function/method of core.rs (plus the two host natives of the runner). -/
inductive NativeId
  | clock | type_ | print | hostRaise | hostId
  | objectDerives
  | stringFrom | stringFromAscii | stringFromUtf8 | stringFromCodePoints
  | stringIter | stringLen | stringIsAlpha | stringIsDigit | stringIsHexdigit | stringCountChars
  | stringCharByteIndex | stringFind | stringReplace | stringSplit | stringStartsWith
  | stringEndsWith | stringToNum | stringToBytes | stringToCodePoints
  | stringIterNext
  | tupleLen | tupleIter | tupleIterNext
  | vecPush | vecPop | vecLen | vecIter | vecIterNext
  | rangeIter | rangeIterNext
  | mapHasKey | mapGet | mapInsert | mapRemove | mapClear | mapLen | mapKeys | mapValues | mapItems
  | fiberNew | fiberCall | fiberYield | fiberHasFinished
  deriving DecidableEq, Repr, Inhabited

/-- What a call frame knows about the running function. -/
structure FnInfo where
  name : String
  kind : FnKind
  /-- module object the closure belongs to (globals are looked up there) -/
  module : Nat
  /-- captured variable cells -/
  upvals : Array Nat
  deriving Repr, Inhabited

/-- Reason of an abrupt completion travelling down the continuation. -/
inductive Reason
  | throw (v : Value)
  | ret (v : Value)
  | brk
  | cont
  deriving Repr, Inhabited

/-- What to do with the operand values once all of them have been evaluated (left to right). -/
inductive ArgK
  | binary (op : BinOp) (line : Nat)
  | unary (op : UnOp) (line : Nat)
  | assign (ref : VarRef) (line : Nat)
  /-- operands: current value of the target, right-hand side -/
  | compoundAssign (ref : VarRef) (op : BinOp) (opLine : Nat)
  | getProp (name : String) (line : Nat)
  | setProp (name : String) (line : Nat)
  /-- operand: the object; reads the property, then evaluates `rhs` -/
  | compoundProp1 (name : String) (op : BinOp) (rhs : Expr) (getLine opLine : Nat)
  /-- operands: object, old property value, right-hand side -/
  | compoundProp2 (name : String) (op : BinOp) (opLine : Nat)
  /-- operands: receiver, arguments -/
  | invoke (name : String) (line : Nat)
  /-- operands: callee, arguments -/
  | call (line : Nat)
  /-- operands: arguments -/
  | superInvoke (name : String) (recv sup : VarRef) (line : Nat)
  | range (line : Nat)
  | tuple
  | vec
  | map (line : Nat)
  | index (line : Nat)
  | setIndex (line : Nat)
  | interp
  deriving Inhabited

/-- A `finally` block is running; what happens when it completes normally. -/
inductive Pending
  | none
  | reason (r : Reason)
  deriving Repr, Inhabited

/-- Continuation frames.  Expression frames wait for a value, statement frames for the normal
completion of the statement list running above them; every frame is transparent or reacts to an
abrupt completion (`Reason`) as described in Machine.lean. -/
inductive Frame
  -- expression level
  | args (k : ArgK) (done : Array Value) (pending : List Expr)
  | andK (rhs : Expr)
  | orK (rhs : Expr)
  | formatK
  | getClassK
  -- statement level, waiting for one value
  | discard
  | varLocalK
  | varGlobalK (name : String)
  | retK
  | throwK (line : Nat)
  | ifK (thn els : List Stmt)
  | whileCond (cond : Expr) (body : List Stmt)
  | forIterable (line : Nat) (body : List Stmt)
  | forGotIter (line : Nat) (body : List Stmt)
  | forNext (line : Nat) (body : List Stmt)
  | importK (moduleRef : Nat) (globalName : Option String)
  -- statement level, waiting for normal completion
  | seq (rest : List Stmt)
  | scope (envSize : Nat)
  | whileBody (cond : Expr) (body : List Stmt) (envSize : Nat)
  | forBody (line : Nat) (body : List Stmt) (envSize : Nat)
  /-- the `try` block is running -/
  | tryK (hasCatch : Bool) (catchBody : List Stmt) (hasFinally : Bool) (finallyBody : List Stmt)
      (endLine : Nat) (envSize : Nat)
  /-- the `catch` block is running -/
  | catchK (hasFinally : Bool) (finallyBody : List Stmt) (endLine : Nat) (envSize : Nat)
  /-- the `finally` block is running -/
  | finallyK (pending : Pending) (endLine : Nat) (envSize : Nat)
  /-- a function call: registers of the caller and the line of the call instruction -/
  | call (env : Array Nat) (fn : FnInfo) (line : Nat)
  /-- bottom of every fiber -/
  | fiberBase
  deriving Inhabited

/-- Control component of the machine. -/
inductive Control
  | eval (e : Expr)
  | exec (stmts : List Stmt)
  /-- an expression produced a value -/
  | value (v : Value)
  /-- the statement list above the top frame completed normally -/
  | next
  | unwind (r : Reason)
  deriving Inhabited

inductive FiberStatus
  | fresh        -- never started (`is_new`)
  | suspended    -- yielded, or waiting in `call()` for another fiber
  | running
  | finished
  deriving DecidableEq, Repr, Inhabited

/-- A fiber: the saved registers of the machine plus the caller link. -/
structure FiberData where
  closure : Nat
  status : FiberStatus := .fresh
  caller : Option Nat := none
  ctl : Control := .next
  env : Array Nat := #[]
  fn : FnInfo := default
  kont : List Frame := []
  /-- number of active calls (the real `frames.len()`) -/
  depth : Nat := 0
  /-- (depth, line) of the last `throw` statement (the real `error_ip`) -/
  errLine : Option (Nat × Nat) := none
  deriving Inhabited

structure ClassData where
  name : String
  /-- metaclass object (the base metaclass `Type` is its own metaclass) -/
  metaclass : Nat
  superclass : Option Nat
  /-- method table, already merged with the superclass' table (closures and natives) -/
  methods : List (String × Value)
  deriving Repr, Inhabited

inductive Obj
  | vec (elems : Array Value)
  | tuple (elems : Array Value)
  /-- entries in insertion order (the real map is a Rust `HashMap`: enumeration order unspecified) -/
  | map (entries : Array (Value × Value))
  | range (b e : Int)
  | closure (fn : FnDecl) (upvals : Array Nat) (module : Nat)
  | native (name : String) (id : NativeId)
  | boundMethod (recv : Value) (method : Nat)
  | boundNative (recv : Value) (method : Nat)
  | cls (c : ClassData)
  | instance (cls : Nat) (fields : List (String × Value))
  | module (path : String) (imported : Bool) (attrs : List (String × Value))
  | fiber (f : FiberData)
  | strIter (s : String) (pos : Nat)
  | vecIter (vec : Nat) (idx : Nat)
  | tupleIter (tuple : Nat) (idx : Nat)
  | rangeIter (range : Nat) (current : Int) (step : Int)
  deriving Inhabited

/-- Association-list update (replace the first binding or append). -/
def assocSet (l : List (String × Value)) (k : String) (v : Value) : List (String × Value) :=
  match l with
  | [] => [(k, v)]
  | (k', v') :: rest => if k' == k then (k, v) :: rest else (k', v') :: assocSet rest k v

def assocGet (l : List (String × Value)) (k : String) : Option Value :=
  match l with
  | [] => none
  | (k', v) :: rest => if k' == k then some v else assocGet rest k

def assocErase (l : List (String × Value)) (k : String) : List (String × Value) :=
  l.filter fun (k', _) => k' != k

/-- Merge `extra` over `base` (`ObjClass::new`, `Inherit`). -/
def assocMerge (base extra : List (String × Value)) : List (String × Value) :=
  extra.foldl (fun acc (k, v) => assocSet acc k v) base

end Yarel.Spec
