/-
Reachability census of the reference interpreter's store: how many vectors, tuples, maps and instances a finished (or failed)
run leaves REACHABLE from what persists - the module objects and their globals, the core classes, fibers and closures held
through them, with captured-variable cells followed to their contents.  Used by the C16/C01 check as the language-level answer
to "which objects may the collector keep": after a forced collection the implementation's heap must hold exactly as many data
objects (relative to the empty program) as are reachable here.  Tooling (worklist with fuel), not part of any proof.
-/
import Yarel.Spec.Interp
namespace Yarel.Spec.Census
open Yarel.Spec

inductive Node | obj (r : Nat) | cell (c : Nat)

def valNodes : Value → List Node
  | .obj r => [.obj r]
  | _ => []

def reasonNodes : Reason → List Node
  | .throw v => valNodes v
  | .ret v => valNodes v
  | _ => []

def frameNodes : Frame → List Node
  | .args _ done _ => done.toList.flatMap valNodes
  | .call env _ _ => env.toList.map .cell
  | .finallyK (.reason r) _ _ => reasonNodes r
  | .importK m _ => [.obj m]
  | _ => []

def ctlNodes : Control → List Node
  | .value v => valNodes v
  | .unwind r => reasonNodes r
  | _ => []

def fnInfoNodes (fn : FnInfo) : List Node := .obj fn.module :: fn.upvals.toList.map .cell

def children (h : Heap) : Node → List Node
  | .cell c => valNodes (h.readCell c)
  | .obj r =>
    match h.get r with
    | .vec es => es.toList.flatMap valNodes
    | .tuple es => es.toList.flatMap valNodes
    | .map es => es.toList.flatMap fun (k, v) => valNodes k ++ valNodes v
    | .range _ _ => []
    | .closure _ ups m => .obj m :: ups.toList.map .cell
    | .native _ _ => []
    | .boundMethod recv m => .obj m :: valNodes recv
    | .boundNative recv m => .obj m :: valNodes recv
    | .cls c => (.obj c.metaclass) :: (match c.superclass with | some s => [.obj s] | none => []) ++ c.methods.flatMap fun (_, v) => valNodes v
    | .instance c fields => .obj c :: fields.flatMap fun (_, v) => valNodes v
    | .module _ _ attrs => attrs.flatMap fun (_, v) => valNodes v
    | .fiber f =>
      -- a finished fiber keeps nothing of its run (repair F44); a fresh one holds its function in slot 0
      if f.status == .finished then [] else
      .obj f.closure :: (match f.caller with | some c => [.obj c] | none => []) ++ f.env.toList.map .cell ++ f.kont.flatMap frameNodes ++
        ctlNodes f.ctl ++ fnInfoNodes f.fn
    | .strIter _ _ => []
    | .vecIter v _ => [.obj v]
    | .tupleIter t _ => [.obj t]
    | .rangeIter r _ _ => [.obj r]

structure Counts where
  vec : Nat := 0
  tuple : Nat := 0
  map : Nat := 0
  instance_ : Nat := 0
  fiber : Nat := 0
  closure : Nat := 0
  cells : Nat := 0

def count (h : Heap) (c : Counts) : Node → Counts
  | .cell _ => { c with cells := c.cells + 1 }
  | .obj r =>
    match h.get r with
    | .vec _ => { c with vec := c.vec + 1 }
    | .tuple _ => { c with tuple := c.tuple + 1 }
    | .map _ => { c with map := c.map + 1 }
    | .instance _ _ => { c with instance_ := c.instance_ + 1 }
    | .fiber _ => { c with fiber := c.fiber + 1 }
    | .closure _ _ _ => { c with closure := c.closure + 1 }
    | _ => c

def walk (h : Heap) : Nat → List Node → Array Bool → Array Bool → Counts → Counts
  | 0, _, _, _, c => c
  | _, [], _, _, c => c
  | fuel + 1, n :: work, seenObj, seenCell, c =>
    match n with
    | .obj r =>
      if r < seenObj.size && !seenObj[r]! then
        walk h fuel (children h n ++ work) (seenObj.set! r true) seenCell (count h c n)
      else walk h fuel work seenObj seenCell c
    | .cell k =>
      if k < seenCell.size && !seenCell[k]! then
        walk h fuel (children h n ++ work) seenObj (seenCell.set! k true) (count h c n)
      else walk h fuel work seenObj seenCell c

/-- the roots that persist after a run: every registered module, every core class (they hold their method tables), the ranges of
the range cache -/
def roots (st : State) : List Node :=
  let core := st.heap.core
  st.modules.map (fun (_, m) => Node.obj m) ++
  [core.object, core.typeC, core.stringMeta, core.string, core.nilC, core.boolean, core.num, core.closure, core.native, core.closureMethod,
   core.nativeMethod, core.iter, core.mapIter, core.filterIter, core.tuple, core.tupleIter, core.vec, core.vecIter, core.range, core.rangeIter,
   core.hashMap, core.module, core.stringIter, core.fiberMeta, core.fiber, core.error, core.stopIter, core.runtimeError, core.attributeError,
   core.indexError, core.importError, core.nameError, core.typeError, core.valueError].map Node.obj ++
  st.heap.rangeCache.toList.map fun (r, _) => Node.obj r

def census (st : State) : Counts :=
  let h := st.heap
  walk h (4 * (h.objs.size + h.cells.size) + 1000000) (roots st) (Array.replicate h.objs.size false) (Array.replicate h.cells.size false) {}

def censusJson (st : State) : String :=
  let c := census st
  "{\"status\":\"census\",\"vec\":" ++ toString c.vec ++ ",\"tuple\":" ++ toString c.tuple ++ ",\"map\":" ++ toString c.map ++
    ",\"instance\":" ++ toString c.instance_ ++ ",\"fiber\":" ++ toString c.fiber ++ ",\"closure\":" ++ toString c.closure ++
    ",\"cells\":" ++ toString c.cells ++ "}"

end Yarel.Spec.Census
