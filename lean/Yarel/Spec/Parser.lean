/-
The spec parser proper: the mutually recursive part of yarel/src/compiler.rs (declarations,
statements, the Pratt expression parser driven by a rule TABLE passed as a parameter).
All functions are total: the recursion is structural on a fuel argument that bounds the nesting depth
plus the length of the longest token run handled by one loop.
-/
import Yarel.Spec.ParserBase

namespace Yarel.Spec
open P

def binOpOfToken : TokenKind → BinOp
  | .bangEqual => .ne | .equalEqual => .eq | .greater => .gt | .greaterEqual => .ge
  | .less => .lt | .lessEqual => .le | .plus => .add | .minus => .sub | .star => .mul
  | .slash => .div | .amp => .bitAnd | .bar => .bitOr | .caret => .bitXor | .percent => .mod
  | .lessLess => .shl | .greaterGreater => .shr
  | .minusEqual => .sub | .plusEqual => .add | .slashEqual => .div | .starEqual => .mul
  | .ampEqual => .bitAnd | .barEqual => .bitOr | .caretEqual => .bitXor | .percentEqual => .mod
  | .lessLessEqual => .shl | .greaterGreaterEqual => .shr
  | _ => .add

/-- bytes emitted by `binary` for the operator -/
def binOpSize : TokenKind → Nat
  | .bangEqual => 2 | .greaterEqual => 2 | .lessEqual => 2 | _ => 1

mutual

/-- `parse_precedence` -/
def parsePrecedence (tbl : List Rule) : Nat → Prec → P Expr
  | 0, _ => do fuelOut; return .nil
  | fuel + 1, prec => do
    advance
    let kind := (← previous).kind
    let canAssign := prec.rank ≤ Prec.assignment.rank
    match (getRule tbl kind).pre with
    | none =>
      error "Expected expression."
      return .nil
    | some h =>
      let lhs ← prefixRule tbl fuel h canAssign
      let lhs ← infixLoop tbl fuel prec canAssign lhs
      if canAssign then
        if ← matchToken .equal then error "Invalid assignment target."
      return lhs

def infixLoop (tbl : List Rule) : Nat → Prec → Bool → Expr → P Expr
  | 0, _, _, lhs => do fuelOut; return lhs
  | fuel + 1, prec, canAssign, lhs => do
    if prec.rank ≤ (getRule tbl (← current).kind).prec.rank then
      advance
      match (getRule tbl (← previous).kind).inf with
      | none => return lhs     -- the Rust code would panic (`unwrap`); unreachable with `rules`
      | some h =>
        let lhs ← infixRule tbl fuel h canAssign lhs
        infixLoop tbl fuel prec canAssign lhs
    else return lhs

/-- `expression()`.  While the right-hand side of a compound assignment is being parsed
(`single_target_mode`) the real parser parses every nested `expression()` at `BitwiseOr` precedence,
which rejects `a += f(1 == 1)` (defect F24).  The purpose of the mode is to forbid a second assignment
target (`m += (n += 3)` must be rejected, see tests/scripts/operator/*_assign_precedence.yl), so the
spec parses nested expressions at `Or` precedence: everything but assignments. -/
def expression (tbl : List Rule) : Nat → P Expr
  | 0 => do fuelOut; return .nil
  | fuel + 1 => do
    if (← get).singleTargetMode then parsePrecedence tbl fuel .or_
    else parsePrecedence tbl fuel .assignment

/-- `argument_list` -/
def argumentList (tbl : List Rule) : Nat → TokenKind → String → String → P (List Expr)
  | 0, _, _, _ => do fuelOut; return []
  | fuel + 1, rightDelim, countMsg, delimMsg => do
    let args ← if !(← check rightDelim) then argumentLoop tbl fuel countMsg 0 [] else pure []
    consume rightDelim delimMsg
    return args

def argumentLoop (tbl : List Rule) : Nat → String → Nat → List Expr → P (List Expr)
  | 0, _, _, acc => do fuelOut; return acc.reverse
  | fuel + 1, countMsg, count, acc => do
    let e ← expression tbl fuel
    if count == 255 then error countMsg
    let acc := e :: acc
    if !(← matchToken .comma) then return acc.reverse
    argumentLoop tbl fuel countMsg (count + 1) acc

/-- `binary_assign`: the value of the target has been read (`getOp`), parse the right-hand side. -/
def binaryAssignRhs (tbl : List Rule) : Nat → P (BinOp × Expr × Nat × Nat)
  | 0 => do fuelOut; return (.add, .nil, 0, 0)
  | fuel + 1 => do
    modify fun s => { s with singleTargetMode := true }
    let opKind := (← previous).kind
    let getLine ← prevLine
    -- the right-hand side itself is parsed at `BitwiseOr` (`a += b == c` is `(a += b) == c`)
    let rhs ← parsePrecedence tbl fuel .bitwiseOr
    emit 1
    let opLine ← prevLine
    modify fun s => { s with singleTargetMode := false }
    return (binOpOfToken opKind, rhs, getLine, opLine)

/-- `named_variable` -/
def namedVariable (tbl : List Rule) : Nat → String → Bool → P Expr
  | 0, _, _ => do fuelOut; return .nil
  | fuel + 1, name, canAssign => do
    let ref ← resolveVariable name
    if canAssign && (← check .equal) then
      advance
      let rhs ← expression tbl fuel
      emitVariableOp ref
      return .assign ref rhs (← prevLine)
    else if canAssign && isBinaryAssignment (← current).kind then
      advance
      emitVariableOp ref
      let (op, rhs, getLine, opLine) ← binaryAssignRhs tbl fuel
      emitVariableOp ref
      return .compoundAssign ref op rhs getLine opLine
    else
      emitVariableOp ref
      return .var ref (← prevLine)

def prefixRule (tbl : List Rule) : Nat → PrefixFn → Bool → P Expr
  | 0, _, _ => do fuelOut; return .nil
  | fuel + 1, h, canAssign => do
    match h with
    | .grouping =>
      let (elems, single) ← if !(← check .rightParen) then groupingLoop tbl fuel 0 [] else pure ([], false)
      let isTuple := elems.length != 1 || single
      if isTuple then emit 2
      consume .rightParen ("Expected ')' after " ++ (if isTuple then "elements" else "expression") ++ ".")
      if isTuple then return .tuple elems
      else return elems.headD .nil
    | .hashMap =>
      let kvs ← if !(← check .rightBrace) then hashMapLoop tbl fuel 0 [] else pure []
      consume .rightBrace "Expected '}' after elements."
      emit 2
      return .map kvs (← prevLine)
    | .vector =>
      let elems ← argumentList tbl fuel .rightBracket "Cannot have more than 255 Vec elements."
        "Expected ']' after elements."
      emit 2
      return .vec elems
    | .unary =>
      let opKind := (← previous).kind
      let e ← parsePrecedence tbl fuel .unary
      emit 1
      let op := match opKind with
        | .minus => UnOp.neg
        | .bang => UnOp.not
        | _ => UnOp.bitNot
      return .unary op e (← prevLine)
    | .lambda =>
      let n := (← compiler).lambdaCount
      modifyCompiler fun c => { c with lambdaCount := c.lambdaCount + 1 }
      newCompiler .function ("lambda-" ++ toString n)
      beginScope
      if (← previous).kind == .bar then
        if !(← check .bar) then
          parameterList ((← get).toks.size + 1) .bar "Cannot have more than 255 parameters."
            "Expected parameter name."
        consume .bar "Expected ')' after parameters."
      let body ←
        if ← matchToken .leftBrace then block tbl fuel
        else do
          let e ← expression tbl fuel
          emit 1
          pure [Stmt.ret (some e)]
      let (fn, caps) ← finaliseCompiler body
      functionConstant
      emit (3 + 2 * caps.length)
      return .closure fn caps
    | .variable => namedVariable tbl fuel (← previous).text canAssign
    | .string =>
      let t := (← previous).text
      emitConstant ("s" ++ t)
      return .str t
    | .interpolation =>
      let parts ← interpolationLoop tbl fuel []
      advance
      let t := (← previous).text
      let parts ← if t != "" then do emitConstant ("s" ++ t); pure (parts ++ [Expr.str t]) else pure parts
      -- the real compiler truncates the count to a byte (defect F10)
      if parts.length > 255 then error "Cannot have more than 255 parts in an interpolated string."
      emit 2
      return .interp parts
    | .number =>
      let t := (← previous).text
      match Num.parse t with
      | some b =>
        emitConstant ("n" ++ toString b.toNat)
        return .num b
      | none =>
        error "Unable to parse number."
        return .nil
    | .literal =>
      emit 1
      match (← previous).kind with
      | .false_ => return .bool false
      | .true_ => return .bool true
      | _ => return .nil
    | .self_ =>
      if (← get).classCompilers.isEmpty then
        error "Cannot use 'self' outside of a class."
        return .nil
      if (← compiler).kind == .staticMethod then
        error "Cannot use 'self' in a static method."
        return .nil
      namedVariable tbl fuel (← previous).text false
    | .capSelf =>
      if (← get).classCompilers.isEmpty then
        error "Cannot use 'Self' outside of a class."
        return .nil
      let e ← namedVariable tbl fuel (← previous).text false
      emit 1
      return .getClass e
    | .super_ =>
      match (← get).classCompilers with
      | [] => error "Cannot use 'super' outside of a class."
      | hasSuper :: _ =>
        if !hasSuper then error "Cannot use 'super' in a class with no superclass."
      consume .dot "Expected '.' after 'super'."
      consume .identifier "Expected superclass method name."
      let name := (← previous).text
      identifierConstant name
      -- slot zero of the nearest enclosing method (repair F37): a function nested in a method captures it
      let recvName := (((← get).compilers.find? fun c => c.kind != .function).bind
        fun c => c.locals[0]?.map (·.name)).getD ""
      let recv ← resolveVariable recvName
      emitVariableOp recv
      if ← matchToken .leftParen then
        let args ← argumentList tbl fuel .rightParen "Cannot have more than 255 arguments."
          "Expected ')' after arguments."
        let sup ← resolveVariable "super"
        emitVariableOp sup
        emit 4
        return .superInvoke name recv args sup (← prevLine)
      else
        let sup ← resolveVariable "super"
        emitVariableOp sup
        emit 3
        return .superGet name recv sup (← prevLine)

def groupingLoop (tbl : List Rule) : Nat → Nat → List Expr → P (List Expr × Bool)
  | 0, _, acc => do fuelOut; return (acc.reverse, false)
  | fuel + 1, count, acc => do
    let e ← expression tbl fuel
    if count == 255 then error "Cannot have more than 255 Tuple elements."
    let acc := e :: acc
    let count := count + 1
    if !(← matchToken .comma) then return (acc.reverse, false)
    if count == 1 && (← check .rightParen) then return (acc.reverse, true)
    groupingLoop tbl fuel count acc

def hashMapLoop (tbl : List Rule) : Nat → Nat → List Expr → P (List Expr)
  | 0, _, acc => do fuelOut; return acc.reverse
  | fuel + 1, count, acc => do
    let k ← expression tbl fuel
    consume .colon "Expected ':' after key."
    let v ← expression tbl fuel
    if count == 255 then error "Cannot have more than 255 HashMap entries."
    let acc := v :: k :: acc
    if !(← matchToken .comma) then return acc.reverse
    hashMapLoop tbl fuel (count + 1) acc

def interpolationLoop (tbl : List Rule) : Nat → List Expr → P (List Expr)
  | 0, acc => do fuelOut; return acc
  | fuel + 1, acc => do
    let t := (← previous).text
    let acc ← if t != "" then do emitConstant ("s" ++ t); pure (acc ++ [Expr.str t]) else pure acc
    let e ← expression tbl fuel
    emit 1
    let acc := acc ++ [Expr.format e]
    if !(← matchToken .interpolation) then return acc
    interpolationLoop tbl fuel acc

def infixRule (tbl : List Rule) : Nat → InfixFn → Bool → Expr → P Expr
  | 0, _, _, lhs => do fuelOut; return lhs
  | fuel + 1, h, canAssign, lhs => do
    match h with
    | .call =>
      let args ← argumentList tbl fuel .rightParen "Cannot have more than 255 arguments."
        "Expected ')' after arguments."
      emit 2
      return .call lhs args (← prevLine)
    | .index =>
      let idx ← expression tbl fuel
      consume .rightBracket "Expected ']' after index."
      if canAssign && (← check .equal) then
        advance
        let rhs ← expression tbl fuel
        emit 1
        return .setIndex lhs idx rhs (← prevLine)
      else
        emit 1
        return .index lhs idx (← prevLine)
    | .dot =>
      consume .identifier "Expected property name after '.'."
      let name := (← previous).text
      identifierConstant name
      if canAssign && (← check .equal) then
        advance
        let rhs ← expression tbl fuel
        emit 3
        return .setProp lhs name rhs (← prevLine)
      else if canAssign && isBinaryAssignment (← current).kind then
        advance
        emit 1
        emit 3
        let (op, rhs, getLine, opLine) ← binaryAssignRhs tbl fuel
        emit 3
        return .compoundSetProp lhs name op rhs getLine opLine
      else if ← matchToken .leftParen then
        let args ← argumentList tbl fuel .rightParen "Cannot have more than 255 arguments."
          "Expected ')' after arguments."
        emit 4
        return .invoke lhs name args (← prevLine)
      else
        emit 3
        return .getProp lhs name (← prevLine)
    | .dotdot =>
      let rhs ← parsePrecedence tbl fuel .unary
      emit 1
      return .range lhs rhs (← prevLine)
    | .binary =>
      let opKind := (← previous).kind
      let rulePrec := (getRule tbl opKind).prec
      let rhs ← parsePrecedence tbl fuel (Prec.ofRank (rulePrec.rank + 1))
      emit (binOpSize opKind)
      return .binary (binOpOfToken opKind) lhs rhs (← prevLine)
    | .and_ =>
      let endJump ← emitJump
      emit 1
      let rhs ← parsePrecedence tbl fuel .and_
      patchJump endJump
      return .and lhs rhs
    | .or_ =>
      let elseJump ← emitJump
      let endJump ← emitJump
      patchJump elseJump
      emit 1
      let rhs ← parsePrecedence tbl fuel .or_
      patchJump endJump
      return .or lhs rhs

/-- `block()`: declarations up to the closing brace. -/
def block (tbl : List Rule) : Nat → P (List Stmt)
  | 0 => do fuelOut; return []
  | fuel + 1 => do
    let body ← blockLoop tbl fuel []
    consume .rightBrace "Expected '}' after block."
    return body

def blockLoop (tbl : List Rule) : Nat → List Stmt → P (List Stmt)
  | 0, acc => do fuelOut; return acc
  | fuel + 1, acc => do
    if !(← check .rightBrace) && !(← check .eof) then
      let ds ← declaration tbl fuel
      blockLoop tbl fuel (acc ++ ds)
    else return acc

/-- `function(kind)`: parameters and body of a named function; returns the `Closure` operands. -/
def function (tbl : List Rule) : Nat → FnKind → P (FnDecl × List Capture)
  | 0, _ => do fuelOut; return (default, [])
  | fuel + 1, kind => do
    let name := (← previous).text
    newCompiler kind name
    beginScope
    consume .leftParen "Expected '(' after function name."
    if kind == .initialiser || kind == .method then
      consume .self_ "Expected 'self' as first parameter in method."
      let _ ← matchToken .comma
    else if ← matchToken .self_ then
      error "Expected parameter name."
      let _ ← matchToken .comma
    if !(← check .rightParen) then
      parameterList ((← get).toks.size + 1) .rightParen "Cannot have more than 255 parameters."
        "Expected parameter name."
    consume .rightParen "Expected ')' after parameters."
    consume .leftBrace "Expected '{' before function body."
    if kind == .initialiser then emit 2
    let body ← block tbl fuel
    let (fn, caps) ← finaliseCompiler body
    functionConstant
    emit (3 + 2 * caps.length)
    return (fn, caps)

/-- `method()` -/
def method (tbl : List Rule) : Nat → P MethodDecl
  | 0 => do fuelOut; return .mk "" false default []
  | fuel + 1 => do
    if ← matchToken .hash then attributesDeclaration
    let staticAttr ← takeAttribute "static" 0
    let ctorAttr ← takeAttribute "constructor" 0
    checkSupportedAttributes "method"
    consume .fn_ "Expected 'fn' before method name."
    consume .identifier "Expected method name."
    let name := (← previous).text
    identifierConstant name
    let kind ←
      if ctorAttr.isSome then do
        match staticAttr with
        | some a => errorAt a.name "Constructors cannot be static."
        | none => pure ()
        pure FnKind.initialiser
      else if staticAttr.isSome then pure FnKind.staticMethod
      else pure FnKind.method
    let (fn, caps) ← function tbl fuel kind
    emit 3
    return .mk name (kind != .method) fn caps

def methodLoop (tbl : List Rule) : Nat → List MethodDecl → P (List MethodDecl)
  | 0, acc => do fuelOut; return acc
  | fuel + 1, acc => do
    if !(← check .rightBrace) && !(← check .eof) then
      let m ← method tbl fuel
      methodLoop tbl fuel (acc ++ [m])
    else return acc

/-- `class_declaration()` -/
def classDeclaration (tbl : List Rule) : Nat → P (List Stmt)
  | 0 => do fuelOut; return []
  | fuel + 1 => do
    let ctorAttr ← takeAttribute "constructor" 1
    let ctorName := ctorAttr.bind fun a => a.arguments.head?
    let superAttr ← takeAttribute "derive" 1
    let superName := superAttr.bind fun a => a.arguments.head?
    checkSupportedAttributes "class"
    consume .identifier "Expected class name."
    let name ← previous
    identifierConstant name.text
    declareVariable
    let isGlobal := (← scopeDepth) == 0
    emit 3
    defineVariable
    modify fun s => { s with classCompilers := false :: s.classCompilers }
    let mut hasSuper := false
    let mut superRef : VarRef := .global ""
    let mut superGetLine := 0
    let mut superLine := 0
    match superName with
    | some sn =>
      let r ← resolveVariable sn.text
      emitVariableOp r
      superRef := r
      superGetLine ← prevLine
      superLine := sn.line
      if name.text == sn.text then error "A class cannot inherit from itself."
      beginScope
      addHiddenLocal "super"
      defineVariable
      let r2 ← resolveVariable name.text
      emitVariableOp r2
      emit 1
      modify fun s => { s with classCompilers := true :: s.classCompilers.drop 1 }
      hasSuper := true
    | none => pure ()
    let setRef ← resolveVariable name.text
    let r3 ← resolveVariable name.text
    emitVariableOp r3
    consume .leftBrace "Expected '{' before class body."
    match ctorName with
    | some cn =>
      -- `initialiser(name)`: a parameterless constructor
      identifierConstant cn.text
      newCompiler .initialiser cn.text
      beginScope
      emit 2
      let _ ← finaliseCompiler []
      functionConstant
      emit 3
      emit 3
    | none => pure ()
    let methods ← methodLoop tbl fuel []
    consume .rightBrace "Expected '}' after class body."
    emit 1
    emitVariableOp setRef
    emit 1
    if hasSuper then endScope
    modify fun s => { s with classCompilers := s.classCompilers.drop 1 }
    return [.classDecl (.mk name.text (if isGlobal then some name.text else none) hasSuper superRef
      superGetLine superLine setRef (ctorName.map (·.text)) methods)]

/-- `fn_declaration()` -/
def fnDeclaration (tbl : List Rule) : Nat → P (List Stmt)
  | 0 => do fuelOut; return []
  | fuel + 1 => do
    checkSupportedAttributes "function"
    let g ← parseVariable "Expected function name."
    markInitialised
    let (fn, caps) ← function tbl fuel .function
    defineVariable
    match g with
    | some name => return [.fnGlobal name fn caps]
    | none => return [.fnLocal fn caps]

/-- `var_declaration()` -/
def varDeclaration (tbl : List Rule) : Nat → P (List Stmt)
  | 0 => do fuelOut; return []
  | fuel + 1 => do
    checkNoAttributes
    let g ← parseVariable "Expected variable name."
    let init ←
      if ← matchToken .equal then expression tbl fuel
      else do emit 1; pure Expr.nil
    consume .semiColon "Expected ';' after variable declaration."
    defineVariable
    match g with
    | some name => return [.varGlobal name init]
    | none => return [.varLocal init]

/-- `statement()` -/
def statement (tbl : List Rule) : Nat → P (List Stmt)
  | 0 => do fuelOut; return []
  | fuel + 1 => do
    checkNoAttributes
    if ← matchToken .import_ then
      consume .str "Expected a module path."
      let path ← previous
      if path.text == "main" then error "Cannot import top-level module."
      identifierConstant path.text
      let nameTok : Option Token ←
        if ← matchToken .as_ then do
          consume .identifier "Expected module name."
          pure (some (← previous))
        else
          match fileName path.text with
          | some f => pure (some { kind := .eof, line := (← current).line, text := f })
          | none => do
            error "Expected a module path."
            pure none
      match nameTok with
      | none => return []
      | some name =>
        modify fun s => { s with previous := name }
        declareVariable
        let isGlobal := (← scopeDepth) == 0
        emit 3
        let line ← prevLine
        consume .semiColon "Expected ';' after module import."
        emit 1
        identifierConstant name.text
        defineVariable
        return [.import path.text (if isGlobal then some name.text else none) line]
    else if ← matchToken .for_ then
      beginScope
      if !(← matchToken .identifier) then
        errorAtCurrent "Expected loop variable name."
        return []
      declareVariable
      let loopVar := (← compiler).locals.size - 1
      emit 1
      consume .in_ "Expected 'in' after loop variable."
      let iterable ← expression tbl fuel
      markInitialisedAt loopVar
      addHiddenLocal "... temp-iter-var ..."
      identifierConstant "iter"
      emit 4
      let line ← prevLine
      markInitialised
      pushLoop
      let loopStart ← codeLen
      emit 3
      let exitJump ← emitJump
      emit 1
      consume .leftBrace "Expected '{' after loop expression."
      beginScope
      let body ← block tbl fuel
      endScope
      emitLoop loopStart
      patchJump exitJump
      emit 1
      popLoop
      endScope
      return [.for iterable line body]
    else if ← matchToken .if_ then
      let cond ← expression tbl fuel
      let thenJump ← emitJump
      emit 1
      consume .leftBrace "Expected '{' after condition."
      beginScope
      let thn ← block tbl fuel
      endScope
      let elseJump ← emitJump
      patchJump thenJump
      emit 1
      let els ←
        if ← matchToken .else_ then do
          if !((← check .if_) || (← check .leftBrace)) then errorAtCurrent "Expected '{' after 'else'."
          statement tbl fuel
        else pure []
      patchJump elseJump
      return [.ifElse cond thn els]
    else if ← matchToken .return_ then
      if (← compiler).kind == .script then error "Cannot return from top-level code."
      if ← matchToken .semiColon then
        emitReturn
        return [.ret none]
      else
        if (← compiler).kind == .initialiser then error "Cannot return a value from an initialiser."
        let e ← expression tbl fuel
        consume .semiColon "Expected ';' after return value."
        if (← compiler).inTryBlock then emit 1
        emit 1
        return [.ret (some e)]
    else if ← matchToken .break_ then
      let pos ← emitJump
      match ← currentLoopHeader with
      | none =>
        error "Cannot use 'break' statement outside of loop body."
        return []
      | some (_, depth) =>
        modifyCompiler fun c =>
          match c.breakStack with
          | b :: rest => { c with breakStack := (pos :: b) :: rest }
          | [] => c
        emitScopeEnd false depth
        consume .semiColon "Expected ';' after 'break'."
        return [.brk]
    else if ← matchToken .continue_ then
      match ← currentLoopHeader with
      | none =>
        error "Cannot use 'continue' statement outside of loop body."
        return []
      | some (target, depth) =>
        emitScopeEnd false depth
        emitLoop target
        consume .semiColon "Expected ';' after 'continue'."
        return [.cont]
    else if ← matchToken .throw_ then
      let e ← expression tbl fuel
      consume .semiColon "Expected ';' after throw value."
      emit 1
      return [.throw e (← prevLine)]
    else if ← matchToken .try_ then
      let prevInTry := (← compiler).inTryBlock
      modifyCompiler fun c => { c with inTryBlock := true }
      emit 1
      emit 4
      let postPos ← codeLen
      consume .leftBrace "Expected '{' after 'try'."
      beginScope
      let body ← block tbl fuel
      endScope
      modifyCompiler fun c => { c with inTryBlock := prevInTry }
      emit 1
      let catchJump ← emitJump
      patchOffsetAt postPos
      let catchStart ← codeLen
      let haveCatch ← matchToken .catch_
      let mut catchBody : List Stmt := []
      if haveCatch then
        emit 1
        if !(← matchToken .identifier) then
          errorAtCurrent "Expected exception variable name."
          return []
        beginScope
        declareVariable
        markInitialised
        consume .leftBrace "Expected '{' after variable."
        catchBody ← block tbl fuel
        endScope
      patchJump catchJump
      patchOffsetAt catchStart
      let haveFinally ← matchToken .finally_
      let mut finallyBody : List Stmt := []
      let mut endLine := 0
      if haveFinally then
        consume .leftBrace "Expected '{' after 'finally'."
        beginScope
        finallyBody ← block tbl fuel
        endScope
        emit 1
        endLine ← prevLine
      if !haveCatch && !haveFinally then
        error "Expected 'catch' or 'finally' after 'try' block."
        return []
      return [.try body haveCatch catchBody haveFinally finallyBody endLine]
    else if ← matchToken .while_ then
      pushLoop
      let loopStart ← codeLen
      let cond ← expression tbl fuel
      let exitJump ← emitJump
      emit 1
      consume .leftBrace "Expected '{' after condition."
      beginScope
      let body ← block tbl fuel
      endScope
      emitLoop loopStart
      patchJump exitJump
      emit 1
      popLoop
      return [.while cond body]
    else if ← matchToken .leftBrace then
      beginScope
      let body ← block tbl fuel
      endScope
      return [.block body]
    else
      let e ← expression tbl fuel
      consume .semiColon "Expected ';' after expression."
      emit 1
      return [.expr e]

/-- `declaration()` -/
def declaration (tbl : List Rule) : Nat → P (List Stmt)
  | 0 => do fuelOut; return []
  | fuel + 1 => do
    -- (statement-level `if`s: a term-level chain would hoist all the `matchToken`s to the front)
    let r ← do
      if ← matchToken .class_ then
        classDeclaration tbl fuel
      else if ← matchToken .fn_ then
        fnDeclaration tbl fuel
      else if ← matchToken .hash then
        attributesDeclaration
        pure []
      else if ← matchToken .var_ then
        varDeclaration tbl fuel
      else
        statement tbl fuel
    if (← get).panicMode then synchronise
    return r

/-- the top-level loop of `parse()` -/
def programLoop (tbl : List Rule) : Nat → List Stmt → P (List Stmt)
  | 0, acc => do fuelOut; return acc
  | fuel + 1, acc => do
    if ← matchToken .eof then return acc
    let ds ← declaration tbl fuel
    programLoop tbl fuel (acc ++ ds)

end

/-- Result of compiling one source text. -/
inductive CompileResult
  | ok (script : FnDecl)
  | error (messages : List String)

/-- `compiler::compile(source, module_path)` with an explicit rule table. -/
def compileWith (tbl : List Rule) (source : String) (modulePath : String) : CompileResult :=
  let toks := scanAll source
  let fuel := 16 * toks.size + 64
  let init : PState := { toks := toks, compilers := [Compiler.new .script ""], modulePath := modulePath }
  let prog : P (List Stmt) := do
    advance
    let body ← programLoop tbl fuel []
    checkNoAttributes
    return body
  let (body, s) := prog.run init
  if !s.errors.isEmpty then .error s.errors.toList
  else .ok (.mk "" 0 .script body)

def compile (source : String) (modulePath : String := "main") : CompileResult :=
  compileWith rules source modulePath

end Yarel.Spec
