/-
Where the spec model (S) copies surprising behaviour of the Rust implementation ("quirks"), and where
it deliberately does NOT ("deviations": known defects of the Rust code; (S) implements the intended
semantics).  Every item was observed with the real runner; a minimal program is given where useful.
This file contains documentation only.
-/
namespace Yarel.Spec.Quirks

/--
# Quirks: behaviour of the implementation that (S) reproduces

## Scanner
* Q-S1 `\uXXXX` / `\UXXXXXXXX` are 2 / 4 BYTES interpreted as UTF-8, not a code point
  (`"쎩"` is `é`, `"é"` is "Invalid Unicode sequence.").
* Q-S2 `\xNN` with NN > 0x7f yields the two bytes `[0xC3, NN & 0xBF]` (`"\x80"` is `À`, not U+0080).
* Q-S3 hex escapes go through `u8::from_str_radix`, which accepts a leading `+` (`"\x+f"` is U+000F).
* Q-S4 after an error token inside a string literal scanning resumes in the middle of the literal.
* Q-S5 a number literal is `digits[.digits]`; `1.len`, `1..3`, `1.` scan as `1` `.`…; no exponent syntax.

## Parser / compiler
* Q-P1 `a op= rhs` parses `rhs` at `BitwiseOr` precedence: `a += b == c` is `(a += b) == c`,
  `var t = a += 1 < 3` assigns `(a += 1) < 3`.
* Q-P2 a second assignment target inside a compound assignment is rejected: `m += (n += 3)` is
  "Expected ')' after expression." at the inner operator (tests/scripts/operator/*_assign_precedence.yl).
* Q-P3 `a[i] op= v` is not supported ("Expected ';' after expression." at the operator); `a[i] = v` used as
  a value is nil (SetItem leaves nil), unlike variable and property assignment, which yield `v`.
* Q-P4 the body of a function shares the scope of its parameters, the body of `catch e {…}` shares the
  scope of `e` (`fn f(a) { var a; }` and `catch e { var e; }` are "already declared" errors); a script
  has the hidden local `self` in slot 0, a plain function a nameless one.
* Q-P5 `Self` inside a NON-static method is an ordinary variable lookup (a NameError at run time unless a
  variable `Self` exists); `self` in a function nested in a method is a captured variable.
* Q-P6 `import "p"` without `as` binds the last path component; the synthetic name token has kind `Eof`,
  so an error reported at it says "at end" (`{ import "util"; import "util"; }`).
* Q-P7 `for` with a missing loop variable returns without closing the scope it opened.
* Q-P8 (gone) `#[a, b]` attributes lived in a randomly seeded hash map, so which unsupported attribute was
  reported first changed from run to run; since F47 they are reported in source order, as the spec does.
* Q-P9 at most 255 arguments / parameters / elements, 256 locals (slot 0 included), 256 captured
  variables, 65536 constants per function, jump distances limited (see deviation F9).
* Q-P10 the interpolation handler consumes whatever token follows the last `${…}` without checking it.
* Q-P11 `>=` is compiled as `!(a < b)` and `<=` as `!(a > b)`: both are `true` when a NaN is involved;
  `!=` is `!(a == b)`.

## Values
* Q-V1 bound NATIVE methods never compare equal, not even to themselves (`var m = v.len; m == m` is
  false); bound closures compare by identity of the bound-method object (`a.m == a.m` is false).
* Q-V2 ranges come from an 8-entry cache (the entry created first is replaced first; a hit does not
  refresh it) and compare BY IDENTITY: `(1..2) == (1..2)` is true while the entry is cached, false after
  eight other ranges were created.  The cache survives `Vm::reset`.  Range hash-map keys hit only through
  the cache too.
* Q-V3 `Bool` is the global name of the class whose own name is `Boolean` (`print(Bool)` = `<class Boolean>`).
* Q-V4 strings are byte-indexed; `s[i]` yields the whole character starting at byte i; indexing inside a
  character is an IndexError; negative indices count from the end; `x[a..b]` with `b < a` is empty;
  a slice start must be < len (so `""[0..0]` and `[][0..0]` fail).
* Q-V5 `..` validates its END operand first (`1.5..nil` complains about `nil`); bounds are `as isize`
  (infinite bounds saturate).
* Q-V6 display: integral numbers without `.0`, never exponent notation, `-0`, `inf`, `NaN`; one-element
  tuples `(1,)`; containers print `[...]` / `(...)` / `{...}` when they contain themselves; StringIter
  and RangeIter print without brackets/address (`ObjStringIter instance`).
* Q-V7 hash-map keys: nil, booleans, numbers, strings, classes, ranges, tuples of those; `1` and `1.0`
  are the same key, `true` and `1` are not; a NaN key never hits; inserting an existing key keeps the old
  key object; enumeration order (`keys/values/items`, display) is unspecified — the spec enumerates in
  insertion order and flags the step `"unordered":true` when ≥ 2 entries were enumerated.
* Q-V8 static methods and constructors live in the class' method table too (callable on instances:
  `inst.new(…)` re-initialises `inst`), but are NOT inherited by the metaclass of a subclass:
  `#[derive(Base)] class D {}` then `D.new()` / `RuntimeError.new("x")` is "Undefined property 'new'".
  A later non-static method of the same name removes the static entry from the metaclass.
* Q-V9 fields of an instance and attributes of a module shadow methods in calls (`obj.f()` calls field f).
* Q-V10 the `for` loop assigns the sentinel to the loop variable before testing it and stops only on an
  instance whose class IS `StopIter` (an instance of a subclass does not stop the loop, although
  `MapIter`/`FilterIter` use `derives(StopIter)`).
* Q-V11 `Object.derives` wants a class ("Expected a class name but found '…'." is a ValueError).

## Calls, errors, traces
* Q-E1 64 call frames per fiber including the script/fiber body ("Stack overflow." is an IndexError).
* Q-E2 exceptions never cross a fiber boundary: an exception not handled inside the running fiber ends
  the whole run; the trace lists the calls of that fiber only.
* Q-E3 an uncaught value that is an instance is reported as `Unhandled <class name>: <context field or
  the value>`; the error kind is the EXACT built-in error class (an instance of a subclass of TypeError is
  kind RuntimeError); anything else is `Unhandled exception: <value>`; the text is split into lines.
* Q-E4 trace line of the innermost call: the line of the failing instruction; a `throw` statement and
  (since the repair F36) every built-in error record their own line (`error_ip`), which is used when the
  exception is re-raised by a `finally` of the same call; when `finally` re-raises an exception that came
  from a deeper call, the line is that of the `}` closing the `finally` block.
* Q-E5 instruction lines are those of the token preceding the emitted byte: a binary operator reports the
  line of the last token of its right operand, a call the line of `)`, `x.f = e` the end of `e`,
  the superclass lookup of a class declaration the line of the class name, `Superclass must be a class.`
  the line of the attribute argument, a failing `for` (`iter`/`next`) the end of the iterable expression.
* Q-E6 after a failed import (compile error aside) the module stays registered as "being imported":
  importing it again reports a circular dependency.
* Q-E7 imported modules get fresh built-in globals (`print`, `type`, `clock` are different objects per
  module); the classes of core.yl (`Error`, `StopIter`, …) are built-in names there too (since the repair F33).
* Q-E8 `Vm::reset` clears the globals of "main" and re-seeds the built-ins, the classes of core.yl included
  (F33); the host natives the runner defined are gone afterwards.
* Q-E9 after an uncaught error the fiber that was running counts as finished, its callers stay
  "already called"; a fiber object survives across snippets.
* Q-E10 native arity errors say "parameter(s)", closure arity errors "arguments".
* Q-E11 `clock()` ignores its arguments (the spec returns 0).

# Deviations: defects of the implementation that (S) does NOT reproduce

* F4  natives called on an instance of a class derived from a native class panic
      (`#[constructor(new), derive(Vec)] class V {} V.new().push(1);`).  (S): TypeError
      "Built-in method 'push' cannot be called on '<V instance @ [MEMADDR]>'." (after the arity check).
* F5  `==` on cyclic containers recurses without bound.  (S): the step ends with status `timeout`.
* F6/F7 value-stack / native-stack exhaustion.  (S) has no such limits (only Q-E1 and the fuel).
* F9  a jump of exactly 65536 bytes is accepted and wraps.  (S) tracks the code size the real compiler
      would emit and reports "Too much code to jump over." / "Loop body too large." /
      "Too much code in block." above 65535.
* F10 more than 255 interpolation parts wrap.  (S): compile error
      "Cannot have more than 255 parts in an interpolated string.".
* F11 returning / unwinding through `try` truncates the stack without closing captured variables.
      (S): variables are cells, closures keep them.
* F12 the catch block pops the enclosing handler:
      `try { try { throw "a"; } catch e {} throw "b"; } catch e2 { print(e2); }` loses "b".
      (S): handling an exception never disables an outer handler (also across calls).
* F13 `break` / `continue` out of `try` leave the handler installed.  (S): leaving a `try` statement by
      any path removes its frame and runs `finally` exactly once.
* F14 an exception thrown in `catch` skips the statement's `finally`.  (S): `finally` runs, then the new
      exception propagates.
* F15 `return` inside `try` without `finally` (and inside `catch`) does not return / skips `finally`.
      (S): it returns, running every enclosing `finally` of the function, innermost first.
      Related shapes (S) also fixes: `return` through two nested `try…finally` runs both; `return`
      in `finally` discards a pending exception (the real VM leaves `handling_exception` set).
* F16 `Fiber.yield()` resumed by `call()` without argument evaluates to the `Fiber` class.  (S): nil.
* F17 `0` and `-0` are `==` but hash differently.  (S): keys that are `==` denote the same entry.
* F18 `handling_exception` survives an uncaught throw into the next snippet.  (S): no residue.
* F20 an uncaught `RuntimeError` instance is reported with kind `CompileError`.  (S): `RuntimeError`.
* F21 `break` leaves loop-body locals on the stack.  (S): block scoping.
* F23 locals of a `finally` block are mis-addressed on the exception path.  (S): block scoping.
* F24 inside the right-hand side of a compound assignment every nested expression is parsed at
      `BitwiseOr` precedence, so `a += f(1 == 1)` is a compile error.  (S): nested expressions are parsed
      at `Or` precedence (everything but assignments, keeping Q-P2); the right-hand side itself stays at
      `BitwiseOr` (Q-P1).  Remaining difference from "ordinary expression": none for well-formed input
      except the unparenthesised lambda body `a += |x| x == 1`.
* F25 (found while building (S)) `error_ip` is never cleared: after a CAUGHT `throw` every later uncaught
      error of that fiber reports the line of the old `throw`
      (`try { throw "a"; } catch e {}` ⏎ ⏎ `var x = 1 + nil;` reports line 1), and if the `throw` was in
      another function the trace code indexes the wrong chunk and panics
      (`fn f() { throw "a"; } try { f(); } catch e {} 1 + nil;`, also
      `fn g() { throw "x"; } fn f() { try { g(); } finally {} } f();`).
      (S): catching an exception clears the recorded line, and a recorded line is used only by the call
      that executed the `throw` (Q-E4).
-/
def documentation : Unit := ()

end Yarel.Spec.Quirks
