/-
Model of yarel/src/scanner.rs: `scanAll src` is the token stream the real scanner produces for `src`,
up to and including the first `Eof` (after which the real scanner returns `Eof` forever).

The source is handled as an array of characters; all positions the Rust code computes are character
boundaries, so character indices and byte offsets are in bijection.
-/
import Yarel.Spec.Token

namespace Yarel.Spec

structure Scanner where
  src : Array Char
  start : Nat := 0
  current : Nat := 0
  line : Nat := 1
  /-- `parantheses` of the Rust scanner: brace depth per open interpolation, innermost first. -/
  parens : List Nat := []
  deriving Repr

namespace Scanner

def interpolationDepthMax : Nat := 8

def isAlpha (c : Char) : Bool :=
  ('a' ≤ c && c ≤ 'z') || ('A' ≤ c && c ≤ 'Z') || c == '_'

def isDigit (c : Char) : Bool := '0' ≤ c && c ≤ '9'

def isAtEnd (s : Scanner) : Bool := s.current ≥ s.src.size

/-- `peek()`: `none` models the empty slice at end of input. -/
def peek (s : Scanner) : Option Char := s.src[s.current]?

def peekNext (s : Scanner) : Option Char := s.src[s.current + 1]?

/-- `advance()`: at end of input the Rust code returns `""` and does not move. -/
def advance (s : Scanner) : Option Char × Scanner :=
  match s.src[s.current]? with
  | some c => (some c, { s with current := s.current + 1 })
  | none => (none, s)

def matchChar (s : Scanner) (c : Char) : Bool × Scanner :=
  match s.src[s.current]? with
  | some d => if d == c then (true, { s with current := s.current + 1 }) else (false, s)
  | none => (false, s)

def lexeme (s : Scanner) : String :=
  String.ofList ((s.src.extract s.start s.current).toList)

def makeToken (s : Scanner) (k : TokenKind) : Token := { kind := k, line := s.line, text := s.lexeme }

def errorToken (s : Scanner) (msg : String) : Token := { kind := .error, line := s.line, text := msg }

/-- `skip_whitespace`; the fuel is the number of remaining characters + 1. -/
def skipLineComment : Nat → Scanner → Scanner
  | 0, s => s
  | n + 1, s =>
    match s.peek with
    | none => s
    | some '\n' => s
    | some _ => skipLineComment n { s with current := s.current + 1 }

def skipWhitespace : Nat → Scanner → Scanner
  | 0, s => s
  | n + 1, s =>
    match s.peek with
    | none => s
    | some ' ' => skipWhitespace n { s with current := s.current + 1 }
    | some '\r' => skipWhitespace n { s with current := s.current + 1 }
    | some '\t' => skipWhitespace n { s with current := s.current + 1 }
    | some '\n' => skipWhitespace n { s with current := s.current + 1, line := s.line + 1 }
    | some '/' =>
      if s.peekNext == some '/' then
        skipWhitespace n (skipLineComment (s.src.size + 1) s)
      else s
    | some _ => s

def keywordKind (text : String) : TokenKind :=
  if text == "as" then .as_ else if text == "break" then .break_
  else if text == "catch" then .catch_ else if text == "class" then .class_
  else if text == "continue" then .continue_ else if text == "else" then .else_
  else if text == "false" then .false_ else if text == "finally" then .finally_
  else if text == "for" then .for_ else if text == "fn" then .fn_
  else if text == "if" then .if_ else if text == "in" then .in_
  else if text == "import" then .import_ else if text == "nil" then .nil_
  else if text == "return" then .return_ else if text == "Self" then .capSelf
  else if text == "self" then .self_ else if text == "super" then .super_
  else if text == "throw" then .throw_ else if text == "true" then .true_
  else if text == "try" then .try_ else if text == "var" then .var_
  else if text == "while" then .while_ else .identifier

def identTail : Nat → Scanner → Scanner
  | 0, s => s
  | n + 1, s =>
    match s.peek with
    | some c => if isAlpha c || isDigit c then identTail n { s with current := s.current + 1 } else s
    | none => s

def digitsTail : Nat → Scanner → Scanner
  | 0, s => s
  | n + 1, s =>
    match s.peek with
    | some c => if isDigit c then digitsTail n { s with current := s.current + 1 } else s
    | none => s

def identifier (s : Scanner) : Token × Scanner :=
  let s := identTail (s.src.size + 1) s
  (s.makeToken (keywordKind s.lexeme), s)

def number (s : Scanner) : Token × Scanner :=
  let s := digitsTail (s.src.size + 1) s
  let s :=
    match s.peek, s.peekNext with
    | some '.', some d =>
      if isDigit d then digitsTail (s.src.size + 1) { s with current := s.current + 1 } else s
    | _, _ => s
  (s.makeToken .number, s)

def hexDigitVal (c : Char) : Option Nat :=
  if '0' ≤ c && c ≤ '9' then some (c.toNat - 48)
  else if 'a' ≤ c && c ≤ 'f' then some (c.toNat - 87)
  else if 'A' ≤ c && c ≤ 'F' then some (c.toNat - 55)
  else none

/-- `u8::from_str_radix(two characters, 16)`: Rust accepts a leading `+`. -/
def parseHexByte (a b : Char) : Option Nat :=
  if a == '+' then hexDigitVal b
  else
    match hexDigitVal a, hexDigitVal b with
    | some x, some y => some (x * 16 + y)
    | _, _ => none

/-- Reads the two characters of one escaped byte.  `none` = `Err(())`. -/
def readEscapedByte (s : Scanner) : Option Nat × Scanner :=
  match s.src[s.current]? with
  | none => (none, s)
  | some a =>
    if a == '"' then (none, s)
    else
      -- a line end consumed as a "digit" is still a line of the source (repair F45)
      let s1 := { s with current := s.current + 1, line := if a == '\n' then s.line + 1 else s.line }
      match s1.src[s1.current]? with
      | none => (none, s1)
      | some b =>
        if b == '"' then (none, s1)
        else
          let s2 := { s1 with current := s1.current + 1, line := if b == '\n' then s1.line + 1 else s1.line }
          (parseHexByte a b, s2)

def readEscapedBytesAux : Nat → List Nat → Scanner → Option (List Nat) × Scanner
  | 0, acc, s => (some acc.reverse, s)
  | n + 1, acc, s =>
    match readEscapedByte s with
    | (some b, s') => readEscapedBytesAux n (b :: acc) s'
    | (none, s') => (none, s')

/-- `read_escaped_bytes(num_bytes)`: the bytes are interpreted as UTF-8 (not as a code point);
a single byte above 127 is turned into the two-byte sequence `[195, b & 0xBF]`. -/
def readEscapedBytes (s : Scanner) (numBytes : Nat) : Option String × Scanner :=
  match readEscapedBytesAux numBytes [] s with
  | (none, s') => (none, s')
  | (some bytes, s') =>
    let bytes :=
      match numBytes, bytes with
      | 1, [b] => if b > 127 then [195, b &&& 0xBF] else [b]
      | _, bs => bs
    let ba : ByteArray := ⟨(bytes.map UInt8.ofNat).toArray⟩
    (String.fromUTF8? ba, s')

/-- `string()`: the body of a string literal, or its continuation after `}` of an interpolation. -/
def stringBody : Nat → Scanner → List Char → Option String → Token × Scanner
  | 0, s, _, _ => (s.errorToken "Unterminated string.", s)
  | n + 1, s, buf, err =>
    match s.peek with
    | none => (s.errorToken "Unterminated string.", s)
    | some '"' =>
      let s := { s with current := s.current + 1 }
      match err with
      | some msg => (s.errorToken msg, s)
      | none => ({ kind := .str, line := s.line, text := String.ofList buf.reverse }, s)
    | some '$' =>
      let s := { s with current := s.current + 1 }
      let (c, s) := s.advance
      if c != some '{' then
        -- a line end consumed in place of the brace still ends a line (F51)
        (s.errorToken "Expected '{' in string interpolation.", if c == some '\n' then { s with line := s.line + 1 } else s)
      else if s.parens.length ≥ interpolationDepthMax then
        (s.errorToken "Max interpolation depth exceeded.", s)
      else
        let s := { s with parens := 1 :: s.parens }
        ({ kind := .interpolation, line := s.line, text := String.ofList buf.reverse }, s)
    | some '\\' =>
      let s := { s with current := s.current + 1 }
      let (c, s) := s.advance
      match c with
      | some '$' => stringBody n s ('$' :: buf) err
      | some 'a' => stringBody n s ('\x07' :: buf) err
      | some 'b' => stringBody n s ('\x08' :: buf) err
      | some 'f' => stringBody n s ('\x0c' :: buf) err
      | some 'n' => stringBody n s ('\n' :: buf) err
      | some 'r' => stringBody n s ('\r' :: buf) err
      | some 't' => stringBody n s ('\t' :: buf) err
      | some 'v' => stringBody n s ('\x0b' :: buf) err
      | some '"' => stringBody n s ('"' :: buf) err
      | some '\\' => stringBody n s ('\\' :: buf) err
      | some '0' => stringBody n s ('\x00' :: buf) err
      | some 'u' =>
        match readEscapedBytes s 2 with
        | (some str, s) => stringBody n s (str.toList.reverse ++ buf) err
        | (none, s) => stringBody n s buf (some "Invalid Unicode sequence.")
      | some 'U' =>
        match readEscapedBytes s 4 with
        | (some str, s) => stringBody n s (str.toList.reverse ++ buf) err
        | (none, s) => stringBody n s buf (some "Invalid Unicode sequence.")
      | some 'x' =>
        match readEscapedBytes s 1 with
        | (some str, s) => stringBody n s (str.toList.reverse ++ buf) err
        | (none, s) => stringBody n s buf (some "Invalid hexadecimal sequence.")
      | _ => (s.errorToken "Invalid escape sequence.", if c == some '\n' then { s with line := s.line + 1 } else s)
    | some '\n' =>
      stringBody n { s with current := s.current + 1, line := s.line + 1 } ('\n' :: buf) err
    | some c => stringBody n { s with current := s.current + 1 } (c :: buf) err

def string (s : Scanner) : Token × Scanner :=
  stringBody (s.src.size + 2) s [] none

def binaryToken (s : Scanner) (bare assign : TokenKind) : Token × Scanner :=
  let (m, s) := s.matchChar '='
  (s.makeToken (if m then assign else bare), s)

/-- `scan_token()`. -/
def scanToken (s : Scanner) : Token × Scanner :=
  let s := skipWhitespace (s.src.size + 1) s
  let s := { s with start := s.current }
  match s.advance with
  | (none, s) => (s.makeToken .eof, s)
  | (some c, s) =>
    if isAlpha c then s.identifier
    else if isDigit c then s.number
    else
      match c with
      | '(' => (s.makeToken .leftParen, s)
      | ')' => (s.makeToken .rightParen, s)
      | '{' =>
        let s := match s.parens with
          | n :: rest => { s with parens := (n + 1) :: rest }
          | [] => s
        (s.makeToken .leftBrace, s)
      | '}' =>
        match s.parens with
        | n :: rest =>
          if n - 1 == 0 then
            let s := { s with parens := rest }
            s.string
          else
            let s := { s with parens := (n - 1) :: rest }
            (s.makeToken .rightBrace, s)
        | [] => (s.makeToken .rightBrace, s)
      | '[' => (s.makeToken .leftBracket, s)
      | ']' => (s.makeToken .rightBracket, s)
      | ':' => (s.makeToken .colon, s)
      | ';' => (s.makeToken .semiColon, s)
      | ',' => (s.makeToken .comma, s)
      | '#' => (s.makeToken .hash, s)
      | '.' =>
        let (m, s) := s.matchChar '.'
        (s.makeToken (if m then .dotDot else .dot), s)
      | '-' => s.binaryToken .minus .minusEqual
      | '+' => s.binaryToken .plus .plusEqual
      | '/' => s.binaryToken .slash .slashEqual
      | '*' => s.binaryToken .star .starEqual
      | '!' => s.binaryToken .bang .bangEqual
      | '=' => s.binaryToken .equal .equalEqual
      | '<' =>
        let (dbl, s) := s.matchChar '<'
        let (eq, s) := s.matchChar '='
        let k := match dbl, eq with
          | true, true => TokenKind.lessLessEqual
          | true, false => .lessLess
          | false, true => .lessEqual
          | false, false => .less
        (s.makeToken k, s)
      | '>' =>
        let (dbl, s) := s.matchChar '>'
        let (eq, s) := s.matchChar '='
        let k := match dbl, eq with
          | true, true => TokenKind.greaterGreaterEqual
          | true, false => .greaterGreater
          | false, true => .greaterEqual
          | false, false => .greater
        (s.makeToken k, s)
      | '|' =>
        let (m, s1) := s.matchChar '|'
        if m then (s1.makeToken .barBar, s1)
        else
          let (m, s2) := s.matchChar '='
          if m then (s2.makeToken .barEqual, s2) else (s.makeToken .bar, s)
      | '&' =>
        let (m, s1) := s.matchChar '&'
        if m then (s1.makeToken .ampAmp, s1)
        else
          let (m, s2) := s.matchChar '='
          if m then (s2.makeToken .ampEqual, s2) else (s.makeToken .amp, s)
      | '^' => s.binaryToken .caret .caretEqual
      | '%' => s.binaryToken .percent .percentEqual
      | '~' => (s.makeToken .tilde, s)
      | '"' => s.string
      | c => (s.errorToken ("Unexpected character: '" ++ String.singleton c ++ "'."), s)

def scanAllAux : Nat → Scanner → Array Token → Array Token
  | 0, _, acc => acc
  | n + 1, s, acc =>
    let (t, s) := s.scanToken
    let acc := acc.push t
    if t.kind == .eof then acc else scanAllAux n s acc

end Scanner

/-- The whole token stream of `src`, ending with the first `Eof` token.  Every token but `Eof`
consumes at least one character, so `size + 1` iterations suffice. -/
def scanAll (src : String) : Array Token :=
  let chars := src.toList.toArray
  Scanner.scanAllAux (chars.size + 2) { src := chars } #[]

end Yarel.Spec
