/-
`core.yl` of the real implementation, copied verbatim from /repo/yarel/src/core.yl (one literal per
source line so that line numbers are easy to check).  Regenerate with validate/gen_core_source.py.
-/
namespace Yarel.Spec

def coreSource : String :=
  "class Error {\n" ++
  "    #[constructor]\n" ++
  "    fn new(self, context) {\n" ++
  "        self.context = context;\n" ++
  "    }\n" ++
  "}\n" ++
  "\n" ++
  "#[derive(Error)]\n" ++
  "class RuntimeError {}\n" ++
  "\n" ++
  "#[derive(Error)]\n" ++
  "class AttributeError {}\n" ++
  "\n" ++
  "#[derive(Error)]\n" ++
  "class IndexError {}\n" ++
  "\n" ++
  "#[derive(Error)]\n" ++
  "class ImportError {}\n" ++
  "\n" ++
  "#[derive(Error)]\n" ++
  "class NameError {}\n" ++
  "\n" ++
  "#[derive(Error)]\n" ++
  "class TypeError {}\n" ++
  "\n" ++
  "#[derive(Error)]\n" ++
  "class ValueError {}\n" ++
  "\n" ++
  "#[derive(Error)]\n" ++
  "class StopIter {\n" ++
  "    #[constructor]\n" ++
  "    fn new(self) {\n" ++
  "        super.new(nil);\n" ++
  "    }\n" ++
  "}\n" ++
  "\n" ++
  "class Iter {\n" ++
  "    fn iter(self) {\n" ++
  "        return self;\n" ++
  "    }\n" ++
  "\n" ++
  "    fn map(self, f) {\n" ++
  "        return MapIter.new(self.iter(), f);\n" ++
  "    }\n" ++
  "\n" ++
  "    fn collect(self) {\n" ++
  "        var ret = [];\n" ++
  "        for v in self {\n" ++
  "            ret.push(v);\n" ++
  "        }\n" ++
  "        return ret;\n" ++
  "    }\n" ++
  "\n" ++
  "    fn filter(self, pred) {\n" ++
  "        return FilterIter.new(self.iter(), pred);\n" ++
  "    }\n" ++
  "\n" ++
  "    fn reduce(self, func, init) {\n" ++
  "        var ret = init;\n" ++
  "        for v in self {\n" ++
  "            ret = func(ret, v);\n" ++
  "        }\n" ++
  "        return ret;\n" ++
  "    }\n" ++
  "}\n" ++
  "\n" ++
  "#[derive(Iter)]\n" ++
  "class MapIter {\n" ++
  "    #[constructor]\n" ++
  "    fn new(self, iterable, func) {\n" ++
  "        self.iterable = iterable;\n" ++
  "        self.func = func;\n" ++
  "    }\n" ++
  "\n" ++
  "    fn iter(self) {\n" ++
  "        return self;\n" ++
  "    }\n" ++
  "\n" ++
  "    fn next(self) {\n" ++
  "        var next = self.iterable.next();\n" ++
  "        if next.derives(StopIter) {\n" ++
  "            return next;\n" ++
  "        }\n" ++
  "        return self.func(next);\n" ++
  "    }\n" ++
  "}\n" ++
  "\n" ++
  "#[derive(Iter)]\n" ++
  "class FilterIter {\n" ++
  "    #[constructor]\n" ++
  "    fn new(self, iterable, predicate) {\n" ++
  "        self.iterable = iterable;\n" ++
  "        self.predicate = predicate;\n" ++
  "    }\n" ++
  "\n" ++
  "    fn iter(self) {\n" ++
  "        return self;\n" ++
  "    }\n" ++
  "\n" ++
  "    fn next(self) {\n" ++
  "        var next = self.iterable.next();\n" ++
  "        while !next.derives(StopIter) && !self.predicate(next) {\n" ++
  "            next = self.iterable.next();\n" ++
  "        }\n" ++
  "        return next;\n" ++
  "    }\n" ++
  "}\n" ++
  ""

end Yarel.Spec
