/-
Parser state and the non-recursive helpers of the spec parser.  The parser is a transcription of
yarel/src/compiler.rs (a single-pass Pratt compiler) that builds an AST instead of bytecode, but keeps
the bookkeeping the real compiler uses to report errors: locals / upvalues / scope depth per function,
panic mode, the attribute table, the size of the code emitted so far (jump limits) and the constant
table of each chunk.
-/
import Yarel.Spec.Scanner
import Yarel.Spec.Ast
import Yarel.Spec.NumStub

namespace Yarel.Spec

/-! ### Precedence / rule table (mirror of `RULES` in compiler.rs) -/

inductive Prec
  | none | assignment | or_ | and_ | equality | comparison | bitwiseOr | bitwiseXor | bitwiseAnd
  | bitShift | term | factor | range | unary | call | primary
  deriving DecidableEq, Repr, Inhabited

def Prec.rank : Prec → Nat
  | .none => 0 | .assignment => 1 | .or_ => 2 | .and_ => 3 | .equality => 4 | .comparison => 5
  | .bitwiseOr => 6 | .bitwiseXor => 7 | .bitwiseAnd => 8 | .bitShift => 9 | .term => 10
  | .factor => 11 | .range => 12 | .unary => 13 | .call => 14 | .primary => 15

/-- `Precedence::from(n)`; the Rust code panics above `Primary`, we saturate. -/
def Prec.ofRank : Nat → Prec
  | 0 => .none | 1 => .assignment | 2 => .or_ | 3 => .and_ | 4 => .equality | 5 => .comparison
  | 6 => .bitwiseOr | 7 => .bitwiseXor | 8 => .bitwiseAnd | 9 => .bitShift | 10 => .term
  | 11 => .factor | 12 => .range | 13 => .unary | 14 => .call | _ => .primary

inductive PrefixFn
  | grouping | hashMap | vector | unary | lambda | variable | string | interpolation | number
  | capSelf | literal | self_ | super_
  deriving DecidableEq, Repr, Inhabited

inductive InfixFn
  | call | index | dot | dotdot | binary | and_ | or_
  deriving DecidableEq, Repr, Inhabited

structure Rule where
  kind : TokenKind
  pre : Option PrefixFn
  inf : Option InfixFn
  prec : Prec
  deriving Repr, Inhabited

/-- The rule table, in `TokenKind` order (entry i belongs to the token kind with index i). -/
def rules : List Rule := [
  ⟨.leftParen, some .grouping, some .call, .call⟩,
  ⟨.rightParen, none, none, .none⟩,
  ⟨.leftBrace, some .hashMap, none, .none⟩,
  ⟨.rightBrace, none, none, .none⟩,
  ⟨.leftBracket, some .vector, some .index, .call⟩,
  ⟨.rightBracket, none, none, .none⟩,
  ⟨.comma, none, none, .none⟩,
  ⟨.dot, none, some .dot, .call⟩,
  ⟨.dotDot, none, some .dotdot, .range⟩,
  ⟨.minus, some .unary, some .binary, .term⟩,
  ⟨.minusEqual, none, none, .none⟩,
  ⟨.plus, none, some .binary, .term⟩,
  ⟨.plusEqual, none, none, .none⟩,
  ⟨.colon, none, none, .none⟩,
  ⟨.semiColon, none, none, .none⟩,
  ⟨.slash, none, some .binary, .factor⟩,
  ⟨.slashEqual, none, none, .none⟩,
  ⟨.star, none, some .binary, .factor⟩,
  ⟨.starEqual, none, none, .none⟩,
  ⟨.bang, some .unary, none, .none⟩,
  ⟨.bangEqual, none, some .binary, .equality⟩,
  ⟨.equal, none, none, .none⟩,
  ⟨.equalEqual, none, some .binary, .equality⟩,
  ⟨.greater, none, some .binary, .comparison⟩,
  ⟨.greaterEqual, none, some .binary, .comparison⟩,
  ⟨.less, none, some .binary, .comparison⟩,
  ⟨.lessEqual, none, some .binary, .comparison⟩,
  ⟨.amp, none, some .binary, .bitwiseAnd⟩,
  ⟨.ampEqual, none, none, .none⟩,
  ⟨.bar, some .lambda, some .binary, .bitwiseOr⟩,
  ⟨.barEqual, none, none, .none⟩,
  ⟨.caret, none, some .binary, .bitwiseXor⟩,
  ⟨.caretEqual, none, none, .none⟩,
  ⟨.percent, none, some .binary, .factor⟩,
  ⟨.percentEqual, none, none, .none⟩,
  ⟨.greaterGreater, none, some .binary, .bitShift⟩,
  ⟨.greaterGreaterEqual, none, none, .none⟩,
  ⟨.lessLess, none, some .binary, .bitShift⟩,
  ⟨.lessLessEqual, none, none, .none⟩,
  ⟨.ampAmp, none, some .and_, .and_⟩,
  ⟨.barBar, some .lambda, some .or_, .or_⟩,
  ⟨.tilde, some .unary, none, .none⟩,
  ⟨.hash, none, none, .none⟩,
  ⟨.identifier, some .variable, none, .none⟩,
  ⟨.str, some .string, none, .none⟩,
  ⟨.interpolation, some .interpolation, none, .none⟩,
  ⟨.number, some .number, none, .none⟩,
  ⟨.capSelf, some .capSelf, none, .none⟩,
  ⟨.catch_, none, none, .none⟩,
  ⟨.class_, none, none, .none⟩,
  ⟨.else_, none, none, .none⟩,
  ⟨.false_, some .literal, none, .none⟩,
  ⟨.finally_, none, none, .none⟩,
  ⟨.for_, none, none, .none⟩,
  ⟨.fn_, none, none, .none⟩,
  ⟨.if_, none, none, .none⟩,
  ⟨.import_, none, none, .none⟩,
  ⟨.as_, none, none, .none⟩,
  ⟨.in_, none, none, .none⟩,
  ⟨.nil_, some .literal, none, .none⟩,
  ⟨.return_, none, none, .none⟩,
  ⟨.self_, some .self_, none, .none⟩,
  ⟨.super_, some .super_, none, .none⟩,
  ⟨.break_, none, none, .none⟩,
  ⟨.continue_, none, none, .none⟩,
  ⟨.throw_, none, none, .none⟩,
  ⟨.true_, some .literal, none, .none⟩,
  ⟨.try_, none, none, .none⟩,
  ⟨.var_, none, none, .none⟩,
  ⟨.while_, none, none, .none⟩,
  ⟨.error, none, none, .none⟩,
  ⟨.eof, none, none, .none⟩ ]

/-- `get_rule(kind)` = `RULES[kind as usize]`. -/
def getRule (tbl : List Rule) (k : TokenKind) : Rule :=
  match tbl[k.index]? with
  | some r => r
  | none => ⟨k, none, none, .none⟩

/-! ### Limits (common.rs) -/

def localsMax : Nat := 256
def upvaluesMax : Nat := 256
/-- The real constant is 65536 and a jump of exactly 65536 is accepted and wraps to 0 (defect F9);
the spec uses the largest encodable distance. -/
def jumpSizeMax : Nat := 65535

/-! ### Compiler (per function) and parser state -/

structure Local where
  name : String
  depth : Option Nat
  deriving Repr, Inhabited

structure Compiler where
  kind : FnKind
  name : String
  /-- the real `arity` counts slot 0 -/
  arity : Nat := 1
  locals : Array Local
  /-- `(index, is_local)` -/
  upvalues : Array (Nat × Bool) := #[]
  scopeDepth : Nat := 0
  lambdaCount : Nat := 0
  inTryBlock : Bool := false
  /-- `(loop_start, scope_depth)`, innermost first -/
  loopStack : List (Nat × Nat) := []
  breakStack : List (List Nat) := []
  /-- number of bytes emitted so far -/
  codeLen : Nat := 0
  /-- keys of the constant table, newest first -/
  constants : List String := []
  deriving Repr, Inhabited

def Compiler.new (kind : FnKind) (name : String) : Compiler :=
  { kind := kind, name := name,
    locals := #[{ name := if kind == .staticMethod then "Self"
                          else if kind != .function then "self" else "",
                  depth := some 0 }] }

structure Attribute where
  name : Token
  arguments : List Token
  deriving Repr, Inhabited

structure PState where
  toks : Array Token
  pos : Nat := 0
  current : Token := {}
  previous : Token := {}
  panicMode : Bool := false
  /-- `single_target_mode`: set while the right-hand side of a compound assignment is parsed -/
  singleTargetMode : Bool := false
  errors : Array String := #[]
  /-- innermost first; never empty while parsing -/
  compilers : List Compiler
  /-- `has_superclass` per enclosing class, innermost first -/
  classCompilers : List Bool := []
  attributes : List Attribute := []
  attributeOpener : Option Token := none
  modulePath : String
  fnCounter : Nat := 0
  deriving Inhabited

abbrev P := StateM PState

namespace P

/-- The scanner keeps returning `Eof` after the end. -/
def nextToken (s : PState) : Token × Nat :=
  match s.toks[s.pos]? with
  | some t => (t, s.pos + 1)
  | none =>
    match s.toks.back? with
    | some t => (t, s.pos)
    | none => ({ kind := .eof, line := 1, text := "" }, s.pos)

def errorAtS (s : PState) (token : Token) (message : String) : PState :=
  if s.panicMode then s
  else
    let head := "[module \"" ++ s.modulePath ++ "\", line " ++ toString token.line ++ "] Error"
    let loc :=
      match token.kind with
      | .eof => " at end"
      | .error => ""
      | _ => " at '" ++ token.text ++ "'"
    { s with panicMode := true, errors := s.errors.push (head ++ loc ++ ": " ++ message) }

def errorAt (token : Token) (message : String) : P Unit := modify fun s => errorAtS s token message
def errorAtCurrent (message : String) : P Unit := modify fun s => errorAtS s s.current message
def error (message : String) : P Unit := modify fun s => errorAtS s s.previous message

def advanceLoop : Nat → PState → PState
  | 0, s => s
  | n + 1, s =>
    let (t, pos) := nextToken s
    let s := { s with current := t, pos := pos }
    if t.kind != .error then s
    else advanceLoop n (errorAtS s t t.text)

def advance : P Unit :=
  modify fun s => advanceLoop (s.toks.size + 2) { s with previous := s.current }

def check (k : TokenKind) : P Bool := do return (← get).current.kind == k

def consume (k : TokenKind) (message : String) : P Unit := do
  if (← get).current.kind == k then advance else errorAtCurrent message

def matchToken (k : TokenKind) : P Bool := do
  if (← get).current.kind == k then advance; return true else return false

def previous : P Token := do return (← get).previous
def current : P Token := do return (← get).current
def prevLine : P Nat := do return (← get).previous.line

def isBinaryAssignment (k : TokenKind) : Bool :=
  k == .minusEqual || k == .plusEqual || k == .slashEqual || k == .starEqual || k == .ampEqual
  || k == .barEqual || k == .caretEqual || k == .percentEqual || k == .lessLessEqual
  || k == .greaterGreaterEqual

def matchBinaryAssignment : P Bool := do
  if isBinaryAssignment (← get).current.kind then advance; return true else return false

def compiler : P Compiler := do
  match (← get).compilers with
  | c :: _ => return c
  | [] => return Compiler.new .script ""

def modifyCompiler (f : Compiler → Compiler) : P Unit :=
  modify fun s =>
    match s.compilers with
    | c :: rest => { s with compilers := f c :: rest }
    | [] => s

def emit (n : Nat) : P Unit := modifyCompiler fun c => { c with codeLen := c.codeLen + n }

def codeLen : P Nat := do return (← compiler).codeLen

def scopeDepth : P Nat := do return (← compiler).scopeDepth

/-- `make_constant`: the table is de-duplicated; index above `u16::MAX` is an error. -/
def makeConstant (key : String) : P Unit := do
  let c ← compiler
  let n := c.constants.length
  match c.constants.idxOf? key with
  | some i =>
    if n - 1 - i > 65535 then error "Too many constants in one chunk."
  | none =>
    modifyCompiler fun c => { c with constants := key :: c.constants }
    if n > 65535 then error "Too many constants in one chunk."

def identifierConstant (name : String) : P Unit := makeConstant ("s" ++ name)

def functionConstant : P Unit := do
  let n := (← get).fnCounter
  modify fun s => { s with fnCounter := n + 1 }
  makeConstant ("f" ++ toString n)

/-- `emit_constant`: `Constant` + 2 operand bytes. -/
def emitConstant (key : String) : P Unit := do
  makeConstant key
  emit 3

def newCompiler (kind : FnKind) (name : String) : P Unit :=
  modify fun s => { s with compilers := Compiler.new kind name :: s.compilers }

def beginScope : P Unit := modifyCompiler fun c => { c with scopeDepth := c.scopeDepth + 1 }

def emitJump : P Nat := do
  emit 3
  return (← codeLen) - 2

def patchJump (offset : Nat) : P Unit := do
  let jump := (← codeLen) - offset - 2
  if jump > jumpSizeMax then error "Too much code to jump over."

def patchOffsetAt (offset : Nat) : P Unit := do
  let jump := (← codeLen) - offset
  if jump > jumpSizeMax then error "Too much code in block."

def emitLoop (loopStart : Nat) : P Unit := do
  emit 1
  let offset := (← codeLen) - loopStart + 2
  if offset > jumpSizeMax then error "Loop body too large."
  emit 2

/-- `emit_return` -/
def emitReturn : P Unit := do
  let c ← compiler
  emit (if c.kind == .initialiser then 2 else 1)
  if c.inTryBlock then emit 1
  emit 1

/-- `emit_scope_end(pop_locals, scope_depth)`: one byte per local deeper than `scope_depth`. -/
def emitScopeEnd (popLocals : Bool) (depth : Nat) : P Unit := do
  let c ← compiler
  let n := (c.locals.toList.reverse.takeWhile fun l =>
    match l.depth with
    | some d => d > depth
    | none => true).length
  emit n
  if popLocals then
    modifyCompiler fun c => { c with locals := c.locals.extract 0 (c.locals.size - n) }

def endScope : P Unit := do
  modifyCompiler fun c => { c with scopeDepth := c.scopeDepth - 1 }
  emitScopeEnd true (← scopeDepth)

def addLocal (name : String) : P Bool := do
  let c ← compiler
  if c.locals.size == localsMax then return false
  modifyCompiler fun c => { c with locals := c.locals.push { name := name, depth := none } }
  return true

/-- The hidden locals (`super`, the iterator of a `for` loop): counted against the limit like any other (repair F40). -/
def addHiddenLocal (name : String) : P Unit := do
  if !(← addLocal name) then error "Too many variables in function."

def markInitialisedAt (i : Nat) : P Unit :=
  modifyCompiler fun c =>
    if i < c.locals.size then { c with locals := c.locals.modify i fun l => { l with depth := some c.scopeDepth } }
    else c

/-- `Parser::mark_initialised` -/
def markInitialised : P Unit := do
  let c ← compiler
  if c.scopeDepth == 0 then return
  markInitialisedAt (c.locals.size - 1)

/-- `declare_variable`: uses `previous` as the name. -/
def declareVariable : P Unit := do
  let c ← compiler
  if c.scopeDepth == 0 then return
  let name := (← get).previous.text
  -- every clash is reported through `error`, only the first one is recorded (panic mode)
  let clashes := (c.locals.toList.reverse.takeWhile fun l =>
    match l.depth with
    | some d => !(d < c.scopeDepth)
    | none => true).any fun l => l.name == name
  if clashes then error "Variable with this name already declared in this scope."
  if !(← addLocal name) then error "Too many variables in function."

/-- `parse_variable`: `some name` = a global to be defined under that name. -/
def parseVariable (message : String) : P (Option String) := do
  consume .identifier message
  declareVariable
  if (← scopeDepth) > 0 then return none
  let name := (← get).previous.text
  identifierConstant name
  return some name

/-- `define_variable` -/
def defineVariable : P Unit := do
  if (← scopeDepth) > 0 then markInitialised else emit 3

inductive ResolveErr | notFound | readInInit

def resolveLocalIn (c : Compiler) (name : String) : Except ResolveErr Nat :=
  let rec go : Nat → Except ResolveErr Nat
    | 0 => .error .notFound
    | i + 1 =>
      match c.locals[i]? with
      | some l =>
        if l.name == name then
          (match l.depth with
           | none => .error .readInInit
           | some _ => .ok i)
        else go i
      | none => go i
  go c.locals.size

/-- `Parser::resolve_local` (reports "own initialiser"). -/
def resolveLocal (name : String) : P (Option Nat) := do
  match resolveLocalIn (← compiler) name with
  | .ok i => return some i
  | .error .readInInit =>
    error "Cannot read local variable in its own initialiser."
    return none
  | .error .notFound => return none

/-- `add_upvalue` on the compiler at position `pos` of the (innermost-first) compiler list. -/
def addUpvalueIn (c : Compiler) (index : Nat) (isLocal : Bool) : Option (Nat × Compiler) :=
  match c.upvalues.toList.idxOf? (index, isLocal) with
  | some i => some (i, c)
  | none =>
    if c.upvalues.size == upvaluesMax then none
    else some (c.upvalues.size, { c with upvalues := c.upvalues.push (index, isLocal) })

/-- Propagate an upvalue from the compiler at depth `d` (innermost-first index of the function that
owns the local) down to the innermost compiler.  `cs` is innermost first. -/
def propagateUpvalue : (cs : List Compiler) → (d : Nat) → (index : Nat) →
    Option (Nat × List Compiler)
  | [], _, _ => none
  | c :: rest, 0, index => some (index, c :: rest)      -- the owner itself: nothing to add
  | c :: rest, d + 1, index =>
    -- first make the variable available in the enclosing function `rest`, then capture it in `c`
    match propagateUpvalue rest d index with
    | none => none
    | some (idx, rest') =>
      match addUpvalueIn c idx (d == 0) with
      | none => none
      | some (i, c') => some (i, c' :: rest')

/-- Find the nearest enclosing compiler (innermost-first position ≥ 1) that has the local.  A compiler in which the name is that of a
local still inside its own initialiser ends the search with that error (F46). -/
def findEnclosing : List Compiler → String → Nat → Except ResolveErr (Nat × Nat)
  | [], _, _ => .error .notFound
  | c :: rest, name, pos =>
    match resolveLocalIn c name with
    | .ok i => .ok (pos, i)
    | .error .readInInit => .error .readInInit
    | .error .notFound => findEnclosing rest name (pos + 1)

/-- `resolve_upvalue` -/
def resolveUpvalue (name : String) : P (Option Nat) := do
  let s ← get
  match s.compilers with
  | [] => return none
  | [_] => return none
  | _ :: outer =>
    match findEnclosing outer name 1 with
    | .error .notFound => return none
    | .error .readInInit =>
      error "Cannot read local variable in its own initialiser."
      return none
    | .ok (d, localIdx) =>
      match propagateUpvalue s.compilers d localIdx with
      | some (idx, cs) =>
        set { s with compilers := cs }
        return some idx
      | none =>
        error "Too many closure variables in function."
        return none

/-- `resolve_variable` -/
def resolveVariable (name : String) : P VarRef := do
  match ← resolveLocal name with
  | some i => return .local i
  | none =>
    match ← resolveUpvalue name with
    | some i => return .upvalue i
    | none =>
      identifierConstant name
      return .global name

def emitVariableOp (r : VarRef) : P Unit :=
  match r with
  | .global _ => emit 3
  | _ => emit 2

def pushLoop : P Unit :=
  modifyCompiler fun c =>
    { c with loopStack := (c.codeLen, c.scopeDepth) :: c.loopStack, breakStack := [] :: c.breakStack }

def popLoop : P Unit := do
  let c ← compiler
  let bps := c.breakStack.head?.getD []
  modifyCompiler fun c => { c with loopStack := c.loopStack.drop 1, breakStack := c.breakStack.drop 1 }
  -- `patch_jump(bp)?` stops at the first failure
  let len := c.codeLen
  if bps.any fun bp => len - bp - 2 > jumpSizeMax then error "Too much code to jump over."

def currentLoopHeader : P (Option (Nat × Nat)) := do return (← compiler).loopStack.head?

def checkNoAttributes : P Unit := do
  let s ← get
  match s.attributeOpener with
  | some opener =>
    set { s with attributeOpener := none }
    errorAt opener "Unexpected attribute list."
  | none => pure ()
  modify fun s => { s with attributes := [] }

def checkSupportedAttributes (kind : String) : P Unit := do
  let s ← get
  for a in s.attributes do
    errorAt a.name ("Unsupported " ++ kind ++ " attribute '" ++ a.name.text ++ "'.")
  modify fun s => { s with attributes := [], attributeOpener := none }

def takeAttribute (name : String) (numArgs : Nat) : P (Option Attribute) := do
  let s ← get
  match s.attributes.find? fun a => a.name.text == name with
  | none => return none
  | some attr =>
    set { s with attributes := s.attributes.filter fun a => a.name.text != name }
    if attr.arguments.length != numArgs then
      errorAt attr.name ("Expected " ++ toString numArgs ++ " argument" ++
        (if numArgs != 1 then "s" else "") ++ " to '" ++ attr.name.text ++ "' attribute.")
      return none
    else return some attr

def attributeArgs : Nat → List Token → P (Option (List Token))
  | 0, acc => return some acc.reverse
  | n + 1, acc => do
    if !(← matchToken .identifier) then
      errorAtCurrent "Expected an attribute argument."
      return none
    let acc := (← previous) :: acc
    if !(← matchToken .comma) then return some acc.reverse
    attributeArgs n acc

def parseAttribute : P (Option Attribute) := do
  if !(← matchToken .identifier) then return none
  let name ← previous
  if ← matchToken .leftParen then
    match ← attributeArgs ((← get).toks.size + 1) [] with
    | none => return none
    | some args =>
      if !(← matchToken .rightParen) then
        errorAtCurrent "Expected ')' after attribute arguments."
        return none
      return some { name := name, arguments := args }
  else return some { name := name, arguments := [] }

def attributeList : Nat → List Attribute → P (List Attribute)
  | 0, acc => return acc
  | n + 1, acc => do
    match ← parseAttribute with
    | none => return acc
    | some a =>
      if acc.any fun b => b.name.text == a.name.text then
        errorAt a.name ("Duplicate attribute '" ++ a.name.text ++ "'.")
        return (acc.filter fun b => b.name.text != a.name.text) ++ [a]
      let acc := acc ++ [a]
      if !(← matchToken .comma) then return acc
      attributeList n acc

def attributesDeclaration : P Unit := do
  checkNoAttributes
  let opener ← previous
  if !(← matchToken .leftBracket) then
    errorAtCurrent "Expected '[' after '#'."
    return
  let attrs ← attributeList ((← get).toks.size + 1) []
  if attrs.isEmpty then errorAtCurrent "Expected at least one attribute."
  if !(← matchToken .rightBracket) then
    errorAtCurrent "Expected ']' after attribute list."
    return
  modify fun s => { s with attributeOpener := some opener, attributes := attrs }

def isSyncKind (k : TokenKind) : Bool :=
  k == .hash || k == .class_ || k == .fn_ || k == .var_ || k == .for_ || k == .if_ || k == .while_
  || k == .break_ || k == .continue_ || k == .return_

def synchroniseLoop : Nat → P Unit
  | 0 => return
  | n + 1 => do
    let s ← get
    if s.current.kind == .eof then return
    if s.previous.kind == .semiColon then return
    if isSyncKind s.current.kind then return
    advance
    synchroniseLoop n

def synchronise : P Unit := do
  modify fun s => { s with panicMode := false }
  synchroniseLoop ((← get).toks.size + 2)

/-- `parameter_list` -/
def parameterList : Nat → TokenKind → String → String → P Unit
  | 0, _, _, _ => return
  | n + 1, rightDelim, countMsg, paramMsg => do
    modifyCompiler fun c => { c with arity := c.arity + 1 }
    if (← compiler).arity > 256 then errorAtCurrent countMsg
    let _ ← parseVariable paramMsg
    defineVariable
    if !(← matchToken .comma) then return
    parameterList n rightDelim countMsg paramMsg

/-- Pops the current compiler (`finalise_compiler`) and packages the function. -/
def finaliseCompiler (body : List Stmt) : P (FnDecl × List Capture) := do
  emitReturn
  let c ← compiler
  modify fun s => { s with compilers := s.compilers.drop 1 }
  return (.mk c.name (c.arity - 1) c.kind body, c.upvalues.toList.map fun (i, l) => (l, i))

/-- Last path component, as `Path::new(p).file_name()` computes it. -/
def fileName (path : String) : Option String :=
  let comps := (path.splitOn "/").filter fun c => c != "" && c != "."
  match comps.getLast? with
  | none => none
  | some c => if c == ".." then none else some c

def fuelOut : P Unit :=
  modify fun s => { s with errors := s.errors.push "spec parser: fuel exhausted" }

end P
end Yarel.Spec
