def hello := "world"
