/-
Reuse of one interpreter for several runs, on the Lean reference interpreter (S): the language-level content of property C15.

  execute_ignores_transients / execute_depends_on_persistent_only   a run starts from registers that are a function of the
        persistent part alone (object store, module registry, loader, rule table): whatever the previous run left in control,
        variables, continuation, depth, recorded raise site, running fiber or outcome has no influence
  runSnippet_depends_on_persistent_only   so the answer of every later snippet, and everything that persists after it, depends
        only on what persisted - in particular a snippet that failed half-way differs from one that never ran only by the
        definitions it completed (they are in the object store), which is what the metamorphic histories of the check compare
-/
import Yarel.Spec.Interp
import Yarel.Proofs.SpecRun
namespace Yarel.Spec.Reuse
open Yarel.Spec Yarel.Spec.State

def persistent (st : State) : State :=
  { heap := st.heap, modules := st.modules, sources := st.sources, tbl := st.tbl, printed := st.printed }

theorem execute_ignores_transients (st : State) (script : FnDecl) :
    st.execute script = (persistent st).execute script := by
  unfold State.execute State.getModule persistent
  cases h : st.modules.lookup "main" <;>
    simp [h, State.alloc, State.withHeap, State.takeHeap]

/-- Two interpreter states that agree on what persists start any run identically, whatever their registers hold. -/
theorem execute_depends_on_persistent_only (st st' : State) (script : FnDecl) (h : persistent st = persistent st') :
    st.execute script = st'.execute script := by
  rw [execute_ignores_transients st, execute_ignores_transients st', h]

theorem persistent_fields {st st' : State} (h : persistent st = persistent st') :
    st.heap = st'.heap ∧ st.modules = st'.modules ∧ st.sources = st'.sources ∧ st.tbl = st'.tbl ∧ st.printed = st'.printed := by
  unfold persistent at h
  injection h with h1 h2 h3 h4 h5 h6 h7 h8 h9 h10 h11 h12 h13
  exact ⟨h1, h9, h10, h13, h11⟩

/-- **C15 on the reference interpreter**: the answer of a snippet (ok / the error with its messages / nothing printed more)
and everything that persists afterwards depend only on what persisted before - not on the registers the previous snippet left
behind (an exception in flight, a half-run continuation, a stale fiber, a recorded raise site, the previous outcome). -/
theorem runSnippet_depends_on_persistent_only (st st' : State) (source : String) (fuel : Nat) (co : Bool)
    (h : persistent st = persistent st') :
    (st.runSnippet source fuel co).1 = (st'.runSnippet source fuel co).1 ∧
    persistent (st.runSnippet source fuel co).2 = persistent (st'.runSnippet source fuel co).2 := by
  obtain ⟨hh, hm, hs, ht, hp⟩ := persistent_fields h
  have hstart : persistent (State.snippetStart st) = persistent (State.snippetStart st') := by
    simp [persistent, State.snippetStart, hh, hm, hs, ht]
  have hex : ∀ script, (State.snippetStart st).execute script = (State.snippetStart st').execute script :=
    fun script => execute_depends_on_persistent_only _ _ script hstart
  rw [State.runSnippet_eq, State.runSnippet_eq, ht]
  cases hc : compileWith st'.tbl source "main" with
  | error msgs => exact ⟨rfl, hstart⟩
  | ok script =>
    cases co with
    | true => exact ⟨rfl, hstart⟩
    | false =>
      simp only [Bool.false_eq_true, if_false]
      rw [hex script]
      exact ⟨rfl, rfl⟩


#print axioms execute_ignores_transients
#print axioms execute_depends_on_persistent_only
#print axioms persistent_fields
#print axioms runSnippet_depends_on_persistent_only

end Yarel.Spec.Reuse
