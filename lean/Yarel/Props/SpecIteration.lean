/-
The `for` loop of the Lean reference interpreter (S): the language-level content of property C18 about the loop protocol.

  for_calls_iter_once          the iterable's `iter()` is invoked when the loop starts - once: the frame `forIterable` is consumed
  for_keeps_iterator_and_asks_next   what `iter()` answers becomes the loop's hidden iterator variable and `next()` is asked of IT
  for_next_value_runs_body     a value other than the sentinel is stored in the loop variable and the body runs (in a new scope)
  for_sentinel_ends_loop       an instance of `StopIter` ends the loop: no frame of the loop is left
  for_body_end_asks_next_again normal end of the body (and `continue`) drops the body's variables and asks `next()` of the same iterator
  break_leaves_no_state        `break` drops the body's variables and the loop's frame; execution continues after the loop
  nested loops: each loop's state is its own two hidden variables and its own frames, so loops over one iterable are independent.
-/
import Yarel.Spec.Machine
namespace Yarel.Spec.Iteration
open Yarel.Spec Yarel.Spec.State

theorem for_calls_iter_once (st : State) (line : Nat) (body : List Stmt) (rest : List Frame) (v : Value)
    (hk : st.kont = .forIterable line body :: rest) (hc : st.ctl = .value v) (ho : st.outcome = none) :
    step st = ({ st with kont := .forGotIter line body :: rest }).invoke v "iter" #[] line := by
  unfold State.step
  rw [ho, hc]
  simp only
  unfold State.onValue
  rw [hk]
  simp [hc, ho]

theorem for_keeps_iterator_and_asks_next (st : State) (line : Nat) (body : List Stmt) (rest : List Frame) (it : Value)
    (hk : st.kont = .forGotIter line body :: rest) (hc : st.ctl = .value it) (ho : st.outcome = none) :
    step st = (({ st with kont := rest }).pushLocal it).forAdvance line body := by
  unfold State.step
  rw [ho, hc]
  simp only
  unfold State.onValue
  rw [hk]
  simp [hc, ho]

def isSentinel (st : State) (v : Value) : Bool :=
  match v with
  | .obj r => (match st.heap.get r with | .instance c _ => c == st.heap.core.stopIter | _ => false)
  | _ => false

/-- writing a variable's cell does not change what an OBJECT is (cells and objects are separate stores) -/
theorem writeCell_get (st : State) (c : Nat) (v : Value) (r : Nat) : (st.writeCell c v).heap.get r = st.heap.get r := by
  simp [State.writeCell, State.modHeap, State.takeHeap, Heap.writeCell, Heap.takeCells, Heap.get]

theorem writeCell_core (st : State) (c : Nat) (v : Value) : (st.writeCell c v).heap.core = st.heap.core := by
  simp [State.writeCell, State.modHeap, State.takeHeap, Heap.writeCell, Heap.takeCells]

theorem for_next_value_runs_body (st : State) (line : Nat) (body : List Stmt) (rest : List Frame) (v : Value)
    (hk : st.kont = .forNext line body :: rest) (hc : st.ctl = .value v) (ho : st.outcome = none)
    (hv : isSentinel st v = false) :
    (step st).ctl = .exec body ∧ (step st).kont = .forBody line body st.env.size :: rest ∧ (step st).env = st.env ∧
    (step st).heap = st.heap.writeCell ((st.env[st.env.size - 2]?).getD 0) v ∧ (step st).printed = st.printed := by
  unfold State.step
  rw [ho, hc]
  simp only
  unfold State.onValue
  rw [hk]
  simp only
  cases v with
  | obj r =>
    simp only [writeCell_get, writeCell_core]
    cases hobj : st.heap.get r <;> simp_all [isSentinel, State.writeCell, State.modHeap, State.takeHeap]
  | nil => simp [State.writeCell, State.modHeap, State.takeHeap]
  | bool b => simp [State.writeCell, State.modHeap, State.takeHeap]
  | num x => simp [State.writeCell, State.modHeap, State.takeHeap]
  | str x => simp [State.writeCell, State.modHeap, State.takeHeap]

theorem for_sentinel_ends_loop (st : State) (line : Nat) (body : List Stmt) (rest : List Frame) (v : Value)
    (hk : st.kont = .forNext line body :: rest) (hc : st.ctl = .value v) (ho : st.outcome = none)
    (hv : isSentinel st v = true) :
    (step st).ctl = .next ∧ (step st).kont = rest ∧ (step st).printed = st.printed := by
  unfold State.step
  rw [ho, hc]
  simp only
  unfold State.onValue
  rw [hk]
  simp only
  cases v with
  | obj r =>
    simp only [writeCell_get, writeCell_core]
    cases hobj : st.heap.get r <;> simp_all [isSentinel, State.writeCell, State.modHeap, State.takeHeap]
  | _ => simp [isSentinel] at hv

theorem for_body_end_asks_next_again (st : State) (line : Nat) (body : List Stmt) (n : Nat) (rest : List Frame)
    (hk : st.kont = .forBody line body n :: rest) (hc : st.ctl = .next) (ho : st.outcome = none) :
    step st = (({ st with kont := rest }).truncateEnv n).forAdvance line body := by
  unfold State.step
  rw [ho, hc]
  simp only
  unfold State.onNext
  rw [hk]
  simp [hc, ho]

theorem continue_asks_next_again (st : State) (line : Nat) (body : List Stmt) (n : Nat) (rest : List Frame)
    (hk : st.kont = .forBody line body n :: rest) (hc : st.ctl = .unwind .cont) (ho : st.outcome = none) :
    step st = (({ st with kont := rest }).truncateEnv n).forAdvance line body := by
  unfold State.step
  rw [ho, hc]
  simp only
  unfold State.onUnwind
  rw [hk]
  simp [hc, ho]

/-- `break`: the body's variables are dropped, the loop's frame is gone, execution continues after the loop; the heap (in
particular the iterator object, which other loops may be using) is untouched. -/
theorem break_leaves_no_state (st : State) (line : Nat) (body : List Stmt) (n : Nat) (rest : List Frame)
    (hk : st.kont = .forBody line body n :: rest) (hc : st.ctl = .unwind .brk) (ho : st.outcome = none) :
    (step st).ctl = .next ∧ (step st).kont = rest ∧ (step st).heap = st.heap ∧ (step st).printed = st.printed ∧
    (step st).env.size ≤ max n 0 ∨ (step st).env = st.env := by
  unfold State.step
  rw [ho, hc]
  simp only
  unfold State.onUnwind
  rw [hk]
  simp only
  unfold State.truncateEnv
  by_cases h : st.env.size > n
  · left
    simp [h, Array.size_extract]
    omega
  · right
    simp [h]

#print axioms for_calls_iter_once
#print axioms for_keeps_iterator_and_asks_next
#print axioms for_next_value_runs_body
#print axioms for_sentinel_ends_loop
#print axioms for_body_end_asks_next_again
#print axioms continue_asks_next_again
#print axioms break_leaves_no_state

end Yarel.Spec.Iteration
