/-
C18 -- iteration.

"A for loop over a vector, tuple, range (ascending or descending), string, or any object offering the
iteration protocol visits exactly the elements the iterable denotes, in order, once each, and ends
cleanly; map, filter, reduce and collect chained over any of these produce what the same operations
produce on the model sequence.  Nested and interleaved loops over the same iterable are independent,
break and continue leave no iteration state behind, and mutating a vector while iterating over it is
well defined (index-based) rather than a crash."

Model: `Yarel/Model/Iter.lean` (vocabulary at its end: `Denotes`, `YieldsThenStop`, `loopSpec`, `cut`,
`mapItem`, `keepItem`, `actsSpec`, `rangeList`).  Reading aid:
* `takeN nx n it`            the first `n` answers of calling `next` again and again;
* `Denotes nx it xs`         `it` answers `xs` in order, then `stop`, then `stop` for ever;
* `YieldsThenStop next it xs` the same for a protocol object living in a world `W` (one `stop` suffices);
* `cut xs`                   `xs` up to the first element that is itself a `StopIter` instance;
* `loopSpec body xs w`       run `body` over the LIST `xs` with break/continue: the reference semantics.
-/
import Yarel.Proofs.IterBase
import Yarel.Proofs.IterOps
import Yarel.Proofs.IterHeap
import Yarel.Model.IterObj
import Yarel.Gen.CoreLib
namespace Yarel.Iter
open Yarel.Index (Outcome Site)
open Yarel.F64 (isizeMin isizeMax)

/-! ## 1. What the built-in iterators denote -/

/-- A range iterator over `b..e` answers `b, b+1, …, e-1` (if `b < e`) or `b, b-1, …, e+1` (otherwise),
that is `|e - b|` numbers, then `stop` for ever; it is empty iff `b = e`; `current += step` never
overflows. (The number handed to the program is `i as f64`, `Index.intToBits i`.) -/
theorem range_iter_spec (b e : Int) (hb : isizeMin ≤ b ∧ b ≤ isizeMax) (he : isizeMin ≤ e ∧ e ≤ isizeMax) :
    (∀ n, takeN rangeNext n (rangeIterNew b e) =
      .ok (((rangeList b e).map Item.val ++ List.replicate n Item.stop).take n)) ∧
    (rangeList b e).length = (e - b).natAbs ∧
    (∀ k (hk : k < (rangeList b e).length), (rangeList b e)[k] = if b < e then b + (k : Int) else b - (k : Int)) ∧
    (rangeList b e = [] ↔ b = e) := by
  refine ⟨takeN_of_denotes rangeNext _ _ (range_denotes b e hb he), rangeList_length b e,
    rangeList_getElem b e, ?_⟩
  rw [← List.length_eq_zero_iff, rangeList_length]
  omega
#print axioms range_iter_spec

example : takeN rangeNext 5 (rangeIterNew 3 0) = .ok [.val 3, .val 2, .val 1, .stop, .stop] := by decide
example : takeN rangeNext 4 (rangeIterNew (-1) 2) = .ok [.val (-1), .val 0, .val 1, .stop] := by decide
example : takeN rangeNext 2 (rangeIterNew 7 7) = .ok [.stop, .stop] := by decide
example : isizeMin ≤ (3 : Int) ∧ (3 : Int) ≤ isizeMax ∧ isizeMin ≤ (0 : Int) ∧ (0 : Int) ≤ isizeMax := by decide
/-- At the very edge of `isize` the last step still does not overflow. -/
example : takeN rangeNext 3 (rangeIterNew (isizeMax - 1) isizeMax) = .ok [.val (isizeMax - 1), .stop, .stop] := by
  decide

/-- A tuple iterator answers the elements in order, then `stop` for ever. -/
theorem tuple_iter_spec {α : Type} (elems : List (Item α)) :
    ∀ n, takeN (tupleNext elems) n 0 = .ok ((elems ++ List.replicate n Item.stop).take n) :=
  takeN_of_denotes _ _ _ (tuple_denotes elems)
#print axioms tuple_iter_spec

example : takeN (tupleNext [.val 7, .val 8]) 4 0 = .ok [.val 7, .val 8, .stop, (.stop : Item Nat)] := by decide

/-- A vec iterator over a vector nobody mutates answers its elements in order, then `stop` for ever. -/
theorem vec_iter_spec {α : Type} (st : Store α) (v : Nat) (xs : List (Item α)) (h : st[v]? = some xs) :
    ∀ n, takeN (vecIterNext st) n (vecIterNew v) = .ok ((xs ++ List.replicate n Item.stop).take n) :=
  takeN_of_denotes _ _ _ (vec_denotes st v xs h)
#print axioms vec_iter_spec

example : takeN (vecIterNext [[], [.val 4, .val 5, .val 6]]) 5 (vecIterNew 1)
    = .ok [.val 4, .val 5, .val 6, .stop, (.stop : Item Nat)] := by decide

open Yarel.Utf8 in
/-- A string iterator over a valid string answers its characters (each as its own UTF-8 string), in
order, then `stop` for ever (`Props/C13.iter_concat`, through the shared interface). -/
theorem string_iter_spec (cps : List Nat) (h : ∀ c ∈ cps, isScalar c = true) :
    ∀ n, takeN (strNext (encode cps)) n 0 =
      .ok ((cps.map (fun c => Item.val (encodeCP c)) ++ List.replicate n Item.stop).take n) :=
  takeN_of_denotes _ _ _ (str_denotes cps h)
#print axioms string_iter_spec

example : takeN (strNext [0x61, 0xF0, 0x9F, 0x98, 0x8A, 0x64]) 5 0
    = .ok [.val [0x61], .val [0xF0, 0x9F, 0x98, 0x8A], .val [0x64], .stop, .stop] := by decide +kernel
example : ∀ c ∈ [0x61, 0x1F60A, 0x64], Yarel.Utf8.isScalar c = true := by decide

/-- All four also as protocol objects, ready for the loop and chain theorems below. -/
theorem builtins_yield_then_stop {α W : Type} :
    (∀ (elems : List (Item α)), YieldsThenStop (lift (W := W) (tupleNext elems)) 0 elems) ∧
    (∀ (st : Store α) (v : Nat) (xs : List (Item α)), st[v]? = some xs →
      YieldsThenStop (lift (W := W) (vecIterNext st)) (vecIterNew v) xs) ∧
    (∀ (b e : Int), isizeMin ≤ b ∧ b ≤ isizeMax → isizeMin ≤ e ∧ e ≤ isizeMax →
      YieldsThenStop (lift (W := W) rangeNext) (rangeIterNew b e) ((rangeList b e).map Item.val)) ∧
    (∀ (cps : List Nat), (∀ c ∈ cps, Yarel.Utf8.isScalar c = true) →
      YieldsThenStop (lift (W := W) (strNext (Yarel.Utf8.encode cps))) 0
        (cps.map fun c => Item.val (Yarel.Utf8.encodeCP c))) :=
  ⟨fun elems => (tuple_denotes elems).yieldsThenStop,
   fun st v xs h => (vec_denotes st v xs h).yieldsThenStop,
   fun b e hb he => (range_denotes b e hb he).yieldsThenStop,
   fun cps h => (str_denotes cps h).yieldsThenStop⟩
#print axioms builtins_yield_then_stop

/-! ## 2. Mutating a vector while iterating over it: index-based, never a crash -/

/-- (1) One `next` on ANY store: it answers the element at index `current` of the vector as it is at
that call and advances, or answers `stop` (and does not move) when `current ≥ len`; never a fault.
(2) Any interleaving of push / pop / set (failed ones included) and `next` calls equals the
index-based reading `actsSpec`.
(3) After a `stop`, a push makes `next` yield again. -/
theorem vec_iter_index_based {α : Type} (st : Store α) (it : VecIter) (xs : List (Item α))
    (h : st[it.vec]? = some xs) :
    vecIterNext st it =
      .ok (⟨it.vec, if it.cur < xs.length then it.cur + 1 else it.cur⟩,
           match xs[it.cur]? with | some v => v | none => .stop) ∧
    (∀ acts : List (Act α), runActs st it acts = .ok (actsSpec xs it.cur acts)) ∧
    (∀ x : Item α, it.cur = xs.length → xs.length < vecElemsMax →
      vecIterNext st it = .ok (it, .stop) ∧
      vecIterNext (st.apply it.vec (.push x)) it = .ok (⟨it.vec, it.cur + 1⟩, x)) := by
  refine ⟨?_, fun acts => runActs_spec acts st it xs h, ?_⟩
  · rw [vecIterNext_eq st it xs h]
    cases xs[it.cur]? <;> rfl
  · intro x hc hmax
    have h2 := Store.apply_get st it.vec xs (.push x) h
    have hv : vecApply xs (.push x) = some (xs ++ [x]) := by
      simp only [vecApply]; rw [if_neg (by omega)]
    rw [hv] at h2
    rw [vecIterNext_eq st it xs h, vecIterNext_eq _ it _ h2]
    constructor
    · rw [if_neg (by omega), List.getElem?_eq_none (by omega)]; rfl
    · rw [if_pos (by simp; omega), hc]
      simp [orStop]
#print axioms vec_iter_index_based

/-- `[0,1,2]`; iter; next, next; pop, pop; next (stop: index 2 ≥ len 1); push 9, push 8; next (yields 8, the
element now at index 2); set 0; next (stop). -/
example : runActs [[.val 0, .val 1, .val 2]] (vecIterNew 0)
    [.next, .next, .op .pop, .op .pop, .next, .op (.push (.val 9)), .op (.push (.val 8)), .next,
     .op (.set 0 (.val 5)), .next]
    = .ok [.val 0, .val 1, .stop, .val 8, (.stop : Item Nat)] := by decide

/-- A `for` loop over a vector whose body mutates the store in any way never reaches a Rust panic site:
the only `fault` the model can produce is running out of fuel (the real loop is still running, e.g. a
body that pushes in every round). -/
theorem vec_mutation_never_panics {α : Type} (body : Body (Store α) α)
    (hbody : ∀ v w s, body v w = .fault s → s = .modelFuel)
    (fuel : Nat) (it : VecIter) (st : Store α) (s : Site)
    (h : forLoop vecStep body fuel it st = .fault s) : s = .modelFuel :=
  forLoop_fault vecStep body vecStep_fault hbody fuel it st s h
#print axioms vec_mutation_never_panics

/-- `for x in v { v.pop(); }` on `[0,1,2,3,4]` runs three rounds and ends cleanly with `[0,1]`... -/
example : forIn (vecIterNew 0) vecStep (fun _ (st : Store Nat) => .ok (st.apply 0 .pop, .next)) 10
    [[.val 0, .val 1, .val 2, .val 3, .val 4]] = .ok [[.val 0, .val 1]] := by decide
/-- ...and `for x in v { if x < 2 { v.push(x + 10); } }` on `[0,1]` also visits the two pushed elements. -/
example : forIn (vecIterNew 0) vecStep
    (fun x (st : Store Nat) => match x with
      | .val a => .ok (if a < 2 then st.apply 0 (.push (.val (a + 10))) else st, .next)
      | _ => .ok (st, .next)) 10
    [[.val 0, .val 1]] = .ok [[.val 0, .val 1, .val 10, .val 11]] := by decide
/-- A body that pushes in every round never ends: the model runs out of fuel. -/
example : forIn (vecIterNew 0) vecStep (fun _ (st : Store Nat) => .ok (st.apply 0 (.push (.val 1)), .next)) 50
    [[.val 0]] = .fault .modelFuel := by decide

/-! ## 3. map / filter / collect / reduce against the model sequence -/

/-- General form. The inner iterator answers ANY values `ys` and then the sentinel:
* `collect` gives `ys` up to the first element that is itself a `StopIter` instance;
* `map f` applies `f` to every element that does not derive `StopIter` and passes the others on;
* `filter p` drops the elements not deriving `StopIter` on which `p` is false;
and these compose; `reduce g init` folds `g` over what `collect` would give.
`f`, `p`, `g` are side-effect free here; the fuel of `filter`, `collect`, `reduce` only has to exceed the
length of the source. -/
theorem chain_spec {σ W α β : Type} (next : Step σ W α) (it : σ) (ys : List (Item α))
    (h : YieldsThenStop next it ys) (f : α → Item α) (p : α → Bool) (g : β → Item α → β) (init : β)
    (fuel : Nat) (hF : ys.length < fuel) (w : W) :
    (∃ e, collect next fuel it w = .ok (e, w, cut ys)) ∧
    (∃ e, collect (mapNext next (pureFn f)) fuel it w = .ok (e, w, cut (ys.map (mapItem f)))) ∧
    (∃ e, collect (filterNext next (pureFn p) fuel) fuel it w = .ok (e, w, cut (ys.filter (keepItem p)))) ∧
    (∃ e, reduce next (fun b => pureFn (g b)) init fuel it w = .ok (e, w, (cut ys).foldl g init)) ∧
    (∃ e, collect (filterNext (mapNext next (pureFn f)) (pureFn p) fuel) fuel it w
        = .ok (e, w, cut ((ys.map (mapItem f)).filter (keepItem p)))) ∧
    (∃ e, reduce (mapNext (filterNext next (pureFn p) fuel) (pureFn f)) (fun b => pureFn (g b)) init fuel it w
        = .ok (e, w, (cut ((ys.filter (keepItem p)).map (mapItem f))).foldl g init)) := by
  have hm := h.map (W := W) f
  have hf := filter_yields next p ys it h fuel hF
  have hmf := filter_yields _ p _ it hm fuel (by simpa using hF)
  have hfl : (ys.filter (keepItem p)).length < fuel := Nat.lt_of_le_of_lt (List.length_filter_le _ _) hF
  refine ⟨collect_spec next ys it h fuel w hF, ?_, ?_, reduce_spec next g init ys it h fuel w hF, ?_, ?_⟩
  · exact collect_spec _ _ it hm fuel w (by simpa using hF)
  · exact collect_spec _ _ it hf fuel w hfl
  · exact collect_spec _ _ it hmf fuel w
      (Nat.lt_of_le_of_lt (List.length_filter_le _ _) (by simpa using hF))
  · exact reduce_spec _ g init _ it (hf.map f) fuel w (by simpa using hfl)
#print axioms chain_spec

/-- The everyday case: the source answers `xs` (no element derives `StopIter`) and `f` never answers a
`StopIter` instance. Then collect/map/filter/reduce are `List.map`, `List.filter`, `List.foldl`. -/
theorem map_filter_collect_reduce_spec {σ W α β : Type} (next : Step σ W α) (it : σ) (xs : List α)
    (h : YieldsThenStop next it (xs.map Item.val)) (f : α → α) (p : α → Bool) (g : β → α → β) (init : β)
    (fuel : Nat) (hF : xs.length < fuel) (w : W) :
    (∃ e, collect (mapNext next (pureFn fun a => .val (f a))) fuel it w = .ok (e, w, (xs.map f).map Item.val)) ∧
    (∃ e, collect (filterNext next (pureFn p) fuel) fuel it w = .ok (e, w, (xs.filter p).map Item.val)) ∧
    (∃ e, reduce next (fun b => pureFn fun v => match v with | .val a => g b a | _ => b) init fuel it w
        = .ok (e, w, xs.foldl g init)) ∧
    (∃ e, collect (filterNext (mapNext next (pureFn fun a => .val (f a))) (pureFn p) fuel) fuel it w
        = .ok (e, w, ((xs.map f).filter p).map Item.val)) := by
  have hcut : ∀ l : List α, cut (l.map Item.val) = l.map Item.val := fun l =>
    cut_eq_self _ (by intro x hx; simp only [List.mem_map] at hx; obtain ⟨a, _, rfl⟩ := hx; rfl)
  have hmap : (xs.map Item.val).map (mapItem fun a => Item.val (f a)) = (xs.map f).map Item.val := by
    simp [List.map_map, Function.comp_def, mapItem]
  have hfilt : ∀ l : List α, (l.map Item.val).filter (keepItem p) = (l.filter p).map Item.val := by
    intro l; induction l with
    | nil => rfl
    | cons a l ih => by_cases hp : p a = true <;> simp_all [keepItem]
  obtain ⟨_, h2, h3, h4, h5, _⟩ := chain_spec next it (xs.map Item.val) h (fun a => .val (f a)) p
    (fun (b : β) v => match v with | .val a => g b a | _ => b) init fuel (by simpa using hF) w
  refine ⟨?_, ?_, ?_, ?_⟩
  · simpa only [hmap, hcut] using h2
  · simpa only [hfilt, hcut] using h3
  · obtain ⟨e, he⟩ := h4
    refine ⟨e, ?_⟩
    rw [he, hcut, List.foldl_map]
  · simpa only [hmap, hfilt, hcut] using h5
#print axioms map_filter_collect_reduce_spec

/-- `(0..5).iter().map(|a| a*a).filter(odd).collect()` and a reduce, run on the real range iterator. -/
example : omap (fun r => r.2.2)
    (collect (filterNext (mapNext (lift rangeNext) (pureFn fun a => .val (a * a))) (pureFn fun a => a % 2 == 1) 6)
      6 (rangeIterNew 0 5) ()) = .ok [.val 1, .val 9] := by decide
example : omap (fun r => r.2.2)
    (reduce (lift rangeNext) (fun (b : Int) => pureFn fun v => match v with | .val a => b + a | _ => b) 100 6
      (rangeIterNew 0 5) ()) = .ok 110 := by decide

/-- When the function given to `map` answers a `StopIter` instance, the chain ends there: everything
after the first such answer is lost (and `MapIter` does not apply `f` to values deriving `StopIter`).
Likewise a vector that CONTAINS a `StopIter` instance is iterated only up to it. -/
theorem sentinel_cuts {σ W α : Type} (next : Step σ W α) (it : σ) (xs : List α)
    (h : YieldsThenStop next it (xs.map Item.val)) (f : α → Item α) (k : Nat) (hk : k < xs.length)
    (hstop : f xs[k] = .stop) (hbefore : ∀ j (hj : j < k), (f (xs[j]'(by omega))).isStop = false)
    (fuel : Nat) (hF : xs.length < fuel) (w : W) :
    ∃ e, collect (mapNext next (pureFn f)) fuel it w = .ok (e, w, (xs.take k).map f) := by
  obtain ⟨e, he⟩ := (chain_spec next it (xs.map Item.val) h f (fun _ => true) (fun (_ : Unit) _ => ()) ()
    fuel (by simpa using hF) w).2.1
  refine ⟨e, ?_⟩
  rw [he]
  congr 3
  have hmap : (xs.map Item.val).map (mapItem f) = xs.map f := by
    simp [List.map_map, Function.comp_def, mapItem]
  rw [hmap]
  have hsplit : xs = xs.take k ++ xs[k] :: xs.drop (k + 1) := by
    rw [List.getElem_cons_drop, List.take_append_drop]
  conv => lhs; rw [hsplit]
  rw [List.map_append, List.map_cons]
  refine cut_append_stop _ _ (by rw [hstop]; rfl) _ ?_
  intro y hy
  simp only [List.mem_map] at hy
  obtain ⟨a, ha, rfl⟩ := hy
  obtain ⟨j, hj, rfl⟩ := List.getElem_of_mem ha
  simp only [List.length_take] at hj
  rw [List.getElem_take]
  exact hbefore j (by omega)
#print axioms sentinel_cuts

/-- `[1,2,3,4].iter().map(|a| if a == 3 { StopIter.new() } else { a }).collect()` is `[1,2]`;
iterating a tuple that contains a `StopIter` instance stops in front of it. -/
example : omap (fun r => r.2.2)
    (collect (mapNext (lift (tupleNext [.val 1, .val 2, .val 3, .val 4]))
      (pureFn fun a => if a = 3 then .stop else .val a)) 9 0 ()) = .ok [.val 1, (.val 2 : Item Nat)] := by decide
example : omap (fun r => r.2.2) (collect (lift (tupleNext [.val 1, .stop, .val 3])) 9 0 ())
    = .ok [(.val 1 : Item Nat)] := by decide

/-- The two sentinel tests differ: an instance of a user class DERIVING `StopIter` does not end a `for`
loop (`jump_if_stop_iter` compares the class itself) but `MapIter`/`FilterIter` (`derives(StopIter)`)
hand it on unmapped / unfiltered. -/
example : omap (fun r => r.2.2)
    (collect (filterNext (mapNext (lift (tupleNext [.val 1, .stopSub 2, .val 3])) (pureFn fun a => .val (a + 10)))
      (pureFn fun a => a > 11) 9) 9 0 ()) = .ok [.stopSub 2, (.val 13 : Item Nat)] := by decide

/-! ## 4. The for loop -/

/-- A `for` loop over an iterator that answers `xs` and then the sentinel does exactly what running the
body over the list `xs` does (`loopSpec`): in order, once each, up to and including the first round that
breaks; `continue` is the same as reaching the end of the body. Observed: the world, the loop variable,
whether it was left by `break`. -/
theorem for_loop_spec {σ W α : Type} (next : Step σ W α) (body : Body W α) (xs : List (Item α)) (it : σ)
    (h : YieldsThenStop next it xs) (fuel : Nat) (w : W) (hF : xs.length < fuel) :
    omap LoopEnd.obs (forLoop next body fuel it w) = loopSpec body xs w ∧
    forLoop next (contAsNext body) fuel it w = forLoop next body fuel it w :=
  ⟨forLoop_spec next body xs it h fuel w hF, forLoop_contAsNext next body fuel it w⟩
#print axioms for_loop_spec

/-- Spelled out for a body whose signal depends on the element only (`eff` = its effect, `sig` = how it
ends) and a source without `StopIter` instances: with `k` = the number of elements before the first one
whose round breaks, the body ran on exactly `xs[0], …, xs[k]` (all of `xs` if none breaks), in order,
once each; the loop variable ends as `xs[k]` (or the sentinel); nothing else changed. -/
theorem for_loop_visits {σ W α : Type} (next : Step σ W α) (eff : Item α → W → W) (sig : Item α → Signal)
    (xs : List (Item α)) (hxs : ∀ x ∈ xs, x.isStop = false) (it : σ) (h : YieldsThenStop next it xs)
    (fuel : Nat) (w : W) (hF : xs.length < fuel) :
    let k := (xs.takeWhile fun x => sig x != .brk).length
    omap LoopEnd.obs (forLoop next (fun v w => .ok (eff v w, sig v)) fuel it w) =
      .ok ((xs.take (k + 1)).foldl (fun w v => eff v w) w,
           (match xs[k]? with | some v => v | none => .stop),
           decide (k < xs.length)) := by
  intro k
  rw [forLoop_spec next _ xs it h fuel w hF, loopSpec_visits eff sig xs hxs w]
  cases xs[k]? <;> rfl
#print axioms for_loop_visits

/-- `for x in (10, 11, 12, 13, 14) { if x == 11 { continue; } if x == 13 { break; } log.push(x); }` -/
example : omap LoopEnd.obs (forLoop (lift (tupleNext [.val 10, .val 11, .val 12, .val 13, .val 14]))
    (fun x (log : List (Item Nat)) =>
      if x = .val 11 then .ok (log, .cont) else if x = .val 13 then .ok (log, .brk) else .ok (log ++ [x], .next))
    9 0 []) = .ok ([.val 10, .val 12], .val 13, true) := by decide

/-- "Any object offering the iteration protocol": a user-defined countdown object (state `n`; `next()`
answers `n, n-1, …, 1`, then a `StopIter` instance) meets the hypothesis of the loop and chain theorems,
and runs through `for`, `map`, `collect` like the built-in ones. -/
example : YieldsThenStop (lift (W := Unit) (userNext fun (n : Nat) => if n = 0 then (0, Item.stop) else (n - 1, .val n)))
    2 [.val 2, .val 1] :=
  ⟨0, 0, ⟨1, fun _ => rfl, 0, fun _ => rfl, rfl⟩, fun _ => rfl⟩
example : omap (fun r => r.2.2)
    (collect (mapNext (lift (userNext fun (n : Nat) => if n = 0 then (0, Item.stop) else (n - 1, .val n)))
      (pureFn fun a => .val (a * 2))) 9 3 ()) = .ok [.val 6, .val 4, .val 2] := by decide

/-- `break` leaves no iteration state behind except inside the iterator object it was using:
whatever a first loop did (in particular if it broke), a second loop over a FRESH `iter()` of the same
iterable sees all the elements again, whereas a second loop over the SAME iterator object goes on
behind the element the first one broke on. -/
theorem break_leaves_no_state {σ W α : Type} (next : Step σ W α) (fresh : σ) (xs : List (Item α))
    (h : YieldsThenStop next fresh xs) (body1 body2 : Body W α) (fuel1 fuel2 : Nat) (w : W)
    (r1 : LoopEnd σ W α) (h1 : forLoop next body1 fuel1 fresh w = .ok r1) (hF : xs.length < fuel2) :
    omap LoopEnd.obs (forLoop next body2 fuel2 fresh r1.world) = loopSpec body2 xs r1.world ∧
    (r1.broke = true → ∃ j, ∃ (_ : j < xs.length), r1.loopVar = xs[j] ∧
      omap LoopEnd.obs (forLoop next body2 fuel2 r1.iter r1.world) = loopSpec body2 (xs.drop (j + 1)) r1.world) := by
  refine ⟨forLoop_spec next body2 xs fresh h fuel2 r1.world hF, fun hb => ?_⟩
  obtain ⟨it', it'', hy, hs⟩ := h
  obtain ⟨j, hj, hv, hrest⟩ := forLoop_broke next body1 it' it'' hs xs fresh hy fuel1 w r1 h1 hb
  refine ⟨j, hj, hv, forLoop_spec next body2 _ r1.iter ⟨it', it'', hrest, hs⟩ fuel2 r1.world ?_⟩
  simp only [List.length_drop]; omega
#print axioms break_leaves_no_state

/-- First loop breaks at 12; a loop over a fresh iterator logs everything, one over the same iterator
only 13, 14. -/
example :
    let next := lift (W := List (Item Nat)) (tupleNext [.val 10, .val 11, .val 12, .val 13, .val 14])
    let brkAt12 : Body (List (Item Nat)) Nat := fun x log => if x = .val 12 then .ok (log, .brk) else .ok (log, .next)
    let logAll : Body (List (Item Nat)) Nat := fun x log => .ok (log ++ [x], .next)
    ∃ r1, forLoop next brkAt12 9 0 [] = .ok r1 ∧ r1.broke = true ∧
      forIn 0 next logAll 9 r1.world = .ok [.val 10, .val 11, .val 12, .val 13, .val 14] ∧
      forIn r1.iter next logAll 9 r1.world = .ok [.val 13, .val 14] :=
  ⟨_, rfl, rfl, by decide, by decide⟩

/-- Nested loops: `for x in A { for y in B { pairs.push((x, y)); } }` (where `B.iter()` is evaluated in
every outer round, and `B` may be `A` itself) produces all pairs in row-major order: the inner loop
neither disturbs the outer iterator nor remembers anything from the previous round. -/
theorem nested_loops_independent {σ τ α : Type}
    (nextA : Step σ (List (Item α × Item α)) α) (freshA : σ) (xs : List (Item α))
    (nextB : Step τ (List (Item α × Item α)) α) (freshB : τ) (ys : List (Item α))
    (hA : YieldsThenStop nextA freshA xs) (hB : YieldsThenStop nextB freshB ys)
    (fuel : Nat) (hFA : xs.length < fuel) (hFB : ys.length < fuel) (w : List (Item α × Item α)) :
    forIn freshA nextA (nestedBody freshB nextB fuel) fuel w =
      .ok (w ++ (cut xs).flatMap fun x => (cut ys).map fun y => (x, y)) := by
  rw [forIn_spec nextA _ xs freshA hA fuel w hFA, loopSpec_nested freshB nextB fuel ys hB hFB xs w]
  rfl
#print axioms nested_loops_independent

example :
    let next := lift (W := List (Item Int × Item Int)) rangeNext
    forIn (rangeIterNew 0 2) next (nestedBody (rangeIterNew 0 2) next 5) 5 [] =
      .ok [(.val 0, .val 0), (.val 0, .val 1), (.val 1, .val 0), (.val 1, .val 1)] := by decide

/-! ## 5. Iterator objects: every `iter()` call makes a new one, and they do not interfere -/

/-- Stepping iterator object `id1` any number of times does not change what a different iterator object
`id2` answers, now or later (whatever the two iterate over: the same vector, tuple, range, string). -/
theorem loops_independent {α : Type} (inj : Inj α) (h h' : Heap α) (id1 id2 : Nat) (hne : id1 ≠ id2)
    (n : Nat) (vs : List (Item α)) (hn : Heap.nextN inj h id1 n = .ok (h', vs)) (m : Nat) :
    omap Prod.snd (Heap.nextN inj h' id2 m) = omap Prod.snd (Heap.nextN inj h id2 m) := by
  obtain ⟨hv, hi⟩ := Heap.nextN_frame inj n h h' id1 vs hn
  exact Heap.nextN_view inj m h' h id2 (hi id2 (Ne.symm hne)) hv
#print axioms loops_independent

/-- `iter()` on a vector / tuple / range / string allocates a NEW object (its id is the next free one,
so it differs from every existing iterator and from the next one allocated), existing objects and the
vectors are untouched, and -- as long as nobody mutates the vector -- the new object answers exactly
what the iterable denotes, then `stop` for ever, however the other iterators are stepped meanwhile. -/
theorem iter_allocates_fresh {α : Type} (inj : Inj α) (h : Heap α) :
    (∀ (v : Nat) (xs : List (Item α)), h.vecs[v]? = some xs →
      (h.iterVec v).1 = h.iters.length ∧ (h.iterVec v).2.vecs = h.vecs ∧
      (∀ j, j < h.iters.length → (h.iterVec v).2.iters[j]? = h.iters[j]?) ∧
      ∀ n, omap Prod.snd (Heap.nextN inj (h.iterVec v).2 (h.iterVec v).1 n) =
        .ok ((xs ++ List.replicate n Item.stop).take n)) ∧
    (∀ (elems : List (Item α)),
      (h.iterTuple elems).1 = h.iters.length ∧ (h.iterTuple elems).2.vecs = h.vecs ∧
      (∀ j, j < h.iters.length → (h.iterTuple elems).2.iters[j]? = h.iters[j]?) ∧
      ∀ n, omap Prod.snd (Heap.nextN inj (h.iterTuple elems).2 (h.iterTuple elems).1 n) =
        .ok ((elems ++ List.replicate n Item.stop).take n)) ∧
    (∀ (b e : Int), isizeMin ≤ b ∧ b ≤ isizeMax → isizeMin ≤ e ∧ e ≤ isizeMax →
      (h.iterRange b e).1 = h.iters.length ∧ (h.iterRange b e).2.vecs = h.vecs ∧
      (∀ j, j < h.iters.length → (h.iterRange b e).2.iters[j]? = h.iters[j]?) ∧
      ∀ n, omap Prod.snd (Heap.nextN inj (h.iterRange b e).2 (h.iterRange b e).1 n) =
        .ok (((rangeList b e).map (fun i => Item.val (inj.num i)) ++ List.replicate n Item.stop).take n)) ∧
    (∀ (cps : List Nat), (∀ c ∈ cps, Yarel.Utf8.isScalar c = true) →
      (h.iterStr (Yarel.Utf8.encode cps)).1 = h.iters.length ∧ (h.iterStr (Yarel.Utf8.encode cps)).2.vecs = h.vecs ∧
      (∀ j, j < h.iters.length → (h.iterStr (Yarel.Utf8.encode cps)).2.iters[j]? = h.iters[j]?) ∧
      ∀ n, omap Prod.snd (Heap.nextN inj (h.iterStr (Yarel.Utf8.encode cps)).2 (h.iterStr (Yarel.Utf8.encode cps)).1 n) =
        .ok ((cps.map (fun c => Item.val (inj.str (Yarel.Utf8.encodeCP c))) ++ List.replicate n Item.stop).take n)) := by
  refine ⟨fun v xs hx => ?_, fun elems => ?_, fun b e hb he => ?_, fun cps hc => ?_⟩
  · obtain ⟨g1, g2, g3, g4⟩ := Heap.alloc_get h (.vec (vecIterNew v))
    refine ⟨g3, g2, g4, fun n => ?_⟩
    rw [Heap.iterVec, Heap.nextN_answers inj n _ _ _ g1, g2]
    exact takeN_of_denotes _ _ _ (obj_vec_denotes inj h.vecs v xs hx) n
  · obtain ⟨g1, g2, g3, g4⟩ := Heap.alloc_get h (.tuple elems 0)
    refine ⟨g3, g2, g4, fun n => ?_⟩
    rw [Heap.iterTuple, Heap.nextN_answers inj n _ _ _ g1, g2]
    exact takeN_of_denotes _ _ _ (obj_tuple_denotes inj h.vecs elems) n
  · obtain ⟨g1, g2, g3, g4⟩ := Heap.alloc_get h (.range (rangeIterNew b e))
    refine ⟨g3, g2, g4, fun n => ?_⟩
    rw [Heap.iterRange, Heap.nextN_answers inj n _ _ _ g1, g2]
    exact takeN_of_denotes _ _ _ (obj_range_denotes inj h.vecs b e hb he) n
  · obtain ⟨g1, g2, g3, g4⟩ := Heap.alloc_get h (.str (Yarel.Utf8.encode cps) 0)
    refine ⟨g3, g2, g4, fun n => ?_⟩
    rw [Heap.iterStr, Heap.nextN_answers inj n _ _ _ g1, g2]
    exact takeN_of_denotes _ _ _ (obj_str_denotes inj h.vecs cps hc) n
#print axioms iter_allocates_fresh

/-- Two `iter()` calls on the same vector, stepped alternately by hand: each sees the whole vector.
(`it.iter()` on an iterator, by contrast, is the same object: `Heap.iterIter`.) -/
example :
    let inj : Inj Int := ⟨id, fun _ => 0⟩
    let h0 : Heap Int := ⟨[[.val 5, .val 6, .val 7]], []⟩
    let h2 := ((h0.iterVec 0).2.iterVec 0).2
    (h0.iterVec 0).1 = 0 ∧ ((h0.iterVec 0).2.iterVec 0).1 = 1 ∧
    ((Heap.nextN inj h2 0 2).bind fun r1 => (Heap.nextN inj r1.1 1 4).bind fun r2 =>
      (Heap.nextN inj r2.1 0 2).bind fun r3 => .ok (r1.2, r2.2, r3.2))
      = .ok ([.val 5, .val 6], [.val 5, .val 6, .val 7, .stop], [.val 7, .stop]) := by decide

/-! ## 6. Objects deriving `Iter`: the adapters start from what `iter()` answers

`Yarel/Model/IterObj.lean`. -/

/-- The methods of `StopIter`, `Iter`, `MapIter`, `FilterIter` in /repo/yarel/src/core.yl (regenerated into
`Yarel.Gen.coreLibMethods` on every run) are, token for token, the text the model transcribes. -/
theorem core_lib_transcribed :
    Yarel.Gen.coreLibMethods.filter (fun m => iterClasses.contains m.1) = transcribed := by decide +kernel
#print axioms core_lib_transcribed

/-- Whatever state the object `o` itself is in (fresh, half consumed by a loop that was left with `break`,
exhausted, or not an iterator at all): if `o.iter()` answers an iterator denoting `ys` and leaves the world
alone, then `for`, `collect`, `reduce`, `map`, `filter` and their compositions applied TO `o` produce what the
same operations produce on the model sequence `ys`. -/
theorem obj_chain_spec {σ W α β : Type} (P : Proto σ W α) (o it : σ) (w : W) (ys : List (Item α))
    (hi : P.iterM o w = .ok (it, w)) (h : YieldsThenStop P.next it ys)
    (f : α → Item α) (p : α → Bool) (g : β → Item α → β) (init : β) (fuel : Nat) (hF : ys.length < fuel) :
    (∃ e, P.collectObj fuel o w = .ok (e, w, cut ys)) ∧
    (∃ e, P.reduceObj (fun b => pureFn (g b)) init fuel o w = .ok (e, w, (cut ys).foldl g init)) ∧
    (∃ e, andThen (P.mapObj (pureFn f) o w).1 ((P.mapObj (pureFn f) o w).2.collectObj fuel)
        = .ok (e, w, cut (ys.map (mapItem f)))) ∧
    (∃ e, andThen (P.filterObj (pureFn p) fuel o w).1 ((P.filterObj (pureFn p) fuel o w).2.collectObj fuel)
        = .ok (e, w, cut (ys.filter (keepItem p)))) ∧
    (∃ e, andThen (P.filterObj (pureFn p) fuel o w).1
        (fun s w1 => andThen (((P.filterObj (pureFn p) fuel o w).2).mapObj (pureFn f) s w1).1
          ((((P.filterObj (pureFn p) fuel o w).2).mapObj (pureFn f) s w1).2.reduceObj (fun b => pureFn (g b)) init fuel))
        = .ok (e, w, (cut ((ys.filter (keepItem p)).map (mapItem f))).foldl g init)) := by
  obtain ⟨h1, h2, h3, h4, _, h6⟩ := chain_spec P.next it ys h f p g init fuel hF w
  refine ⟨?_, ?_, ?_, ?_, ?_⟩
  · simpa only [Proto.collectObj, hi] using h1
  · simpa only [Proto.reduceObj, hi] using h4
  · simpa only [Proto.mapObj, Proto.ofStep, Proto.collectObj, andThen, hi] using h2
  · simpa only [Proto.filterObj, Proto.ofStep, Proto.collectObj, andThen, hi] using h3
  · simpa only [Proto.filterObj, Proto.mapObj, Proto.ofStep, Proto.reduceObj, andThen, hi] using h6
#print axioms obj_chain_spec

/-- A `for` loop over the object does what the loop over the model sequence does (`loopSpec`). -/
theorem obj_for_spec {σ W α : Type} (P : Proto σ W α) (o it : σ) (w : W) (xs : List (Item α)) (body : Body W α)
    (hi : P.iterM o w = .ok (it, w)) (h : YieldsThenStop P.next it xs) (fuel : Nat) (hF : xs.length < fuel) :
    omap LoopEnd.obs (P.forObj body fuel o w) = loopSpec body xs w := by
  simp only [Proto.forObj, hi]
  exact (for_loop_spec P.next body xs it h fuel w hF).1
#print axioms obj_for_spec

/-- The restartable `Counter` of the model file denotes `1..max` from ANY position, because `iter()` rewinds it. -/
theorem counter_denotes (max pos : Nat) :
    (counterProto max).iterM pos () = .ok (0, ()) ∧
    YieldsThenStop (counterProto max).next 0 ((List.range max).map fun i => Item.val (Int.ofNat (i + 1))) := by
  refine ⟨rfl, max, max, ?_, ?_⟩
  · suffices H : ∀ (n k : Nat), k + n = max →
        Yields (counterProto max).next k ((List.range' k n).map fun i => Item.val (Int.ofNat (i + 1))) max by
      simpa [List.range_eq_range'] using H max 0 (by omega)
    intro n
    induction n with
    | zero => intro k hk; simp [Yields]; omega
    | succ n ih =>
      intro k hk
      simp only [List.range'_succ, List.map_cons, Yields]
      refine ⟨k + 1, ?_, ih (k + 1) (by omega)⟩
      intro w
      have hne : ¬ k = max := by omega
      simp [counterProto, hne]
  · intro w; simp [counterProto]
#print axioms counter_denotes

/-- Non-vacuity, and why the `iter()` call matters: a `Counter(6)` left at position 3 by a broken loop.
`c.filter(even).collect()` is `[2, 4, 6]`; had `filter` wrapped `self` instead of `self.iter()` it would be `[4, 6]`.
A `Bag` over `[1, 2, 3, 4, 5]`: `b.filter(|x| x > 2).collect()` is `[3, 4, 5]`; without the `iter()` call it is an
AttributeError (a `Bag` has no `next`). -/
example :
    let P := counterProto 6
    omap (fun r => r.2.2) (andThen (P.filterObj (pureFn fun a => a % 2 == 0) 7 3 ()).1
      ((P.filterObj (pureFn fun a => a % 2 == 0) 7 3 ()).2.collectObj 7)) = .ok [.val 2, .val 4, .val 6] ∧
    omap (fun r => r.2.2) (andThen (P.filterObjNoIter (pureFn fun a => a % 2 == 0) 7 3 ()).1
      ((P.filterObjNoIter (pureFn fun a => a % 2 == 0) 7 3 ()).2.collectObj 7)) = .ok [.val 4, .val 6] := by decide
example :
    let P := bagProto [[.val 1, .val 2, .val 3, .val 4, .val 5]]
    omap (fun r => r.2.2) (andThen (P.filterObj (pureFn fun a => decide (a > 2)) 6 none ()).1
      ((P.filterObj (pureFn fun a => decide (a > 2)) 6 none ()).2.collectObj 6)) = .ok [.val 3, .val 4, .val 5] ∧
    omap (fun r => r.2.2) (andThen (P.filterObjNoIter (pureFn fun a => decide (a > 2)) 6 none ()).1
      ((P.filterObjNoIter (pureFn fun a => decide (a > 2)) 6 none ()).2.collectObj 6))
      = .err ⟨.AttributeError, .undefinedProperty⟩ := by decide

end Yarel.Iter
