/-
C04 — bytecode verification of the real compiler's output (translation validation).

"Whenever compilation succeeds, no execution path of the produced code can make the interpreter fetch
outside the function's code, name a constant, local or captured variable that does not exist, or reach
one instruction with two different operand-stack heights."

What is proved here: IF the Lean verifier accepts a function dump (`verify fn = .ok σ`; the driver
`Yarel.Drv.Verify` runs it on the dumps of the real compiler), THEN every state the frame machine
(`Yarel/Model/FrameMachine.lean`, a nondeterministic over-approximation of `Vm::run` for one frame) can
reach from the function's entry satisfies the property.  The proof only uses `checkAnnot fn σ = true`.
-/
import Yarel.Gen.Limits
import Yarel.Proofs.C04Sound
import Yarel.Proofs.C04Progress
import Yarel.Model.JumpLimits

namespace Yarel.C04
open Yarel.Bytecode Yarel.Verifier Yarel.FrameMachine

/-- **Soundness of the fixpoint check.**  If `σ` passes `checkAnnot`, every reachable state of the frame
machine sits on an instruction boundary inside the code, at an instruction that decodes completely
inside the code, with exactly the annotated stack height and handler stack, a pending return address
among the annotated ones, and with every access of that instruction in range (`AccessOk`). -/
theorem checkAnnot_sound (fn : FnDump) (σ : Annot) (hc : checkAnnot fn σ = true)
    (s : State) (hr : Reach fn s) :
    s.pc < fn.code.size ∧ IsBoundary fn s.pc ∧
    ∃ i a, decode fn s.pc = some i ∧ s.pc + i.size ≤ fn.code.size ∧
      σ.at s.pc = some a ∧
      s.stack.length = a.height ∧ s.handlers = a.handlers ∧ (∀ r, s.ret = some r → r ∈ a.rets) ∧
      AccessOk fn i s :=
  let h := safe_of_checkAnnot hc hr
  ⟨h.inCode, h.boundary, h.state⟩

#print axioms checkAnnot_sound

/-- **`verify_sound`.**  The same for an annotation produced by the verifier. -/
theorem verify_sound (fn : FnDump) (σ : Annot) (hv : verify fn = .ok σ)
    (s : State) (hr : Reach fn s) :
    s.pc < fn.code.size ∧ IsBoundary fn s.pc ∧
    ∃ i a, decode fn s.pc = some i ∧ s.pc + i.size ≤ fn.code.size ∧
      σ.at s.pc = some a ∧
      s.stack.length = a.height ∧ s.handlers = a.handlers ∧ (∀ r, s.ret = some r → r ∈ a.rets) ∧
      AccessOk fn i s :=
  checkAnnot_sound fn σ (checkAnnot_of_verify hv) s hr

#print axioms verify_sound

/-- **One height per instruction.**  In verified code two executions that reach the same offset do so
with the same operand-stack height and the same handler stack. -/
theorem verify_unique_height (fn : FnDump) (σ : Annot) (hv : verify fn = .ok σ)
    (s₁ s₂ : State) (h₁ : Reach fn s₁) (h₂ : Reach fn s₂) (hpc : s₁.pc = s₂.pc) :
    s₁.stack.length = s₂.stack.length ∧ s₁.handlers = s₂.handlers := by
  obtain ⟨_, _, _, a₁, _, _, ha₁, hl₁, hh₁, _⟩ := verify_sound fn σ hv s₁ h₁
  obtain ⟨_, _, _, a₂, _, _, ha₂, hl₂, hh₂, _⟩ := verify_sound fn σ hv s₂ h₂
  rw [hpc, ha₂] at ha₁
  injection ha₁ with ha
  subst ha
  exact ⟨by rw [hl₁, hl₂], by rw [hh₁, hh₂]⟩

#print axioms verify_unique_height

/-- **Progress.**  Verified code never gets stuck in the frame machine (stuck = a fault of the real
interpreter: fetch outside the code, unknown opcode, access below the frame base, missing handler):
every reachable state can step unless it is at a `Return`, or at a `Throw` with no handler of this
frame (the exception leaves the frame). -/
theorem verify_progress (fn : FnDump) (σ : Annot) (hv : verify fn = .ok σ)
    (s : State) (hr : Reach fn s) :
    ∃ i, decode fn s.pc = some i ∧
      (i.flow s.pc = .ret ∨ (i.flow s.pc = .throw ∧ s.handlers = []) ∨ ∃ s', Step fn s s') := by
  obtain ⟨_, _, i, _, hd, _, _, _, _, _, ok⟩ := verify_sound fn σ hv s hr
  exact ⟨i, hd, progress_of_accessOk hd ok⟩

#print axioms verify_progress

/-! ### Non-vacuity: real compiler output

`fnTryFinally` is the code the real compiler produces for
`fn f(a) { var x = 1; try { var y = 2; x = 3; } finally { x = 4; } return x; }`
(validate/extra/try_finally_noraise.yl, function 1):

     0 Constant 0          14 SetLocal 2        22 Constant 3       31 Return
     3 PushExcHandler 14 0 16 Pop               25 SetLocal 2       32 Nil
     8 Constant 1          17 Pop               27 Pop              33 Return
    11 Constant 2          18 PopExcHandler     28 EndFinally
                           19 Jump 0            29 GetLocal 2
-/

def fnTryFinally : FnDump :=
  { arity := 2, upvalues := 0,
    code := #[0, 0, 0, 48, 14, 0, 0, 0, 0, 1, 0, 0, 2, 0, 7, 2, 4, 4, 49, 42, 0, 0, 0, 3, 0, 7, 2, 4,
      47, 6, 2, 57, 1, 57],
    consts := #[.num, .num, .num, .num] }

deriving instance DecidableEq for Except

/-- The verifier's annotation, `#[]` if it rejects. -/
def annotOf (fn : FnDump) : Annot :=
  match verify fn with
  | .ok σ => σ
  | .error _ => #[]

/-- The verifier accepts it (so the hypotheses of `verify_sound` are satisfiable): e.g. offset 14 has
height 5 under the handler recorded at height 3, and the dead code at offset 32 is not annotated ... -/
example : verify fnTryFinally = .ok (annotOf fnTryFinally) ∧
    (annotOf fnTryFinally).at 14 = some ⟨5, [⟨22, 22, 3⟩], []⟩ ∧
    (annotOf fnTryFinally).at 32 = none := by decide +kernel

/-- ... and non-trivial states are reachable: after `Constant; PushExcHandler; Constant` the machine is at
offset 11 with height 4 and the handler recorded at height 3. -/
example : ∃ s, Reach fnTryFinally s ∧ s.pc = 11 ∧ s.stack.length = 4 ∧
    s.handlers = [⟨22, 22, 3⟩] := by
  let s0 : State := ⟨0, [⟨0⟩, ⟨0⟩], [], none⟩
  have r0 : Reach fnTryFinally s0 := .entry ⟨rfl, rfl, rfl, rfl⟩
  have r1 := Reach.step r0 (Step.normal (s := s0) (i := ⟨.constant, 0, 0, [], 3⟩) (t := 3)
    (vs := [⟨1⟩]) (ret' := none) (by decide +kernel) (by decide) (by decide) .next rfl (.inl rfl))
  have r2 := Reach.step r1 (Step.pushHandler (i := ⟨.pushExcHandler, 14, 0, [], 5⟩) (c := 22) (f := 22)
    (by decide +kernel) (by decide +kernel))
  have r3 := Reach.step r2 (Step.normal (i := ⟨.constant, 1, 0, [], 3⟩) (t := 11)
    (vs := [⟨2⟩]) (ret' := none) (by decide +kernel) (by decide) (by decide) .next rfl (.inl rfl))
  exact ⟨_, r3, rfl, rfl, rfl⟩

/-! ### The verifier rejects the known compiler defects (real compiler output, see validate/extra) -/

/-- F21 (fixed in the repository by commit d14c50d while this was written; this is the code the compiler
produced before): `fn f(a) { var i = 0; while true { var b = 1; break; } var c = 2; return c; }` —
`break` jumped out before the loop body's local was popped: offset 20 is reached with heights 3 and 4.

     0 Constant 0     7 Pop          14 Pop (dead)   19 Pop
     3 True           8 Constant 1   15 Pop          20 Constant 2 ...
     4 JumpIfFalse→19 11 Jump→20     16 Loop→3 -/
def fnF21 : FnDump :=
  { arity := 2, upvalues := 0,
    code := #[0, 0, 0, 2, 43, 12, 0, 4, 0, 1, 0, 42, 6, 0, 4, 4, 45, 16, 0, 4, 0, 2, 0, 6, 3, 57, 1, 57],
    consts := #[.num, .num, .num] }

example : verify fnF21 = .error (.heightMismatch 20 3 4) := by decide +kernel

/-- The code produced for the same source after the fix is accepted. -/
def fnF21fixed : FnDump :=
  { arity := 2, upvalues := 0,
    code := #[0, 0, 0, 2, 43, 12, 0, 4, 0, 1, 0, 4, 42, 5, 0, 4, 45, 16, 0, 4, 0, 2, 0, 6, 3, 57, 1, 57],
    consts := #[.num, .num, .num] }

example : verify fnF21fixed = .ok (annotOf fnF21fixed) := by decide +kernel

/-- F12: `fn f(a) { try { throw "x"; } catch e { print(e); } return 1; }` — the catch block starts with a
`PopExcHandler` although unwinding already popped the handler. -/
def fnF12 : FnDump :=
  { arity := 2, upvalues := 0,
    code := #[48, 8, 0, 10, 0, 0, 0, 0, 50, 49, 42, 10, 0, 49, 8, 1, 0, 6, 2, 51, 1, 4, 4, 0, 2, 0, 57,
      1, 57],
    consts := #[.str, .str, .num] }

example : verify fnF12 = .error (.popWithoutHandler 13) := by decide +kernel

/-- F13: `fn f(a) { while true { try { break; } finally { var q = 1; } } return 1; }` — `break` leaves the
handler installed: the loop exit (offset 26) is reached with and without it. -/
def fnF13 : FnDump :=
  { arity := 2, upvalues := 0,
    code := #[2, 43, 21, 0, 4, 48, 7, 0, 0, 0, 42, 13, 0, 49, 42, 0, 0, 0, 0, 0, 4, 47, 45, 25, 0, 4, 0,
      0, 0, 57, 1, 57],
    consts := #[.num] }

example : verify fnF13 = .error (.handlerMismatch 26 0 1) := by decide +kernel

/-- F23: tests/scripts/exceptions/return_with_finally.yl, `function`: the finally block (offset 31) is
entered with height 1 through `JumpFinally` and height 2 on the exception path. -/
def fnF23 : FnDump :=
  { arity := 1, upvalues := 0,
    code := #[48, 26, 0, 0, 0, 8, 0, 0, 0, 1, 0, 51, 1, 4, 0, 2, 0, 0, 3, 0, 0, 4, 0, 40, 3, 46, 57, 49,
      42, 0, 0, 8, 0, 0, 0, 5, 0, 51, 1, 4, 47, 1, 57],
    consts := #[.str, .str, .num, .num, .num, .str] }

example : verify fnF23 = .error (.heightMismatch 31 2 1) := by decide +kernel

/-- F15: `fn f(a) { try { return 5; } catch e { print(e); } return 7; }` — `JumpFinally` without a finally
block: the function's final `Return` (offset 27) executes with the return address still pending, which a
later `EndFinally` of the CALLER would jump to (observed on the real VM: the caller then executes the
callee's code in its own frame). -/
def fnF15 : FnDump :=
  { arity := 2, upvalues := 0,
    code := #[48, 9, 0, 10, 0, 0, 0, 0, 46, 57, 49, 42, 10, 0, 49, 8, 1, 0, 6, 2, 51, 1, 4, 4, 0, 2, 0,
      57, 1, 57],
    consts := #[.num, .str, .num] }

example : verify fnF15 = .error (.pendingReturnLeak 27) := by decide +kernel

/-! ### Jump-distance limits (`emit_jump`/`patch_jump`/`emit_loop`/`patch_offset_at`) -/

open Yarel.JumpLimits

/-- The limit of the model is the constant of common.rs as it is now (regenerated table). -/
theorem jump_limit_is_the_sources : Yarel.Gen.limits.lookup "JUMP_SIZE_MAX" = some (JUMP_SIZE_MAX : Int) := by decide +kernel
#print axioms jump_limit_is_the_sources

/-- Forward jumps (`patch_jump`, also `break`): whatever is ACCEPTED is encoded exactly — the operand fits 16 bits and the VM lands
on the intended target `len`; a distance is rejected iff it exceeds `u16::MAX`; the subtraction underflows only when the
placeholder lies beyond the code (never for a placeholder the compiler itself emitted: `offset + 2 ≤ len`). -/
theorem patchJump_sound (len offset operand : Nat) (h : patchJump len offset = .ok operand) :
    operand < 65536 ∧ forwardTarget offset operand = len := by
  unfold patchJump JUMP_SIZE_MAX at h
  by_cases h1 : len < offset + 2
  · simp [h1] at h
  · by_cases h2 : len - offset - 2 > 65535
    · simp [h1, h2] at h
    · simp only [h1, h2, if_false] at h
      injection h with h
      subst h
      unfold forwardTarget
      rw [Nat.mod_eq_of_lt (by omega)]
      omega
#print axioms patchJump_sound

theorem patchJump_decides (len offset : Nat) (h : offset + 2 ≤ len) :
    (patchJump len offset = .tooLarge ↔ 65535 < len - offset - 2) ∧ patchJump len offset ≠ .fault := by
  unfold patchJump JUMP_SIZE_MAX
  have h1 : ¬ len < offset + 2 := by omega
  by_cases hd : len - offset - 2 > 65535
  · simp [h1, hd]
  · simp [h1, hd]
#print axioms patchJump_decides

/-- Backward jumps (`emit_loop`). -/
theorem emitLoop_sound (len loopStart operand : Nat) (h : emitLoop len loopStart = .ok operand) :
    operand < 65536 ∧ loopTarget len operand = loopStart := by
  unfold emitLoop JUMP_SIZE_MAX at h
  by_cases h1 : len < loopStart
  · simp [h1] at h
  · by_cases h2 : len - loopStart + 2 > 65535
    · simp [h1, h2] at h
    · simp only [h1, h2, if_false] at h
      injection h with h
      subst h
      unfold loopTarget
      rw [Nat.mod_eq_of_lt (by omega)]
      omega
#print axioms emitLoop_sound

theorem emitLoop_decides (len loopStart : Nat) (h : loopStart ≤ len) :
    (emitLoop len loopStart = .tooLarge ↔ 65535 < len - loopStart + 2) ∧ emitLoop len loopStart ≠ .fault := by
  unfold emitLoop JUMP_SIZE_MAX
  have h1 : ¬ len < loopStart := by omega
  by_cases hd : len - loopStart + 2 > 65535
  · simp [h1, hd]
  · simp [h1, hd]
#print axioms emitLoop_decides

/-- `patch_offset_at` (operands of `PushExcHandler`). -/
theorem patchOffsetAt_sound (len offset operand : Nat) (h : patchOffsetAt len offset = .ok operand) :
    operand < 65536 ∧ offset + operand = len := by
  unfold patchOffsetAt JUMP_SIZE_MAX at h
  by_cases h1 : len < offset
  · simp [h1] at h
  · by_cases h2 : len - offset > 65535
    · simp [h1, h2] at h
    · simp only [h1, h2, if_false] at h
      injection h with h
      subst h
      rw [Nat.mod_eq_of_lt (by omega)]
      omega
#print axioms patchOffsetAt_sound

/-- The boundary itself, both sides (what the repair F9 moved): 65535 is encoded, 65536 is rejected. -/
example (offset : Nat) : patchJump (offset + 2 + 65535) offset = .ok 65535 ∧ patchJump (offset + 2 + 65536) offset = .tooLarge := by
  unfold patchJump JUMP_SIZE_MAX
  constructor
  · rw [if_neg (by omega), if_neg (by omega)]; congr 1; omega
  · rw [if_neg (by omega), if_pos (by omega)]

end Yarel.C04
