import Yarel.Proofs.Pacing
import Yarel.Proofs.Roots

/-!
# C16 — allocation pacing and root counting of the mark/sweep heap

"Between collections the managed heap never exceeds the configured growth factor (2) times its size after the
previous collection, or the configured initial budget (64 KiB), by more than one allocation."

Models: `Yarel/Model/Pacing.lean` (`bytes_allocated` / `collection_threshold` accounting of `allocate_raw`,
`collect`, `collect_if_required`) and `Yarel/Model/Roots.lean` (`num_roots` bookkeeping of `Root`, `UniqueRoot`, `Gc`).
All pacing theorems are stated for arbitrary policy constants `growth`, `initBudget`; the shipped values are
`HEAP_GROWTH_FACTOR = 2`, `HEAP_INIT_BYTES_MAX = 65536` (the defaults of the model functions).
-/
namespace Yarel.Props.C16

/-! ## Pacing -/
section Pacing
open Yarel.Pacing

/-- **The pacing property.**  Take any run of the paced allocator from the initial heap, and any allocation `s`
in it (`pre` = the allocations before it).  Let `T` be the threshold in force when `s` started: the initial budget
if no collection happened yet, else `growth ×` the survivors of the most recent collection.  Then
* `T` really is the `collection_threshold` the allocation saw;
* if `s` did not collect, the heap was below `T` before and is `< T + size` after it (it exceeds `T` by less than
  the one allocation that crossed it), and the threshold stays `T`;
* if `s` collected (the heap had reached `T`), the heap is exactly `survivors + size` afterwards and the new
  threshold is `growth × survivors`;
* hence (`growth ≥ 1`) after every allocation the heap is at most the threshold now in force plus this one allocation. -/
theorem overshoot_le_one_alloc (growth initBudget : Nat) (evs : List Event)
    (pre post : List Step) (s : Step)
    (h : trace .paced (init initBudget) evs growth = pre ++ s :: post) :
    let T := thresholdInForce pre growth initBudget
    s.before.thr = T ∧
    (s.collected = false →
        s.before.bytes < T ∧ s.after.bytes = s.before.bytes + s.size ∧
        s.after.bytes < T + s.size ∧ s.after.thr = T) ∧
    (s.collected = true →
        T ≤ s.before.bytes ∧ s.after.bytes = s.live + s.size ∧ s.after.thr = s.live * growth) ∧
    s.after.thr = thresholdInForce (pre ++ [s]) growth initBudget ∧
    (1 ≤ growth → s.after.bytes ≤ thresholdInForce (pre ++ [s]) growth initBudget + s.size) := by
  intro T
  have hT : s.before.thr = T := (thr_before_eq_fold h).1
  have hs : s ∈ trace .paced (init initBudget) evs growth := by rw [h]; simp
  obtain ⟨ha, hc⟩ := mem_trace_spec hs
  have hnew : thresholdInForce (pre ++ [s]) growth initBudget
      = if s.collected then s.live * growth else T := by
    simp [thresholdInForce, List.foldl_append, T]
  refine ⟨hT, ?_, ?_, ?_, ?_⟩
  · intro hf
    obtain ⟨h1, h2⟩ := alloc_of_not_collected (hc ▸ hf)
    rw [ha, h2]; exact ⟨by omega, rfl, by simp only; omega, hT⟩
  · intro ht
    have h1 := (allocPaced_of_collected (st := s.before) (hc ▸ ht)).1
    have h2 := alloc_of_collected (mode := .paced) (st := s.before) (hc ▸ ht)
    rw [ha, h2]; simp only
    exact ⟨by omega, trivial, trivial⟩
  · rw [hnew]
    cases hcc : s.collected
    · obtain ⟨-, h2⟩ := alloc_of_not_collected (hc ▸ hcc)
      rw [ha, h2]; simpa using hT
    · rw [ha, alloc_of_collected (hc ▸ hcc)]; simp
  · intro hg
    rw [hnew]
    cases hcc : s.collected
    · obtain ⟨h1, h2⟩ := alloc_of_not_collected (hc ▸ hcc)
      rw [ha, h2]; simp only [Bool.false_eq_true, if_false]; omega
    · rw [ha, alloc_of_collected (hc ▸ hcc)]
      have : s.live ≤ s.live * growth := Nat.le_mul_of_pos_right _ hg
      simp only [if_true]; omega

#print axioms overshoot_le_one_alloc

/-- Non-vacuity (shipped constants): 70000 bytes allocated in 7 steps of 10000 cross the 64 KiB budget at the 7th
allocation (heap 70000 < 65536 + 10000); the 8th allocation collects, 30000 bytes survive, the heap is 30000 + 10000
and the new threshold is 60000. -/
example :
    let evs := (List.replicate 7 (⟨10000, 0⟩ : Event)) ++ [⟨10000, 30000⟩, ⟨10000, 0⟩]
    let tr := trace .paced init evs
    tr.map (·.collected) = [false, false, false, false, false, false, false, true, false] ∧
    tr.map (·.after.bytes) = [10000, 20000, 30000, 40000, 50000, 60000, 70000, 40000, 50000] ∧
    tr.map (·.after.thr) = [65536, 65536, 65536, 65536, 65536, 65536, 65536, 60000, 60000] ∧
    thresholdInForce (tr.take 7) = 65536 ∧ thresholdInForce (tr.take 8) = 60000 := by
  decide

/-- After any collection (either policy, from any state) the threshold is `growth ×` the heap size the
collection left: `collection_threshold = bytes_allocated * HEAP_GROWTH_FACTOR` with
`bytes_allocated` = the allocation's `after.bytes` minus the bytes of the new object. -/
theorem thr_is_twice_survivors (mode : Mode) (growth : Nat) (st : State) (evs : List Event) :
    ∀ s ∈ trace mode st evs growth, s.collected = true →
      s.after.bytes - s.size = s.live ∧ s.after.thr = (s.after.bytes - s.size) * growth := by
  intro s hs ht
  obtain ⟨ha, hc⟩ := mem_trace_spec hs
  rw [ha, alloc_of_collected (hc ▸ ht)]
  simp

#print axioms thr_is_twice_survivors

/-- The `live = 0` corner: a collection that frees everything sets the threshold to 0, and then EVERY later
allocation collects first (here the 3rd, 4th and 5th), until something survives. -/
example :
    let evs : List Event := [⟨70000, 0⟩, ⟨8, 0⟩, ⟨8, 0⟩, ⟨8, 8⟩, ⟨8, 16⟩, ⟨8, 0⟩]
    let tr := trace .paced init evs
    tr.map (·.collected) = [false, true, true, true, true, false] ∧
    tr.map (·.after.bytes) = [70000, 8, 8, 16, 24, 32] ∧
    tr.map (·.after.thr) = [65536, 0, 0, 16, 32, 32] := by
  decide

/-- In checked builds (`collect()` at every allocation) the heap after each allocation is exactly the live data
plus the new object, with the same threshold formula; and whenever the paced allocator does collect it does
exactly what the always-collecting one does. -/
theorem always_equals_paced_on_live_data (growth : Nat) (st : State) (evs : List Event) :
    (∀ s ∈ trace .always st evs growth,
        s.collected = true ∧ s.after.bytes = s.live + s.size ∧ s.after.thr = s.live * growth) ∧
    (∀ (st : State) (size live : Nat), st.thr ≤ st.bytes →
        allocPaced st size live growth = allocAlways st size live growth) := by
  refine ⟨?_, fun st size live h => allocPaced_eq_allocAlways size live growth h⟩
  intro s hs
  obtain ⟨ha, hc⟩ := mem_trace_spec hs
  have : s.collected = true := by rw [hc]; rfl
  rw [ha, alloc_of_collected (hc ▸ this)]
  exact ⟨this, rfl, rfl⟩

#print axioms always_equals_paced_on_live_data

example :
    let tr := trace .always init [⟨24, 0⟩, ⟨40, 24⟩, ⟨16, 64⟩, ⟨8, 0⟩]
    tr.map (·.after.bytes) = [24, 64, 80, 8] ∧ tr.map (·.after.thr) = [0, 48, 128, 0] := by
  decide

/-- **No unbounded growth.**  If every collection of the run leaves at most `L` bytes and every object is at most
`S` bytes, then at all times (before and after every allocation, and at the end) the heap holds at most
`max (growth × L) initBudget + S` bytes.  Either policy; needs `growth ≥ 1`. -/
theorem no_unbounded_growth (mode : Mode) (growth initBudget L S : Nat) (hg : 1 ≤ growth) (evs : List Event)
    (hL : ∀ s ∈ trace mode (init initBudget) evs growth, s.collected = true → s.live ≤ L)
    (hS : ∀ e ∈ evs, e.size ≤ S) :
    (∀ s ∈ trace mode (init initBudget) evs growth,
        s.before.bytes ≤ max (growth * L) initBudget + S ∧ s.after.bytes ≤ max (growth * L) initBudget + S) ∧
    (run mode (init initBudget) evs growth).bytes ≤ max (growth * L) initBudget + S := by
  have hM : L * growth ≤ max (growth * L) initBudget := by rw [Nat.mul_comm]; exact Nat.le_max_left _ _
  have h0 : Bounded (max (growth * L) initBudget) S (init initBudget) :=
    ⟨Nat.le_max_right _ _, by simp [init]⟩
  obtain ⟨h1, h2⟩ := bounded_trace hg hM h0 hL hS
  refine ⟨fun s hs => ?_, ?_⟩
  · obtain ⟨⟨a1, a2⟩, ⟨b1, b2⟩⟩ := h1 s hs
    exact ⟨by omega, by omega⟩
  · obtain ⟨a1, a2⟩ := h2; omega

#print axioms no_unbounded_growth

/-- The bound is attained up to the strictness of "crossing": with `L = 40000`, `S = 30000` (bound
`80000 + 30000`) the run below reaches `79999 + 30000`. -/
example :
    let evs : List Event := [⟨30000, 0⟩, ⟨30000, 0⟩, ⟨30000, 0⟩, ⟨30000, 40000⟩, ⟨9999, 0⟩, ⟨30000, 0⟩]
    (∀ s ∈ trace .paced init evs, s.collected = true → s.live ≤ 40000) ∧ (∀ e ∈ evs, e.size ≤ 30000) ∧
    (run .paced init evs).bytes = 109999 ∧ max (2 * 40000) 65536 + 30000 = 110000 := by
  decide

/-- Without the bound on the survivors there is no bound on the heap (the threshold follows the live data):
the hypothesis `hL` of `no_unbounded_growth` is needed. -/
example : (run .paced init [⟨70000, 0⟩, ⟨70000, 70000⟩, ⟨70000, 140000⟩, ⟨1, 210000⟩]).bytes = 210001 := by
  decide

/-- The driver's independent monitor can never fire on numbers produced by the model. -/
theorem monitor_of_model (mode : Mode) (growth : Nat) (hg : 1 ≤ growth) (st : State) (size live : Nat) :
    let r := alloc mode st size live growth
    monitor size st.thr r.2 r.1.bytes r.1.thr = true :=
  monitor_alloc st hg

#print axioms monitor_of_model

/-- Consequently the trace checker (`Drv/Pace.lean`) never answers `overshoot`: a record that agrees with the model
satisfies the monitor. -/
theorem judge_ne_overshoot (mode : Mode) (growth : Nat) (hg : 1 ≤ growth) (st : State)
    (size bb tb : Nat) (c : Bool) (ba ta : Nat) :
    judge mode st size bb tb c ba ta growth ≠ .overshoot := by
  unfold judge
  simp only
  split
  · rename_i h
    obtain ⟨h1, h2, h3, h4, h5⟩ := h
    have := monitor_alloc (mode := mode) (size := size) (live := ba - size) st hg
    rw [h1, h2, h3, h5] at this
    simp [this]
  · simp

#print axioms judge_ne_overshoot

/-- The checker accepts a faithful record and rejects a wrong one (here: the real heap would have had to collect). -/
example : judge .paced ⟨70000, 65536⟩ 16 70000 65536 true 1016 2000 = .ok ∧
    judge .paced ⟨70000, 65536⟩ 16 70000 65536 false 70016 65536 = .mismatch true 70016 140000 ∧
    judge .always ⟨10, 65536⟩ 16 10 65536 false 26 65536 = .mismatch true 26 20 := by
  decide

/-- One allocation never grows the heap by more than its own size when the collector only frees
(`live ≤ bytes`, i.e. `bytes_freed ≥ 0`). -/
theorem alloc_grows_le_size (mode : Mode) (growth : Nat) (st : State) (size live : Nat) (hl : live ≤ st.bytes) :
    (alloc mode st size live growth).1.bytes ≤ st.bytes + size := by
  cases hc : (alloc mode st size live growth).2
  · rw [(alloc_of_not_collected hc).2]; exact Nat.le_refl _
  · rw [alloc_of_collected hc]; simp only; omega

#print axioms alloc_grows_le_size

end Pacing

/-! ## Root counting -/
section Roots
open Yarel.Roots

/-- **Exact root counts.**  Start from any state satisfying the bookkeeping invariant (e.g. the empty heap) and
run any sequence of handle operations that never uses a handle it does not hold.  Then no operation faults
(no `num_roots` underflow, no dangling pointer), and afterwards every object's `num_roots` equals the number
of live handles (`Root`s + `UniqueRoot`s) to it, it is 0 exactly when no handle to the object is left, and no
object has two `UniqueRoot`s. -/
theorem roots_exact (ops : List Op) (hl : legal Roots.init ops = true) :
    ∃ st, Roots.run Roots.init ops = .ok st ∧
      (∀ o, o < st.numRoots.length → st.numRoots[o]? = some (handleCount st o)) ∧
      (∀ o, o < st.numRoots.length → (st.numRoots[o]? = some 0 ↔ ∀ h ∈ st.handles, h.obj ≠ o)) ∧
      (∀ h ∈ st.handles, h.obj < st.numRoots.length) ∧
      (∀ o, st.handles.count ⟨o, true⟩ ≤ 1) := by
  obtain ⟨st, hr, hi⟩ := run_inv inv_init hl
  exact ⟨st, hr, hi.exact, fun o ho => zero_iff_no_handle hi ho, hi.inRange, hi.unique⟩

#print axioms roots_exact

/-- The same from any state that satisfies the invariant (so the theorem composes along a run). -/
theorem roots_exact_from (st₀ : Roots.State) (h₀ : Inv st₀) (ops : List Op) (hl : legal st₀ ops = true) :
    ∃ st, Roots.run st₀ ops = .ok st ∧ Inv st :=
  run_inv h₀ hl

#print axioms roots_exact_from

/-- Non-vacuity: a legal sequence using every operation.  Object 0: root, cloned, one dropped, re-rooted from a `Gc`;
object 1: unique root converted into a root (count stays 1), then dropped (count 0, no handle left);
object 2: unique root dropped. -/
example :
    let ops : List Op := [.newRoot, .cloneRoot 0, .newUnique, .dropRoot 0, .rootFromGc 0, .rootFromUnique 1,
                          .newUnique, .dropRoot 1, .dropUnique 2]
    legal Roots.init ops = true ∧
    Roots.run Roots.init ops = .ok { numRoots := [2, 0, 0], handles := [⟨0, false⟩, ⟨0, false⟩] } := by
  exact ⟨rfl, rfl⟩

/-- `Root::from(unique)` is net zero on the counter: inc by the new `Root`, dec by the consumed `UniqueRoot`. -/
example : Roots.run Roots.init [.newUnique, .rootFromUnique 0]
    = .ok { numRoots := [1], handles := [⟨0, false⟩] } := rfl

/-- A double drop (only possible outside safe Rust) is not legal and faults: `0 - 1` on `num_roots`. -/
theorem double_drop_faults :
    legal Roots.init [.newRoot, .dropRoot 0, .dropRoot 0] = false ∧
    Roots.run Roots.init [.newRoot, .dropRoot 0, .dropRoot 0] = .error (.underflow 0) :=
  ⟨rfl, rfl⟩

#print axioms double_drop_faults

/-- An illegal drop need not fault: dropping a `Root` that is not held while a `UniqueRoot` to the object is alive
silently leaves `num_roots = 0` with a live handle (the next collection would free the object under it) — the
legality hypothesis of `roots_exact` cannot be dropped. -/
example :
    legal Roots.init [.newUnique, .dropRoot 0] = false ∧
    Roots.run Roots.init [.newUnique, .dropRoot 0] = .ok { numRoots := [0], handles := [⟨0, true⟩] } :=
  ⟨rfl, rfl⟩

end Roots

end Yarel.Props.C16
