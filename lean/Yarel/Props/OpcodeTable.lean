import Yarel.Model.Bytecode
import Yarel.Gen.OpCodes
/-
The verifier's opcode table (Yarel/Model/Bytecode.lean: `Op`, `Op.all`, `Op.toByte`, `Op.shape` = what `decodeE`
reads after the opcode byte) agrees with what chunk.rs says NOW (`Gen.opcodes`: enum `OpCode` in declaration order
with its `as u8` value and `OpCode::arg_sizes`), for every opcode, except the one documented discrepancy:

  `PopExcHandler`: `arg_sizes` lists `[2, 2]`, but the compiler emits the bare opcode byte and
  `pop_exc_handler_impl` reads no operand; the real encoding (and the model) has NO operand bytes.
  (`arg_sizes` is only consulted by `emit_variable_op` for `== &[1]` and by debug.rs.)

`Closure` is listed by `arg_sizes` as `[2]`: the u16 constant index; the `(is_local, index)` pairs that follow are
data-dependent and not part of `arg_sizes` (model shape `closure` = u16 + pairs).

What change of the source breaks these theorems
* a new / removed / reordered `OpCode` variant, or a changed operand layout in `arg_sizes`
  (fix: extend `Op`, `Op.all`, `Op.shape` and the verifier) — `opcode_table_agrees`, `opcode_count`;
* repairing `arg_sizes` for `PopExcHandler` → delete the entry from `documentedDiscrepancies` (one line);
* a `From<u8> for OpCode` that no longer is the one-arm-per-variant table (xlate sets `fromU8Consistent := false`).
-/
namespace Yarel.Props.OpcodeTable
open Yarel.Bytecode

/-- Rust variant name of a model opcode (the model uses lower camel case and `_` for Lean keywords). -/
def rustName : Op → String
  | .constant => "Constant" | .nil => "Nil" | .true_ => "True" | .false_ => "False" | .pop => "Pop"
  | .copyTop => "CopyTop" | .getLocal => "GetLocal" | .setLocal => "SetLocal" | .getGlobal => "GetGlobal"
  | .defineGlobal => "DefineGlobal" | .setGlobal => "SetGlobal" | .getUpvalue => "GetUpvalue"
  | .setUpvalue => "SetUpvalue" | .getProperty => "GetProperty" | .setProperty => "SetProperty"
  | .getClass => "GetClass" | .getSuper => "GetSuper" | .equal => "Equal" | .greater => "Greater"
  | .less => "Less" | .add => "Add" | .subtract => "Subtract" | .multiply => "Multiply" | .divide => "Divide"
  | .bitwiseAnd => "BitwiseAnd" | .bitwiseOr => "BitwiseOr" | .bitwiseXor => "BitwiseXor" | .modulo => "Modulo"
  | .logicalNot => "LogicalNot" | .bitwiseNot => "BitwiseNot" | .bitShiftLeft => "BitShiftLeft"
  | .bitShiftRight => "BitShiftRight" | .negate => "Negate" | .getItem => "GetItem" | .setItem => "SetItem"
  | .formatString => "FormatString" | .buildHashMap => "BuildHashMap" | .buildRange => "BuildRange"
  | .buildString => "BuildString" | .buildTuple => "BuildTuple" | .buildVec => "BuildVec" | .iterNext => "IterNext"
  | .jump => "Jump" | .jumpIfFalse => "JumpIfFalse" | .jumpIfStopIter => "JumpIfStopIter" | .loop => "Loop"
  | .jumpFinally => "JumpFinally" | .endFinally => "EndFinally" | .pushExcHandler => "PushExcHandler"
  | .popExcHandler => "PopExcHandler" | .throw => "Throw" | .call => "Call" | .invoke => "Invoke"
  | .construct => "Construct" | .superInvoke => "SuperInvoke" | .closure => "Closure"
  | .closeUpvalue => "CloseUpvalue" | .return_ => "Return" | .declareClass => "DeclareClass"
  | .defineClass => "DefineClass" | .inherit => "Inherit" | .method => "Method" | .staticMethod => "StaticMethod"
  | .startImport => "StartImport" | .finishImport => "FinishImport"

/-- Fixed-size operand fields the model's decoder reads after the opcode byte (`closure`: the u16; the pairs
are data dependent). -/
def shapeSizes : Shape → List Nat
  | .none => [] | .u8 => [1] | .u16 => [2] | .u16u8 => [2, 1] | .u16u16 => [2, 2] | .closure => [2]

/-- COMMITTED reference: opcodes whose `arg_sizes` entry is known to differ from the real encoding,
with the sizes `arg_sizes` claims. -/
def documentedDiscrepancies : List (String × List Nat) :=
  [ ("PopExcHandler", [2, 2]) ]

/-- One generated row agrees with the model: same byte for that name, and the same operand sizes unless the row
is a documented discrepancy (then the row must say exactly what the documentation says). -/
def rowAgrees (row : String × Nat × List Nat) : Bool :=
  match Op.all[row.2.1]? with
  | none => false
  | some op =>
    rustName op == row.1 && op.toByte == row.2.1 &&
      (if documentedDiscrepancies.any (·.1 == row.1)
       then documentedDiscrepancies.contains (row.1, row.2.2) && shapeSizes op.shape != row.2.2
       else shapeSizes op.shape == row.2.2)

/-- Same number of opcodes on both sides (so no model opcode is missing from the source and vice versa). -/
theorem opcode_count : Gen.opcodes.length = Op.all.length := by decide

/-- Row `i` of the generated table has byte value `i` (declaration order = `as u8` value, no gaps). -/
theorem opcode_bytes_dense : (Gen.opcodes.map (·.2.1)) = List.range Gen.opcodes.length := by decide

/-- opcode_table_agrees: every opcode of chunk.rs has the name, byte and operand layout the verifier assumes,
except the documented `PopExcHandler` row. -/
theorem opcode_table_agrees : ∀ row ∈ Gen.opcodes, rowAgrees row = true := by decide +kernel

/-- …and conversely every model opcode occurs in the generated table under its Rust name with its byte. -/
theorem model_ops_in_source :
    ∀ op ∈ Op.all, (Gen.opcodes.map fun r => (r.1, r.2.1)).contains (rustName op, op.toByte) = true := by
  decide +kernel

/-- Every documented discrepancy is still a discrepancy of the source (no stale documentation). -/
theorem discrepancies_not_stale : ∀ d ∈ documentedDiscrepancies, Gen.opcodes.any (fun r => r.1 == d.1 && r.2.2 == d.2) = true := by
  decide +kernel

/-- `OpCode::from(u8)` is the one-arm-per-variant table `v if v == OpCode::X as u8 => OpCode::X` (so it is the
inverse of `as u8` on 0..64) with the fallback `panic!` (a panic site: SitesInventory). -/
theorem from_u8_consistent : Gen.fromU8Consistent = true ∧ Gen.fromU8IsMatchTable = true := by decide

/-- `Op.ofByte` is the inverse of `Op.toByte` (model side of the same fact). -/
theorem ofByte_toByte : ∀ op ∈ Op.all, Op.ofByte op.toByte = some op := by decide

-- non-vacuity: the exempted row really disagrees, an ordinary row really agrees
example : rowAgrees ("PopExcHandler", 49, [2, 2]) = true ∧ rowAgrees ("PopExcHandler", 49, []) = false := by decide +kernel
example : rowAgrees ("Invoke", 52, [2, 1]) = true ∧ rowAgrees ("Invoke", 52, [2]) = false ∧ rowAgrees ("Invoke", 51, [2, 1]) = false := by
  decide +kernel

#print axioms opcode_count
#print axioms opcode_bytes_dense
#print axioms opcode_table_agrees
#print axioms model_ops_in_source
#print axioms discrepancies_not_stale
#print axioms from_u8_consistent
#print axioms ofByte_toByte

end Yarel.Props.OpcodeTable
