/-
C08 – the per-fiber exception-handler stack (`ExcHandler`, `push/pop_exc_handler`, `unwind_stack`,
`throw_impl`, `try_handle_error`, `jump_finally_impl`, `end_finally_impl`).

Model: `Yarel/Model/Handlers.lean` (one fiber + the VM registers `handling_exception`, `ip`), embedded per
fiber in `Yarel/Model/Fibers.lean` (`Fibers.handlerOp`). Definitions used below:
* `unwind`, `throw`, `raise`, `pushHandler`, `popHandler`, `jumpFinally`, `endFinally` – the transcribed operations;
* `run m ops` – execute a DYNAMIC trace (operations in the order they were executed);
* `log m ops` – the handler events of that run (`installed h`, `removedByPop h`, `removedByUnwind h`);
* `replay s evs` – an abstract LIFO stack replaying events; a removal is only defined for THE TOP element;
* `Bal f ops g` – well-bracketed regions (any nesting depth), entered with flag `f`, left with flag `g`.
Lists of handlers have the innermost (most recently installed) handler first.
-/
import Yarel.Proofs.Handlers
import Yarel.Model.Fibers

namespace Yarel.Handlers

/-! ### concrete data for the non-vacuity examples -/

/-- a fiber two frames deep with four slots and no handler. -/
def fb0 : Fiber :=
  { stack := [.closure 1, .num 10, .num 11, .num 12], frames := 2, handlers := [],
    returnIp := none, returnValue := .nil, errorIp := none }

def m0 : Vm := { fb := fb0, handling := false, pc := 100 }

/-- `try { try { <push 7>; throw } finally { <push; pop> } } catch e { }` as executed (without the
`PopExcHandler` the compiler puts at the start of the catch block – see `defect_catch_pop_removes_outer`):
the inner handler has no catch block, so the unwind lands in the finally block with the flag set, and
`EndFinally` re-raises into the outer catch block. -/
def nestedTrace : List Op :=
  .pushH 20 6 ::
    ((.pushH 5 0 :: ([.pushV (.num 7)] ++ [.throw])) ++ ([.pushV .nil] ++ [.popV]) ++ [.endFinally])

/-- the state when the innermost `throw` of `nestedTrace` executes. -/
def mThrow : Vm :=
  match run m0 [.pushH 20 6, .pushH 5 0, .pushV (.num 7)] with
  | .ok m => m
  | _ => m0

example : mThrow.fb.handlers = [⟨113, 113, 4, 2⟩, ⟨124, 130, 4, 2⟩] ∧
    mThrow.fb.stack = [.closure 1, .num 10, .num 11, .num 12, .num 7] := by decide

/-! ### 1. `unwind_contract` -/

/-- Unwinding with handlers `h :: r`, the exception `exc` on top of the stack, where `h` FITS the current
state (the stack is at least as high as when `h` was installed, and the frame in which it was installed is
still there): the result has handlers `r`, exactly `h.frameCount` frames, the first `h.initStack` slots
unchanged followed by the exception, control at `h.catchIp`, the flag `handling_exception = h.noCatch`, and
the pending-return / error-ip fields untouched. -/
theorem unwind_contract (m : Vm) (h : Handler) (r : List Handler) (below : List Val) (exc : Val)
    (hstack : m.fb.stack = below ++ [exc]) (hh : m.fb.handlers = h :: r)
    (hfit : h.initStack ≤ m.fb.stack.length) (hmax : h.initStack < stackMax)
    (hframes : 1 ≤ h.frameCount ∧ h.frameCount ≤ m.fb.frames) :
    ∃ m', unwind m = .ok m' ∧
      m'.fb.handlers = r ∧
      m'.fb.frames = h.frameCount ∧
      m'.fb.stack = m.fb.stack.take h.initStack ++ [exc] ∧
      (∀ i, i < h.initStack → m'.fb.stack[i]? = m.fb.stack[i]?) ∧
      m'.fb.stack.length = h.initStack + 1 ∧
      m'.pc = h.catchIp ∧
      m'.handling = h.noCatch ∧
      m'.fb.returnIp = m.fb.returnIp ∧ m'.fb.returnValue = m.fb.returnValue ∧
      m'.fb.errorIp = m.fb.errorIp := by
  have hlast : m.fb.stack.getLast? = some exc := by rw [hstack]; simp
  have hmin : min m.fb.frames h.frameCount = h.frameCount := by omega
  refine ⟨_, (unwind_ok_iff m _).mpr ⟨exc, h, r, hlast, hh, hfit, hmax, by omega, rfl⟩,
    rfl, hmin, rfl, ?_, ?_, rfl, rfl, rfl, rfl, rfl⟩
  · intro i hi
    show (m.fb.stack.take h.initStack ++ [exc])[i]? = m.fb.stack[i]?
    rw [List.getElem?_append_left (by simp; omega), List.getElem?_take_of_lt hi]
  · show (m.fb.stack.take h.initStack ++ [exc]).length = h.initStack + 1
    simp; omega

#print axioms unwind_contract

/-- With no handler installed IN THIS FIBER the run ends, reporting the thrown value; nothing is modified. -/
theorem unwind_uncaught (m : Vm) (below : List Val) (exc : Val)
    (hstack : m.fb.stack = below ++ [exc]) (hh : m.fb.handlers = []) :
    unwind m = .ended exc m :=
  (unwind_ended_iff m exc m).mpr ⟨by rw [hstack]; simp, hh, rfl⟩

#print axioms unwind_uncaught

/-- non-vacuity: the hypotheses of `unwind_contract` hold at the `throw` of `nestedTrace`; the selected
handler is the inner one. -/
example : ∃ m', unwind mThrow = .ok m' ∧ m'.fb.handlers = [⟨124, 130, 4, 2⟩] ∧ m'.fb.frames = 2 ∧
    m'.fb.stack = [.closure 1, .num 10, .num 11, .num 12, .num 7] ∧ m'.pc = 113 ∧ m'.handling = true := by
  obtain ⟨m', h1, h2, h3, h4, _, _, h7, h8, _⟩ :=
    unwind_contract mThrow ⟨113, 113, 4, 2⟩ [⟨124, 130, 4, 2⟩]
      [.closure 1, .num 10, .num 11, .num 12] (.num 7) (by decide) (by decide) (by decide) (by decide) (by decide)
  exact ⟨m', h1, h2, h3, h4, h7, h8⟩

example : unwind { m0 with fb := { fb0 with stack := fb0.stack ++ [.num 7] } } =
    .ended (.num 7) { m0 with fb := { fb0 with stack := fb0.stack ++ [.num 7] } } := by decide

/-- The "fits" hypotheses of `unwind_contract` cannot be dropped. A handler installed in a frame that has
since returned (see `defect_jump_leaves_stale_handler` for how that happens) leaves FEWER frames than
`frameCount`; one whose `initStack` exceeds the current height makes `Stack::truncate` raise the stack top
(unchecked builds) or do nothing (checked builds) – the model stops with `Fault.growTruncate`. -/
theorem unwind_contract_needs_fit :
    (∃ m m' h r, m.fb.handlers = h :: r ∧ unwind m = .ok m' ∧ m'.fb.frames ≠ h.frameCount) ∧
    (∃ m h r, m.fb.handlers = h :: r ∧ unwind m = .fault .growTruncate) :=
  ⟨⟨{ m0 with fb := { fb0 with frames := 1, handlers := [⟨50, 50, 2, 2⟩] } }, _, _, _, rfl, rfl, by decide⟩,
   ⟨{ m0 with fb := { fb0 with handlers := [⟨50, 50, 9, 2⟩] } }, _, _, rfl, by decide⟩⟩

/-- `throw` is `unwind` after setting the flag and recording the error ip; when nothing catches, the flag
STAYS set in the state left behind (ledger F18). -/
theorem throw_uncaught (m : Vm) (below : List Val) (exc : Val)
    (hstack : m.fb.stack = below ++ [exc]) (hh : m.fb.handlers = []) :
    throw m = .ended exc { m with handling := true, fb := { m.fb with errorIp := some m.pc } } :=
  unwind_uncaught _ below exc hstack hh

/-! ### 2. `handler_lifo` -/

/-- For EVERY trace (well-bracketed or not) that runs to its end: replaying the logged handler events on an
abstract LIFO stack, starting from the handler list at entry, succeeds and yields the handler list at exit.
Since `replay` only allows removing the top element, every removal – by `PopExcHandler`, by
`jump_finally_impl`, or by an unwind – removed exactly the innermost handler installed at that moment, and
every handler is removed at most once. Counting: handlers at entry + installs = handlers at exit + removals. -/
theorem handler_lifo (m m' : Vm) (ops : List Op) (h : run m ops = .ok m') :
    replay m.fb.handlers (log m ops) = some m'.fb.handlers ∧
    m.fb.handlers.length + ((log m ops).filter Ev.isInstall).length =
      m'.fb.handlers.length + ((log m ops).filter (fun e => !e.isInstall)).length :=
  ⟨run_replay m m' ops h, replay_count _ _ _ (run_replay m m' ops h)⟩

#print axioms handler_lifo

/-- Every operation that unwinds (`Throw`, a failing instruction, `EndFinally` with the flag set) and
succeeds selected the INNERMOST handler: it is removed and the flag becomes its `noCatch`. -/
theorem unwind_selects_innermost (m m' : Vm) (o : Op) (ho : unwinds m o = true) (h : step m o = .ok m') :
    ∃ hd r, m.fb.handlers = hd :: r ∧ m'.fb.handlers = r ∧ m'.handling = hd.noCatch ∧
      events m o = [.removedByUnwind hd] := by
  obtain ⟨hd, r, hh, h1, h2⟩ := unwinding_step m m' o ho h
  refine ⟨hd, r, hh, h1, h2, ?_⟩
  cases o <;> simp_all [events, unwinds]

#print axioms unwind_selects_innermost

example : log m0 nestedTrace =
    [.installed ⟨124, 130, 4, 2⟩, .installed ⟨113, 113, 4, 2⟩, .removedByUnwind ⟨113, 113, 4, 2⟩,
     .removedByUnwind ⟨124, 130, 4, 2⟩] := by decide

example : ∃ m', run m0 nestedTrace = .ok m' ∧ m'.fb.handlers = [] ∧ m'.handling = false ∧ m'.pc = 124 := by
  refine ⟨_, rfl, ?_, ?_, ?_⟩ <;> decide

/-- The handler stack is per fiber: a handler operation of the running fiber (`Fibers.handlerOp`) changes
no other fiber – whatever handlers those have installed. -/
theorem handlers_per_fiber (b : Fibers.Build) (vm vm' : Fibers.Vm) (op : Op) (r : Res) (a : Nat)
    (ha : vm.active b = some a) (h : Fibers.handlerOp b vm op = some (r, vm')) :
    ∀ g, g ≠ a → vm'.fibers[g]? = vm.fibers[g]? := by
  intro g hg
  simp only [Fibers.handlerOp, ha] at h
  split at h
  · cases h
  · split at h <;> (simp only [Option.some.injEq, Prod.mk.injEq] at h; obtain ⟨_, rfl⟩ := h)
    · exact List.getElem?_set_ne (Ne.symm hg)
    · exact List.getElem?_set_ne (Ne.symm hg)
    · rfl

#print axioms handlers_per_fiber

/-- … and an exception in a fiber without handlers ends the run even if its CALLER has one installed. -/
theorem uncaught_ignores_other_fibers (b : Fibers.Build) (vm : Fibers.Vm) (a : Nat) (cur : Fibers.Fiber)
    (below : List Val) (exc : Val) (ha : vm.active b = some a) (hcur : vm.fibers[a]? = some cur)
    (hstack : cur.st.stack = below ++ [exc]) (hh : cur.st.handlers = []) :
    ∃ m vm', Fibers.handlerOp b vm .throw = some (.ended exc m, vm') := by
  have := throw_uncaught { fb := cur.st, handling := vm.handling, pc := vm.pc } below exc hstack hh
  simp only [Fibers.handlerOp, ha, hcur, step, this]
  exact ⟨_, _, rfl⟩

#print axioms uncaught_ignores_other_fibers

/-- non-vacuity: fiber 1 (called by fiber 0, which HAS a handler) throws with no handler of its own. -/
def twoFibers : Fibers.Vm :=
  { fibers := [ { st := { fb0 with handlers := [⟨50, 56, 1, 1⟩] }, savedIp := 40, caller := none, closure := 1 },
                { st := { fb0 with stack := [.closure 2, .num 7], frames := 1 }, savedIp := 0, caller := some 0,
                  closure := 2 } ],
    fiber := some 1, unsafeFiber := some 1, handling := false, pc := 7 }

example : ∃ m vm', Fibers.handlerOp .unchecked twoFibers .throw = some (.ended (.num 7) m, vm') ∧
    vm'.fibers[0]? = twoFibers.fibers[0]? :=
  ⟨_, _, rfl, by decide⟩

/-! ### 3. `balanced_region` -/

/-- Executing a well-bracketed region (`Bal`, any nesting depth; each try region left by exactly one of:
its `PopExcHandler`, `JumpFinally`, a `Throw`/failing instruction that its handler catches, or a nested
`EndFinally` re-raise that its handler catches) leaves the handler stack exactly as it was at entry; the
flag ends up as the `Bal` judgement says. -/
theorem balanced_region {f g : Bool} {ops : List Op} (hb : Bal f ops g) (m m' : Vm)
    (hf : m.handling = f) (h : run m ops = .ok m') :
    m'.fb.handlers = m.fb.handlers ∧ m'.handling = g :=
  bal_sound hb m m' hf h

#print axioms balanced_region

/-- … in particular for `n` try statements nested around any balanced body, for every `n`. -/
theorem balanced_region_any_depth (n : Nat) {f : Bool} {body : List Op} (hb : Bal f body f) (m m' : Vm)
    (hf : m.handling = f) (h : run m (nest body n) = .ok m') :
    m'.fb.handlers = m.fb.handlers :=
  (bal_sound (bal_nest f body hb n) m m' hf h).1

#print axioms balanced_region_any_depth

theorem nestedTrace_bal : Bal false nestedTrace false :=
  Bal.tryReraise (f := false) 20 6
    (Bal.append
      (Bal.tryThrow (g := false) 5 0 (Bal.neutral false (.pushV (.num 7)) rfl))
      (Bal.append (Bal.neutral true (.pushV .nil) rfl) (Bal.neutral true .popV rfl)))

/-- non-vacuity: `nestedTrace` is well-bracketed AND runs to its end. -/
example : ∃ m', run m0 nestedTrace = .ok m' ∧ m'.fb.handlers = m0.fb.handlers ∧ m'.handling = false :=
  ⟨_, rfl, balanced_region nestedTrace_bal m0 _ rfl rfl⟩

/-- depth 40 around a body that itself throws and catches. -/
example : ∃ m', run m0 (nest (.pushH 3 2 :: ([.pushV (.num 1)] ++ [.throw])) 40) = .ok m' ∧
    m'.fb.handlers = [] := by
  refine ⟨_, rfl, ?_⟩
  decide

/-! ### 4. `finally_flag` -/

/-- After unwinding into a handler WITHOUT catch block (`finally_ip == catch_ip`, i.e. catch size 0) the flag
is set, after unwinding into a catch block it is clear. `EndFinally` re-raises iff the flag is set: with it
set the innermost handler is consumed by a new unwind (or the run ends if there is none), without it the
handlers are untouched. -/
theorem finally_flag :
    (∀ m m' h r, m.fb.handlers = h :: r → unwind m = .ok m' →
        m'.handling = h.noCatch ∧ (h.noCatch = true ↔ h.finallyIp = h.catchIp)) ∧
    (∀ m t c, (mkHandler m t c).noCatch = (c == 0)) ∧
    (∀ m m', m.handling = true → endFinally m = .ok m' →
        ∃ h r, m.fb.handlers = h :: r ∧ m'.fb.handlers = r ∧ m'.handling = h.noCatch) ∧
    (∀ m v m', m.handling = true → endFinally m = .ended v m' → m.fb.handlers = [] ∧ m' = m) ∧
    (∀ m m', m.handling = false → endFinally m = .ok m' →
        m'.fb.handlers = m.fb.handlers ∧ m'.handling = false) ∧
    (∀ m v m', m.handling = false → endFinally m ≠ .ended v m') := by
  refine ⟨?_, mkHandler_noCatch, ?_, ?_, ?_, ?_⟩
  · intro m m' h r hh hu
    obtain ⟨_, h', r', _, hh', _, _, _, rfl⟩ := (unwind_ok_iff m m').mp hu
    rw [hh] at hh'; cases hh'
    exact ⟨rfl, by simp [Handler.noCatch]⟩
  · intro m m' hf h
    exact unwinding_step m m' .endFinally (by simpa [unwinds] using hf) h
  · intro m v m' hf h
    simp only [endFinally, hf, if_true] at h
    cases hu : unwind m with
    | ok m1 => rw [hu] at h; exact absurd h (takeReturnData_not_ended _ _ _)
    | ended v1 m1 =>
      rw [hu] at h; cases h
      obtain ⟨_, h2, h3⟩ := (unwind_ended_iff m v m').mp hu
      exact ⟨h2, h3⟩
    | fault e => rw [hu] at h; cases h
  · intro m m' hf h
    simp only [endFinally, hf] at h
    obtain ⟨h1, h2, _⟩ := takeReturnData_ok m m' (by simpa using h)
    exact ⟨h1, h2.trans hf⟩
  · intro m v m' hf h
    simp only [endFinally, hf] at h
    exact takeReturnData_not_ended m v m' (by simpa using h)

#print axioms finally_flag

/-- non-vacuity: the two unwinds of `nestedTrace`. -/
example : (∃ m', unwind mThrow = .ok m' ∧ m'.handling = true) ∧
    (∃ m1 m2, run m0 (nestedTrace.take 6) = .ok m1 ∧ m1.handling = true ∧
      endFinally m1 = .ok m2 ∧ m2.handling = false ∧ m2.fb.handlers = []) :=
  ⟨⟨_, rfl, by decide⟩, ⟨_, _, rfl, by decide, rfl, by decide, by decide⟩⟩

/-! ### 5. defect shapes of the present code, at this level -/

/-- (i) Ledger F12. The compiler emits `PopExcHandler` as the first instruction of a catch block. When the
catch block is entered, `unwind_stack` has ALREADY popped the selected handler, so this pop removes the
next one – the handler of the ENCLOSING try statement. Trace: outer try, inner try, throw, (catch block
starts:) popH. Without that pop the outer handler survives; with it the handler stack is empty and a
second throw, still lexically inside the outer try, ends the run. -/
theorem defect_catch_pop_removes_outer :
    (∃ m', run m0 [.pushH 20 6, .pushH 5 4, .pushV (.num 7), .throw] = .ok m' ∧
        m'.fb.handlers = [⟨124, 130, 4, 2⟩]) ∧
    (∃ m', run m0 [.pushH 20 6, .pushH 5 4, .pushV (.num 7), .throw, .popH] = .ok m' ∧
        m'.fb.handlers = []) ∧
    (∃ m', run m0 [.pushH 20 6, .pushH 5 4, .pushV (.num 7), .throw, .popH, .pushV (.num 8), .throw] =
        .ended (.num 8) m') :=
  ⟨⟨_, rfl, by decide⟩, ⟨_, rfl, by decide⟩, ⟨_, rfl⟩⟩

#print axioms defect_catch_pop_removes_outer

/-- … and in general: whenever a try body (any well-bracketed `b`) throws into its own catch block and the
catch block then executes its leading `PopExcHandler`, the handler stack is not the one at entry but the one
at entry MINUS its innermost element. -/
theorem defect_catch_pop_general {f g : Bool} {b : List Op} (hb : Bal f b g) (t c : Nat) (m m' : Vm)
    (hf : m.handling = f) (h : run m (.pushH t c :: (b ++ [.throw, .popH])) = .ok m') :
    m'.fb.handlers = m.fb.handlers.tail := by
  have e : (Op.pushH t c :: (b ++ [.throw, .popH])) = (.pushH t c :: (b ++ [.throw])) ++ [.popH] := by simp
  rw [e] at h
  obtain ⟨m1, h1, h2⟩ := run_append_ok _ _ _ _ h
  obtain ⟨a1, _⟩ := bal_sound (Bal.tryThrow t c hb) m m1 hf h1
  rw [run_single] at h2
  simp only [step] at h2; cases h2
  simp only [popHandler, a1]

#print axioms defect_catch_pop_general

/-- (ii) Ledger F13. Leaving a try region by a jump that skips its `PopExcHandler` (`break`/`continue`)
leaves the handler installed. Here the region is inside a called function (`call` … `ret`): after the
return, an unrelated throw in the caller "unwinds" to the stale handler – control goes to the catch address
of the OTHER function's try statement (`pc = 114`), and the frame count is not the recorded one. -/
theorem defect_jump_leaves_stale_handler :
    (∃ m', run m0 [.call, .pushH 10 5, .jump 200, .ret] = .ok m' ∧
        m'.fb.handlers = [⟨114, 119, 4, 3⟩] ∧ m'.fb.frames = 2) ∧
    (∃ m', run m0 [.call, .pushH 10 5, .jump 200, .ret, .pushV (.num 9), .throw] = .ok m' ∧
        m'.pc = 114 ∧ m'.fb.frames = 2 ∧ m'.fb.frames ≠ 3) :=
  ⟨⟨_, rfl, by decide, by decide⟩, ⟨_, rfl, by decide, by decide, by decide⟩⟩

#print axioms defect_jump_leaves_stale_handler
#print axioms unwind_contract_needs_fit
#print axioms throw_uncaught

end Yarel.Handlers
