/-
Who writes the state the models are about.

The mechanism models (handler stack, fiber links, open-cell list, module registry, class tables, heap accounting, the state that
survives a run) say which operations change which piece of state; their theorems are inductions over exactly those operations.
`Gen.stateWrites` lists, regenerated from the sources on every run (verif_hooks / test items stripped), every place that assigns to a
tracked field, calls a method on it that is not a known read, or borrows it mutably: (field, file, enclosing function, what).  Each
theorem below pins the SET of such places for one group of fields (order and multiplicity do not matter: moving code inside a function
or reordering functions changes nothing).  A write from a new place - a clean-up added to an error path, a cache invalidation, a
"restore" on return - or a write that disappears is a change of the frame the inductions assume.
-/
import Yarel.Gen.CfgSites
namespace Yarel.StateWrites
open Yarel

abbrev Site := String × String × String × String

def sameSet (a b : List Site) : Bool := a.all (fun x => b.contains x) && b.all (fun x => a.contains x)

def writesOf (fields : List String) : List Site := Gen.stateWrites.filter fun e => fields.contains e.1

/-- C08 C02: the handler stack, the pending return, the recorded raise site, the exception-in-flight flag and the frame list are written by the translated / modelled operations only (push / pop / unwind / throw / JumpFinally / EndFinally / call / return / the fiber switch / the run prologue) -/
theorem writers_of_exception_state :
    sameSet (writesOf ["exc_handlers", "return_ip", "return_value", "error_ip", "handling_exception", "frames"])
    [ ("frames", "object.rs", "ObjFiber::push_call_frame", ".push"),
      ("frames", "object.rs", "ObjFiber::current_frame_mut", ".last_mut"),
      ("exc_handlers", "object.rs", "ObjFiber::push_exc_handler", ".push"),
      ("exc_handlers", "object.rs", "ObjFiber::pop_exc_handler", ".pop"),
      ("return_ip", "object.rs", "ObjFiber::take_return_data", ".take"),
      ("return_value", "object.rs", "ObjFiber::take_return_data", "= .."),
      ("error_ip", "object.rs", "ObjFiber::record_error_site", "= .."),
      ("handling_exception", "vm.rs", "Vm::execute", "= .."),
      ("handling_exception", "vm.rs", "Vm::load_fiber", "= .."),
      ("handling_exception", "vm.rs", "Vm::unload_fiber", "= .."),
      ("return_ip", "vm.rs", "Vm::jump_finally_impl", "= .."),
      ("return_value", "vm.rs", "Vm::jump_finally_impl", "= .."),
      ("handling_exception", "vm.rs", "Vm::throw_impl", "= .."),
      ("frames", "vm.rs", "Vm::return_impl", ".pop"),
      ("frames", "vm.rs", "Vm::unwind_stack", ".truncate"),
      ("handling_exception", "vm.rs", "Vm::unwind_stack", "= .."),
      ("error_ip", "vm.rs", "Vm::unwind_stack", "= .."),
      ("frames", "vm.rs", "Vm::reset_stack", ".clear") ] = true := by decide +kernel

/-- C09: the caller link is written by the two fiber-switch functions only -/
theorem writers_of_fiber_links :
    sameSet (writesOf ["caller", "frames", "handling_exception"])
    [ ("frames", "object.rs", "ObjFiber::push_call_frame", ".push"),
      ("frames", "object.rs", "ObjFiber::current_frame_mut", ".last_mut"),
      ("handling_exception", "vm.rs", "Vm::execute", "= .."),
      ("handling_exception", "vm.rs", "Vm::load_fiber", "= .."),
      ("caller", "vm.rs", "Vm::load_fiber", "= .."),
      ("handling_exception", "vm.rs", "Vm::unload_fiber", "= .."),
      ("caller", "vm.rs", "Vm::unload_fiber", "= .."),
      ("handling_exception", "vm.rs", "Vm::throw_impl", "= .."),
      ("frames", "vm.rs", "Vm::return_impl", ".pop"),
      ("frames", "vm.rs", "Vm::unwind_stack", ".truncate"),
      ("handling_exception", "vm.rs", "Vm::unwind_stack", "= .."),
      ("frames", "vm.rs", "Vm::reset_stack", ".clear") ] = true := by decide +kernel

/-- C06: the head of the open-cell list is written by capture and close only -/
theorem writers_of_open_cells :
    sameSet (writesOf ["open_upvalues"])
    [ ("open_upvalues", "object.rs", "ObjFiber::close_upvalues", "= .."),
      ("open_upvalues", "vm.rs", "Vm::capture_upvalue", "= ..") ] = true := by decide +kernel

/-- C14: the registry gains entries in `Vm::module` only, loses them in `reset` only; `imported` is set by FinishImport only; the active module follows the frame -/
theorem writers_of_module_registry :
    sameSet (writesOf ["modules", "imported", "active_module"])
    [ ("modules", "vm.rs", "Vm::reset", ".retain"),
      ("active_module", "vm.rs", "Vm::reset", "= .."),
      ("active_module", "vm.rs", "Vm::reset", ".borrow_mut"),
      ("modules", "vm.rs", "Vm::module", ".insert"),
      ("active_module", "vm.rs", "Vm::define_global_impl", ".borrow_mut"),
      ("active_module", "vm.rs", "Vm::set_global_impl", ".borrow_mut"),
      ("imported", "vm.rs", "Vm::finish_import_impl", "= .."),
      ("active_module", "vm.rs", "Vm::load_frame", "= ..") ] = true := by decide +kernel

/-- C07: method tables, ancestry and the class under construction are written by the class-definition instructions (and the construction of the built-in classes) only -/
theorem writers_of_class_tables :
    sameSet (writesOf ["methods", "superclass", "metaclass", "working_class_def"])
    [ ("methods", "core.rs", "bind_type_class", "= .."),
      ("metaclass", "core.rs", "new_base_metaclass", "= .."),
      ("methods", "core.rs", "bind_object_class", "= .."),
      ("methods", "core.rs", "bind_gc_obj_string_class", "= .."),
      ("working_class_def", "vm.rs", "Vm::declare_class_impl", "= .."),
      ("working_class_def", "vm.rs", "Vm::define_class_impl", ".take"),
      ("metaclass", "vm.rs", "Vm::define_class_impl", ".into"),
      ("metaclass", "vm.rs", "Vm::define_class_impl", "= .."),
      ("superclass", "vm.rs", "Vm::inherit_impl", "= .."),
      ("working_class_def", "vm.rs", "Vm::inherit_impl", ".as_mut"),
      ("methods", "vm.rs", "Vm::inherit_impl", ".insert"),
      ("working_class_def", "vm.rs", "Vm::define_method", ".as_mut"),
      ("methods", "vm.rs", "Vm::define_method", ".insert"),
      ("methods", "vm.rs", "Vm::define_method", ".remove"),
      ("superclass", "vm.rs", "Vm::init_heap_allocated_data", "= ..") ] = true := by decide +kernel

/-- C16 C01: the byte counter, the root counts and the colours are written by allocate_raw / collect / the handle operations / the three colouring functions only -/
theorem writers_of_heap_accounting :
    sameSet (writesOf ["bytes_allocated", "num_roots", "colour"])
    [ ("colour", "memory.rs", "GcBox::unmark", ".set"),
      ("colour", "memory.rs", "GcBox::mark", ".replace"),
      ("colour", "memory.rs", "GcBox::blacken", ".replace"),
      ("num_roots", "memory.rs", "GcBox::inc_num_roots", ".replace"),
      ("num_roots", "memory.rs", "GcBox::dec_num_roots", ".replace"),
      ("bytes_allocated", "memory.rs", "Heap::allocate_raw", "op= .."),
      ("bytes_allocated", "memory.rs", "Heap::collect", "op= ..") ] = true := by decide +kernel

/-- C15: what a run can leave behind in the interpreter -/
theorem writers_of_reuse_state :
    sameSet (writesOf ["handling_exception", "range_cache", "working_class_def", "modules", "native_arity", "call_arity", "active_module"])
    [ ("native_arity", "object.rs", "ObjFiber::set_native_arity", "= .."),
      ("native_arity", "object.rs", "ObjFiber::take_native_arity", ".take"),
      ("handling_exception", "vm.rs", "Vm::execute", "= .."),
      ("range_cache", "vm.rs", "Vm::reset", ".clear"),
      ("modules", "vm.rs", "Vm::reset", ".retain"),
      ("active_module", "vm.rs", "Vm::reset", "= .."),
      ("active_module", "vm.rs", "Vm::reset", ".borrow_mut"),
      ("modules", "vm.rs", "Vm::module", ".insert"),
      ("handling_exception", "vm.rs", "Vm::load_fiber", "= .."),
      ("handling_exception", "vm.rs", "Vm::unload_fiber", "= .."),
      ("active_module", "vm.rs", "Vm::define_global_impl", ".borrow_mut"),
      ("active_module", "vm.rs", "Vm::set_global_impl", ".borrow_mut"),
      ("handling_exception", "vm.rs", "Vm::throw_impl", "= .."),
      ("working_class_def", "vm.rs", "Vm::declare_class_impl", "= .."),
      ("working_class_def", "vm.rs", "Vm::define_class_impl", ".take"),
      ("working_class_def", "vm.rs", "Vm::inherit_impl", ".as_mut"),
      ("handling_exception", "vm.rs", "Vm::unwind_stack", "= .."),
      ("working_class_def", "vm.rs", "Vm::define_method", ".as_mut"),
      ("range_cache", "vm.rs", "Vm::build_range", ".push"),
      ("active_module", "vm.rs", "Vm::load_frame", "= ..") ] = true := by decide +kernel

#print axioms writers_of_exception_state
#print axioms writers_of_fiber_links
#print axioms writers_of_open_cells
#print axioms writers_of_module_registry
#print axioms writers_of_class_tables
#print axioms writers_of_heap_accounting
#print axioms writers_of_reuse_state

end Yarel.StateWrites
