/-
C11 – the string intern table (`mod string_store` + `Vm::new_gc_obj_string` + `FnvHasher`).

Model: `Yarel/Model/Intern.lean`.  Definitions used below:
* `Inv H s`        (Yarel/Proofs/InternInv.lean) – the table invariant, spelled out field by field;
* `Reachable H st` (same file) – states reachable from `State.init` by `intern H` calls;
* `Mem es e`       (Yarel/Proofs/InternFind.lean) – `∃ i, es[i]? = some (some e)`.

Every theorem is for an ARBITRARY hash function `H : List UInt8 → UInt64`, so full-hash collisions,
low-bit collisions and wrap-around probe chains are all covered.
-/
import Yarel.Proofs.InternLaws

namespace Yarel.Intern

/-! ### concrete data for the non-vacuity examples -/

/-- the worst hash function: everything collides (one single probe chain, wrapping around). -/
def constHash : List UInt8 → UInt64 := fun _ => 7

/-- ten requests, eight distinct strings: forces growth 4 → 8 → 16. -/
def sampleTexts : List (List UInt8) := [[1], [2], [1], [3], [4], [5], [2], [6], [7], []]

def idsOf (r : Except Fault (State × List Nat)) : Option (List Nat) :=
  match r with
  | .ok x => some x.2
  | .error _ => none

def stateOf (r : Except Fault (State × List Nat)) : State :=
  match r with
  | .ok x => x.1
  | .error _ => State.init

/-- the state after interning `sampleTexts` with the all-colliding hash. -/
def sampleState : State := stateOf (internAll constHash State.init sampleTexts)

/-- Non-vacuity of everything below: a concrete run where every key collides, across two growths;
the ids partition the requests exactly by content. -/
example : idsOf (internAll constHash State.init sampleTexts) = some [0, 1, 0, 2, 3, 4, 1, 5, 6, 7] := by
  decide +kernel

example : sampleState.1.entries.size = 16 ∧ sampleState.1.size = 8 ∧ sampleState.1.mask = 15 := by
  decide +kernel

/-- the same run with the real hash. -/
example : idsOf (internAll fnv State.init sampleTexts) = some [0, 1, 0, 2, 3, 4, 1, 5, 6, 7] := by
  decide +kernel

/-- the model's `fnv` is the real one: `fnv("hello")`. -/
example : fnv [104, 101, 108, 108, 111] = 12167414379877419068 := by decide +kernel

/-- The fault is real: on a table violating the invariant (no empty slot) the probe loop spins. -/
example : findIndex #[some ⟨0, [0], 0⟩, some ⟨0, [1], 1⟩, some ⟨0, [2], 2⟩, some ⟨0, [3], 3⟩] 0 [9] 3
    = .error .spin := by rfl

theorem sampleState_reachable : Reachable constHash sampleState := by
  have h : internAll constHash State.init sampleTexts = .ok (sampleState, [0, 1, 0, 2, 3, 4, 1, 5, 6, 7]) := by
    rfl
  exact reachable_internAll _ _ _ _ Reachable.init h

/-! ### 1. the invariant holds in every reachable state, and interning never faults -/

/-- Every store reachable from `Store.empty` by any sequence of `intern H` operations satisfies
`Inv H` (capacity a power of two ≥ 4, `entries.size = mask + 1`, `size` = number of occupied slots
`≤ 3/4` capacity, keys distinct, cached hashes correct, probe-chain property). -/
theorem inv_reachable (H : List UInt8 → UInt64) (st : State) (h : Reachable H st) : Inv H st.1 :=
  (good_reachable h).inv

#print axioms inv_reachable

example : Reachable constHash sampleState := sampleState_reachable
example : Inv constHash sampleState.1 := inv_reachable _ _ sampleState_reachable

/-- In a reachable state `intern` never faults (no spin, no out-of-bounds). It is either a hit –
the text was already interned under the returned id and the state is unchanged – or a miss – the
text was not interned under any id, the returned id is the fresh allocation `st.2`, and the
allocation counter advances by one. (`Known st t id` = some stored entry has bytes `t` and id `id`.) -/
theorem intern_total (H : List UInt8 → UInt64) (st : State) (h : Reachable H st) (t : List UInt8) :
    ∃ st' id, intern H st t = .ok (st', id) ∧ Reachable H st' ∧
      ((Known st t id ∧ st' = st) ∨ ((∀ i', ¬ Known st t i') ∧ id = st.2 ∧ st'.2 = st.2 + 1)) := by
  obtain ⟨st', id, hstep, _, _, _, hcase⟩ := intern_step (good_reachable h) t
  exact ⟨st', id, hstep, Reachable.step h hstep, hcase⟩

#print axioms intern_total

example : Reachable constHash sampleState := sampleState_reachable

/-- Under `Inv` some slot is empty. -/
theorem inv_has_empty_slot (H : List UInt8 → UInt64) (s : Store) (h : Inv H s) :
    ∃ i : Nat, s.entries[i]? = some none :=
  h.wf.hasEmpty

#print axioms inv_has_empty_slot

/-! ### 2. the probe loop terminates -/

/-- Under `Inv`, `findIndex` with fuel = capacity never runs out (the real `loop` terminates), for
ANY key, stored or not. The index is in bounds and is an empty slot or a slot holding the key. -/
theorem find_fuel_enough (H : List UInt8 → UInt64) (s : Store) (h : Inv H s)
    (hash : UInt64) (text : List UInt8) :
    ∃ j, findIndex s.entries hash text s.mask = .ok j ∧ j < s.entries.size ∧
      (s.entries[j]? = some none ∨
       ∃ e, s.entries[j]? = some (some e) ∧ e.hash = hash ∧ e.text = text) := by
  obtain ⟨j, hfind, hj, _, _, _, _, hres⟩ :=
    findIndex_spec h.wf.table h.wf.hasEmpty s.mask h.mask hash text
  exact ⟨j, hfind, hj, hres.elim (fun h => Or.inl h.1) Or.inr⟩

#print axioms find_fuel_enough

example : ∃ j, findIndex sampleState.1.entries 7 [42] sampleState.1.mask = .ok j :=
  (find_fuel_enough _ _ (inv_reachable _ _ sampleState_reachable) 7 [42]).imp fun _ h => h.1

/-! ### 3. get / insert laws -/

/-- `get` never faults and returns exactly the stored entry with that key, if any. -/
theorem get_spec_inv (H : List UInt8 → UInt64) (s : Store) (h : Inv H s)
    (hash : UInt64) (text : List UInt8) :
    ∃ r, s.get hash text = .ok r ∧
      ∀ e, r = some e ↔ (Mem s.entries e ∧ e.hash = hash ∧ e.text = text) :=
  get_spec h.wf hash text

#print axioms get_spec_inv

/-- `insert` never faults and preserves the invariant (for an entry whose cached hash is right). -/
theorem insert_preserves_inv (H : List UInt8 → UInt64) (s : Store) (h : Inv H s) (e : Entry)
    (he : e.hash = H e.text) : ∃ s', s.insert e = .ok s' ∧ Inv H s' := by
  obtain ⟨s', hins, hwf, hmem, _⟩ := insert_spec h.wf e
  refine ⟨s', hins, Inv.of_wf hwf ?_⟩
  intro x hx
  rcases (hmem x).mp hx with rfl | ⟨⟨i, hi⟩, _⟩
  · exact he
  · exact h.hashOk i x hi

#print axioms insert_preserves_inv

/-- get after insert of the same key finds the inserted entry (also when it REPLACED an old one). -/
theorem get_insert_same (H : List UInt8 → UInt64) (s s' : Store) (h : Inv H s) (e : Entry)
    (hins : s.insert e = .ok s') : s'.get e.hash e.text = .ok (some e) :=
  wf_get_insert_same h.wf e hins

#print axioms get_insert_same

/-- other keys are unaffected by an insert (whether or not it grew the table). -/
theorem get_insert_other (H : List UInt8 → UInt64) (s s' : Store) (h : Inv H s) (e : Entry)
    (hins : s.insert e = .ok s') (hash : UInt64) (text : List UInt8)
    (hne : ¬(hash = e.hash ∧ text = e.text)) : s'.get hash text = s.get hash text :=
  wf_get_insert_other h.wf e hins hash text hne

#print axioms get_insert_other

/-- growth never faults, preserves the invariant, doubles the capacity and preserves ALL lookups. -/
theorem get_adjustCapacity (H : List UInt8 → UInt64) (s : Store) (h : Inv H s) :
    ∃ s', s.adjustCapacity (s.entries.size * 2) = .ok s' ∧ Inv H s' ∧
      s'.entries.size = s.entries.size * 2 ∧ s'.size = s.size ∧
      ∀ hash text, s'.get hash text = s.get hash text := by
  obtain ⟨s', hr, hwf, hsz, hsize, hmem, hget⟩ := wf_adjustCapacity h.wf
  refine ⟨s', hr, Inv.of_wf hwf ?_, hsz, hsize, hget⟩
  intro x hx
  obtain ⟨i, hi⟩ := (hmem x).mp hx
  exact h.hashOk i x hi

#print axioms get_adjustCapacity

-- hypotheses of the laws are met by the (grown, fully colliding) sample state:
example : ∃ s', sampleState.1.insert ⟨7, [9, 9], 100⟩ = .ok s' ∧ Inv constHash s' :=
  insert_preserves_inv _ _ (inv_reachable _ _ sampleState_reachable) _ rfl

/-! ### 4. HEADLINE: same id ⇔ same bytes -/

/-- For every hash function `H` and every finite sequence of texts `ts`, interning them in order
from the empty store never faults and yields ids `r` (one per text) such that two requests got the
same object iff they had the same bytes – across any number of growths and any collision pattern. -/
theorem intern_id_iff_bytes (H : List UInt8 → UInt64) (ts : List (List UInt8)) :
    ∃ st r, internAll H State.init ts = .ok (st, r) ∧ r.length = ts.length ∧
      ∀ (i j : Nat) (hi : i < ts.length) (hj : j < ts.length) (hi' : i < r.length)
        (hj' : j < r.length), r[i] = r[j] ↔ ts[i] = ts[j] := by
  obtain ⟨st, r, hrun, hg, hlen, _, hall⟩ := internAll_spec ts State.init (good_init H)
  refine ⟨st, r, hrun, hlen, ?_⟩
  intro i j hi hj hi' hj'
  have hki := hall i ts[i] r[i] (List.getElem?_eq_getElem hi) (List.getElem?_eq_getElem hi')
  have hkj := hall j ts[j] r[j] (List.getElem?_eq_getElem hj) (List.getElem?_eq_getElem hj')
  exact hg.known_iff hki hkj

#print axioms intern_id_iff_bytes

/-- The same for a continuation from any reachable state (e.g. in the middle of a program). -/
theorem intern_id_iff_bytes_from (H : List UInt8 → UInt64) (st₀ : State) (h₀ : Reachable H st₀)
    (ts : List (List UInt8)) :
    ∃ st r, internAll H st₀ ts = .ok (st, r) ∧ r.length = ts.length ∧
      ∀ (i j : Nat) (hi : i < ts.length) (hj : j < ts.length) (hi' : i < r.length)
        (hj' : j < r.length), r[i] = r[j] ↔ ts[i] = ts[j] := by
  obtain ⟨st, r, hrun, hg, hlen, _, hall⟩ := internAll_spec ts st₀ (good_reachable h₀)
  refine ⟨st, r, hrun, hlen, ?_⟩
  intro i j hi hj hi' hj'
  have hki := hall i ts[i] r[i] (List.getElem?_eq_getElem hi) (List.getElem?_eq_getElem hi')
  have hkj := hall j ts[j] r[j] (List.getElem?_eq_getElem hj) (List.getElem?_eq_getElem hj')
  exact hg.known_iff hki hkj

#print axioms intern_id_iff_bytes_from

/-! ### 5. corollary: maps keyed by interned id behave as maps keyed by content -/

/-- Bind the `k`-th value of `vs` to the `k`-th request. Looking up by the returned id in the
association list keyed by ids gives the same answer as looking up by bytes in the one keyed by
content (first binding wins in both). -/
theorem name_maps_by_content (H : List UInt8 → UInt64) (ts : List (List UInt8)) {V : Type}
    (vs : List V) :
    ∃ st r, internAll H State.init ts = .ok (st, r) ∧ r.length = ts.length ∧
      ∀ (k : Nat) (hk : k < ts.length) (hk' : k < r.length),
        (r.zip vs).lookup r[k] = (ts.zip vs).lookup ts[k] := by
  obtain ⟨st, r, hrun, hlen, hiff⟩ := intern_id_iff_bytes H ts
  refine ⟨st, r, hrun, hlen, ?_⟩
  intro k hk hk'
  apply lookup_zip_congr r ts vs r[k] ts[k] hlen
  intro i h₁ h₂
  exact hiff i k h₂ hk h₁ hk'

#print axioms name_maps_by_content

end Yarel.Intern
