import Yarel.Model.StackGuard
/-
`guard_free_equiv`: on every operation sequence in which no guard of the checked stack fires, the unchecked
stack is defined (no out-of-array access) and produces identical outputs and an identical final state.
Witnesses show that each guard matters: when one fires the two configurations really differ.
-/
namespace Yarel.StackGuard

theorem step_guard_free (s : St) (op : Op) (h : isGuard (stepC s op).2 = false) :
    stepU s op = some (stepC s op) := by
  cases op with
  | peek d =>
    simp only [stepC, stepU] at *
    by_cases hd : d ≥ s.top
    · simp [hd, isGuard] at h
    · have : ¬ (d + 1 > s.top) := by omega
      simp only [hd, this, if_false] at *
      cases hm : s.mem[s.top - d - 1]? <;> simp_all [isGuard]
  | poke d v =>
    simp only [stepC, stepU] at *
    by_cases hd : d ≥ s.top
    · simp [hd, isGuard] at h
    · have : ¬ (d + 1 > s.top) := by omega
      simp only [hd, this, if_false] at *
      by_cases hl : s.top - d - 1 < s.mem.length <;> simp_all [isGuard]
  | push v =>
    simp only [stepC, stepU] at *
    by_cases he : s.top = s.mem.length
    · simp [he, isGuard] at h
    · by_cases hl : s.top < s.mem.length <;> simp_all [isGuard]
  | pop =>
    simp only [stepC, stepU] at *
    by_cases he : s.top = 0
    · simp [he, isGuard] at h
    · simp only [he, if_false] at *
      cases hm : s.mem[s.top - 1]? <;> simp_all [isGuard]
  | truncate n =>
    simp only [stepC, stepU] at *
    by_cases hn : n > s.top <;> simp_all [isGuard]
  | len => simp [stepC, stepU]
  | clear => simp [stepC, stepU]
  | index i =>
    simp only [stepC, stepU] at *
    cases hm : s.mem[i]? <;> simp_all [isGuard]
  | setIndex i v =>
    simp only [stepC, stepU] at *
    by_cases hl : i < s.mem.length <;> simp_all [isGuard]

/-- HEADLINE: no guard fires in the checked run ⇒ the unchecked run is defined and identical. -/
theorem guard_free_equiv (ops : List Op) (s : St)
    (h : (runC s ops).2.all (fun o => !isGuard o) = true) :
    runU s ops = some (runC s ops) := by
  induction ops generalizing s with
  | nil => simp [runC, runU]
  | cons op ops ih =>
    simp only [runC, List.all_cons, Bool.and_eq_true, Bool.not_eq_eq_eq_not, Bool.not_true] at h
    obtain ⟨h1, h2⟩ := h
    have hs := step_guard_free s op h1
    simp only [runU, hs]
    have := ih (stepC s op).1 h2
    simp [this, runC]

#print axioms guard_free_equiv

/-- non-vacuity: a guard-free sequence mixing every operation on a 4-cell stack. -/
example : (runC ⟨[0, 0, 0, 0], 0⟩ [.push 5, .push 6, .peek 1, .poke 0 9, .pop, .len, .truncate 0, .push 1, .index 3,
    .setIndex 2 7, .clear]).2.all (fun o => !isGuard o) = true := by decide

/-- Each guard matters: where it fires, the unchecked configuration is undefined or different. -/
theorem peek_guard_matters : stepU ⟨[1, 2], 0⟩ (.peek 0) = none ∧ (stepC ⟨[1, 2], 0⟩ (.peek 0)).2 = .guard .peekRange := by
  decide
theorem push_guard_matters : stepU ⟨[1, 2], 2⟩ (.push 3) = none ∧ (stepC ⟨[1, 2], 2⟩ (.push 3)).2 = .guard .pushOverflow := by
  decide
theorem pop_guard_matters : stepU ⟨[1, 2], 0⟩ .pop = none ∧ (stepC ⟨[1, 2], 0⟩ .pop).2 = .guard .popEmpty := by decide
/-- `truncate` beyond the length is a SILENT clamp when checked, but grows the stack over stale cells when not. -/
theorem truncate_guard_matters :
    (stepC ⟨[1, 2], 0⟩ (.truncate 2)).1.top = 0 ∧ (stepU ⟨[1, 2], 0⟩ (.truncate 2)).map (·.1.top) = some 2 := by decide

#print axioms truncate_guard_matters

end Yarel.StackGuard
