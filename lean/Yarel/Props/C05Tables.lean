import Yarel.Gen.Rules
/-
C05 (table part): "…expressions group by the language's precedence and associativity…".

The Pratt parser of compiler.rs is driven by three pieces of data that xlate re-extracts on every run:
  `Gen.precedences`     enum `Precedence` in declaration order (`as usize` = position),
  `Gen.rules`           `RULES[kind as usize]` = (token kind, prefix handler, infix handler, precedence),
  `Gen.infixRecursion`  per infix handler, the level its body passes to `parse_precedence`.
The theorems below compare them with COMMITTED reference tables (`PrecedenceOrder`, `InfixLevels`, `InfixRecursion`,
`ExprStartTokens`) that transcribe the language reference, and discharge the three panic sites of the parser core:

  `parse_precedence`:   while precedence as usize <= get_rule(current.kind).precedence as usize {
                            advance(); get_rule(previous.kind).infix.unwrap()(self, can_assign) }
      callers pass Assignment | BitwiseOr (`expression`), Unary (`unary`, `dotdot`), And, Or, rule+1 (`binary`):
      never `None`.  So the obligation the code needs is exactly
          ∀ kind, Assignment ≤ RULES[kind].precedence → RULES[kind].infix.is_some()          (`infix_defined`)
      together with "no caller passes `Precedence::None`" (`infix_recursion_never_none` for the infix handlers;
      the two prefix-side callers `expression`/`unary` pass the constants named above).
  `binary`:             Precedence::from(rule.precedence as usize + 1) hits `panic!("Unknown precedence")` iff
                        rule.precedence is the last level                                     (`binary_prec_succ_ok`)
  `get_rule`:           RULES[kind as usize]: in range iff RULES has one entry per TokenKind   (`rules_cover_token_kinds`)

What change of the source breaks these theorems
* reordering / inserting a `Precedence` level, moving an operator to another level, giving an operator another infix
  handler, changing what level a handler recurses at (associativity)  → a REAL regression unless the reference
  table is deliberately updated (one line each);
* a new token kind without rule entry, or a rule with a precedence but no infix handler → `infix_defined` /
  `rules_cover_token_kinds` fail: that would be a reachable `unwrap()` / index panic;
* appending a token kind with `(None, None, Precedence::None)` breaks nothing (harmless).
-/
namespace Yarel.Props.C05Tables
open Yarel

/-! ### Reference tables (committed) -/

/-- The language's precedence levels, loosest first. -/
def PrecedenceOrder : List String :=
  [ "None", "Assignment", "Or", "And", "Equality", "Comparison", "BitwiseOr", "BitwiseXor", "BitwiseAnd",
    "BitShift", "Term", "Factor", "Range", "Unary", "Call", "Primary" ]

/-- (token kind, infix handler, level) for every infix operator of the language reference:
`||`→Or, `&&`→And, `== !=`→Equality, `< <= > >=`→Comparison, `|`→BitwiseOr, `^`→BitwiseXor, `&`→BitwiseAnd,
`<< >>`→BitShift, `+ -`→Term, `* / %`→Factor, `..`→Range, `( . [`→Call. -/
def InfixLevels : List (String × String × String) :=
  [ ("BarBar", "or", "Or")
  , ("AmpAmp", "and", "And")
  , ("EqualEqual", "binary", "Equality"), ("BangEqual", "binary", "Equality")
  , ("Less", "binary", "Comparison"), ("LessEqual", "binary", "Comparison")
  , ("Greater", "binary", "Comparison"), ("GreaterEqual", "binary", "Comparison")
  , ("Bar", "binary", "BitwiseOr")
  , ("Caret", "binary", "BitwiseXor")
  , ("Amp", "binary", "BitwiseAnd")
  , ("LessLess", "binary", "BitShift"), ("GreaterGreater", "binary", "BitShift")
  , ("Plus", "binary", "Term"), ("Minus", "binary", "Term")
  , ("Star", "binary", "Factor"), ("Slash", "binary", "Factor"), ("Percent", "binary", "Factor")
  , ("DotDot", "dotdot", "Range")
  , ("LeftParen", "call", "Call"), ("Dot", "dot", "Call"), ("LeftBracket", "index", "Call") ]

/-- Level at which each infix handler parses its right operand.
"rule+1" = one level tighter than the operator itself = LEFT-associative;
own level (`and`, `or`) = the right operand swallows further operators of the same level (right-nested; the
short-circuit operators are associative so the value is the same); `dotdot` parses a Unary-level operand (so
`a..b..c` groups to the left and `a..b+c` is `(a..b)+c`); "none" = the handler parses no right operand through
`parse_precedence` (call arguments / index go through `expression`). -/
def InfixRecursion : List (String × String) :=
  [ ("and", "And"), ("binary", "rule+1"), ("call", "none"), ("dot", "none"), ("dotdot", "Unary"),
    ("index", "none"), ("or", "Or") ]

/-- Tokens that can START an expression (have a prefix handler), with the handler, in TokenKind order:
`(` grouping/tuple, `{` map literal, `[` vec literal, `-` `!` `~` unary, `|…|` / `||` lambda, identifier,
string, interpolated string, number, `Self`, `false`, `nil`, `self`, `super`, `true`.
Every other token in expression position gives the compile error "Expected expression." -/
def ExprStartTokens : List (String × String) :=
  [ ("LeftParen", "grouping"), ("LeftBrace", "hash_map"), ("LeftBracket", "vector")
  , ("Minus", "unary"), ("Bang", "unary"), ("Bar", "lambda"), ("BarBar", "lambda"), ("Tilde", "unary")
  , ("Identifier", "variable"), ("Str", "string"), ("Interpolation", "interpolation"), ("Number", "number")
  , ("CapSelf", "cap_self"), ("False", "literal"), ("Nil", "literal"), ("Self_", "self_"), ("Super", "super_")
  , ("True", "literal") ]

/-! ### Helpers (computable, kernel-friendly) -/

/-- Position of a level in the GENERATED enum = its `as usize` value. -/
def level (p : String) : Option Nat :=
  match Gen.precedences.idxOf p with
  | i => if i < Gen.precedences.length then some i else none

def ruleOf (kind : String) : Option (Option String × Option String × String) :=
  (Gen.rules.find? (·.1 == kind)).map (·.2)

def prefixOf (r : String × Option String × Option String × String) : Option String := r.2.1
def infixOf (r : String × Option String × Option String × String) : Option String := r.2.2.1
def precOf (r : String × Option String × Option String × String) : String := r.2.2.2

/-- `a as usize <= b as usize` on level names of the generated enum (false if a name is unknown). -/
def levelLe (a b : String) : Bool :=
  match level a, level b with
  | some i, some j => i ≤ j
  | _, _ => false

/-! ### rules_order -/

/-- rules_order: the enum `Precedence` is exactly
None < Assignment < Or < And < Equality < Comparison < BitwiseOr < BitwiseXor < BitwiseAnd < BitShift < Term <
Factor < Range < Unary < Call < Primary (position = `as usize`; the names are pairwise distinct so the order is strict). -/
theorem rules_order : Gen.precedences = PrecedenceOrder ∧ PrecedenceOrder.Nodup := by decide

/-- RULES has exactly one entry per token kind, in TokenKind order: `RULES[kind as usize]` is in range and is the
rule of `kind` (discharges the index site in `Parser::get_rule`). -/
theorem rules_cover_token_kinds : Gen.rules.map (·.1) = Gen.tokenKinds ∧ Gen.tokenKinds.Nodup := by
  decide +kernel

/-- Every precedence named in RULES is a level of the enum. -/
theorem rule_levels_known : ∀ r ∈ Gen.rules, (level (precOf r)).isSome = true := by decide +kernel

/-- Each operator token has the infix handler and the level the language reference gives. -/
theorem infix_levels :
    ∀ e ∈ InfixLevels, (ruleOf e.1).map (fun r => (r.2.1, r.2.2)) = some (some e.2.1, e.2.2) := by
  decide +kernel

/-- …and there is no other infix operator: every rule with an infix handler is listed in `InfixLevels`. -/
theorem infix_levels_complete :
    ∀ r ∈ Gen.rules, ∀ h, infixOf r = some h → InfixLevels.contains (r.1, h, precOf r) = true := by
  have : ∀ r ∈ Gen.rules, (match infixOf r with
      | some h => InfixLevels.contains (r.1, h, precOf r) | none => true) = true := by decide +kernel
  intro r hr h hh
  have := this r hr
  rw [hh] at this
  exact this

/-- Associativity: the level each infix handler recurses at is the documented one; in particular `binary`
recurses one level tighter than its operator (left-associative), `and`/`or` at their own level, `dotdot` at Unary. -/
theorem infix_recursion : Gen.infixRecursion = InfixRecursion := by decide +kernel

/-- Every infix handler named in RULES has an entry in the recursion table (none is unclassified). -/
theorem infix_recursion_covers :
    ∀ r ∈ Gen.rules, ∀ h, infixOf r = some h → (Gen.infixRecursion.map (·.1)).contains h = true := by
  have : ∀ r ∈ Gen.rules, (match infixOf r with
      | some h => (Gen.infixRecursion.map (·.1)).contains h | none => true) = true := by decide +kernel
  intro r hr h hh
  have := this r hr
  rw [hh] at this
  exact this

/-- No infix handler calls `parse_precedence(Precedence::None)` and none has an unclassified argument ("?"):
each passes "rule+1" (≥ Assignment), nothing, or a named level above None. -/
theorem infix_recursion_never_none :
    ∀ e ∈ Gen.infixRecursion, e.2 = "rule+1" ∨ e.2 = "none" ∨ levelLe "Assignment" e.2 = true := by
  decide +kernel

/-! ### infix_defined / binary_prec_succ_ok -/

/-- infix_defined: every token kind whose rule has a precedence above `None` has an infix handler.
With "no caller passes None" this is exactly what makes `infix_rule.unwrap()` in `parse_precedence` total:
the loop is entered only for `current.kind` with `precedence ≤ RULES[kind].precedence` and `precedence ≥ Assignment`. -/
theorem infix_defined : ∀ r ∈ Gen.rules, levelLe "Assignment" (precOf r) = true → (infixOf r).isSome = true := by
  decide +kernel

/-- The same, in the form used by the loop: for every level `p` a caller can pass (`p ≥ Assignment`) and every
token kind `k` the loop would accept (`p ≤ RULES[k].precedence`), the unwrap succeeds. -/
theorem infix_defined_loop (p : String) (hp : levelLe "Assignment" p = true) :
    ∀ r ∈ Gen.rules, levelLe p (precOf r) = true → (infixOf r).isSome = true := by
  intro r hr hle
  apply infix_defined r hr
  unfold levelLe at *
  cases h1 : level "Assignment" <;> cases h2 : level p <;> cases h3 : level (precOf r) <;> simp_all
  omega

/-- Conversely a token without precedence has no infix handler (no dead table entries; keeps the two columns in step). -/
theorem no_infix_without_level : ∀ r ∈ Gen.rules, precOf r = "None" → infixOf r = none := by decide +kernel

/-- binary_prec_succ_ok: no token handled by `binary` sits at the last level, so
`Precedence::from(rule.precedence as usize + 1)` never reaches its `panic!("Unknown precedence")` arm. -/
theorem binary_prec_succ_ok :
    ∀ r ∈ Gen.rules, infixOf r = some "binary" →
      ∃ i, level (precOf r) = some i ∧ i + 1 < Gen.precedences.length := by
  have : ∀ r ∈ Gen.rules, (infixOf r == some "binary") = true →
      (match level (precOf r) with | some i => decide (i + 1 < Gen.precedences.length) | none => false) = true := by
    decide +kernel
  intro r hr hb
  have h := this r hr (by simp [hb])
  cases hl : level (precOf r) with
  | none => simp [hl] at h
  | some i => exact ⟨i, rfl, by simpa [hl] using h⟩

/-- The tightest binary operators are at Factor; one tighter is Range (so `a * b..c` is `a * (b..c)`). -/
theorem binary_tightest_is_factor :
    ∀ r ∈ Gen.rules, infixOf r = some "binary" → levelLe (precOf r) "Factor" = true := by
  have : ∀ r ∈ Gen.rules, (infixOf r == some "binary") = true → levelLe (precOf r) "Factor" = true := by
    decide +kernel
  intro r hr hb
  exact this r hr (by simp [hb])

/-! ### prefix_table -/

/-- prefix_table: the tokens with a prefix handler — the tokens that can start an expression — are exactly the
documented set, each with the documented handler (table order = TokenKind order). -/
theorem prefix_table :
    (Gen.rules.filterMap fun r => (prefixOf r).map fun h => (r.1, h)) = ExprStartTokens := by
  decide +kernel

/-- xlate's cross-check that the `// Name` comment above each RULES entry names the TokenKind at that position. -/
theorem rules_comments_agree : Gen.rulesCommentsAgree = true := by decide

-- non-vacuity: the hypotheses of the conditional theorems are met by real rows
example : ("Star", none, some "binary", "Factor") ∈ Gen.rules ∧ level "Factor" = some 11 ∧ Gen.precedences.length = 16 := by
  decide +kernel
example : levelLe "Assignment" "Or" = true ∧ levelLe "Assignment" "None" = false ∧ levelLe "Assignment" "Nope" = false := by
  decide +kernel
example : infixOf ("Plus", none, some "binary", "Term") = some "binary" ∧ ruleOf "Plus" = some (none, some "binary", "Term") := by
  decide +kernel

#print axioms rules_order
#print axioms rules_cover_token_kinds
#print axioms rule_levels_known
#print axioms infix_levels
#print axioms infix_levels_complete
#print axioms infix_recursion
#print axioms infix_recursion_covers
#print axioms infix_recursion_never_none
#print axioms infix_defined
#print axioms infix_defined_loop
#print axioms no_infix_without_level
#print axioms binary_prec_succ_ok
#print axioms binary_tightest_is_factor
#print axioms prefix_table
#print axioms rules_comments_agree

end Yarel.Props.C05Tables
