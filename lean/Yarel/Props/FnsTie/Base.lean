/-
Ties between function bodies TRANSLATED from /repo's Rust source on every run (`Yarel/Gen/Fns.lean`, written by
xlate/src/fnbody*.rs over the meanings fixed in `Yarel/Model/RustSem.lean`) and the hand-written models the property
theorems are about (modules FnsTie/Index, Hash, Pacing, Compiler).  Each tie says: for ALL arguments (in the stated machine
ranges) the translated body and the hand-written model agree on result, error (kind and message template) and panic.  An
edit of one of these Rust functions changes `Gen/Fns.lean` and breaks the corresponding theorem unless the edit preserves
the behaviour.  This module: the shared observation types and the arithmetic facts about `Rs.*` (no generated code).
-/
import Yarel.Model.RustSem
import Yarel.Model.Index
import Yarel.Proofs.Index

namespace Yarel.FnsTie
open Yarel

/-- What a caller can observe of a fallible Rust function: a value, a language-level error (kind, message template), or a panic. -/
inductive Obs (α : Type) where
  | ok (a : α)
  | err (kind fmt : String)
  | panic
deriving DecidableEq, Repr

def obsGen {α : Type} : Rs.M (Except Rs.Err α) → Obs α
  | .ok (.ok a) => .ok a
  | .ok (.error e) => .err e.kind e.fmt
  | .panic => .panic

def kindName : Index.ErrKind → String
  | .AttributeError => "AttributeError" | .CompileError => "CompileError" | .ImportError => "ImportError"
  | .IndexError => "IndexError" | .NameError => "NameError" | .RuntimeError => "RuntimeError"
  | .TypeError => "TypeError" | .ValueError => "ValueError"

/-- The format strings of the messages the translated functions can produce (the others are not produced by them). -/
def msgFmt : Index.Msg → String
  | .expectedInteger _ => "Expected an integer value but found '{}'."
  | .indexOutOfBounds _ => "{} index out of bounds."
  | .sliceStartOutOfRange _ => "{} slice start out of range."
  | .sliceEndOutOfRange _ => "{} slice end out of range."
  | _ => "?"

def obsModel {α β : Type} (f : α → β) : Index.Outcome α → Obs β
  | .ok a => .ok (f a)
  | .err e => .err (kindName e.kind) (msgFmt e.msg)
  | .fault _ => .panic

def toVal : Rs.Value → Index.Val
  | .Number b => .num b
  | .Boolean b => .bool b
  | .None => .nil
  | .Other _ => .other

theorem fits_isize (x : Int) : Rs.ITy.fits .isize x = (decide (F64.isizeMin ≤ x) && decide (x ≤ F64.isizeMax)) := by
  rfl

theorem iwrap_usize_of_nonneg (x : Int) (h0 : 0 ≤ x) (h1 : x ≤ F64.isizeMax) : Rs.iwrap .usize x = x := by
  simp only [Rs.iwrap, Rs.ITy.lo, Rs.ITy.hi, F64.isizeMax] at *
  omega

theorem iadd_isize_ok (a b : Int) (h0 : -9223372036854775808 ≤ a + b) (h1 : a + b ≤ 9223372036854775807) :
    Rs.iadd .isize a b = .ok (a + b) := by
  simp [Rs.iadd, Rs.ck, Rs.ITy.fits, Rs.ITy.lo, Rs.ITy.hi, h0, h1]

/-- The translated function answers exactly what the model says about it. -/
theorem gen_of_obs {α : Type} {g : Rs.M (Except Rs.Err α)} {m : Index.Outcome α} (h : obsGen g = obsModel id m) :
    (∃ a, g = .ok (.ok a) ∧ m = .ok a) ∨ (∃ e e', g = .ok (.error e) ∧ m = .err e' ∧ e.kind = kindName e'.kind ∧ e.fmt = msgFmt e'.msg)
      ∨ (∃ s, g = .panic ∧ m = .fault s) := by
  cases g with
  | panic => cases m <;> simp [obsGen, obsModel] at h ⊢
  | ok r =>
    cases r with
    | ok a => cases m <;> simp_all [obsGen, obsModel]
    | error e => cases m <;> simp_all [obsGen, obsModel]

theorem iadd_isize_panic (a b : Int) (h : a + b < -9223372036854775808 ∨ a + b > 9223372036854775807) :
    Rs.iadd .isize a b = .panic := by
  have : Rs.ITy.fits .isize (a + b) = false := by
    rw [fits_isize]
    rcases h with h | h
    · have : decide (F64.isizeMin ≤ a + b) = false := decide_eq_false (by simp only [F64.isizeMin]; omega)
      simp [this]
    · have : decide (a + b ≤ F64.isizeMax) = false := decide_eq_false (by simp only [F64.isizeMax]; omega)
      simp [this]
  simp [Rs.iadd, Rs.ck, this]

theorem iadd_usize_ok (a b : Int) (h0 : 0 ≤ a + b) (h1 : a + b ≤ 18446744073709551615) :
    Rs.iadd .usize a b = .ok (a + b) := by
  simp [Rs.iadd, Rs.ck, Rs.ITy.fits, Rs.ITy.lo, Rs.ITy.hi, h0, h1]

theorem isub_usize_ok (a b : Int) (h0 : 0 ≤ a - b) (h1 : a - b ≤ 18446744073709551615) :
    Rs.isub .usize a b = .ok (a - b) := by
  simp [Rs.isub, Rs.ck, Rs.ITy.fits, Rs.ITy.lo, Rs.ITy.hi, h1]; omega

theorem imul_usize_ok (a b : Int) (h0 : 0 ≤ a * b) (h1 : a * b ≤ 18446744073709551615) :
    Rs.imul .usize a b = .ok (a * b) := by
  simp [Rs.imul, Rs.ck, Rs.ITy.fits, Rs.ITy.lo, Rs.ITy.hi, h0, h1]

theorem isub_usize_panic (a b : Int) (h : a - b < 0) : Rs.isub .usize a b = .panic := by
  simp [Rs.isub, Rs.ck, Rs.ITy.fits, Rs.ITy.lo, Rs.ITy.hi]; omega

#print axioms fits_isize
#print axioms iwrap_usize_of_nonneg
#print axioms iadd_isize_ok
#print axioms gen_of_obs
#print axioms iadd_isize_panic
#print axioms iadd_usize_ok
#print axioms isub_usize_ok
#print axioms imul_usize_ok
#print axioms isub_usize_panic

end Yarel.FnsTie
