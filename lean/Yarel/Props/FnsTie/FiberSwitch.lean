/- What `Vm::load_fiber` and `Vm::unload_fiber` do, proved of their bodies as TRANSLATED from vm.rs on every run (`Fns.vm_load_fiber`,
`Fns.vm_unload_fiber` in Yarel/Gen/Fns.lean) over the abstract interpreter state `Rs.Vm` of RustSem.lean: the running fiber's
components are inline (`stack`, `frames`, `frameIp`, `handlers`, `caller`, ...), every other fiber is parked under its number, and
`self.fiber.replace(f)` parks the one and unparks the other.  These are the statements of property C09 (and the designator half of
C10) about the real code:

* `load_rejects_finished`, `load_rejects_called`, `load_dangling_panics`: a finished fiber / a fiber that is already waiting for
  another one is refused with the stated RuntimeError and NOTHING is changed;
* `load_effect`: otherwise the caller is parked exactly as it stood (minus the argument it handed over, resume point = the current
  instruction), the target becomes the running fiber with the caller recorded, a NEW fiber finds its closure and the argument on its
  stack, a RESUMED one finds the argument - or nil - in the slot of its pending yield, execution continues at the target's resume
  point, both designators name the target, and every other fiber is untouched (`load_isolation`);
* `unload_no_caller`: yielding with no caller is the stated RuntimeError;
* `unload_effect`: otherwise the yielding fiber is parked with its caller link cleared, the caller finds the yielded value - or nil - in
  the slot of its pending call, both designators name the caller, every other fiber is untouched (`unload_isolation`).
-/
import Yarel.Gen.Fns
import Yarel.Props.FnsTie.Base

namespace Yarel.FnsTie
open Yarel Yarel.Gen

/-! ### the fiber table -/

theorem lookup_cons_ne (c f : Nat) (r : Rs.FiberRec) (ps : List (Nat × Rs.FiberRec)) (h : c ≠ f) :
    Rs.lookupFiber ((c, r) :: ps) f = Rs.lookupFiber ps f := by
  unfold Rs.lookupFiber
  have : ((c, r).1 == f) = false := by simpa using h
  simp [List.find?, this]

theorem lookup_cons_eq (f : Nat) (r : Rs.FiberRec) (ps : List (Nat × Rs.FiberRec)) :
    Rs.lookupFiber ((f, r) :: ps) f = some r := by
  unfold Rs.lookupFiber
  simp [List.find?]

theorem lookup_erase_ne (ps : List (Nat × Rs.FiberRec)) (c f : Nat) (h : c ≠ f) :
    Rs.lookupFiber (Rs.eraseFiber ps c) f = Rs.lookupFiber ps f := by
  unfold Rs.lookupFiber Rs.eraseFiber
  induction ps with
  | nil => rfl
  | cons p rest ih =>
    by_cases hp : p.1 = c
    · have h1 : (p.1 != c) = false := by simp [hp]
      have h2 : (p.1 == f) = false := by
        have : p.1 ≠ f := by rw [hp]; exact h
        simpa using this
      simp only [List.filter_cons, h1, List.find?_cons, h2]
      exact ih
    · have h1 : (p.1 != c) = true := by simpa using hp
      simp only [List.filter_cons, h1, if_true, List.find?_cons]
      cases hq : (p.1 == f) with
      | true => rfl
      | false => exact ih

theorem lookup_erase_self (ps : List (Nat × Rs.FiberRec)) (c : Nat) : Rs.lookupFiber (Rs.eraseFiber ps c) c = none := by
  unfold Rs.lookupFiber Rs.eraseFiber
  induction ps with
  | nil => rfl
  | cons p rest ih =>
    by_cases hp : p.1 = c
    · have h1 : (p.1 != c) = false := by simp [hp]
      simp only [List.filter_cons, h1]
      exact ih
    · have h1 : (p.1 != c) = true := by simpa using hp
      have h2 : (p.1 == c) = false := by simpa using hp
      simp only [List.filter_cons, h1, if_true, List.find?_cons, h2]
      exact ih

/-- `self.fiber.replace(f)` when another fiber `c` is running and `f` is parked: `c` is parked as it stands, `f`'s components become
the running ones, the answer is the old designation. -/
theorem replace_parked (vm : Rs.Vm) (c f : Nat) (r : Rs.FiberRec) (hc : vm.curId = some c) (hne : c ≠ f)
    (hr : Rs.lookupFiber vm.parked f = some r) :
    Rs.Vm.replaceFiber vm (some f)
      = .ok (some c, { vm.withRec r with curId := some f, parked := Rs.eraseFiber ((c, vm.currentRec) :: Rs.eraseFiber vm.parked c) f }) := by
  unfold Rs.Vm.replaceFiber
  simp only [hc]
  rw [lookup_cons_ne c f _ _ hne, lookup_erase_ne _ c f hne, hr]

/-- ... and when no fiber is running (the first fiber of a run). -/
theorem replace_from_none (vm : Rs.Vm) (f : Nat) (r : Rs.FiberRec) (hc : vm.curId = none) (hr : Rs.lookupFiber vm.parked f = some r) :
    Rs.Vm.replaceFiber vm (some f) = .ok (none, { vm.withRec r with curId := some f, parked := Rs.eraseFiber vm.parked f }) := by
  unfold Rs.Vm.replaceFiber
  simp only [hc, hr]

def errFinished : Rs.Err := ⟨"RuntimeError", "Cannot call a finished fiber.", []⟩
def errCalled : Rs.Err := ⟨"RuntimeError", "Cannot call a fiber that has already been called.", []⟩
def errNoCaller : Rs.Err := ⟨"RuntimeError", "Cannot yield from module-level code.", []⟩

/-! ### load_fiber -/

theorem load_dangling_panics (vm : Rs.Vm) (f : Nat) (arg : Option Rs.Value) (h : Rs.Vm.fiberRec vm f = .panic) :
    Fns.vm_load_fiber f arg vm = .panic := by
  unfold Fns.vm_load_fiber
  simp [h]

/-- Calling a finished fiber: the stated error, and the interpreter state is exactly what it was. -/
theorem load_rejects_finished (vm : Rs.Vm) (f : Nat) (arg : Option Rs.Value) (r : Rs.FiberRec)
    (h : Rs.Vm.fiberRec vm f = .ok r) (hfin : r.hasFinished = true) :
    Fns.vm_load_fiber f arg vm = .ok (.error errFinished, vm) := by
  unfold Fns.vm_load_fiber
  simp [h, hfin, errFinished]

/-- Calling a fiber that is waiting for another one (it has a caller): the stated error, state untouched. -/
theorem load_rejects_called (vm : Rs.Vm) (f : Nat) (arg : Option Rs.Value) (r : Rs.FiberRec)
    (h : Rs.Vm.fiberRec vm f = .ok r) (hfin : r.hasFinished = false) (hc : r.caller.isSome = true) :
    Fns.vm_load_fiber f arg vm = .ok (.error errCalled, vm) := by
  unfold Fns.vm_load_fiber
  simp [h, hfin, hc, errCalled]

/-- What the caller `c` looks like once it is parked: the handed-over argument is gone from its stack, its resume point is the current
instruction; nothing else of it changes. -/
def leftBehind (vm : Rs.Vm) (popArg : Bool) : Rs.FiberRec :=
  { vm.currentRec with stack := if popArg then vm.stack.dropLast else vm.stack, frameIp := vm.ip, handling := vm.handling }

/-- What the target finds on its stack: a new fiber its closure and the argument, a resumed one the argument (or nil) in the slot of its
pending yield. -/
def handedOver (r : Rs.FiberRec) (arg : Option Rs.Value) : List Rs.Value :=
  if r.isNew then r.stack ++ [r.closure0] ++ arg.toList else r.stack.dropLast ++ [arg.getD .None]

/-- The state after a successful switch from the running fiber `c` to the parked fiber `f`. -/
def afterLoad (vm : Rs.Vm) (c f : Nat) (r : Rs.FiberRec) (arg : Option Rs.Value) : Rs.Vm :=
  { vm.withRec r with
      stack := handedOver r arg, caller := some c, ip := r.frameIp, handling := r.handling,
      curId := some f, unsafeId := some f,
      parked := Rs.eraseFiber ((c, leftBehind vm arg.isSome) :: Rs.eraseFiber vm.parked c) f }

theorem pop_nonempty (vm : Rs.Vm) (h : vm.stack ≠ []) :
    ∃ v, Rs.Vm.pop vm = .ok (v, { vm with stack := vm.stack.dropLast }) := by
  unfold Rs.Vm.pop
  cases hl : vm.stack.getLast? with
  | none => exact absurd (List.getLast?_eq_none_iff.mp hl) h
  | some v => exact ⟨v, rfl⟩

theorem set_last {α : Type} (l : List α) (v : α) (h : l ≠ []) : l.set (l.length - 1) v = l.dropLast ++ [v] := by
  induction l with
  | nil => exact absurd rfl h
  | cons x rest ih =>
    cases rest with
    | nil => rfl
    | cons y rest' =>
      have := ih (by simp)
      simp only [List.length_cons, Nat.add_sub_cancel, List.set_cons_succ, List.dropLast_cons_cons, List.cons_append] at this ⊢
      rw [this]

theorem poke_top (vm : Rs.Vm) (v : Rs.Value) (h : vm.stack ≠ []) :
    Rs.Vm.poke vm 0 v = .ok { vm with stack := vm.stack.dropLast ++ [v] } := by
  unfold Rs.Vm.poke
  have hl : 0 < vm.stack.length := List.length_pos_iff.mpr h
  have h0 : ¬ ((0 : Int) < 0) := by omega
  simp only [h0, if_false, Int.toNat_zero, hl, if_true, Nat.sub_zero]
  rw [set_last _ _ h]

/-! the stages of `load_fiber`, as the translated body has them -/

/-- `if self.fiber.is_some() { if arg.is_some() { self.pop(); } <current frame>.ip = self.ip; }` -/
def leaveStage (arg : Option Rs.Value) (vm_ : Rs.Vm) : Rs.M Rs.Vm :=
  (if (vm_.curId).isSome then
  (Rs.M.bind (if (arg).isSome then
  (Rs.M.bind (Rs.Vm.pop vm_) fun r_ =>
  let t_4 := r_.1; let vm_ := r_.2;
  (Rs.M.ok vm_))
  else
  (Rs.M.ok vm_)) fun j_5 =>
  let vm_ := j_5;
  (Rs.M.bind (Rs.Vm.setFrameIp vm_ vm_.ip) fun t_6 =>
  (let vm_ := t_6;
  (let vm_ := { vm_ with fiberHandling := vm_.handling };
  (Rs.M.ok vm_)))))
  else
  (Rs.M.ok vm_))

/-- the hand-over on the target's stack, then `load_frame()` -/
def enterStage (arg : Option Rs.Value) (vm_ : Rs.Vm) : Rs.M ((Except Rs.Err Unit) × Rs.Vm) :=
  (Rs.M.bind (if (Rs.Vm.isNew vm_) then
  (let closure := vm_.closure0;
  (let vm_ := Rs.Vm.push vm_ closure;
  (match arg with
  | some arg =>
  (let vm_ := Rs.Vm.push vm_ arg;
  (Rs.M.ok vm_))
  | _ =>
  (Rs.M.ok vm_))))
  else
  (Rs.M.bind (Rs.Vm.poke vm_ (0 : Int) ((arg).getD Rs.Value.None)) fun t_9 =>
  (let vm_ := t_9;
  (Rs.M.ok vm_)))) fun j_10 =>
  let vm_ := j_10;
  (Rs.M.bind (Rs.Vm.loadFrame vm_) fun t_11 =>
  (let vm_ := t_11;
  (Rs.M.ok ((.ok ()), vm_)))))

/-- The translated `load_fiber` IS: look at the target (twice), refuse a finished / a waiting one, else leave the running fiber, name the
target in both designators, record the caller, hand over. -/
theorem load_stages (f : Nat) (arg : Option Rs.Value) (vm : Rs.Vm) :
    Fns.vm_load_fiber f arg vm =
      Rs.M.bind (Rs.Vm.fiberRec vm f) fun r =>
        if r.hasFinished then .ok (.error errFinished, vm)
        else if r.caller.isSome then .ok (.error errCalled, vm)
        else Rs.M.bind (leaveStage arg vm) fun vm1 =>
          Rs.M.bind (Rs.Vm.replaceFiber { vm1 with unsafeId := some f } (some f)) fun p =>
            enterStage arg { p.2 with caller := p.1, handling := p.2.fiberHandling } := by
  unfold Fns.vm_load_fiber leaveStage enterStage
  dsimp only
  generalize Rs.Vm.fiberRec vm f = x
  cases x with
  | panic => rfl
  | ok r =>
    simp only [Rs.M.bind_ok, errFinished, errCalled]
    by_cases h1 : r.hasFinished = true
    · rw [if_pos h1, if_pos h1]
    · rw [if_neg h1, if_neg h1]
      by_cases h2 : r.caller.isSome = true
      · rw [if_pos h2, if_pos h2]
      · rw [if_neg h2, if_neg h2]
        rfl

theorem leaveStage_eq (arg : Option Rs.Value) (vm : Rs.Vm) (c : Nat) (hcur : vm.curId = some c)
    (hstack : arg.isSome = true → vm.stack ≠ []) (hframes : 0 < vm.frames) :
    leaveStage arg vm = .ok { vm with stack := if arg.isSome then vm.stack.dropLast else vm.stack, frameIp := vm.ip, fiberHandling := vm.handling } := by
  have hnf : ¬ (vm.frames ≤ 0) := by omega
  unfold leaveStage
  simp only [hcur, Option.isSome_some, if_true]
  cases arg with
  | none =>
    simp [Rs.Vm.setFrameIp, hnf]
    exact hcur
  | some a =>
    obtain ⟨v, hpop⟩ := pop_nonempty vm (hstack rfl)
    simp [hpop, Rs.Vm.setFrameIp, hnf]
    exact hcur

theorem enterStage_eq (arg : Option Rs.Value) (vm : Rs.Vm) (hfr : 0 < vm.frames) (hslot : vm.isNew = false → vm.stack ≠ []) :
    enterStage arg vm = .ok (.ok (), { vm with
      stack := if vm.isNew then vm.stack ++ [vm.closure0] ++ arg.toList else vm.stack.dropLast ++ [arg.getD .None],
      ip := vm.frameIp }) := by
  have hnf : ¬ (vm.frames ≤ 0) := by omega
  unfold enterStage
  cases hn : vm.isNew with
  | true =>
    cases arg with
    | none => simp [Rs.Vm.push, Rs.Vm.loadFrame, hnf]
    | some a => simp [Rs.Vm.push, Rs.Vm.loadFrame, hnf]
  | false =>
    simp only [Bool.false_eq_true, if_false]
    rw [poke_top _ _ (hslot hn)]
    simp [Rs.Vm.loadFrame, hnf]

/-- `load_fiber` from a running fiber `c` to a parked, callable fiber `f`. -/
theorem load_effect (vm : Rs.Vm) (c f : Nat) (arg : Option Rs.Value) (r : Rs.FiberRec)
    (hcur : vm.curId = some c) (hne : c ≠ f) (hr : Rs.lookupFiber vm.parked f = some r)
    (hfr : 0 < r.frames) (hcaller : r.caller = none)
    (hstack : arg.isSome = true → vm.stack ≠ []) (hframes : 0 < vm.frames)
    (hslot : r.isNew = false → r.stack ≠ []) :
    Fns.vm_load_fiber f arg vm = .ok (.ok (), afterLoad vm c f r arg) := by
  have hrec : Rs.Vm.fiberRec vm f = .ok r := by
    unfold Rs.Vm.fiberRec
    have : ¬ (vm.curId = some f) := by rw [hcur]; intro h; exact hne (Option.some.inj h)
    simp [this, hr]
  have hfin : r.hasFinished = false := by
    have : r.frames ≠ 0 := by omega
    simp [Rs.FiberRec.hasFinished, this]
  rw [load_stages, hrec]
  simp only [Rs.M.bind_ok, hfin, hcaller, Option.isSome_none, Bool.false_eq_true, if_false]
  rw [leaveStage_eq arg vm c hcur hstack hframes]
  simp only [Rs.M.bind_ok]
  rw [replace_parked _ c f r (by simpa using hcur) hne (by simpa using hr)]
  simp only [Rs.M.bind_ok]
  rw [enterStage_eq]
  · unfold afterLoad handedOver leftBehind Rs.Vm.withRec Rs.Vm.currentRec Rs.Vm.isNew Rs.FiberRec.isNew
    simp
  · simpa [Rs.Vm.withRec] using hfr
  · intro hn
    have : r.isNew = false := hn
    simpa [Rs.Vm.withRec] using hslot this

/-- The first fiber of a run (`execute`: no fiber is running yet): nothing is parked, nothing is popped. -/
theorem load_first_effect (vm : Rs.Vm) (f : Nat) (arg : Option Rs.Value) (r : Rs.FiberRec)
    (hcur : vm.curId = none) (hr : Rs.lookupFiber vm.parked f = some r)
    (hfr : 0 < r.frames) (hcaller : r.caller = none) (hslot : r.isNew = false → r.stack ≠ []) :
    Fns.vm_load_fiber f arg vm = .ok (.ok (), { vm.withRec r with
      stack := handedOver r arg, caller := none, ip := r.frameIp, handling := r.handling, curId := some f, unsafeId := some f,
      parked := Rs.eraseFiber vm.parked f }) := by
  have hrec : Rs.Vm.fiberRec vm f = .ok r := by
    unfold Rs.Vm.fiberRec
    simp [hcur, hr]
  have hfin : r.hasFinished = false := by
    have : r.frames ≠ 0 := by omega
    simp [Rs.FiberRec.hasFinished, this]
  rw [load_stages, hrec]
  simp only [Rs.M.bind_ok, hfin, hcaller, Option.isSome_none, Bool.false_eq_true, if_false]
  have hl : leaveStage arg vm = .ok vm := by simp [leaveStage, hcur]
  rw [hl]
  simp only [Rs.M.bind_ok]
  rw [replace_from_none _ f r (by simpa using hcur) (by simpa using hr)]
  simp only [Rs.M.bind_ok]
  rw [enterStage_eq]
  · unfold handedOver Rs.Vm.withRec Rs.Vm.isNew Rs.FiberRec.isNew
    simp
  · simpa [Rs.Vm.withRec] using hfr
  · intro hn
    have : r.isNew = false := hn
    simpa [Rs.Vm.withRec] using hslot this

/-- After a successful call both designators of the running fiber name the target (the borrow-checked and the raw one: C10). -/
theorem load_designators_agree (vm : Rs.Vm) (c f : Nat) (r : Rs.FiberRec) (arg : Option Rs.Value) :
    (afterLoad vm c f r arg).curId = some f ∧ (afterLoad vm c f r arg).unsafeId = some f ∧ (afterLoad vm c f r arg).caller = some c := by
  simp [afterLoad]

/-- The caller is parked exactly as it stood - minus the handed-over argument, resume point at the current instruction. -/
theorem load_parks_caller (vm : Rs.Vm) (c f : Nat) (r : Rs.FiberRec) (arg : Option Rs.Value) (hne : c ≠ f) :
    Rs.lookupFiber (afterLoad vm c f r arg).parked c = some (leftBehind vm arg.isSome) := by
  simp only [afterLoad]
  rw [lookup_erase_ne _ f c (Ne.symm hne), lookup_cons_eq]

/-- A switch touches no fiber other than the two it switches between: every other fiber is parked exactly as before. -/
theorem load_isolation (vm : Rs.Vm) (c f g : Nat) (r : Rs.FiberRec) (arg : Option Rs.Value) (hgc : c ≠ g) (hgf : f ≠ g) :
    Rs.lookupFiber (afterLoad vm c f r arg).parked g = Rs.lookupFiber vm.parked g := by
  simp only [afterLoad]
  rw [lookup_erase_ne _ f g hgf, lookup_cons_ne c g _ _ hgc, lookup_erase_ne _ c g hgc]

/-- What the target keeps: everything it owned when it was parked except the hand-over slot - handlers, frames, pending return. -/
theorem load_target_keeps (vm : Rs.Vm) (c f : Nat) (r : Rs.FiberRec) (arg : Option Rs.Value) :
    (afterLoad vm c f r arg).handlers = r.handlers ∧ (afterLoad vm c f r arg).frames = r.frames
      ∧ (afterLoad vm c f r arg).returnIp = r.returnIp ∧ (afterLoad vm c f r arg).returnValue = r.returnValue
      ∧ (afterLoad vm c f r arg).errorIp = r.errorIp := by
  simp [afterLoad, Rs.Vm.withRec]

/-- The exception-in-flight flag travels with its fiber (repair F53): the caller is parked with the flag as it stood, and the flag the
target runs with is the one it was parked with - whatever the caller did in between. -/
theorem load_flag_travels (vm : Rs.Vm) (c f : Nat) (r : Rs.FiberRec) (arg : Option Rs.Value) (hne : c ≠ f) :
    (afterLoad vm c f r arg).handling = r.handling
      ∧ (Rs.lookupFiber (afterLoad vm c f r arg).parked c).map (·.handling) = some vm.handling := by
  constructor
  · simp [afterLoad]
  · rw [load_parks_caller vm c f r arg hne]
    simp [leftBehind]

/-! ### unload_fiber -/

/-- `if arg.is_some() { self.pop(); } if !has_finished() { <current frame>.ip = self.ip; }` -/
def yieldStage (arg : Option Rs.Value) (vm_ : Rs.Vm) : Rs.M Rs.Vm :=
  (Rs.M.bind (if (arg).isSome then
  (Rs.M.bind (Rs.Vm.pop vm_) fun r_ =>
  let t_1 := r_.1; let vm_ := r_.2;
  (Rs.M.ok vm_))
  else
  (Rs.M.ok vm_)) fun j_2 =>
  let vm_ := j_2;
  (Rs.M.bind (if (!(Rs.Vm.hasFinished vm_)) then
  (Rs.M.bind (Rs.Vm.setFrameIp vm_ vm_.ip) fun t_3 =>
  (let vm_ := t_3;
  (Rs.M.ok vm_)))
  else
  (Rs.M.ok vm_)) fun j_4 => Rs.M.ok j_4))

/-- the switch back, once the caller is known -/
def backStage (arg : Option Rs.Value) (caller : Nat) (vm_ : Rs.Vm) : Rs.M ((Except Rs.Err Unit) × Rs.Vm) :=
  (let vm_ := { vm_ with fiberHandling := vm_.handling };
  (Rs.M.bind (Rs.Vm.replaceFiber vm_ (some caller)) fun r_ =>
  let t_5 := r_.1; let vm_ := r_.2;
  (let current := t_5;
  (let vm_ := { vm_ with unsafeId := (some caller) };
  (Rs.M.bind (Rs.unwrap current) fun t_6 =>
  (Rs.M.bind (Rs.Vm.setCallerOf vm_ t_6 none) fun t_7 =>
  (let vm_ := t_7;
  (let handling_exception := vm_.fiberHandling;
  (let vm_ := { vm_ with handling := handling_exception };
  (Rs.M.bind (Rs.Vm.poke vm_ (0 : Int) ((arg).getD Rs.Value.None)) fun t_8 =>
  (let vm_ := t_8;
  (Rs.M.bind (Rs.Vm.loadFrame vm_) fun t_9 =>
  (let vm_ := t_9;
  (Rs.M.ok ((.ok ()), vm_)))))))))))))))

theorem unload_stages (arg : Option Rs.Value) (vm : Rs.Vm) :
    Fns.vm_unload_fiber arg vm =
      Rs.M.bind (yieldStage arg vm) fun vm1 =>
        match vm1.caller with
        | some caller => backStage arg caller vm1
        | none => .ok (.error errNoCaller, vm1) := by
  unfold Fns.vm_unload_fiber yieldStage backStage
  dsimp only
  generalize (if arg.isSome = true then Rs.M.bind (Rs.Vm.pop vm) fun r_ => Rs.M.ok r_.2 else Rs.M.ok vm) = x
  cases x with
  | panic => rfl
  | ok v1 =>
    simp only [Rs.M.bind_ok]
    generalize (if (!Rs.Vm.hasFinished v1) = true then Rs.M.bind (Rs.Vm.setFrameIp v1 v1.ip) fun t_3 => Rs.M.ok t_3 else Rs.M.ok v1) = y
    cases y with
    | panic => rfl
    | ok v2 =>
      simp only [Rs.M.bind_ok]
      cases v2.caller <;> rfl

/-- The yielding fiber as it is parked: the yielded value is gone from its stack, its resume point is the current instruction (a fiber
that has just finished has no frame left to record one in), and it no longer has a caller. -/
def yielded (vm : Rs.Vm) (popArg : Bool) : Rs.FiberRec :=
  { vm.currentRec with stack := if popArg then vm.stack.dropLast else vm.stack,
                       frameIp := if vm.frames = 0 then vm.frameIp else vm.ip, caller := none, handling := vm.handling }

theorem yieldStage_eq (arg : Option Rs.Value) (vm : Rs.Vm) (hstack : arg.isSome = true → vm.stack ≠ []) (hframes : 0 ≤ vm.frames) :
    yieldStage arg vm = .ok { vm with stack := if arg.isSome then vm.stack.dropLast else vm.stack,
                                      frameIp := if vm.frames = 0 then vm.frameIp else vm.ip } := by
  unfold yieldStage
  cases arg with
  | none =>
    by_cases h0 : vm.frames = 0
    · have hfin : Rs.Vm.hasFinished vm = true := by simp [Rs.Vm.hasFinished, h0]
      simp only [Option.isSome_none, Bool.false_eq_true, if_false, Rs.M.bind_ok, hfin, Bool.not_true, if_pos h0]
    · have hnf : ¬ (vm.frames ≤ 0) := by omega
      simp [Rs.Vm.hasFinished, h0, Rs.Vm.setFrameIp, hnf]
  | some a =>
    obtain ⟨v, hpop⟩ := pop_nonempty vm (hstack rfl)
    by_cases h0 : vm.frames = 0
    · have hfin : Rs.Vm.hasFinished ({ vm with stack := vm.stack.dropLast } : Rs.Vm) = true := by simp [Rs.Vm.hasFinished, h0]
      simp only [Option.isSome_some, if_true, hpop, Rs.M.bind_ok, hfin, Bool.not_true, Bool.false_eq_true, if_false, if_pos h0]
    · have hnf : ¬ (vm.frames ≤ 0) := by omega
      simp [hpop, Rs.Vm.hasFinished, h0, Rs.Vm.setFrameIp, hnf]

/-- Yielding with nobody waiting (module-level code, or the first fiber of a run): the stated error.  (The yielded value has been taken
off the stack and the resume point recorded by then - the native-call protocol discards the frame of the failed call anyway.) -/
theorem unload_no_caller (vm : Rs.Vm) (arg : Option Rs.Value) (hc : vm.caller = none)
    (hstack : arg.isSome = true → vm.stack ≠ []) (hframes : 0 ≤ vm.frames) :
    Fns.vm_unload_fiber arg vm = .ok (.error errNoCaller,
      { vm with stack := if arg.isSome then vm.stack.dropLast else vm.stack, frameIp := if vm.frames = 0 then vm.frameIp else vm.ip }) := by
  rw [unload_stages, yieldStage_eq arg vm hstack hframes]
  simp [hc]

/-- The state after the running fiber `y` handed control back to its caller `c`. -/
def afterUnload (vm : Rs.Vm) (y c : Nat) (rc : Rs.FiberRec) (arg : Option Rs.Value) : Rs.Vm :=
  { vm.withRec rc with
      stack := rc.stack.dropLast ++ [arg.getD .None], ip := rc.frameIp, handling := rc.handling,
      curId := some c, unsafeId := some c,
      parked := (y, yielded vm arg.isSome)
        :: Rs.eraseFiber (Rs.eraseFiber ((y, { yielded vm arg.isSome with caller := some c }) :: Rs.eraseFiber vm.parked y) c) y }

/-- `unload_fiber` (a yield, or the end of a fiber's body) from the running fiber `y` to its caller `c`. -/
theorem unload_effect (vm : Rs.Vm) (y c : Nat) (arg : Option Rs.Value) (rc : Rs.FiberRec)
    (hcur : vm.curId = some y) (hcaller : vm.caller = some c) (hne : y ≠ c) (hr : Rs.lookupFiber vm.parked c = some rc)
    (hstack : arg.isSome = true → vm.stack ≠ []) (hframes : 0 ≤ vm.frames)
    (hfr : 0 < rc.frames) (hslot : rc.stack ≠ []) :
    Fns.vm_unload_fiber arg vm = .ok (.ok (), afterUnload vm y c rc arg) := by
  rw [unload_stages, yieldStage_eq arg vm hstack hframes]
  simp only [Rs.M.bind_ok, hcaller]
  unfold backStage
  dsimp only
  rw [replace_parked _ y c rc (by simpa using hcur) hne (by simpa using hr)]
  simp only [Rs.M.bind_ok, Rs.unwrap]
  have hset : ∀ (w : Rs.Vm) (ps : List (Nat × Rs.FiberRec)) (ry : Rs.FiberRec), w.curId = some c → w.parked = Rs.eraseFiber ((y, ry) :: ps) c →
      Rs.Vm.setCallerOf w y none = .ok { w with parked := (y, { ry with caller := none }) :: Rs.eraseFiber w.parked y } := by
    intro w ps ry hw hp
    unfold Rs.Vm.setCallerOf
    have h1 : ¬ (w.curId = some y) := by rw [hw]; intro h; exact hne (Option.some.inj h).symm
    have h2 : Rs.lookupFiber w.parked y = some ry := by rw [hp, lookup_erase_ne _ c y (Ne.symm hne), lookup_cons_eq]
    simp [h1, h2]
  rw [hset _ (Rs.eraseFiber vm.parked y) _ (by rfl) (by rfl)]
  simp only [Rs.M.bind_ok]
  rw [poke_top _ _ (by simpa [Rs.Vm.withRec] using hslot)]
  have hnf : ¬ (rc.frames ≤ 0) := by omega
  simp only [Rs.M.bind_ok, Rs.Vm.loadFrame]
  unfold afterUnload yielded Rs.Vm.withRec Rs.Vm.currentRec
  simp [hnf]

theorem unload_designators_agree (vm : Rs.Vm) (y c : Nat) (rc : Rs.FiberRec) (arg : Option Rs.Value) :
    (afterUnload vm y c rc arg).curId = some c ∧ (afterUnload vm y c rc arg).unsafeId = some c := by
  simp [afterUnload]

/-- The fiber that yielded is parked with its caller link cleared (it can be called again), everything else of it as it stood. -/
theorem unload_parks_yielder (vm : Rs.Vm) (y c : Nat) (rc : Rs.FiberRec) (arg : Option Rs.Value) :
    Rs.lookupFiber (afterUnload vm y c rc arg).parked y = some (yielded vm arg.isSome) := by
  simp only [afterUnload]
  rw [lookup_cons_eq]

theorem unload_isolation (vm : Rs.Vm) (y c g : Nat) (rc : Rs.FiberRec) (arg : Option Rs.Value) (hgy : y ≠ g) (hgc : c ≠ g) :
    Rs.lookupFiber (afterUnload vm y c rc arg).parked g = Rs.lookupFiber vm.parked g := by
  simp only [afterUnload]
  rw [lookup_cons_ne y g _ _ hgy, lookup_erase_ne _ y g hgy, lookup_erase_ne _ c g hgc, lookup_cons_ne y g _ _ hgy, lookup_erase_ne _ y g hgy]

/-- What the caller keeps across the call: its handlers, frames and pending return; it finds the handed value in the slot of the call. -/
theorem unload_caller_keeps (vm : Rs.Vm) (y c : Nat) (rc : Rs.FiberRec) (arg : Option Rs.Value) :
    (afterUnload vm y c rc arg).handlers = rc.handlers ∧ (afterUnload vm y c rc arg).frames = rc.frames
      ∧ (afterUnload vm y c rc arg).returnIp = rc.returnIp ∧ (afterUnload vm y c rc arg).caller = rc.caller
      ∧ (afterUnload vm y c rc arg).stack = rc.stack.dropLast ++ [arg.getD .None] := by
  simp [afterUnload, Rs.Vm.withRec]

theorem unload_flag_travels (vm : Rs.Vm) (y c : Nat) (rc : Rs.FiberRec) (arg : Option Rs.Value) :
    (afterUnload vm y c rc arg).handling = rc.handling
      ∧ (Rs.lookupFiber (afterUnload vm y c rc arg).parked y).map (·.handling) = some vm.handling := by
  constructor
  · simp [afterUnload]
  · rw [unload_parks_yielder]
    simp [yielded]

/-- Non-vacuity: a concrete two-fiber state meets the hypotheses of `load_effect` and of `unload_effect`. -/
def demoRec : Rs.FiberRec :=
  { stack := [], handlers := [], frames := 1, frameIp := 40, returnIp := none, returnValue := .None, errorIp := none, caller := none,
    entryIp := 40, closure0 := .Other 7 }
def demoVm : Rs.Vm :=
  { stack := [.Other 1, .Other 2, .Number 5], ip := 17, code := [], consts := [], slotBase := 0, raised := [], handled := .ok (),
    frames := 2, curId := some 0, unsafeId := some 0, parked := [(3, demoRec)] }

example : Fns.vm_load_fiber 3 (some (.Number 5)) demoVm = .ok (.ok (), afterLoad demoVm 0 3 demoRec (some (.Number 5))) :=
  load_effect demoVm 0 3 _ demoRec rfl (by decide) rfl (by decide) rfl (by intro _; decide) (by decide) (by intro h; cases h)

example : (afterLoad demoVm 0 3 demoRec (some (.Number 5))).stack = [.Other 7, .Number 5] := rfl

example : Fns.vm_unload_fiber (some (.Number 9)) { (afterLoad demoVm 0 3 demoRec (some (.Number 5))) with stack := [.Other 7, .Number 5, .Number 9], ip := 55 }
    = .ok (.ok (), afterUnload { (afterLoad demoVm 0 3 demoRec (some (.Number 5))) with stack := [.Other 7, .Number 5, .Number 9], ip := 55 } 3 0
        (leftBehind demoVm true) (some (.Number 9))) :=
  unload_effect _ 3 0 _ (leftBehind demoVm true) rfl rfl (by decide) rfl (by intro _; decide) (by decide) (by decide) (by decide)

#print axioms load_rejects_finished
#print axioms load_rejects_called
#print axioms load_dangling_panics
#print axioms load_stages
#print axioms load_effect
#print axioms load_first_effect
#print axioms load_designators_agree
#print axioms load_parks_caller
#print axioms load_isolation
#print axioms load_target_keeps
#print axioms load_flag_travels
#print axioms unload_flag_travels
#print axioms unload_stages
#print axioms unload_no_caller
#print axioms unload_effect
#print axioms unload_designators_agree
#print axioms unload_parks_yielder
#print axioms unload_isolation
#print axioms unload_caller_keeps

end Yarel.FnsTie
