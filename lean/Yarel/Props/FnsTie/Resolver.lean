/-
Name resolution of the compiler, tied to the reference parser by translation.

`Fns.compiler_resolve_local` and `Fns.compiler_add_upvalue` are the bodies of `Compiler::resolve_local` and
`Compiler::add_upvalue` of compiler.rs, re-translated from the source on every run.  The reference parser (S) has its own
definitions `P.resolveLocalIn` / `P.addUpvalueIn` (Spec/ParserBase.lean), about which the scoping theorems of Props/SpecScoping.lean
are stated (`resolveLocal_is_innermost_preceding`).  Here the two are proved to compute the same thing for EVERY list of locals /
captured variables and every name:

  resolve_local_tie     translated resolve_local = resolveLocalIn  (index of the LAST local of that name; an error when that local is
                        still being initialised; "not found" otherwise)
  add_upvalue_tie       translated add_upvalue  = addUpvalueIn    (an existing (index, is_local) pair is reused, otherwise appended;
                        refused at 256 entries), and the function's upvalue_count grows exactly when an entry is appended
  resolve_local_innermost   the property-level statement carried over to the translated body: what the real function answers is the
                        innermost (latest) preceding declaration of the name, and no later local has that name
-/
import Yarel.Gen.Fns
import Yarel.Spec.ParserBase
import Yarel.Props.SpecScoping
import Yarel.Props.FnsTie.Base
namespace Yarel.FnsTie.Resolver
open Yarel Yarel.Gen Yarel.Spec

/-- A local of the compiler as the translation carries it: `(name, depth, is_captured)`. -/
abbrev RLocal := String × Option Int × Bool

def decLocal (r : RLocal) : Local := { name := r.1, depth := r.2.1.map Int.toNat }

def encErr : P.ResolveErr → Fns.CompilerError
  | .notFound => .LocalNotFound
  | .readInInit => .ReadVarInInitialiser

def expected (r : Except P.ResolveErr Nat) : Except Fns.CompilerError (BitVec 8) :=
  match r with
  | .ok i => .ok (Rs.bvOfInt 8 (i : Int))
  | .error e => .error (encErr e)

/-! ### the list the translated loop walks -/

theorem enumerateFrom_append {α : Type} (xs : List α) (x : α) (k : Int) :
    Rs.enumerateFrom k (xs ++ [x]) = Rs.enumerateFrom k xs ++ [(k + xs.length, x)] := by
  induction xs generalizing k with
  | nil => simp [Rs.enumerateFrom]
  | cons y ys ih =>
    simp only [List.cons_append, Rs.enumerateFrom, ih, List.length_cons]
    have : k + 1 + (ys.length : Int) = k + ((ys.length + 1 : Nat) : Int) := by push_cast; omega
    rw [this]

/-- `xs.iter().enumerate().rev()` of a list given back to front. -/
theorem rev_enumerate_snoc {α : Type} (rs : List α) (x : α) :
    (Rs.enumerate (rs.reverse ++ [x])).reverse = ((rs.length : Int), x) :: (Rs.enumerate rs.reverse).reverse := by
  unfold Rs.enumerate
  rw [enumerateFrom_append]
  simp

/-- The loop of the translated `resolve_local` as a function of the remaining (reversed, enumerated) list. -/
def scan (name : String) (xs : List (Int × RLocal)) : Rs.M (Sum Unit (Except Fns.CompilerError (BitVec 8))) :=
  Rs.forInBrk xs () fun e_1 _ =>
    let i := e_1.1
    let local_ := e_1.2
    if decide (local_.1 = name) then
      if (local_.2.1).isNone then Rs.M.ok (Sum.inr (.error Fns.CompilerError.ReadVarInInitialiser))
      else Rs.M.ok (Sum.inr (.ok (Rs.bvOfInt 8 i)))
    else Rs.M.ok (Sum.inl ())

theorem resolve_local_unfold (ls : List RLocal) (name : String) :
    Fns.compiler_resolve_local ls name =
      Rs.M.bind (scan name (Rs.enumerate ls).reverse) fun r_ =>
        match r_ with
        | Sum.inr x_ => Rs.M.ok x_
        | Sum.inl _ => Rs.M.ok (.error Fns.CompilerError.LocalNotFound) := rfl

/-- What the loop answers, in terms of the reference `go`: `rs` are the locals still to be looked at, innermost first; `tail` the ones
already passed. -/
theorem scan_is_go (name : String) (c : Compiler) (rs tail : List RLocal)
    (hc : c.locals = ((rs.reverse ++ tail).map decLocal).toArray) :
    scan name (Rs.enumerate rs.reverse).reverse =
      .ok (match P.resolveLocalIn.go c name rs.length with
           | .ok i => Sum.inr (.ok (Rs.bvOfInt 8 (i : Int)))
           | .error .readInInit => Sum.inr (.error Fns.CompilerError.ReadVarInInitialiser)
           | .error .notFound => Sum.inl ()) := by
  induction rs generalizing tail with
  | nil => simp [scan, Rs.enumerate, Rs.enumerateFrom, Rs.forInBrk, P.resolveLocalIn.go]
  | cons x rest ih =>
    have hrest := ih (x :: tail) (by simpa using hc)
    have hget : c.locals[rest.length]? = some (decLocal x) := by
      rw [hc]
      simp
    rw [List.reverse_cons, rev_enumerate_snoc]
    simp only [List.length_cons]
    unfold P.resolveLocalIn.go
    rw [hget]
    simp only
    unfold scan Rs.forInBrk
    simp only
    by_cases hn : x.1 = name
    · have h1 : ((decLocal x).name == name) = true := by simp [decLocal, hn]
      rw [if_pos h1]
      simp only [hn, decide_true, if_true]
      cases hd : x.2.1 with
      | none => simp [decLocal, hd]
      | some d => simp [decLocal, hd]
    · have h1 : ((decLocal x).name == name) = false := by simp [decLocal, hn]
      simp only [h1, Bool.false_eq_true, if_false, hn, decide_false]
      exact hrest

/-- **Tie.** The translated `Compiler::resolve_local` answers what the reference parser's `resolveLocalIn` answers, for every list
of locals and every name. -/
theorem resolve_local_tie (ls : List RLocal) (name : String) (c : Compiler) (hc : c.locals = (ls.map decLocal).toArray) :
    Fns.compiler_resolve_local ls name = .ok (expected (P.resolveLocalIn c name)) := by
  rw [resolve_local_unfold]
  have h := scan_is_go name c ls.reverse [] (by simpa using hc)
  rw [List.reverse_reverse] at h
  rw [h]
  unfold P.resolveLocalIn
  have hl : c.locals.size = ls.reverse.length := by rw [hc]; simp
  rw [hl]
  cases P.resolveLocalIn.go c name ls.reverse.length with
  | ok i => rfl
  | error e => cases e <;> rfl

/-- The property-level reading, for the real function body: if `resolve_local` answers slot `i`, then local `i` has that name and is
initialised, and no LATER local (none declared after it and still in scope) has that name — the innermost enclosing declaration that
textually precedes the use. -/
theorem resolve_local_innermost (ls : List RLocal) (name : String) (b : BitVec 8)
    (h : Fns.compiler_resolve_local ls name = .ok (.ok b)) :
    ∃ i : Nat, b = Rs.bvOfInt 8 (i : Int) ∧
      (∃ r, ls[i]? = some r ∧ r.1 = name ∧ r.2.1.isSome = true) ∧
      ∀ j, i < j → ∀ r, ls[j]? = some r → r.1 ≠ name := by
  let c : Compiler := { kind := default, name := "", locals := (ls.map decLocal).toArray }
  have ht := resolve_local_tie ls name c rfl
  rw [ht] at h
  cases hr : P.resolveLocalIn c name with
  | error e => rw [hr] at h; simp [expected] at h
  | ok i =>
    rw [hr] at h
    simp only [expected, Rs.M.ok.injEq, Except.ok.injEq] at h
    obtain ⟨⟨l, hl, hname, hdepth⟩, hlater⟩ := Scope.resolveLocal_is_innermost_preceding c name i hr
    refine ⟨i, h.symm, ?_, ?_⟩
    · have : c.locals[i]? = (ls[i]?).map decLocal := by simp [c]
      rw [this] at hl
      cases hx : ls[i]? with
      | none => rw [hx] at hl; cases hl
      | some r =>
        rw [hx] at hl
        simp only [Option.map_some, Option.some.injEq] at hl
        subst hl
        refine ⟨r, rfl, by simpa [decLocal] using hname, ?_⟩
        cases hd : r.2.1 with
        | none => simp [decLocal, hd] at hdepth
        | some d => rfl
    · intro j hij r hj
      have : c.locals[j]? = some (decLocal r) := by simp [c, hj]
      have := hlater j hij _ this
      simpa [decLocal] using this

/-! ### add_upvalue -/

abbrev RUpvalue := BitVec 8 × Bool

def decUp (r : RUpvalue) : Nat × Bool := (r.1.toNat, r.2)

/-- The search loop of the translated `add_upvalue`, from position `k`. -/
def findFrom (index : BitVec 8) (isLocal : Bool) : Int → List RUpvalue → Option Int
  | _, [] => none
  | k, u :: rest => if u.1 = index ∧ u.2 = isLocal then some k else findFrom index isLocal (k + 1) rest

theorem add_upvalue_loop (index : BitVec 8) (isLocal : Bool) (ups all : List RUpvalue) (cnt k : Int) :
    Rs.forInBrk (Rs.enumerateFrom k ups) () (fun e_1 (_ : Unit) =>
        if (decide (e_1.2.1 = index) && decide (e_1.2.2 = isLocal)) then
          (Rs.M.ok (Sum.inr ((Except.ok (Rs.bvOfInt 8 e_1.1) : Except Fns.CompilerError (BitVec 8)), cnt, all)))
        else Rs.M.ok (Sum.inl ())) =
      .ok (match findFrom index isLocal k ups with
           | some i => Sum.inr (.ok (Rs.bvOfInt 8 i), cnt, all)
           | none => Sum.inl ()) := by
  induction ups generalizing k with
  | nil => simp [Rs.enumerateFrom, Rs.forInBrk, findFrom]
  | cons u rest ih =>
    simp only [Rs.enumerateFrom, Rs.forInBrk, findFrom]
    by_cases h : u.1 = index ∧ u.2 = isLocal
    · simp [h.1, h.2]
    · rw [if_neg h]
      have : (decide (u.1 = index) && decide (u.2 = isLocal)) = false := by
        by_cases h1 : u.1 = index
        · have h2 : ¬ u.2 = isLocal := fun h2 => h ⟨h1, h2⟩
          simp [h1, h2]
        · simp [h1]
      simp only [this, Bool.false_eq_true, if_false]
      exact ih (k + 1)

/-- **Tie (statement of the translated body).** `add_upvalue` reuses the first entry equal to `(index, is_local)`; otherwise it refuses
at 256 entries; otherwise it appends the pair, answers its position and adds one to the function's `upvalue_count`. -/
theorem add_upvalue_spec (index : BitVec 8) (isLocal : Bool) (ups : List RUpvalue) (cnt : Int) (hcnt : 0 ≤ cnt ∧ cnt < 1000) :
    Fns.compiler_add_upvalue index isLocal cnt ups =
      .ok (match findFrom index isLocal 0 ups with
           | some i => (.ok (Rs.bvOfInt 8 i), cnt, ups)
           | none =>
             if (ups.length : Int) = 256 then (.error .TooManyClosureVars, cnt, ups)
             else (.ok (Rs.bvOfInt 8 ups.length), cnt + 1, ups ++ [(index, isLocal)])) := by
  unfold Fns.compiler_add_upvalue Rs.enumerate
  simp only
  rw [add_upvalue_loop]
  cases hf : findFrom index isLocal 0 ups with
  | some i => simp [Rs.M.bind]
  | none =>
    simp only [Rs.M.bind, Rs.len]
    by_cases h256 : (ups.length : Int) = 256
    · simp [h256]
    · simp only [h256, decide_false, Bool.false_eq_true, if_false]
      have : Rs.iadd .usize cnt 1 = .ok (cnt + 1) := Yarel.FnsTie.iadd_usize_ok cnt 1 (by omega) (by omega)
      rw [this]

/-- The search of the reference parser (`List.idxOf?` on the decoded pairs) finds the same position. -/
theorem findFrom_is_go (index : BitVec 8) (isLocal : Bool) (ups : List RUpvalue) (k : Nat) :
    findFrom index isLocal (k : Int) ups =
      (List.findIdx?.go (fun x => x == (index.toNat, isLocal)) (ups.map decUp) k).map fun i => ((i : Nat) : Int) := by
  induction ups generalizing k with
  | nil => simp [findFrom, List.findIdx?.go]
  | cons u rest ih =>
    simp only [findFrom, List.map_cons, List.findIdx?.go]
    by_cases h : u.1 = index ∧ u.2 = isLocal
    · have : (decUp u == (index.toNat, isLocal)) = true := by simp [decUp, h.1, h.2]
      simp [h, this]
    · have : (decUp u == (index.toNat, isLocal)) = false := by
        simp only [decUp, beq_eq_false_iff_ne, ne_eq, Prod.mk.injEq, not_and]
        intro h1 h2
        exact h ⟨BitVec.eq_of_toNat_eq h1, h2⟩
      rw [if_neg h]
      simp only [this]
      have := ih (k + 1)
      rw [show ((k : Int) + 1) = ((k + 1 : Nat) : Int) by push_cast; rfl, this]
      rfl

theorem findFrom_is_idxOf (index : BitVec 8) (isLocal : Bool) (ups : List RUpvalue) :
    findFrom index isLocal 0 ups = ((ups.map decUp).idxOf? (index.toNat, isLocal)).map fun i => ((i : Nat) : Int) := by
  have := findFrom_is_go index isLocal ups 0
  simpa [List.idxOf?, List.findIdx?] using this

/-- **Tie.** On a compiler whose captured-variable list decodes `ups`, the translated `add_upvalue` and the reference parser's
`addUpvalueIn` agree: same refusal, same answered position, same resulting list. -/
theorem add_upvalue_tie (index : BitVec 8) (isLocal : Bool) (ups : List RUpvalue) (cnt : Int) (hcnt : 0 ≤ cnt ∧ cnt < 1000)
    (c : Compiler) (hc : c.upvalues = (ups.map decUp).toArray) :
    (match P.addUpvalueIn c index.toNat isLocal with
     | none => ∃ u n, Fns.compiler_add_upvalue index isLocal cnt ups = .ok (.error .TooManyClosureVars, n, u) ∧ u = ups ∧ n = cnt
     | some (i, c') => ∃ u n, Fns.compiler_add_upvalue index isLocal cnt ups = .ok (.ok (Rs.bvOfInt 8 (i : Int)), n, u) ∧
         c'.upvalues = (u.map decUp).toArray) := by
  rw [add_upvalue_spec index isLocal ups cnt hcnt]
  unfold P.addUpvalueIn
  have hf := findFrom_is_idxOf index isLocal ups
  rw [hc]
  simp only [List.toList_toArray]
  cases hi : (ups.map decUp).idxOf? (index.toNat, isLocal) with
  | some i =>
    rw [hi] at hf
    simp only [Option.map_some] at hf
    rw [hf]
    exact ⟨ups, cnt, rfl, hc⟩
  | none =>
    rw [hi] at hf
    simp only [Option.map_none] at hf
    rw [hf]
    simp only [List.size_toArray, List.length_map, upvaluesMax]
    by_cases h256 : ups.length = 256
    · have : ((ups.length : Int) = 256) := by omega
      simp [h256]
    · have : ¬ ((ups.length : Int) = 256) := by omega
      simp only [beq_iff_eq, h256, if_false, this]
      refine ⟨ups ++ [(index, isLocal)], cnt + 1, rfl, ?_⟩
      simp [decUp]

/-! ### declaring and initialising a local (`Compiler::add_local`, `mark_initialised`, `mark_last_initialised`) -/

/-- `add_local` refuses at 256 locals and otherwise appends an UNINITIALISED, uncaptured local of that name - exactly the reference
parser's `addLocal` (`localsMax`, `push { name, depth := none }`). -/
theorem add_local_spec (ls : List RLocal) (name : String) :
    Fns.compiler_add_local ls name =
      .ok (if ls.length = 256 then (false, ls) else (true, ls ++ [(name, none, false)])) := by
  unfold Fns.compiler_add_local Rs.len
  by_cases h : ls.length = 256
  · have : ((ls.length : Int) = 256) := by omega
    simp [h]
  · have : ¬ ((ls.length : Int) = 256) := by omega
    simp [h, this]

theorem add_local_matches_reference (ls : List RLocal) (name : String) :
    (256 = localsMax) ∧
    ((ls ++ [(name, none, false)]).map decLocal).toArray = ((ls.map decLocal).toArray).push { name := name, depth := none } := by
  constructor
  · rfl
  · simp [decLocal]

/-- `mark_initialised(i)` gives local `i` the current scope depth and touches nothing else; an index outside the list is a panic
(the reference parser's `markInitialisedAt` leaves the list alone there; the compiler only ever passes the index of a local it has
just declared). -/
theorem mark_initialised_spec (ls : List RLocal) (i : Nat) (depth : Int) (r : RLocal) (h : ls[i]? = some r) :
    Fns.compiler_mark_initialised (i : Int) ls depth = .ok ((), ls.set i (r.1, some depth, r.2.2)) := by
  unfold Fns.compiler_mark_initialised Rs.modifyIdx
  have : ¬ ((i : Int) < 0) := by omega
  simp [this, h, Rs.M.bind]

theorem mark_initialised_out_of_range (ls : List RLocal) (i : Nat) (depth : Int) (h : ls.length ≤ i) :
    Fns.compiler_mark_initialised (i : Int) ls depth = .panic := by
  unfold Fns.compiler_mark_initialised Rs.modifyIdx
  have : ¬ ((i : Int) < 0) := by omega
  have hn : ls[i]? = none := List.getElem?_eq_none h
  simp [this, hn, Rs.M.bind]

/-- `mark_last_initialised` does the same for the local declared last. -/
theorem mark_last_initialised_spec (ls : List RLocal) (r : RLocal) (depth : Int) :
    Fns.compiler_mark_last_initialised (ls ++ [r]) depth = .ok ((), ls ++ [(r.1, some depth, r.2.2)]) := by
  unfold Fns.compiler_mark_last_initialised Rs.modifyLast
  simp [Rs.M.bind]

/-- Declared, then initialised: from then on `resolve_local` finds it (and it shadows every earlier local of that name). -/
theorem declared_then_initialised_is_found (ls : List RLocal) (name : String) (depth : Int) (hlen : ls.length < 256) :
    ∃ ls1 ls2, Fns.compiler_add_local ls name = .ok (true, ls1) ∧
      Fns.compiler_mark_last_initialised ls1 depth = .ok ((), ls2) ∧
      Fns.compiler_resolve_local ls2 name = .ok (.ok (Rs.bvOfInt 8 (ls.length : Int))) := by
  refine ⟨ls ++ [(name, none, false)], ls ++ [(name, some depth, false)], ?_, ?_, ?_⟩
  · rw [add_local_spec]; have : ls.length ≠ 256 := by omega
    simp [this]
  · exact mark_last_initialised_spec ls (name, none, false) depth
  · let c : Compiler := { kind := default, name := "", locals := ((ls ++ [(name, some depth, false)]).map decLocal).toArray }
    rw [resolve_local_tie _ name c rfl]
    have : P.resolveLocalIn c name = .ok ls.length := by
      unfold P.resolveLocalIn
      have hs : c.locals.size = ls.length + 1 := by simp [c]
      rw [hs]
      unfold P.resolveLocalIn.go
      have hg : c.locals[ls.length]? = some (decLocal (name, some depth, false)) := by simp [c]
      rw [hg]
      simp [decLocal]
    rw [this]
    rfl

example : Fns.compiler_resolve_local [("a", some 1, false), ("b", some 2, false), ("a", some 2, true)] "a" = .ok (.ok 2#8) := by rfl
example : Fns.compiler_resolve_local [("a", some 1, false), ("a", none, false)] "a" = .ok (.error .ReadVarInInitialiser) := by rfl
example : Fns.compiler_resolve_local [("a", some 1, false)] "z" = .ok (.error .LocalNotFound) := by rfl

#print axioms resolve_local_tie
#print axioms resolve_local_innermost
#print axioms add_upvalue_spec
#print axioms add_upvalue_tie
#print axioms add_local_spec
#print axioms mark_initialised_spec
#print axioms mark_last_initialised_spec
#print axioms declared_then_initialised_is_found

end Yarel.FnsTie.Resolver
