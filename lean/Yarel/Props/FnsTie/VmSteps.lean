/- Ties for the one-instruction handlers of vm.rs translated from the source on every run (`Gen/Fns.lean`: `Vm::equal_impl`,
`binary_op_impl`, `logical_not_impl`, `negate_impl`, `bitwise_not_impl`, `get_local_impl`, `set_local_impl`, `jump_impl`,
`jump_if_false_impl`, `loop_impl`, `read_constant`, and `Value::into_bool` / `try_as_number`) over the abstract interpreter state
`Rs.Vm` of RustSem.lean.  Each theorem states what the handler does to the operand stack and to the instruction pointer - the
effect (`pops`, `pushes`, operand size, jump target) that the frame machine of C04 assumes for that opcode, the operand ORDER and
the result that the reference interpreter of C05 computes - and `jump_roundtrip` / `loop_roundtrip` compose the compiler's jump
emission with the interpreter's jump execution: both translated from the Rust source, they meet on the intended target. -/
import Yarel.Gen.Fns
import Yarel.Props.FnsTie.Base
import Yarel.Props.FnsTie.Compiler
import Yarel.Props.C04
import Yarel.Spec.NumStub
set_option maxRecDepth 2000
namespace Yarel.FnsTie
open Yarel Yarel.Gen

/-! ## helpers about the abstract interpreter state -/

theorem pop_append (vm : Rs.Vm) (rest : List Rs.Value) (v : Rs.Value) (h : vm.stack = rest ++ [v]) :
    Rs.Vm.pop vm = .ok (v, { vm with stack := rest }) := by
  unfold Rs.Vm.pop
  simp [h]

theorem readShort_at (vm : Rs.Vm) (pre post : List (BitVec 8)) (lo hi : BitVec 8)
    (hc : vm.code = pre ++ lo :: hi :: post) (hip : vm.ip = (pre.length : Int)) :
    Rs.Vm.readShort vm = .ok ((hi.setWidth 16 <<< 8) ||| lo.setWidth 16, { vm with ip := vm.ip + 2 }) := by
  unfold Rs.Vm.readShort
  have h1 : Rs.idx vm.code vm.ip = .ok lo := by
    unfold Rs.idx
    rw [hip, if_neg (by omega), hc]
    simp
  have h2 : Rs.idx vm.code (vm.ip + 1) = .ok hi := by
    unfold Rs.idx
    rw [hip, if_neg (by omega), hc]
    have : ((pre.length : Int) + 1).toNat = pre.length + 1 := by omega
    rw [this]
    simp
  rw [h1, Rs.M.bind_ok, h2, Rs.M.bind_ok]

theorem readByte_at (vm : Rs.Vm) (pre post : List (BitVec 8)) (b : BitVec 8)
    (hc : vm.code = pre ++ b :: post) (hip : vm.ip = (pre.length : Int)) :
    Rs.Vm.readByte vm = .ok (b, { vm with ip := vm.ip + 1 }) := by
  unfold Rs.Vm.readByte
  have h1 : Rs.idx vm.code vm.ip = .ok b := by
    unfold Rs.idx
    rw [hip, if_neg (by omega), hc]
    simp
  rw [h1, Rs.M.bind_ok]

/-- the u16 operand denoted by two code bytes, low byte first -/
def u16 (lo hi : BitVec 8) : Nat := lo.toNat + 256 * hi.toNat

theorem short_toNat (lo hi : BitVec 8) : ((hi.setWidth 16 <<< 8) ||| lo.setWidth 16).toNat = u16 lo hi := by
  unfold u16
  have hlo := lo.isLt
  have hhi := hi.isLt
  have hdisj : (hi.setWidth 16 <<< 8) ||| lo.setWidth 16 = (hi.setWidth 16 <<< 8) + lo.setWidth 16 := by
    apply BitVec.eq_of_toNat_eq
    simp only [BitVec.toNat_or, BitVec.toNat_add, BitVec.toNat_shiftLeft, BitVec.toNat_setWidth]
    have e1 : hi.toNat % 2 ^ 16 = hi.toNat := Nat.mod_eq_of_lt (by omega)
    have e2 : lo.toNat % 2 ^ 16 = lo.toNat := Nat.mod_eq_of_lt (by omega)
    rw [e1, e2, Nat.shiftLeft_eq]
    have e3 : hi.toNat * 2 ^ 8 % 2 ^ 16 = hi.toNat * 2 ^ 8 := Nat.mod_eq_of_lt (by omega)
    rw [e3]
    have : hi.toNat * 2 ^ 8 ||| lo.toNat = hi.toNat * 2 ^ 8 + lo.toNat := by
      rw [Nat.mul_comm]
      exact (Nat.two_pow_add_eq_or_of_lt hlo hi.toNat).symm
    rw [this]
    exact (Nat.mod_eq_of_lt (by omega)).symm
  rw [hdisj]
  simp only [BitVec.toNat_add, BitVec.toNat_shiftLeft, BitVec.toNat_setWidth, Nat.shiftLeft_eq]
  have e1 : hi.toNat % 2 ^ 16 = hi.toNat := Nat.mod_eq_of_lt (by omega)
  have e2 : lo.toNat % 2 ^ 16 = lo.toNat := Nat.mod_eq_of_lt (by omega)
  rw [e1, e2]
  omega


theorem intOfBv_isize_16 (x : BitVec 16) : Rs.intOfBv .isize x = (x.toNat : Int) := by
  have := x.isLt
  simp only [Rs.intOfBv, Rs.iwrap, Rs.ITy.lo, Rs.ITy.hi]
  have e : (9223372036854775807 : Int) - -9223372036854775808 + 1 = 18446744073709551616 := by decide
  rw [e]
  omega

theorem intOfBv_usize_8 (x : BitVec 8) : Rs.intOfBv .usize x = (x.toNat : Int) := by
  have := x.isLt
  simp only [Rs.intOfBv, Rs.iwrap, Rs.ITy.lo, Rs.ITy.hi]
  omega

theorem intOfBv_usize_16 (x : BitVec 16) : Rs.intOfBv .usize x = (x.toNat : Int) := by
  have := x.isLt
  simp only [Rs.intOfBv, Rs.iwrap, Rs.ITy.lo, Rs.ITy.hi]
  omega

/-- `Jump`: reads its two operand bytes and continues at (offset after the operand) + operand. -/
theorem vm_jump_effect (vm : Rs.Vm) (pre post : List (BitVec 8)) (lo hi : BitVec 8)
    (hc : vm.code = pre ++ lo :: hi :: post) (hip : vm.ip = (pre.length : Int)) :
    Fns.vm_jump_impl vm = .ok ((), { vm with ip := (JumpLimits.forwardTarget pre.length (u16 lo hi) : Nat) }) := by
  unfold Fns.vm_jump_impl
  rw [readShort_at vm pre post lo hi hc hip]
  simp only [Rs.M.bind_ok, intOfBv_isize_16, short_toNat, JumpLimits.forwardTarget, hip]
  congr 2
  try (simp only [Rs.Vm.mk.injEq, true_and, and_true]; omega)

/-- `JumpIfFalse`: the same target when the top of the stack is falsy (`false` or `nil`), the next instruction otherwise; the
stack is left as it is (the compiler emits the `Pop`s). -/
theorem vm_jump_if_false_effect (vm : Rs.Vm) (pre post : List (BitVec 8)) (lo hi : BitVec 8) (rest : List Rs.Value) (v : Rs.Value)
    (hc : vm.code = pre ++ lo :: hi :: post) (hip : vm.ip = (pre.length : Int)) (hs : vm.stack = rest ++ [v]) :
    Fns.vm_jump_if_false_impl vm =
      .ok ((), { vm with ip := if (match v with | .Boolean b => b | .None => false | _ => true) then (pre.length : Int) + 2
                                else (pre.length : Int) + 2 + (u16 lo hi : Nat) }) := by
  unfold Fns.vm_jump_if_false_impl
  rw [readShort_at vm pre post lo hi hc hip]
  simp only [Rs.M.bind_ok]
  have hp : Rs.Vm.peek { vm with ip := vm.ip + 2 } 0 = .ok v := by
    unfold Rs.Vm.peek
    simp [hs]
  rw [hp]
  simp only [Rs.M.bind_ok, intOfBv_isize_16, short_toNat, hip]
  cases v with
  | Boolean b => cases b <;> simp [Fns.into_bool]
  | Number x => simp [Fns.into_bool]
  | None => simp [Fns.into_bool]
  | Other t => simp [Fns.into_bool]

/-- `Loop`: continues at (offset after the operand) - operand; a target before the start of the code would be an `isize`
underflow only for operands beyond what fits, never for a u16. -/
theorem vm_loop_effect (vm : Rs.Vm) (pre post : List (BitVec 8)) (lo hi : BitVec 8)
    (hc : vm.code = pre ++ lo :: hi :: post) (hip : vm.ip = (pre.length : Int)) :
    Fns.vm_loop_impl vm = .ok ((), { vm with ip := (pre.length : Int) + 2 - (u16 lo hi : Nat) }) := by
  unfold Fns.vm_loop_impl
  rw [readShort_at vm pre post lo hi hc hip]
  simp only [Rs.M.bind_ok, intOfBv_isize_16, short_toNat]
  have hlt : u16 lo hi < 65536 := by unfold u16; have := lo.isLt; have := hi.isLt; omega
  have hneg : Rs.ineg .isize ((u16 lo hi : Nat) : Int) = .ok (-((u16 lo hi : Nat) : Int)) := by
    simp only [Rs.ineg, Rs.ck]
    have : Rs.ITy.fits .isize (-((u16 lo hi : Nat) : Int)) = true := by
      simp [Rs.ITy.fits, Rs.ITy.lo, Rs.ITy.hi]; omega
    rw [if_pos this]
  rw [hneg]
  simp only [Rs.M.bind_ok, hip]
  congr 2
  try (simp only [Rs.Vm.mk.injEq, true_and, and_true]; omega)


/-- `GetLocal slot`: pushes a copy of `stack[slot_base + slot]`; panics exactly when that slot does not exist (excluded for
verified code by `verify_sound`: the slot is below the current height). -/
theorem vm_get_local_effect (vm : Rs.Vm) (pre post : List (BitVec 8)) (b : BitVec 8) (v : Rs.Value)
    (hc : vm.code = pre ++ b :: post) (hip : vm.ip = (pre.length : Int)) (hb : 0 ≤ vm.slotBase)
    (hfit : vm.slotBase + b.toNat ≤ 18446744073709551615)
    (hv : vm.stack[(vm.slotBase + b.toNat).toNat]? = some v) :
    Fns.vm_get_local_impl vm = .ok ((), { vm with ip := vm.ip + 1, stack := vm.stack ++ [v] }) := by
  unfold Fns.vm_get_local_impl
  rw [readByte_at vm pre post b hc hip]
  simp only [Rs.M.bind_ok, intOfBv_usize_8]
  rw [iadd_usize_ok _ _ (by omega) hfit]
  simp only [Rs.M.bind_ok]
  have hi : Rs.idx vm.stack (vm.slotBase + (b.toNat : Int)) = .ok v := by
    unfold Rs.idx
    rw [if_neg (by omega)]
    simp [hv]
  simp [hi, Rs.Vm.push]

theorem vm_get_local_panics (vm : Rs.Vm) (pre post : List (BitVec 8)) (b : BitVec 8)
    (hc : vm.code = pre ++ b :: post) (hip : vm.ip = (pre.length : Int)) (hb : 0 ≤ vm.slotBase)
    (hfit : vm.slotBase + b.toNat ≤ 18446744073709551615)
    (hv : vm.stack[(vm.slotBase + b.toNat).toNat]? = none) :
    Fns.vm_get_local_impl vm = .panic := by
  unfold Fns.vm_get_local_impl
  rw [readByte_at vm pre post b hc hip]
  simp only [Rs.M.bind_ok, intOfBv_usize_8]
  rw [iadd_usize_ok _ _ (by omega) hfit]
  simp only [Rs.M.bind_ok]
  have hi : Rs.idx vm.stack (vm.slotBase + (b.toNat : Int)) = .panic := by
    unfold Rs.idx
    rw [if_neg (by omega)]
    simp [hv]
  simp [hi]

/-- `SetLocal slot`: `stack[slot_base + slot] = peek(0)`; the height does not change. -/
theorem vm_set_local_effect (vm : Rs.Vm) (pre post : List (BitVec 8)) (b : BitVec 8) (rest : List Rs.Value) (top : Rs.Value)
    (hc : vm.code = pre ++ b :: post) (hip : vm.ip = (pre.length : Int)) (hb : 0 ≤ vm.slotBase)
    (hs : vm.stack = rest ++ [top]) (hslot : (vm.slotBase + b.toNat).toNat < vm.stack.length)
    (hfit : vm.slotBase + b.toNat ≤ 18446744073709551615) :
    Fns.vm_set_local_impl vm = .ok ((), { vm with ip := vm.ip + 1, stack := vm.stack.set (vm.slotBase + b.toNat).toNat top }) := by
  unfold Fns.vm_set_local_impl
  rw [readByte_at vm pre post b hc hip]
  simp only [Rs.M.bind_ok, intOfBv_usize_8]
  rw [iadd_usize_ok _ _ (by omega) hfit]
  simp only [Rs.M.bind_ok]
  have hp : Rs.Vm.peek { vm with ip := vm.ip + 1 } 0 = .ok top := by
    unfold Rs.Vm.peek
    simp [hs]
  rw [hp]
  simp only [Rs.M.bind_ok]
  have hset : Rs.setIdx vm.stack (vm.slotBase + (b.toNat : Int)) top = .ok (vm.stack.set (vm.slotBase + b.toNat).toNat top) := by
    unfold Rs.setIdx
    rw [if_neg (by omega), if_pos hslot]
  simp [hset]

/-! ## the compiler's jump emission and the interpreter's jump execution, both translated from the source, meet -/

theorem set_two (c : List (BitVec 8)) (p : Nat) (x y : BitVec 8) (h : p + 2 ≤ c.length) :
    (c.set p x).set (p + 1) y = c.take p ++ x :: y :: c.drop (p + 2) := by
  induction c generalizing p with
  | nil => simp at h
  | cons a t ih =>
    cases p with
    | zero =>
      cases t with
      | nil => simp at h
      | cons b t' => simp
    | succ q =>
      simp only [List.set_cons_succ, List.take_succ_cons, List.cons_append, List.drop_succ_cons]
      rw [ih q (by simp at h; omega)]

theorem lo_hi_u16 (n : Nat) (h : n < 65536) : u16 (loByte n) (hiByte n) = n := by
  unfold u16 loByte hiByte
  simp only [BitVec.toNat_ofNat]
  omega

/-- A forward jump patched by `Compiler::patch_jump` (placeholder at `p`, target = the end of the code at patch time) and then
executed by `Vm::jump_impl` lands exactly on that target. -/
theorem jump_roundtrip (c c' : List (BitVec 8)) (p : Nat) (vm : Rs.Vm) (hl : (c.length : Int) ≤ F64.isizeMax)
    (hp : Fns.patch_jump (p : Int) c = .ok (.ok (), c')) (hcode : vm.code = c') (hip : vm.ip = (p : Int)) :
    Fns.vm_jump_impl vm = .ok ((), { vm with ip := (c.length : Int) }) := by
  rw [patch_jump_tie c p hl] at hp
  cases hm : JumpLimits.patchJump c.length p with
  | fault => rw [hm] at hp; simp at hp
  | tooLarge => rw [hm] at hp; simp at hp
  | ok operand =>
    rw [hm] at hp
    simp only [Rs.M.ok.injEq, Prod.mk.injEq, true_and] at hp
    have hs := C04.patchJump_sound c.length p operand hm
    have hp2 : p + 2 ≤ c.length := by
      unfold JumpLimits.patchJump at hm
      by_cases hlt : c.length < p + 2
      · simp [hlt] at hm
      · omega
    rw [set_two c p _ _ hp2] at hp
    have hpre : (c.take p).length = p := by simp; omega
    have := vm_jump_effect vm (c.take p) (c.drop (p + 2)) (loByte operand) (hiByte operand) (by rw [hcode, ← hp]) (by rw [hip, hpre])
    rw [this, hpre, lo_hi_u16 operand hs.1, hs.2]
/-! ## one-instruction handlers of vm.rs -/

/-- `Equal`: pops b, then a, pushes `a == b`; nothing else changes. -/
theorem vm_equal_effect (vm : Rs.Vm) (rest : List Rs.Value) (a b : Rs.Value) (h : vm.stack = rest ++ [a, b]) :
    Fns.vm_equal_impl vm = .ok ((), { vm with stack := rest ++ [Rs.Value.Boolean (Rs.Value.eq a b)] }) := by
  unfold Fns.vm_equal_impl
  have h1 : vm.stack = (rest ++ [a]) ++ [b] := by simp [h]
  rw [pop_append vm _ _ h1]
  simp only [Rs.M.bind_ok]
  rw [pop_append { vm with stack := rest ++ [a] } rest a rfl]
  simp [Rs.Vm.push]

/-- The binary operators on two numbers: the operand pushed FIRST is the closure's first argument; the result replaces both. -/
theorem vm_binary_op_numbers (op : UInt64 → UInt64 → Rs.M Rs.Value) (vm : Rs.Vm) (rest : List Rs.Value) (a b : UInt64) (r : Rs.Value)
    (h : vm.stack = rest ++ [.Number a, .Number b]) (hop : op a b = .ok r) :
    Fns.vm_binary_op_impl op vm = .ok (.ok (), { vm with stack := rest ++ [r] }) := by
  unfold Fns.vm_binary_op_impl
  have h1 : vm.stack = (rest ++ [Rs.Value.Number a]) ++ [Rs.Value.Number b] := by simp [h]
  rw [pop_append vm _ _ h1]
  simp only [Rs.M.bind_ok]
  rw [pop_append { vm with stack := rest ++ [Rs.Value.Number a] } rest _ rfl]
  simp [hop, Rs.Vm.push]

/-- … on anything else: both operands are popped, nothing is pushed, and a TypeError is handed to the exception machinery. -/
theorem vm_binary_op_type_error (op : UInt64 → UInt64 → Rs.M Rs.Value) (vm : Rs.Vm) (rest : List Rs.Value) (x y : Rs.Value)
    (h : vm.stack = rest ++ [x, y]) (hn : ¬ (∃ a b, x = .Number a ∧ y = .Number b)) :
    Fns.vm_binary_op_impl op vm =
      .ok (vm.handled, { vm with stack := rest, raised := vm.raised ++ [Rs.Err.mk "TypeError" "Binary operands must both be numbers." []] }) := by
  unfold Fns.vm_binary_op_impl
  have h1 : vm.stack = (rest ++ [x]) ++ [y] := by simp [h]
  rw [pop_append vm _ _ h1]
  simp only [Rs.M.bind_ok]
  rw [pop_append { vm with stack := rest ++ [x] } rest _ rfl]
  cases x <;> cases y <;> simp_all [Rs.Vm.raise]

theorem vm_logical_not_effect (vm : Rs.Vm) (rest : List Rs.Value) (v : Rs.Value) (h : vm.stack = rest ++ [v]) :
    Fns.vm_logical_not_impl vm =
      .ok ((), { vm with stack := rest ++ [Rs.Value.Boolean (match v with | .Boolean b => !b | .None => true | _ => false)] }) := by
  unfold Fns.vm_logical_not_impl
  rw [pop_append vm _ _ h]
  cases v <;> simp [Fns.into_bool, Rs.Vm.push]

/-- `Negate` / `BitwiseNot` on a number: the soft-float negation / the `i64` complement the reference interpreter computes. -/
theorem vm_negate_number (vm : Rs.Vm) (rest : List Rs.Value) (a : UInt64) (h : vm.stack = rest ++ [.Number a]) :
    Fns.vm_negate_impl vm = .ok (.ok (), { vm with stack := rest ++ [.Number (Spec.Num.neg a)] }) := by
  unfold Fns.vm_negate_impl
  rw [pop_append vm _ _ h]
  simp [Fns.try_as_number, Rs.Vm.push, Spec.Num.neg, Rs.f64Neg]

theorem vm_bitwise_not_number (vm : Rs.Vm) (rest : List Rs.Value) (a : UInt64) (h : vm.stack = rest ++ [.Number a]) :
    Fns.vm_bitwise_not_impl vm = .ok (.ok (), { vm with stack := rest ++ [.Number (Spec.Num.bitNot a)] }) := by
  unfold Fns.vm_bitwise_not_impl
  rw [pop_append vm _ _ h]
  simp [Fns.try_as_number, Rs.Vm.push, Spec.Num.bitNot, F64.bnot, Rs.i64ToF64, Rs.i64Not, Rs.f64ToIsize, F64.toI64]

theorem vm_negate_type_error (vm : Rs.Vm) (rest : List Rs.Value) (v : Rs.Value) (h : vm.stack = rest ++ [v]) (hn : ∀ a, v ≠ .Number a) :
    Fns.vm_negate_impl vm =
      .ok (vm.handled, { vm with stack := rest, raised := vm.raised ++ [Rs.Err.mk "TypeError" "Unary operand must be a number." []] }) := by
  unfold Fns.vm_negate_impl
  rw [pop_append vm _ _ h]
  cases v <;> simp_all [Fns.try_as_number, Rs.Vm.raise] <;> cases vm.handled <;> rfl

/-- A backward jump emitted by `Parser::emit_loop` (operand bytes as its tie says) and executed by `Vm::loop_impl` lands on the
loop start. -/
theorem loop_roundtrip (code post : List (BitVec 8)) (loopStart operand : Nat) (vm : Rs.Vm)
    (hm : JumpLimits.emitLoop code.length loopStart = .ok operand)
    (hc : vm.code = code ++ loByte operand :: hiByte operand :: post) (hip : vm.ip = (code.length : Int)) :
    Fns.vm_loop_impl vm = .ok ((), { vm with ip := (loopStart : Int) }) := by
  have hs := C04.emitLoop_sound code.length loopStart operand hm
  rw [vm_loop_effect vm code post _ _ hc hip, lo_hi_u16 operand hs.1]
  have hle : operand ≤ code.length + 2 := by
    unfold JumpLimits.emitLoop JumpLimits.JUMP_SIZE_MAX at hm
    by_cases h1 : code.length < loopStart
    · simp [h1] at hm
    · by_cases h2 : code.length - loopStart + 2 > 65535
      · simp [h1, h2] at hm
      · simp only [h1, h2, if_false] at hm
        injection hm with hm
        omega
  have : JumpLimits.loopTarget code.length operand = loopStart := hs.2
  unfold JumpLimits.loopTarget at this
  have e : (code.length : Int) + 2 - (operand : Int) = (loopStart : Int) := by omega
  rw [e]

/-! ### the dispatch arms that work inline (`Constant`, `Nil`, `True`, `False`, `Pop`, `CopyTop`) -/

/-- `Constant lo hi`: pushes `constants[lo + 256*hi]` and moves two bytes on; panics exactly when the table has no such entry
(excluded for verified code: `badConstant`). -/
theorem vm_arm_constant_effect (vm : Rs.Vm) (pre post : List (BitVec 8)) (lo hi : BitVec 8) (v : Rs.Value)
    (hc : vm.code = pre ++ lo :: hi :: post) (hip : vm.ip = (pre.length : Int)) (hv : vm.consts[u16 lo hi]? = some v) :
    Fns.vm_arm_Constant vm = .ok ((), { vm with ip := vm.ip + 2, stack := vm.stack ++ [v] }) := by
  unfold Fns.vm_arm_Constant Fns.vm_read_constant
  rw [readShort_at vm pre post lo hi hc hip]
  simp only [Rs.M.bind_ok, intOfBv_usize_16, short_toNat]
  have hi' : Rs.idx vm.consts ((u16 lo hi : Nat) : Int) = .ok v := by
    unfold Rs.idx
    rw [if_neg (by omega)]
    simp [hv]
  simp [hi', Rs.Vm.push]

theorem vm_arm_constant_panics (vm : Rs.Vm) (pre post : List (BitVec 8)) (lo hi : BitVec 8)
    (hc : vm.code = pre ++ lo :: hi :: post) (hip : vm.ip = (pre.length : Int)) (hv : vm.consts[u16 lo hi]? = none) :
    Fns.vm_arm_Constant vm = .panic := by
  unfold Fns.vm_arm_Constant Fns.vm_read_constant
  rw [readShort_at vm pre post lo hi hc hip]
  simp only [Rs.M.bind_ok, intOfBv_usize_16, short_toNat]
  have hi' : Rs.idx vm.consts ((u16 lo hi : Nat) : Int) = .panic := by
    unfold Rs.idx
    rw [if_neg (by omega)]
    simp [hv]
  simp [hi', Rs.M.bind]

/-- `Nil`, `True`, `False`: one value pushed, nothing read, never a panic. -/
theorem vm_arm_nil_effect (vm : Rs.Vm) : Fns.vm_arm_Nil vm = .ok ((), { vm with stack := vm.stack ++ [Rs.Value.None] }) := rfl
theorem vm_arm_true_effect (vm : Rs.Vm) : Fns.vm_arm_True vm = .ok ((), { vm with stack := vm.stack ++ [Rs.Value.Boolean true] }) := rfl
theorem vm_arm_false_effect (vm : Rs.Vm) : Fns.vm_arm_False vm = .ok ((), { vm with stack := vm.stack ++ [Rs.Value.Boolean false] }) := rfl

/-- `Pop`: the top value goes; on an empty stack a panic (excluded for verified code: `stackUnderflow`). -/
theorem vm_arm_pop_effect (vm : Rs.Vm) (rest : List Rs.Value) (v : Rs.Value) (h : vm.stack = rest ++ [v]) :
    Fns.vm_arm_Pop vm = .ok ((), { vm with stack := rest }) := by
  unfold Fns.vm_arm_Pop
  rw [pop_append vm rest v h]
  rfl

theorem vm_arm_pop_empty (vm : Rs.Vm) (h : vm.stack = []) : Fns.vm_arm_Pop vm = .panic := by
  unfold Fns.vm_arm_Pop Rs.Vm.pop
  simp [h, Rs.M.bind]

/-- `CopyTop`: the top value is pushed again. -/
theorem vm_arm_copy_top_effect (vm : Rs.Vm) (rest : List Rs.Value) (v : Rs.Value) (h : vm.stack = rest ++ [v]) :
    Fns.vm_arm_CopyTop vm = .ok ((), { vm with stack := rest ++ [v, v] }) := by
  unfold Fns.vm_arm_CopyTop Rs.Vm.peek
  simp [h, Rs.Vm.push, Rs.M.bind]

/-- What the frame machine of C04 (Model/Bytecode.lean) assumes of these six instructions - how many values each removes and adds, and
that `Constant` alone has operands (two bytes) - is what the translated arms do. -/
theorem inline_arms_match_the_bytecode_table :
    (∀ (vm : Rs.Vm) pre post lo hi v, vm.code = pre ++ lo :: hi :: post → vm.ip = (pre.length : Int) → vm.consts[u16 lo hi]? = some v →
      ∃ vm', Fns.vm_arm_Constant vm = .ok ((), vm') ∧ vm'.ip = vm.ip + 2 ∧
        vm'.stack.length = vm.stack.length - Bytecode.Instr.pops { op := .constant, size := 3 } + Bytecode.Instr.pushes { op := .constant, size := 3 }) ∧
    (∀ (vm : Rs.Vm), ∃ vm', Fns.vm_arm_Nil vm = .ok ((), vm') ∧ vm'.ip = vm.ip ∧
        vm'.stack.length = vm.stack.length - Bytecode.Instr.pops { op := .nil, size := 1 } + Bytecode.Instr.pushes { op := .nil, size := 1 }) ∧
    (∀ (vm : Rs.Vm), ∃ vm', Fns.vm_arm_True vm = .ok ((), vm') ∧ vm'.ip = vm.ip ∧
        vm'.stack.length = vm.stack.length - Bytecode.Instr.pops { op := .true_, size := 1 } + Bytecode.Instr.pushes { op := .true_, size := 1 }) ∧
    (∀ (vm : Rs.Vm), ∃ vm', Fns.vm_arm_False vm = .ok ((), vm') ∧ vm'.ip = vm.ip ∧
        vm'.stack.length = vm.stack.length - Bytecode.Instr.pops { op := .false_, size := 1 } + Bytecode.Instr.pushes { op := .false_, size := 1 }) ∧
    (∀ (vm : Rs.Vm) rest v, vm.stack = rest ++ [v] → ∃ vm', Fns.vm_arm_Pop vm = .ok ((), vm') ∧ vm'.ip = vm.ip ∧
        vm'.stack.length = vm.stack.length - Bytecode.Instr.pops { op := .pop, size := 1 } + Bytecode.Instr.pushes { op := .pop, size := 1 }) ∧
    (∀ (vm : Rs.Vm) rest v, vm.stack = rest ++ [v] → ∃ vm', Fns.vm_arm_CopyTop vm = .ok ((), vm') ∧ vm'.ip = vm.ip ∧
        vm'.stack.length = vm.stack.length - Bytecode.Instr.pops { op := .copyTop, size := 1 } + Bytecode.Instr.pushes { op := .copyTop, size := 1 }) := by
  refine ⟨?_, ?_, ?_, ?_, ?_, ?_⟩
  · intro vm pre post lo hi v hc hip hv
    exact ⟨_, vm_arm_constant_effect vm pre post lo hi v hc hip hv, rfl, by simp [Bytecode.Instr.pops, Bytecode.Instr.pushes]⟩
  · intro vm; exact ⟨_, vm_arm_nil_effect vm, rfl, by simp [Bytecode.Instr.pops, Bytecode.Instr.pushes]⟩
  · intro vm; exact ⟨_, vm_arm_true_effect vm, rfl, by simp [Bytecode.Instr.pops, Bytecode.Instr.pushes]⟩
  · intro vm; exact ⟨_, vm_arm_false_effect vm, rfl, by simp [Bytecode.Instr.pops, Bytecode.Instr.pushes]⟩
  · intro vm rest v h
    exact ⟨_, vm_arm_pop_effect vm rest v h, rfl, by simp [Bytecode.Instr.pops, Bytecode.Instr.pushes, h]⟩
  · intro vm rest v h
    exact ⟨_, vm_arm_copy_top_effect vm rest v h, rfl, by simp [Bytecode.Instr.pops, Bytecode.Instr.pushes, h]⟩

#print axioms inline_arms_match_the_bytecode_table
#print axioms vm_arm_constant_effect
#print axioms vm_arm_constant_panics
#print axioms vm_arm_nil_effect
#print axioms vm_arm_pop_effect
#print axioms vm_arm_pop_empty
#print axioms vm_arm_copy_top_effect
#print axioms pop_append
#print axioms readShort_at
#print axioms readByte_at
#print axioms short_toNat
#print axioms intOfBv_isize_16
#print axioms intOfBv_usize_8
#print axioms intOfBv_usize_16
#print axioms vm_jump_effect
#print axioms vm_jump_if_false_effect
#print axioms vm_loop_effect
#print axioms vm_get_local_effect
#print axioms vm_get_local_panics
#print axioms vm_set_local_effect
#print axioms set_two
#print axioms lo_hi_u16
#print axioms jump_roundtrip
#print axioms vm_equal_effect
#print axioms vm_binary_op_numbers
#print axioms vm_binary_op_type_error
#print axioms vm_logical_not_effect
#print axioms vm_negate_number
#print axioms vm_bitwise_not_number
#print axioms vm_negate_type_error
#print axioms loop_roundtrip

end Yarel.FnsTie
