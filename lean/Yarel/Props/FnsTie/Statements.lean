/- What the statement compilers `Parser::{emit_return, return_statement, throw_statement, try_statement, break_statement, continue_statement,
while_statement, if_statement}` of compiler.rs EMIT, proved of
their bodies as translated on every run (Yarel/Gen/Fns.lean).  A statement compiler calls back into the parser (`expression`, `block`,
`consume`, ...) and into the emitter; the translation records every such call, in order, with its arguments (`Rs.Eff`), and takes what the
calls answer as inputs.  The theorems pin the ORDER and the ARGUMENTS of everything emitted around the recursive calls - the skeleton the
bytecode verifier of C04 and the handler mechanics of C08 rely on:

* `try_statement_skeleton`: `PushExcHandler` with its two 16-bit operands comes before the try block; `PopExcHandler` and the jump over
  the catch block directly after it; the first operand is patched to the end of that jump (= the catch address), the second one - at
  operand position + 2 - to what follows the catch block (= the finally address); `EndFinally` closes EVERY accepted try statement, with
  or without a finally block (repairs F12, F15: no handler is popped in the catch block, a `return` without finally finds its EndFinally);
  the flag `in_try_block` that makes a `return` emit `JumpFinally` is set before the try block is compiled and put back to what it was
  directly after it - before the catch and the finally block (`try_flag_brackets_the_try_block`);
* `emit_return_skeleton`, `return_statement_skeleton`: a `return` inside a try block emits `JumpFinally` before `Return`, a constructor
  returns its receiver, a bare `return` goes through `emit_return`;
* `throw_statement_skeleton`;
* `break_statement_skeleton`, `continue_statement_skeleton`, `break_discards_before_jumping`: the locals of the scopes inside the loop are
  discarded down to the depth the loop was entered at before the jump, the jump is registered with / aimed at the innermost loop;
* `while_statement_skeleton`, `if_statement_skeleton`, `condition_value_popped_on_both_sides`: where the backward jump goes, where the
  forward jumps are patched, that the condition value is popped on both sides of the test (the heights the verifier of C04 computes).
-/
import Yarel.Gen.Fns
import Yarel.Props.FnsTie.Base
import Yarel.Model.StmtSkeleton
import Yarel.Props.C05Tables

namespace Yarel.FnsTie
open Yarel Yarel.Gen Yarel.StmtSkeleton

theorem emit_return_skeleton (kind : Fns.FunctionKind) (inTry : Bool) :
    Fns.emit_return kind inTry = .ok ((), emitReturnSkeleton kind inTry) := by
  unfold Fns.emit_return emitReturnSkeleton
  by_cases h : kind = .Initialiser <;> cases inTry <;> simp [h, emitOp, opByte]

theorem throw_statement_skeleton :
    Fns.throw_statement = .ok ((), throwSkeleton) := by
  rfl

/-- `return;` goes through `emit_return`; `return e;` evaluates e, then `JumpFinally` iff inside a try block, then `Return`; the two
compile errors are reported before anything is emitted. -/
theorem return_statement_skeleton (kind : Fns.FunctionKind) (bare : Bool) (kind2 : Fns.FunctionKind) (inTry : Bool) :
    Fns.return_statement kind bare kind2 inTry = .ok ((), returnSkeleton kind bare kind2 inTry) := by
  unfold Fns.return_statement returnSkeleton
  by_cases h1 : kind = .Script <;> by_cases h2 : kind2 = .Initialiser <;> cases bare <;> cases inTry <;>
    simp [h1, h2, emitOp, opByte, matchTok, call0, consume]

theorem try_statement_skeleton (inTry0 : Bool) (c1 c3 c10 : List (BitVec 8)) (inTry7 : Bool) (jumpPos : Int)
    (haveCatch nameOk inTry12 hf0 inTry31 haveFinally inTry44 : Bool)
    (hlen : (c1.length : Int) + 2 ≤ 18446744073709551615) (hname : haveCatch = true → nameOk = true)
    (hclause : haveCatch = true ∨ haveFinally = true) :
    ∃ out, Fns.try_statement inTry0 c1 c3 inTry7 jumpPos c10 haveCatch nameOk inTry12 hf0 inTry31 haveFinally inTry44
      = .ok ((), out, trySkeleton inTry0 (c1.length : Int) (c3.length : Int) jumpPos (c10.length : Int) haveCatch haveFinally) := by
  unfold Fns.try_statement trySkeleton
  have hadd : Rs.iadd .usize (c1.length : Int) 2 = .ok ((c1.length : Int) + 2) := iadd_usize_ok _ _ (by omega) hlen
  cases haveCatch with
  | true =>
    have hn : nameOk = true := hname rfl
    subst hn
    cases haveFinally <;> simp [Rs.len, hadd, emitOp, opByte, matchTok, call0, consume, storeInTry]
  | false =>
    cases haveFinally with
    | true => simp [Rs.len, hadd, emitOp, opByte, matchTok, call0, consume, storeInTry]
    | false => rcases hclause with h | h <;> cases h

/-- The compiler flag is raised for exactly the try block: the only two stores are `true` first of all and the previous value right after
the block's scope ends, whatever clauses follow. -/
theorem try_flag_brackets_the_try_block (b : Bool) (p q j c : Int) (hc hf : Bool) :
    (trySkeleton b p q j c hc hf).filter (fun e => e.callee = "store self.compiler().in_try_block") = [storeInTry true, storeInTry b]
      ∧ (trySkeleton b p q j c hc hf).take 9 =
          [storeInTry true, emitOp .PushExcHandler, ⟨"self.emit_bytes", [.s "0xff", .s "0xff"]⟩, ⟨"self.emit_bytes", [.s "0xff", .s "0xff"]⟩,
           consume .LeftBrace "Expected '{' after 'try'.", call0 "self.begin_scope", call0 "self.block", call0 "self.end_scope",
           storeInTry b] := by
  cases hc <;> cases hf <;> simp [trySkeleton, storeInTry, emitOp, matchTok, call0, consume]

/-- A try statement without any clause, or a catch clause without a variable name, is a compile error (and nothing more is parsed). -/
theorem try_statement_no_clause (inTry0 : Bool) (c1 c3 c10 : List (BitVec 8)) (inTry7 : Bool) (jumpPos : Int)
    (nameOk inTry12 hf0 inTry31 inTry44 : Bool) (hlen : (c1.length : Int) + 2 ≤ 18446744073709551615) :
    ∃ out effs, Fns.try_statement inTry0 c1 c3 inTry7 jumpPos c10 false nameOk inTry12 hf0 inTry31 false inTry44 = .ok ((), out, effs)
      ∧ effs.getLast? = some ⟨"self.error", [.s "Expected 'catch' or 'finally' after 'try' block."]⟩ := by
  unfold Fns.try_statement
  have hadd : Rs.iadd .usize (c1.length : Int) 2 = .ok ((c1.length : Int) + 2) := iadd_usize_ok _ _ (by omega) hlen
  cases inTry44 <;> simp [Rs.len, hadd]

/-- `break;` -/
theorem break_statement_skeleton (header : Option (Int × Int)) (bp0 : Int) (p2 : Except Fns.CompilerError Unit) (bp : Int)
    (p3 : Except Fns.CompilerError Unit) :
    Fns.break_statement header bp0 p2 bp p3
      = .ok ((), breakSkeleton header bp (match header with | some _ => p2 | none => p3)) := by
  unfold Fns.break_statement breakSkeleton
  rcases header with _ | ⟨s, d⟩
  · cases p3 <;> simp [call0, emitJump, consume, reportErr]
  · cases p2 <;> simp [call0, emitJump, consume, reportErr, scopeEndTo]

/-- A `break` inside a loop discards the inner scopes' locals before it jumps (the jump is what is registered with the loop). -/
theorem break_discards_before_jumping (start depth bp : Int) (p : Except Fns.CompilerError Unit) :
    (breakSkeleton (some (start, depth)) bp p).take 4
      = [call0 "self.compiler().current_loop_header", scopeEndTo depth, emitJump .Jump, ⟨"self.compiler().push_break", [.i bp]⟩] := by
  simp [breakSkeleton]

/-- `continue;` -/
theorem continue_statement_skeleton (header : Option (Int × Int)) :
    Fns.continue_statement header = .ok ((), continueSkeleton header) := by
  unfold Fns.continue_statement continueSkeleton
  rcases header with _ | ⟨s, d⟩ <;> simp [call0, consume, scopeEndTo]

/-- `while cond { body }` -/
theorem while_statement_skeleton (code : List (BitVec 8)) (exitJump : Int) (popped : Except Fns.CompilerError Unit) :
    Fns.while_statement code exitJump popped = .ok ((), whileSkeleton (code.length : Int) exitJump popped) := by
  unfold Fns.while_statement whileSkeleton
  cases popped <;> simp [Rs.len, call0, emitJump, emitOp, opByte, consume, patchJump, reportErr]

/-- `if cond { } else ...` -/
theorem if_statement_skeleton (thenJump elseJump : Int) (haveElse unused startsOk : Bool) :
    Fns.if_statement thenJump elseJump haveElse unused startsOk = .ok ((), ifSkeleton thenJump elseJump haveElse startsOk) := by
  unfold Fns.if_statement ifSkeleton
  cases haveElse <;> cases startsOk <;> simp [call0, emitJump, emitOp, opByte, consume, patchJump, matchTok]

/-- Every way through an `if` or `while` test pops the condition value exactly once on the fall-through side (directly after the
conditional jump) and once on the jumped-to side (directly after that jump is patched): the operand stack is balanced on both. -/
theorem condition_value_popped_on_both_sides (a b : Int) (c d : Bool) (p : Except Fns.CompilerError Unit) :
    ((ifSkeleton a b c d).drop 1).take 2 = [emitJump .JumpIfFalse, emitOp .Pop]
      ∧ ((ifSkeleton a b c d).drop 8).take 2 = [patchJump a, emitOp .Pop]
      ∧ ((whileSkeleton a b p).drop 2).take 2 = [emitJump .JumpIfFalse, emitOp .Pop]
      ∧ ((whileSkeleton a b p).drop 9).take 2 = [patchJump b, emitOp .Pop] := by
  simp [ifSkeleton, whileSkeleton]

/-! ## Expressions -/

/-- Every binary operator of the language: the right operand is parsed one level tighter than the operator's own level in the RULES table
as read on this run (left-associative), and the table's instruction(s) are emitted after both operands. -/
theorem binary_operator_table (canAssign : Bool) :
    ∀ e ∈ binaryTable, Fns.rule_precedence e.1 = e.2.1
      ∧ Fns.parse_binary canAssign e.1 = .ok ((), binarySkeleton e.2.2.1 e.2.2.2) := by
  intro e he
  simp only [binaryTable, List.mem_cons, List.not_mem_nil, or_false] at he
  rcases he with h | h | h | h | h | h | h | h | h | h | h | h | h | h | h | h <;> subst h <;> exact ⟨rfl, rfl⟩

/-- ... and a token that is no binary operator makes `binary` emit nothing after the operand. -/
theorem binary_other_tokens_emit_nothing (canAssign : Bool) (k : Fns.TokenKind) (hk : k ∉ binaryTable.map (·.1))
    (p : Fns.Precedence) (hp : Fns.precedence_from (Fns.Precedence.discr (Fns.rule_precedence k) + 1) = .ok p) :
    Fns.parse_binary canAssign k = .ok ((), [parsePrec p]) := by
  have hadd : Rs.iadd .usize (Fns.Precedence.discr (Fns.rule_precedence k)) 1 = .ok (Fns.Precedence.discr (Fns.rule_precedence k) + 1) := by
    apply iadd_usize_ok
    · cases Fns.rule_precedence k <;> simp [Fns.Precedence.discr]
    · cases Fns.rule_precedence k <;> simp [Fns.Precedence.discr]
  unfold Fns.parse_binary
  simp only [hadd, Rs.M.bind_ok, hp]
  cases k <;> first | rfl | (exfalso; revert hk; decide)

/-- The operator table above is the language reference's: the tokens handled by `binary` in the reference table of C05
(Props/C05Tables.lean `InfixLevels`) are exactly the tokens of `binaryTable`, each at the same level. -/
theorem binary_table_is_the_reference_table :
    (binaryTable.all fun e => Props.C05Tables.InfixLevels.contains (Fns.TokenKind.name e.1, "binary", Fns.Precedence.name e.2.1)) = true
      ∧ ((Props.C05Tables.InfixLevels.filter (fun e => e.2.1 == "binary")).all fun e =>
          (binaryTable.map fun b => (Fns.TokenKind.name b.1, Fns.Precedence.name b.2.1)).contains (e.1, e.2.2)) = true := by
  constructor <;> decide +kernel

/-- Non-vacuity of `binary_other_tokens_emit_nothing`: `(` is no binary operator, its level (Call) has a successor. -/
example : Fns.TokenKind.LeftParen ∉ binaryTable.map (·.1)
    ∧ Fns.precedence_from (Fns.Precedence.discr (Fns.rule_precedence .LeftParen) + 1) = .ok .Primary := by
  constructor
  · decide
  · rfl

/-- The prefix operators. -/
theorem unary_operator_table (canAssign : Bool) :
    ∀ e ∈ unaryTable, Fns.parse_unary canAssign e.1 = .ok ((), unarySkeleton e.2) := by
  intro e he
  simp only [unaryTable, List.mem_cons, List.not_mem_nil, or_false] at he
  rcases he with h | h | h <;> subst h <;> rfl

/-- Short-circuit operators and the range operator. -/
theorem and_skeleton (c : Bool) (j : Int) : Fns.parse_and c j = .ok ((), andSkeleton j) := rfl
theorem or_skeleton (c : Bool) (j1 j2 : Int) : Fns.parse_or c j1 j2 = .ok ((), orSkeleton j1 j2) := rfl
theorem dotdot_skeleton (c : Bool) : Fns.parse_dotdot c = .ok ((), dotdotSkeleton) := rfl

/-! ## Declarations, scopes, `for` -/

theorem var_declaration_skeleton (g : BitVec 16) (hasInit : Bool) :
    Fns.var_declaration g hasInit = .ok ((), varDeclSkeleton g hasInit) := by
  cases hasInit <;> rfl

theorem expression_statement_skeleton : Fns.expression_statement = .ok ((), exprStmtSkeleton) := rfl

theorem end_scope_skeleton (depth after : Int) (h1 : 1 ≤ depth) (h2 : depth ≤ 18446744073709551615) :
    Fns.end_scope depth after = .ok ((), after, endScopeSkeleton depth) := by
  unfold Fns.end_scope endScopeSkeleton
  rw [isub_usize_ok _ _ (by omega) (by omega)]
  rfl

/-- Leaving a scope that was never entered (depth 0) would be an arithmetic fault - the translation keeps it. -/
theorem end_scope_underflow (after : Int) : Fns.end_scope 0 after = .panic := by
  unfold Fns.end_scope
  rw [isub_usize_panic _ _ (by omega)]
  rfl

theorem begin_scope_skeleton (depth : Int) (h0 : 0 ≤ depth) (h : depth + 1 ≤ 18446744073709551615) :
    Fns.begin_scope depth = .ok ((), depth + 1, [storeDepth (depth + 1)]) := by
  unfold Fns.begin_scope
  rw [iadd_usize_ok _ _ (by omega) h]
  rfl

theorem define_variable_skeleton (g : BitVec 16) (depth : Int) :
    Fns.define_variable g depth = .ok ((), defineVarSkeleton depth) := by
  unfold Fns.define_variable defineVarSkeleton
  by_cases h : depth > 0 <;> simp [h, call0, emitOp, opByte]

/-- `for v in e { ... }` -/
theorem for_statement_skeleton (l0 : List (String × Option Int × Bool)) (l2 l3 : List (String × Option Int × Bool)) (addOk : Bool)
    (iterName : BitVec 16) (start depth exitJump : Int) (popped : Except Fns.CompilerError Unit)
    (l26 l28 : List (String × Option Int × Bool)) (h3 : 1 ≤ l3.length) (hlen : (l3.length : Int) ≤ 18446744073709551615) :
    ∃ out, Fns.for_statement l0 true l2 l3 addOk iterName (some (start, depth)) exitJump popped l26 l28
      = .ok ((), out, forSkeleton ((l3.length : Int) - 1) iterName addOk start exitJump popped) := by
  unfold Fns.for_statement forSkeleton
  have hsub : Rs.isub .usize (l3.length : Int) 1 = .ok ((l3.length : Int) - 1) := isub_usize_ok _ _ (by omega) (by omega)
  cases addOk <;> cases popped <;>
    simp [Rs.len, hsub, Rs.unwrap, call0, matchTok, emitOp, opByte, consume, emitJump, patchJump, reportErr]

/-- Without a loop variable name the statement is given up at once (one located error, nothing emitted but the scope entry). -/
theorem for_statement_needs_a_name (l0 l2 l3 : List (String × Option Int × Bool)) (addOk : Bool) (iterName : BitVec 16)
    (hd : Option (Int × Int)) (exitJump : Int) (popped : Except Fns.CompilerError Unit) (l26 l28 : List (String × Option Int × Bool)) :
    Fns.for_statement l0 false l2 l3 addOk iterName hd exitJump popped l26 l28
      = .ok ((), l2, [call0 "self.begin_scope", matchTok .Identifier, ⟨"self.error_at_current", [.s "Expected loop variable name."]⟩]) := by
  rfl

/-- The iteration protocol as compiled: within one pass the order is IterNext, store, test, pop, body, jump back; the jump back goes to the
loop start the compiler's bookkeeping recorded (the IterNext), the exit jump is patched right behind it and is followed by the pop of the
stop marker's copy. -/
theorem for_protocol_order (lv : Int) (n : BitVec 16) (ok : Bool) (s x : Int) (p : Except Fns.CompilerError Unit) :
    ((forSkeleton lv n ok s x p).drop (if ok then 13 else 14)).take 13 =
      [call0 "self.compiler().current_loop_header",
       emitOp .IterNext, ⟨"self.emit_bytes", [opByte .SetLocal, .n (Rs.bvOfInt 8 lv).toNat]⟩, emitJump .JumpIfStopIter, emitOp .Pop,
       consume .LeftBrace "Expected '{' after loop expression.", call0 "self.begin_scope", call0 "self.block", call0 "self.end_scope",
       ⟨"self.emit_loop", [.i s]⟩, patchJump x, emitOp .Pop, call0 "self.compiler().pop_loop"]
      ∧ (forSkeleton lv n ok s x p).getLast? = some (call0 "self.end_scope") := by
  cases ok <;> cases p <;> simp [forSkeleton]

#print axioms emit_return_skeleton
#print axioms throw_statement_skeleton
#print axioms return_statement_skeleton
#print axioms try_statement_skeleton
#print axioms try_statement_no_clause
#print axioms try_flag_brackets_the_try_block
#print axioms break_statement_skeleton
#print axioms break_discards_before_jumping
#print axioms continue_statement_skeleton
#print axioms while_statement_skeleton
#print axioms if_statement_skeleton
#print axioms condition_value_popped_on_both_sides
#print axioms binary_operator_table
#print axioms binary_other_tokens_emit_nothing
#print axioms binary_table_is_the_reference_table
#print axioms unary_operator_table
#print axioms and_skeleton
#print axioms or_skeleton
#print axioms dotdot_skeleton
#print axioms var_declaration_skeleton
#print axioms expression_statement_skeleton
#print axioms end_scope_skeleton
#print axioms end_scope_underflow
#print axioms begin_scope_skeleton
#print axioms define_variable_skeleton
#print axioms for_statement_skeleton
#print axioms for_statement_needs_a_name
#print axioms for_protocol_order

/-- Non-vacuity: the hypotheses of `try_statement_skeleton` are met by a try/catch statement at position 7 of a chunk. -/
example : ((List.replicate 7 (0 : BitVec 8)).length : Int) + 2 ≤ 18446744073709551615 ∧ (true = true → true = true) ∧ (true = true ∨ false = true) := by
  simp

end Yarel.FnsTie
