/-
What the compiler emits when a scope ends (`Parser::emit_scope_end` of compiler.rs, translated from the source on every run).

  emit_scope_end_spec    for every list of locals (all initialised), every scope depth and both values of `pop_locals`: the
                         function emits one instruction per local that is deeper than `scope_depth`, innermost first -
                         `CloseUpvalue` when the local is captured by a closure, `Pop` otherwise - and, when `pop_locals` is set,
                         forgets exactly those locals; nothing else changes; with an uninitialised local on top it panics
  captured_slots_are_closed   (C06, the discipline the captured-variable refinement `refines_cells` assumes of the compiler) every
                         slot that leaves scope and has been captured is left through `CloseUpvalue`, never through `Pop`
  scope_end_matches_reference  the number of instructions and the locals that remain are those of the reference parser's
                         `emitScopeEnd` (which counts instructions and keeps no capture flag)
-/
import Yarel.Gen.Fns
import Yarel.Spec.ParserBase
import Yarel.Props.FnsTie.Resolver
namespace Yarel.FnsTie.ScopeEnd
open Yarel Yarel.Gen Yarel.Spec
open Yarel.FnsTie.Resolver (RLocal decLocal)

def opOf (l : RLocal) : BitVec 8 :=
  Rs.bvOfInt 8 (Fns.OpCode.discr (if l.2.2 then Fns.OpCode.CloseUpvalue else Fns.OpCode.Pop))

def effOf (b : BitVec 8) : Rs.Eff := Rs.Eff.mk "self.emit_byte" [Rs.Arg.n b.toNat]

/-- deeper than the scope that stays -/
def leaving (d : Int) (l : RLocal) : Bool :=
  match l.2.1 with
  | some k => decide (d < k)
  | none => false

/-! ### first loop: which instructions -/

def step1 (d : Int) (local_ : RLocal) (s_2 : List (BitVec 8) × List Rs.Eff × Bool) : Rs.M (List (BitVec 8) × List Rs.Eff × Bool) :=
  let opcodes := s_2.1
  let effs_ := s_2.2.1
  let brk_1 := s_2.2.2
  if brk_1 then Rs.M.ok (opcodes, effs_, brk_1) else
  Rs.M.bind (Rs.unwrap local_.2.1) fun t_3 =>
  if decide (t_3 ≤ d) then Rs.M.ok (opcodes, effs_, true)
  else
    let opcode := if local_.2.2 then Fns.OpCode.CloseUpvalue else Fns.OpCode.Pop
    Rs.M.ok (opcodes ++ [Rs.bvOfInt 8 (Fns.OpCode.discr opcode)], effs_, brk_1)

theorem loop1_done (d : Int) (xs : List RLocal) (acc : List (BitVec 8)) (effs : List Rs.Eff) :
    Rs.forIn xs (acc, effs, true) (step1 d) = .ok (acc, effs, true) := by
  induction xs with
  | nil => rfl
  | cons x rest ih => simp [Rs.forIn, step1, Rs.M.bind, ih]

theorem loop1 (d : Int) (xs : List RLocal) (acc : List (BitVec 8)) (effs : List Rs.Eff)
    (hinit : ∀ l ∈ xs, l.2.1.isSome = true) :
    ∃ b, Rs.forIn xs (acc, effs, false) (step1 d) = .ok (acc ++ (xs.takeWhile (leaving d)).map opOf, effs, b) := by
  induction xs generalizing acc with
  | nil => exact ⟨false, by simp [Rs.forIn]⟩
  | cons x rest ih =>
    have hx := hinit x (by simp)
    cases hd : x.2.1 with
    | none => rw [hd] at hx; cases hx
    | some k =>
      by_cases hle : k ≤ d
      · refine ⟨true, ?_⟩
        have : leaving d x = false := by simp [leaving, hd]; omega
        simp [Rs.forIn, step1, hd, Rs.unwrap, Rs.M.bind, hle, List.takeWhile_cons, this, loop1_done]
      · have hl : leaving d x = true := by simp [leaving, hd]; omega
        obtain ⟨b, hb⟩ := ih (acc ++ [opOf x]) (fun l hl => hinit l (by simp [hl]))
        refine ⟨b, ?_⟩
        simp only [Rs.forIn, step1, hd, Rs.unwrap, Rs.M.bind, hle, decide_false, Bool.false_eq_true, if_false]
        rw [show (acc ++ [Rs.bvOfInt 8 (Fns.OpCode.discr (if x.2.2 = true then Fns.OpCode.CloseUpvalue else Fns.OpCode.Pop))]) = acc ++ [opOf x] from rfl, hb]
        simp [List.takeWhile_cons, hl]

/-! ### second loop: emit, and forget the locals -/

def step2 (pop : Bool) (opcode : BitVec 8) (s_5 : List RLocal × List Rs.Eff) : Rs.M (List RLocal × List Rs.Eff) :=
  let ls := s_5.1
  let effs_ := s_5.2
  let effs_ := effs_ ++ [Rs.Eff.mk "self.emit_byte" [Rs.Arg.n opcode.toNat]]
  Rs.M.bind (if pop then Rs.M.ok (ls.dropLast, effs_) else Rs.M.ok (ls, effs_)) fun j_6 => Rs.M.ok (j_6.1, j_6.2)

theorem loop2 (pop : Bool) (ops : List (BitVec 8)) (ls : List RLocal) (effs : List Rs.Eff) :
    Rs.forIn ops (ls, effs) (step2 pop) =
      .ok (if pop then ls.take (ls.length - ops.length) else ls, effs ++ ops.map effOf) := by
  induction ops generalizing ls effs with
  | nil => cases pop <;> simp [Rs.forIn]
  | cons o rest ih =>
    cases pop with
    | false => simp [Rs.forIn, step2, Rs.M.bind, ih, effOf]
    | true =>
      simp only [Rs.forIn, step2, Rs.M.bind, if_true]
      rw [ih]
      simp only [if_true, List.length_dropLast, List.length_cons, List.map_cons, effOf, List.append_assoc, List.singleton_append]
      congr 2
      rw [List.dropLast_eq_take, List.take_take]
      congr 1
      omega

/-! ### the whole function -/

theorem emit_scope_end_unfold (pop : Bool) (d : Int) (ls : List RLocal) :
    Fns.emit_scope_end pop d ls =
      Rs.M.bind (Rs.forIn ls.reverse (([] : List (BitVec 8)), ([] : List Rs.Eff), false) (step1 d)) fun j_4 =>
        Rs.M.bind (Rs.forIn j_4.1 (ls, j_4.2.1) (step2 pop)) fun j_7 => Rs.M.ok ((), j_7.1, j_7.2) := rfl

/-- **Specification of the real body.** -/
theorem emit_scope_end_spec (pop : Bool) (d : Int) (ls : List RLocal) (hinit : ∀ l ∈ ls, l.2.1.isSome = true) :
    Fns.emit_scope_end pop d ls =
      .ok ((), (if pop then ls.take (ls.length - (ls.reverse.takeWhile (leaving d)).length) else ls),
            ((ls.reverse.takeWhile (leaving d)).map opOf).map effOf) := by
  rw [emit_scope_end_unfold]
  obtain ⟨b, hb⟩ := loop1 d ls.reverse [] [] (fun l hl => hinit l (by simpa using hl))
  rw [hb]
  simp only [Rs.M.bind, List.nil_append]
  rw [loop2]
  simp

/-- With an uninitialised local on top of the list the real code panics (`local.depth.unwrap()`); the compiler never ends a scope
inside an initialiser. -/
theorem emit_scope_end_uninitialised_top (pop : Bool) (d : Int) (ls : List RLocal) (l : RLocal) (h : l.2.1 = none) :
    Fns.emit_scope_end pop d (ls ++ [l]) = .panic := by
  rw [emit_scope_end_unfold]
  simp [List.reverse_append, Rs.forIn, step1, h, Rs.unwrap, Rs.M.bind]

/-- **C06 discipline.** Every local that leaves the scope and has been captured is left through `CloseUpvalue` (56), every other one
through `Pop` (4): position by position, innermost first. -/
theorem captured_slots_are_closed (pop : Bool) (d : Int) (ls : List RLocal) (hinit : ∀ l ∈ ls, l.2.1.isSome = true) :
    ∃ rest, Fns.emit_scope_end pop d ls = .ok ((), rest, ((ls.reverse.takeWhile (leaving d)).map fun l => effOf (if l.2.2 then 56#8 else 4#8))) := by
  refine ⟨(if pop then ls.take (ls.length - (ls.reverse.takeWhile (leaving d)).length) else ls), ?_⟩
  rw [emit_scope_end_spec pop d ls hinit]
  congr 3
  rw [List.map_map]
  apply List.map_congr_left
  intro l _
  cases hc : l.2.2 <;> simp [Function.comp, opOf, hc, Rs.bvOfInt] <;> rfl

theorem takeWhile_ext' {α : Type} (p q : α → Bool) (l : List α) (h : ∀ x ∈ l, p x = q x) : l.takeWhile p = l.takeWhile q := by
  induction l with
  | nil => rfl
  | cons x rest ih =>
    simp only [List.takeWhile_cons, h x (by simp)]
    split
    · rw [ih (fun y hy => h y (by simp [hy]))]
    · rfl

/-- **Tie to the reference parser.** `emitScopeEnd` of (S) counts the same number of instructions and keeps the same locals. -/
theorem scope_end_matches_reference (d : Nat) (ls : List RLocal) (hinit : ∀ l ∈ ls, l.2.1.isSome = true)
    (hnonneg : ∀ l ∈ ls, ∀ k, l.2.1 = some k → 0 ≤ k) :
    let n := ((ls.map decLocal).reverse.takeWhile fun (l : Local) => match l.depth with | some k => decide (k > d) | none => true).length
    ∃ effs, Fns.emit_scope_end true (d : Int) ls = .ok ((), ls.take (ls.length - n), effs) ∧ effs.length = n := by
  intro n
  have hn : n = (ls.reverse.takeWhile (leaving d)).length := by
    show ((ls.map decLocal).reverse.takeWhile _).length = _
    rw [← List.map_reverse, List.takeWhile_map, List.length_map]
    congr 1
    apply takeWhile_ext'
    intro l hl
    have hl' : l ∈ ls := by simpa using hl
    cases hk : l.2.1 with
    | none => have := hinit l hl'; rw [hk] at this; cases this
    | some k =>
      have := hnonneg l hl' k hk
      simp only [Function.comp, decLocal, hk, Option.map_some, leaving]
      by_cases hlt : (d : Int) < k
      · have : k.toNat > d := by omega
        simp [hlt, this]
      · have : ¬ k.toNat > d := by omega
        simp [hlt, this]
  refine ⟨((ls.reverse.takeWhile (leaving d)).map opOf).map effOf, ?_, ?_⟩
  · rw [emit_scope_end_spec true (d : Int) ls hinit, hn]; rfl
  · simp [hn]

example : Fns.emit_scope_end true 1 [("a", some 1, false), ("b", some 2, true), ("c", some 2, false)] =
    .ok ((), [("a", some 1, false)], [effOf 4#8, effOf 56#8]) := by rfl

#print axioms emit_scope_end_spec
#print axioms captured_slots_are_closed
#print axioms scope_end_matches_reference
#print axioms emit_scope_end_uninitialised_top

end Yarel.FnsTie.ScopeEnd

namespace Yarel.FnsTie.ScopeEndAux
theorem takeWhile_ext {α : Type} (p q : α → Bool) (l : List α) (h : ∀ x ∈ l, p x = q x) : l.takeWhile p = l.takeWhile q :=
  Yarel.FnsTie.ScopeEnd.takeWhile_ext' p q l h
end Yarel.FnsTie.ScopeEndAux
