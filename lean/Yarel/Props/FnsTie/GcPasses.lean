/- The three passes of a collection - `Heap::mark_roots`, `Heap::trace_references`, `Heap::sweep` of memory.rs - as translated from the
source on every run (Yarel/Gen/Fns.lean `gc_mark_roots`, `gc_trace_references`, `gc_sweep`; meanings: Model/RustSemGc.lean) ARE the
functions `Gc.markRoots`, `Gc.traceReferences`, `Gc.sweep` of the collector model (Model/Gc.lean) that the theorems of C01 ("nothing
reachable is reclaimed") and C16 ("everything unreachable is reclaimed, the books are kept") are about - for every heap, every colouring
and every bound.  Before, the model's passes were a transcription checked only against traced runs.

What stays assumed (RustSemGc.lean): one `obj.mark()` / `obj.blacken()` call is the call-stack machine `Gc.runCalls` (their bodies are
compared with the text on every run; what the data's `mark` / `blacken` visit comes from the generated schema and the traced-edge log).
-/
import Yarel.Gen.Fns
import Yarel.Model.RustSemGc
import Yarel.Props.FnsTie.Base
import Yarel.Proofs.GcClosed

namespace Yarel.FnsTie
open Yarel Yarel.Gen

/-- The heap as a collection finds it: one colour cell per box, the vector holds every box. -/
structure GcWF (g : Rs.GcHeap) : Prop where
  cols : g.cols.size = g.objs.size
  live : g.live = List.range g.objs.size

/-- what a pass answers when the model's pass yields the colours `r` -/
def withCols (g : Rs.GcHeap) (r : Except Gc.Fault (Array Gc.Colour)) : Rs.M (Unit × Rs.GcHeap) :=
  match r with
  | .ok c => .ok ((), { g with cols := c })
  | .error _ => .panic

/-! ## sweep -/

theorem sum_cast (l : List Nat) : (l.map (fun (n : Nat) => (n : Int))).sum = ((l.sum : Nat) : Int) := by
  induction l with
  | nil => rfl
  | cons x xs ih => simp only [List.map_cons, List.sum_cons, ih]; push_cast; rfl

theorem call_ok {g : Rs.GcHeap} {op : Gc.TraceOp} {i : Nat} {c : Array Gc.Colour}
    (h : Gc.runCalls g.objs g.fuel g.cols [(op, i)] = .ok c) : g.call op i = .ok ((), { g with cols := c }) := by
  unfold Rs.GcHeap.call; rw [h]

theorem call_err {g : Rs.GcHeap} {op : Gc.TraceOp} {i : Nat} {e : Gc.Fault}
    (h : Gc.runCalls g.objs g.fuel g.cols [(op, i)] = .error e) : g.call op i = .panic := by
  unfold Rs.GcHeap.call; rw [h]

/-- `Heap::sweep`: the answer is the model's `bytesFreed`, the vector keeps the model's `retained` boxes, no colour changes. -/
theorem sweep_tie (g : Rs.GcHeap) (h : g.live = List.range g.objs.size) :
    Fns.gc_sweep g = .ok (((Gc.sweep g.objs g.cols).bytesFreed : Int), { g with live := (Gc.sweep g.objs g.cols).retained }) := by
  unfold Fns.gc_sweep Gc.sweep Rs.GcHeap.sumOver Rs.GcHeap.retain Rs.GcHeap.hasColour Rs.GcHeap.sizeAt
  simp only [h]
  congr 2
  rw [← sum_cast, List.map_map]
  rfl

/-- A white box is not kept and is paid for; a black one is kept; a grey one (none is left after tracing) would be dropped unpaid. -/
theorem sweep_keeps_exactly_black (g : Rs.GcHeap) (i : Nat) :
    i ∈ (Gc.sweep g.objs g.cols).retained ↔ i < g.objs.size ∧ g.cols[i]? = some .black := by
  simp [Gc.sweep]

/-! ## mark_roots -/

theorem forEach_unmark (is : List Nat) (g : Rs.GcHeap) :
    Rs.GcHeap.forEachFrom (fun obj vm_ => Rs.M.ok ((), Rs.GcHeap.unmark vm_ obj)) is g
      = .ok ((), { g with cols := is.foldl (fun c i => c.setIfInBounds i .white) g.cols }) := by
  induction is generalizing g with
  | nil => rfl
  | cons i is ih =>
    simp only [Rs.GcHeap.forEachFrom, List.foldl_cons]
    rw [ih]
    rfl

theorem foldl_white_size (is : List Nat) (c : Array Gc.Colour) :
    (is.foldl (fun c i => c.setIfInBounds i .white) c).size = c.size := by
  induction is generalizing c with
  | nil => rfl
  | cons i is ih => simp [List.foldl_cons, ih]

theorem foldl_white_get (is : List Nat) (c : Array Gc.Colour) (j : Nat) (hj : j < c.size) :
    (is.foldl (fun c i => c.setIfInBounds i .white) c)[j]? = if j ∈ is then some .white else c[j]? := by
  induction is generalizing c with
  | nil => simp
  | cons i is ih =>
    simp only [List.foldl_cons, List.mem_cons]
    rw [ih _ (by simpa using hj)]
    by_cases hmem : j ∈ is
    · simp [hmem]
    · by_cases hij : j = i
      · subst hij; simp [hmem, hj]
      · have : i ≠ j := fun e => hij e.symm
        simp [hmem, hij, Array.getElem?_setIfInBounds_ne this]

theorem unmark_all (c : Array Gc.Colour) (n : Nat) (hn : c.size = n) :
    (List.range n).foldl (fun c i => c.setIfInBounds i .white) c = Array.replicate n .white := by
  apply Array.ext
  · simp [foldl_white_size, hn]
  · intro j h1 h2
    have hj : j < c.size := by simpa [foldl_white_size] using h1
    have := foldl_white_get (List.range n) c j hj
    rw [Array.getElem?_eq_getElem h1] at this
    have hmem : j ∈ List.range n := by simp; omega
    simp only [hmem, if_true, Option.some.injEq] at this
    simp [this]

theorem forEach_mark_roots (is : List Nat) (g : Rs.GcHeap) :
    Rs.GcHeap.forEachFrom (fun obj vm_ =>
        (Rs.M.bind (if (decide ((Rs.GcHeap.rootsAt vm_ obj) > (0 : Int))) then
          (Rs.M.bind (Rs.GcHeap.call vm_ Gc.TraceOp.mark obj) fun r_ => let u_2 := r_.1; let vm_ := r_.2; ((Rs.M.ok vm_)))
          else (Rs.M.ok vm_)) fun j_3 => let vm_ := j_3; (Rs.M.ok ((), vm_)))) is g
      = withCols g (Gc.markRootsFrom g.objs g.fuel is g.cols) := by
  induction is generalizing g with
  | nil => rfl
  | cons i is ih =>
    simp only [Rs.GcHeap.forEachFrom, Gc.markRootsFrom]
    have hroot : decide (Rs.GcHeap.rootsAt g i > 0) = Gc.isRoot g.objs i := by
      unfold Rs.GcHeap.rootsAt Gc.isRoot
      cases g.objs[i]? <;> simp
    rw [hroot]
    cases hr : Gc.isRoot g.objs i
    · simp only [Bool.false_eq_true, if_false, Rs.M.bind_ok]
      exact ih g
    · simp only [if_true]
      cases hc : Gc.runCalls g.objs g.fuel g.cols [(Gc.TraceOp.mark, i)] with
      | error e => rw [call_err hc]; rfl
      | ok c =>
        rw [call_ok hc]
        simp only [Rs.M.bind_ok]
        have := ih { g with cols := c }
        simp only at this
        rw [this]
        cases Gc.markRootsFrom g.objs g.fuel is c <;> rfl

/-- `Heap::mark_roots` is the model's `markRoots`: every box is unmarked, then every box with a root count above zero is marked, in
vector order; the colours are the model's, nothing else changes. -/
theorem mark_roots_tie (g : Rs.GcHeap) (wf : GcWF g) :
    Fns.gc_mark_roots g = withCols g (Gc.markRoots g.objs g.fuel) := by
  unfold Fns.gc_mark_roots Rs.GcHeap.forEach
  rw [forEach_unmark]
  simp only [Rs.M.bind_ok]
  rw [forEach_mark_roots]
  simp only [wf.live, unmark_all g.cols g.objs.size wf.cols, Gc.markRoots, Gc.unmarkAll]
  cases Gc.markRootsFrom g.objs g.fuel (List.range g.objs.size) (Array.replicate g.objs.size Gc.Colour.white) with
  | error e => rfl
  | ok c => simp only [withCols, Rs.M.bind_ok, wf.live]

/-! ## trace_references -/

theorem count_filter_range_aux {α : Type} (p : Option α → Bool) (l pre : List α) :
    ((List.range' pre.length l.length).filter (fun i => p (pre ++ l)[i]?)).length = l.countP (fun c => p (some c)) := by
  induction l generalizing pre with
  | nil => simp
  | cons x xs ih =>
    have h := ih (pre ++ [x])
    simp only [List.length_append, List.length_singleton, List.append_assoc, List.singleton_append] at h
    simp only [List.length_cons, List.range'_succ, List.filter_cons, List.countP_cons]
    have hx : (pre ++ x :: xs)[pre.length]? = some x := by simp
    rw [hx]
    cases hp : p (some x) <;> simp [h]

theorem count_filter_range (cols : Array Gc.Colour) (c : Gc.Colour) :
    (((List.range cols.size).filter (fun i => decide (cols[i]? = some c))).length) = cols.toList.countP (fun x => decide (x = c)) := by
  have := count_filter_range_aux (fun o => decide (o = some c)) cols.toList []
  simp only [List.length_nil, List.nil_append, Array.length_toList, Array.getElem?_toList, Option.some.injEq] at this
  rw [List.range_eq_range']
  exact this

theorem trace_pass_tie (is : List Nat) (g : Rs.GcHeap) (n : Nat) :
    Rs.GcHeap.filterMapCountFrom (fun vm_ obj => Rs.GcHeap.hasColour vm_ obj Gc.Colour.grey)
        (fun obj vm_ => (Rs.M.bind (Rs.GcHeap.call vm_ Gc.TraceOp.blacken obj) fun r_ => let u_2 := r_.1; let vm_ := r_.2; ((Rs.M.ok ((), vm_)))))
        is g (n : Int)
      = match Gc.tracePass g.objs g.fuel is g.cols n with
        | .ok (c, m) => .ok ((m : Int), { g with cols := c })
        | .error _ => .panic := by
  induction is generalizing g n with
  | nil => rfl
  | cons i is ih =>
    simp only [Rs.GcHeap.filterMapCountFrom, Gc.tracePass, Rs.GcHeap.hasColour]
    by_cases hg : g.cols[i]? = some Gc.Colour.grey
    · simp only [hg, decide_true, if_true]
      cases hc : Gc.runCalls g.objs g.fuel g.cols [(Gc.TraceOp.blacken, i)] with
      | error e => rw [call_err hc]; rfl
      | ok c =>
        rw [call_ok hc]
        simp only [Rs.M.bind_ok]
        have := ih { g with cols := c } (n + 1)
        push_cast at this
        simp only [Rs.GcHeap.hasColour] at this
        rw [this]
    · simp only [hg, decide_false, Bool.false_eq_true, if_false]
      exact ih g n

/-- what the translated function makes of the loop's outcome: out of passes or a fault = no state -/
def collapse (r : Rs.M (Option (Int × Rs.GcHeap))) : Rs.M (Unit × Rs.GcHeap) :=
  match r with
  | .ok (some j) => .ok ((), j.2)
  | .ok none => .panic
  | .panic => .panic

theorem trace_loop_tie (k : Nat) (g : Rs.GcHeap) (n : Nat) (hl : g.live = List.range g.objs.size) :
    collapse (Rs.whileN (σ := Int × Rs.GcHeap) (fun s_1 => let num_greys := s_1.1; let vm_ := s_1.2; (decide (num_greys > (0 : Int))))
      (fun s_1 => let num_greys := s_1.1; let vm_ := s_1.2;
        (Rs.M.bind (Rs.GcHeap.filterMapCount vm_ (fun vm_ obj => (Rs.GcHeap.hasColour vm_ obj Gc.Colour.grey)) (fun obj vm_ =>
          (Rs.M.bind (Rs.GcHeap.call vm_ Gc.TraceOp.blacken obj) fun r_ => let u_2 := r_.1; let vm_ := r_.2; ((Rs.M.ok ((), vm_)))))) fun r_ =>
          let t_3 := r_.1; let vm_ := r_.2; (let num_greys := t_3; (Rs.M.ok (num_greys, vm_)))))
      k ((n : Int), g))
      = withCols g (Gc.traceLoop g.objs g.fuel k g.cols n) := by
  induction k generalizing g n with
  | zero =>
    cases n with
    | zero => simp [Rs.whileN, Gc.traceLoop, collapse, withCols]
    | succ m =>
      have : decide (((m + 1 : Nat) : Int) > 0) = true := by simp
      simp only [Rs.whileN, this, if_true, Gc.traceLoop, collapse, withCols]
  | succ k ih =>
    cases n with
    | zero => simp [Rs.whileN, Gc.traceLoop, collapse, withCols]
    | succ m =>
      have hpos : decide (((m + 1 : Nat) : Int) > 0) = true := by simp
      simp only [Rs.whileN, hpos, if_true, Gc.traceLoop]
      have hfm : g.filterMapCount (fun vm_ obj => vm_.hasColour obj Gc.Colour.grey)
          (fun obj vm_ => (vm_.call Gc.TraceOp.blacken obj).bind fun r_ => Rs.M.ok ((), r_.snd))
          = Rs.GcHeap.filterMapCountFrom (fun vm_ obj => vm_.hasColour obj Gc.Colour.grey)
              (fun obj vm_ => (vm_.call Gc.TraceOp.blacken obj).bind fun r_ => Rs.M.ok ((), r_.snd)) g.live g 0 := rfl
      have hp := trace_pass_tie g.live g 0
      push_cast at hp
      rw [hfm, hp, ← hl]
      cases hpass : Gc.tracePass g.objs g.fuel g.live g.cols 0 with
      | error e => simp [Rs.M.bind, collapse, withCols]
      | ok r =>
        obtain ⟨c, m'⟩ := r
        simp only [Rs.M.bind_ok]
        have := ih { g with cols := c } m' hl
        simp only at this
        rw [this]
        cases Gc.traceLoop g.objs g.fuel k c m' <;> rfl

/-- `Heap::trace_references` is the model's `traceReferences`: count the grey boxes; while there were any, one lazy pass blackens every
box that is grey when the iterator reaches it and counts them.  (The bound on the passes is the bound on the machine steps, as in the
model; running out of either, or a dangling pointer, yields no state.) -/
theorem trace_references_tie (g : Rs.GcHeap) (wf : GcWF g) :
    Fns.gc_trace_references g.fuel g = withCols g (Gc.traceReferences g.objs g.fuel g.cols) := by
  unfold Fns.gc_trace_references Gc.traceReferences
  have hcount : Rs.GcHeap.countOver g (fun obj => Rs.GcHeap.hasColour g obj Gc.Colour.grey) = ((Gc.countGrey g.cols : Nat) : Int) := by
    unfold Rs.GcHeap.countOver Rs.GcHeap.hasColour Gc.countGrey
    rw [wf.live, ← wf.cols, count_filter_range]
  simp only [hcount]
  have := trace_loop_tie g.fuel g (Gc.countGrey g.cols) wf.live
  revert this
  generalize Rs.whileN _ _ g.fuel (((Gc.countGrey g.cols : Nat) : Int), g) = r
  intro h
  rw [← h]
  cases r with
  | panic => rfl
  | ok o => cases o <;> rfl

theorem markRootsFrom_size (h : Gc.Heap) (fuel : Nat) (is : List Nat) (cols c : Array Gc.Colour)
    (hr : Gc.markRootsFrom h fuel is cols = .ok c) : c.size = cols.size := by
  induction is generalizing cols with
  | nil => simp only [Gc.markRootsFrom, Except.ok.injEq] at hr; rw [← hr]
  | cons i is ih =>
    simp only [Gc.markRootsFrom] at hr
    split at hr
    · cases hc : Gc.runCalls h fuel cols [(Gc.TraceOp.mark, i)] with
      | error e => rw [hc] at hr; cases hr
      | ok c' => rw [hc] at hr; rw [ih c' hr, Gc.runCalls_size hc]
    · exact ih cols hr

/-! ## the whole collection -/

/-- The three passes in the order `Heap::collect` calls them (its translated body logs exactly `mark_roots`, `trace_references`, `sweep`:
`collect_tie`, Props/FnsTie/Pacing.lean) are the model's `collectE`: same retained boxes, same bytes freed, same final colours. -/
theorem collect_passes_are_the_model (g : Rs.GcHeap) (wf : GcWF g) :
    (Rs.M.bind (Fns.gc_mark_roots g) fun r1 =>
      Rs.M.bind (Fns.gc_trace_references r1.2.fuel r1.2) fun r2 => Fns.gc_sweep r2.2)
      = match Gc.collectE g.fuel g.objs with
        | .ok r => .ok ((r.bytesFreed : Int), { g with cols := r.colours, live := r.retained })
        | .error _ => .panic := by
  rw [mark_roots_tie g wf]
  unfold Gc.collectE
  cases h1 : Gc.markRoots g.objs g.fuel with
  | error e => rfl
  | ok c1 =>
    simp only [withCols, Rs.M.bind_ok]
    have wf1 : GcWF { g with cols := c1 } := by
      refine ⟨?_, wf.live⟩
      show c1.size = g.objs.size
      have := markRootsFrom_size _ _ _ _ _ h1
      simpa [Gc.unmarkAll] using this
    rw [trace_references_tie _ wf1]
    cases h2 : Gc.traceReferences g.objs g.fuel c1 with
    | error e => rfl
    | ok c2 =>
      simp only [withCols, Rs.M.bind_ok]
      have hs := sweep_tie { g with cols := c2 } wf.live
      rw [hs]
      rfl

/-- Non-vacuity: a heap of three boxes - box 0 is rooted and points to box 1 (traced in both `mark` and `blacken`), box 2 is garbage -
meets `GcWF`; the three translated passes keep boxes 0 and 1 and free the 24 bytes of box 2. -/
def exampleHeap : Rs.GcHeap :=
  { objs := #[{ kind := 0, roots := 1, size := 16, colour := .white, edges := [{ target := 1, inMark := some .mark, inBlacken := some .blacken }] },
              { kind := 0, roots := 0, size := 8, colour := .black, edges := [] },
              { kind := 0, roots := 0, size := 24, colour := .grey, edges := [{ target := 0, inMark := some .mark, inBlacken := some .blacken }] }],
    cols := #[.white, .black, .grey], live := [0, 1, 2], fuel := 10 }

example : GcWF exampleHeap := ⟨rfl, rfl⟩

example : (Rs.M.bind (Fns.gc_mark_roots exampleHeap) fun r1 =>
      Rs.M.bind (Fns.gc_trace_references r1.2.fuel r1.2) fun r2 =>
        Rs.M.bind (Fns.gc_sweep r2.2) fun r3 => Rs.M.ok (r3.1, r3.2.live, r3.2.cols.toList))
    = .ok (24, [0, 1], [.black, .black, .white]) := by decide

#print axioms sweep_tie
#print axioms sweep_keeps_exactly_black
#print axioms mark_roots_tie
#print axioms trace_references_tie
#print axioms collect_passes_are_the_model

end Yarel.FnsTie
