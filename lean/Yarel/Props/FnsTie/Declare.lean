/-
Declaring a local variable (`Parser::declare_variable` of compiler.rs, translated from the source on every run; it calls the translated
`Compiler::add_local`).

  declare_variable_spec          at top level (scope depth 0) nothing happens; inside a scope the function reports
                                 "Variable with this name already declared in this scope." once for every local OF THE CURRENT SCOPE
                                 (scanning back from the newest local until one that belongs to an outer scope) that has the name,
                                 then appends the new, uninitialised local - or reports "Too many variables in function." at 256
  redeclaration_is_reported      (C06) a second declaration of a name in the same scope is an error
  shadowing_is_allowed           (C06) a local of the same name in an OUTER scope is no error: the new local shadows it, and the
                                 shadowed one is still in the list, untouched
  clash_test_matches_reference   the test is the reference parser's (`declareVariable`: takeWhile not-outer, any same-name)
-/
import Yarel.Gen.Fns
import Yarel.Spec.ParserBase
import Yarel.Props.FnsTie.Resolver
import Yarel.Props.FnsTie.ScopeEnd
namespace Yarel.FnsTie.Declare
open Yarel Yarel.Gen Yarel.Spec
open Yarel.FnsTie.Resolver (RLocal decLocal)

def errAlready : Rs.Eff := Rs.Eff.mk "self.error" [Rs.Arg.s "Variable with this name already declared in this scope."]
def errTooMany : Rs.Eff := Rs.Eff.mk "self.error" [Rs.Arg.s "Too many variables in function."]

/-- the local belongs to the scope being compiled (or is still being initialised) -/
def inScope (d : Int) (l : RLocal) : Bool :=
  match l.2.1 with
  | some v => !decide (v < d)
  | none => true

def step (d : Int) (name : String) (local_ : RLocal) (s_2 : List Rs.Eff × Bool) : Rs.M (List Rs.Eff × Bool) :=
  let effs_ := s_2.1
  let brk_1 := s_2.2
  if brk_1 then Rs.M.ok (effs_, brk_1) else
  match local_.2.1 with
  | some value =>
    if decide (value < d) then Rs.M.ok (effs_, true)
    else
      Rs.M.bind (if decide (name = local_.1) then Rs.M.ok (effs_ ++ [errAlready]) else Rs.M.ok effs_) fun j_3 => Rs.M.ok (j_3, brk_1)
  | _ =>
    Rs.M.bind (if decide (name = local_.1) then Rs.M.ok (effs_ ++ [errAlready]) else Rs.M.ok effs_) fun j_4 => Rs.M.ok (j_4, brk_1)

theorem loop_done (d : Int) (name : String) (xs : List RLocal) (effs : List Rs.Eff) :
    Rs.forIn xs (effs, true) (step d name) = .ok (effs, true) := by
  induction xs with
  | nil => rfl
  | cons x rest ih => simp [Rs.forIn, step, Rs.M.bind, ih]

theorem loop (d : Int) (name : String) (xs : List RLocal) (effs : List Rs.Eff) :
    ∃ b, Rs.forIn xs (effs, false) (step d name) =
      .ok (effs ++ ((xs.takeWhile (inScope d)).filter (fun l => decide (name = l.1))).map (fun _ => errAlready), b) := by
  induction xs generalizing effs with
  | nil => exact ⟨false, by simp [Rs.forIn]⟩
  | cons x rest ih =>
    cases hd : x.2.1 with
    | some v =>
      by_cases hlt : v < d
      · refine ⟨true, ?_⟩
        have : inScope d x = false := by simp [inScope, hd, hlt]
        simp [Rs.forIn, step, hd, hlt, Rs.M.bind, List.takeWhile_cons, this, loop_done]
      · have hin : inScope d x = true := by simp [inScope, hd, hlt]
        by_cases hn : name = x.1
        · obtain ⟨b, hb⟩ := ih (effs ++ [errAlready])
          refine ⟨b, ?_⟩
          simp only [Rs.forIn, step, hd, hlt, decide_false, Bool.false_eq_true, if_false, hn, decide_true, if_true, Rs.M.bind]
          rw [hn] at hb
          rw [hb]
          simp [List.takeWhile_cons, hin]
        · obtain ⟨b, hb⟩ := ih effs
          refine ⟨b, ?_⟩
          simp only [Rs.forIn, step, hd, hlt, decide_false, Bool.false_eq_true, if_false, hn, Rs.M.bind]
          rw [hb]
          simp [List.takeWhile_cons, hin, hn]
    | none =>
      have hin : inScope d x = true := by simp [inScope, hd]
      by_cases hn : name = x.1
      · obtain ⟨b, hb⟩ := ih (effs ++ [errAlready])
        refine ⟨b, ?_⟩
        simp only [Rs.forIn, step, hd, Bool.false_eq_true, if_false, hn, decide_true, if_true, Rs.M.bind]
        rw [hn] at hb
        rw [hb]
        simp [List.takeWhile_cons, hin]
      · obtain ⟨b, hb⟩ := ih effs
        refine ⟨b, ?_⟩
        simp only [Rs.forIn, step, hd, Bool.false_eq_true, if_false, hn, decide_false, Rs.M.bind]
        rw [hb]
        simp [List.takeWhile_cons, hin, hn]

theorem mem_takeWhile {α : Type} (p : α → Bool) (l : List α) (x : α) (h : x ∈ l.takeWhile p) : x ∈ l ∧ p x = true := by
  induction l with
  | nil => simp at h
  | cons y ys ih =>
    rw [List.takeWhile_cons] at h
    by_cases hp : p y = true
    · rw [if_pos hp] at h
      rcases List.mem_cons.mp h with rfl | h'
      · exact ⟨by simp, hp⟩
      · obtain ⟨h1, h2⟩ := ih h'
        exact ⟨by simp [h1], h2⟩
    · rw [if_neg hp] at h; cases h

/-- The locals of the current scope that already have the name, newest first. -/
def clashes (d : Int) (name : String) (ls : List RLocal) : List RLocal :=
  (ls.reverse.takeWhile (inScope d)).filter fun l => decide (name = l.1)

theorem declare_variable_unfold (ls : List RLocal) (d : Int) (name : String) :
    Fns.declare_variable ls d name =
      if decide (d = 0) then Rs.M.ok ((), ls, [])
      else
        Rs.M.bind (Rs.forIn ls.reverse (([] : List Rs.Eff), false) (step d name)) fun j_5 =>
          Rs.M.bind (Fns.compiler_add_local ls name) fun r_6 =>
            Rs.M.bind (if !r_6.1 then Rs.M.ok (j_5.1 ++ [errTooMany]) else Rs.M.ok j_5.1) fun j_8 => Rs.M.ok ((), r_6.2, j_8) := rfl

/-- **Specification of the real body.** -/
theorem declare_variable_spec (ls : List RLocal) (d : Int) (name : String) :
    Fns.declare_variable ls d name =
      .ok (if d = 0 then ((), ls, [])
           else if ls.length = 256 then ((), ls, (clashes d name ls).map (fun _ => errAlready) ++ [errTooMany])
           else ((), ls ++ [(name, none, false)], (clashes d name ls).map (fun _ => errAlready))) := by
  rw [declare_variable_unfold]
  by_cases hd : d = 0
  · simp [hd]
  · obtain ⟨b, hb⟩ := loop d name ls.reverse []
    simp only [hd, decide_false, Bool.false_eq_true, if_false]
    rw [hb, Resolver.add_local_spec]
    by_cases h256 : ls.length = 256
    · simp [Rs.M.bind, h256, clashes]
    · simp [Rs.M.bind, h256, clashes]

/-- At top level (`scope_depth == 0`) a declaration is a global: nothing is recorded among the locals and nothing is reported. -/
theorem top_level_declares_no_local (ls : List RLocal) (name : String) :
    Fns.declare_variable ls 0 name = .ok ((), ls, []) := by
  rw [declare_variable_spec]; simp

/-- **C06.** A name already declared in the scope being compiled (no local of an outer scope lies between that declaration and the end
of the list) is reported. -/
theorem redeclaration_is_reported (pre post : List RLocal) (d : Int) (name : String) (cap : Bool) (v : Option Int) (hd : d ≠ 0)
    (hv : inScope d (name, v, cap) = true) (hpost : ∀ l ∈ post, inScope d l = true) :
    ∃ ls' effs, Fns.declare_variable (pre ++ [(name, v, cap)] ++ post) d name = .ok ((), ls', effs) ∧ errAlready ∈ effs := by
  rw [declare_variable_spec]
  have hmem : (name, v, cap) ∈ clashes d name (pre ++ [(name, v, cap)] ++ post) := by
    unfold clashes
    simp only [List.reverse_append, List.reverse_cons, List.reverse_nil, List.nil_append, List.mem_filter, decide_true, and_true]
    rw [List.takeWhile_append_of_pos (by intro l hl; exact hpost l (by simpa using hl))]
    simp [List.takeWhile_cons, hv]
  have hne : (clashes d name (pre ++ [(name, v, cap)] ++ post)).map (fun _ => errAlready) ≠ [] := by
    intro h
    have := List.map_eq_nil_iff.mp h
    rw [this] at hmem
    cases hmem
  simp only [hd, if_false]
  split
  · refine ⟨_, _, rfl, ?_⟩
    rw [List.mem_append]; left
    cases hc : (clashes d name (pre ++ [(name, v, cap)] ++ post)) with
    | nil => rw [hc] at hne; exact absurd rfl hne
    | cons a t => simp
  · refine ⟨_, _, rfl, ?_⟩
    cases hc : (clashes d name (pre ++ [(name, v, cap)] ++ post)) with
    | nil => rw [hc] at hne; exact absurd rfl hne
    | cons a t => simp

/-- **C06.** If every local of that name belongs to an outer scope, the declaration is accepted without complaint: the new local is
appended (it will shadow them from its initialisation on, `Resolver.declared_then_initialised_is_found`) and the list before it is
untouched. -/
theorem shadowing_is_allowed (ls : List RLocal) (d : Int) (name : String) (hd : d ≠ 0) (hlen : ls.length < 256)
    (houter : ∀ l ∈ ls, l.1 = name → inScope d l = false) :
    Fns.declare_variable ls d name = .ok ((), ls ++ [(name, none, false)], []) := by
  rw [declare_variable_spec]
  have h256 : ls.length ≠ 256 := by omega
  have hc : clashes d name ls = [] := by
    unfold clashes
    rw [List.filter_eq_nil_iff]
    intro l hl
    obtain ⟨hmem0, hin⟩ := mem_takeWhile _ _ _ hl
    have hmem : l ∈ ls := by simpa using hmem0
    intro hname
    have hname' : l.1 = name := by
      have : name = l.1 := by simpa using hname
      exact this.symm
    have := houter l hmem hname'
    rw [this] at hin
    cases hin
  simp [hd, h256, hc]

/-- The clash test is the one of the reference parser's `declareVariable`. -/
theorem clash_test_matches_reference (ls : List RLocal) (d : Nat) (name : String)
    (hnonneg : ∀ l ∈ ls, ∀ k, l.2.1 = some k → 0 ≤ k) :
    ((clashes (d : Int) name ls).isEmpty = false) =
      (((ls.map decLocal).reverse.takeWhile fun (l : Local) => match l.depth with | some k => !(decide (k < d)) | none => true).any fun l => l.name == name) := by
  unfold clashes
  rw [← List.map_reverse, List.takeWhile_map, List.any_map]
  have hw : (ls.reverse.takeWhile ((fun (l : Local) => match l.depth with | some k => !(decide (k < d)) | none => true) ∘ decLocal)) =
      ls.reverse.takeWhile (inScope d) := by
    apply ScopeEndAux.takeWhile_ext
    intro l hl
    have hl' : l ∈ ls := by simpa using hl
    cases hk : l.2.1 with
    | none => simp [Function.comp, decLocal, hk, inScope]
    | some k =>
      have := hnonneg l hl' k hk
      simp only [Function.comp, decLocal, hk, Option.map_some, inScope]
      by_cases hlt : k < (d : Int)
      · have : k.toNat < d := by omega
        simp [hlt, this]
      · have : ¬ k.toNat < d := by omega
        simp [hlt, this]
  rw [hw]
  cases hf : (List.filter (fun l => decide (name = l.1)) (List.takeWhile (inScope d) ls.reverse)) with
  | nil =>
    simp only [List.isEmpty_nil, Bool.true_eq_false, eq_iff_iff, false_iff, Bool.not_eq_true]
    rw [List.filter_eq_nil_iff] at hf
    rw [List.any_eq_false]
    intro l hl
    have := hf l hl
    simp only [Function.comp, decLocal, beq_iff_eq]
    intro h; exact this (by simpa using h.symm)
  | cons a t =>
    simp only [List.isEmpty_cons, eq_iff_iff, true_iff]
    have ha : a ∈ List.filter (fun l => decide (name = l.1)) (List.takeWhile (inScope d) ls.reverse) := by rw [hf]; simp
    rw [List.mem_filter] at ha
    rw [List.any_eq_true]
    refine ⟨a, ha.1, ?_⟩
    simp only [Function.comp, decLocal, beq_iff_eq]
    have h2 : name = a.1 := by simpa using ha.2
    exact h2.symm

example : Fns.declare_variable [("a", some 1, false), ("a", some 2, false)] 2 "a" =
    .ok ((), [("a", some 1, false), ("a", some 2, false), ("a", none, false)], [errAlready]) := by rfl
example : Fns.declare_variable [("a", some 1, false)] 2 "a" = .ok ((), [("a", some 1, false), ("a", none, false)], []) := by rfl

#print axioms declare_variable_spec
#print axioms redeclaration_is_reported
#print axioms shadowing_is_allowed
#print axioms clash_test_matches_reference

end Yarel.FnsTie.Declare
