/- Ties for `impl From<usize> for Precedence` (the Pratt ladder of C03/C05) and the jump emitters Compiler::patch_jump,
Parser::emit_loop, Parser::patch_offset_at (model Yarel/Model/JumpLimits.lean, property C04). -/
import Yarel.Gen.Fns
import Yarel.Gen.Rules
import Yarel.Props.FnsTie.Base
import Yarel.Model.JumpLimits

namespace Yarel.FnsTie
open Yarel Yarel.Gen

def allPrecedences : List Fns.Precedence :=
  [.None, .Assignment, .Or, .And, .Equality, .Comparison, .BitwiseOr, .BitwiseXor, .BitwiseAnd, .BitShift, .Term, .Factor,
   .Range, .Unary, .Call, .Primary]

/-- `Precedence::from(p as usize) = p` for every level: the conversion used by `binary` is the inverse of the cast. -/
theorem precedence_from_discr (p : Fns.Precedence) : Fns.precedence_from (Fns.Precedence.discr p) = .ok p := by
  cases p <;> rfl

/-- It panics exactly outside `0..=15` (the arm `panic!("Unknown precedence")`). -/
theorem precedence_from_panics_iff (v : Int) : Fns.precedence_from v = .panic ↔ (v < 0 ∨ v > 15) := by
  constructor
  · intro h
    by_cases hv : 0 ≤ v ∧ v ≤ 15
    · exfalso
      obtain ⟨h0, h1⟩ := hv
      have : v = 0 ∨ v = 1 ∨ v = 2 ∨ v = 3 ∨ v = 4 ∨ v = 5 ∨ v = 6 ∨ v = 7 ∨ v = 8 ∨ v = 9 ∨ v = 10 ∨ v = 11 ∨ v = 12 ∨ v = 13
          ∨ v = 14 ∨ v = 15 := by omega
      rcases this with h | h | h | h | h | h | h | h | h | h | h | h | h | h | h | h <;> subst h <;> simp [Fns.precedence_from, Fns.Precedence.discr] at h
    · omega
  · intro h
    unfold Fns.precedence_from
    have hk : ∀ p : Fns.Precedence, decide (v = Fns.Precedence.discr p) = false := by
      intro p; exact decide_eq_false (by cases p <;> simp only [Fns.Precedence.discr] <;> omega)
    simp only [hk, Bool.false_eq_true, if_false]

/-- The levels of the translated enum, in discriminant order, are the regenerated table `Gen.precedences` (so the `level`
arithmetic of `Props/C05Tables` and the translated `From<usize>` speak about the same ladder). -/
theorem precedence_names_are_the_table : allPrecedences.map Fns.Precedence.name = Gen.precedences := by decide

theorem allPrecedences_discr : allPrecedences.map Fns.Precedence.discr = (List.range 16).map Int.ofNat := by decide

def loByte (n : Nat) : BitVec 8 := BitVec.ofNat 8 (n % 256)

def hiByte (n : Nat) : BitVec 8 := BitVec.ofNat 8 (n / 256 % 256)

theorem bytes_of_u16 (j : Int) (h0 : 0 ≤ j) :
    ((Rs.bvOfInt 16 j).setWidth 8 = loByte (j.toNat % 65536)) ∧ (((Rs.bvOfInt 16 j) >>> 8).setWidth 8 = hiByte (j.toNat % 65536)) := by
  obtain ⟨n, rfl⟩ := Int.eq_ofNat_of_zero_le h0
  simp only [Rs.bvOfInt, loByte, hiByte, Int.toNat_natCast]
  constructor
  · apply BitVec.eq_of_toNat_eq
    simp only [BitVec.toNat_setWidth, BitVec.toNat_ofInt, BitVec.toNat_ofNat]
    omega
  · apply BitVec.eq_of_toNat_eq
    simp only [BitVec.toNat_setWidth, BitVec.toNat_ushiftRight, BitVec.toNat_ofInt, BitVec.toNat_ofNat, Nat.shiftRight_eq_div_pow]
    omega

/-- `Compiler::patch_jump(offset)`: panics exactly where the model faults (the `usize` subtraction underflows), reports
`JumpTooLarge` exactly where the model says too large, and otherwise writes the model's operand, low byte first, at
`offset`, `offset + 1` and nothing else. -/
theorem patch_jump_tie (code : List (BitVec 8)) (offset : Nat) (hl : (code.length : Int) ≤ F64.isizeMax) :
    Fns.patch_jump (offset : Int) code =
      (match JumpLimits.patchJump code.length offset with
       | .fault => .panic
       | .tooLarge => .ok (.error .JumpTooLarge, code)
       | .ok operand => .ok (.ok (), (code.set offset (loByte operand)).set (offset + 1) (hiByte operand))) := by
  unfold Fns.patch_jump JumpLimits.patchJump
  simp only [F64.isizeMax, Rs.len] at *
  by_cases hf : code.length < offset + 2
  · rw [if_pos hf]
    by_cases h1 : (code.length : Int) - offset < 0
    · have : Rs.isub .usize (code.length : Int) (offset : Int) = .panic := by
        simp [Rs.isub, Rs.ck, Rs.ITy.fits, Rs.ITy.lo, Rs.ITy.hi]; omega
      rw [this]; rfl
    · rw [isub_usize_ok _ _ (by omega) (by omega)]
      have : Rs.isub .usize ((code.length : Int) - offset) 2 = .panic := by
        simp [Rs.isub, Rs.ck, Rs.ITy.fits, Rs.ITy.lo, Rs.ITy.hi]; omega
      simp only [Rs.M.bind_ok]
      rw [this]; rfl
  · rw [if_neg hf, isub_usize_ok _ _ (by omega) (by omega)]
    simp only [Rs.M.bind_ok]
    rw [isub_usize_ok _ _ (by omega) (by omega)]
    simp only [Rs.M.bind_ok]
    have ej : (code.length : Int) - offset - 2 = ((code.length - offset - 2 : Nat) : Int) := by omega
    rw [ej]
    generalize hj : code.length - offset - 2 = jump
    by_cases hbig : jump > JumpLimits.JUMP_SIZE_MAX
    · rw [if_pos (decide_eq_true (by simp only [JumpLimits.JUMP_SIZE_MAX] at hbig; omega))]
      simp [hbig]
    · rw [if_neg (by intro hc; have := of_decide_eq_true hc; simp only [JumpLimits.JUMP_SIZE_MAX] at hbig; omega)]
      simp only [hbig, if_false]
      have hb := bytes_of_u16 (jump : Int) (by omega)
      simp only [Int.toNat_natCast] at hb
      rw [hb.1, hb.2]
      simp only [Rs.idx, Rs.setIdx]
      have hlt0 : offset < code.length := by omega
      have hlt1 : offset + 1 < code.length := by omega
      rw [iadd_usize_ok _ _ (by omega) (by omega)]
      have e0 : ¬ ((offset : Int) < 0) := by omega
      have e1 : ¬ ((offset : Int) + 1 < 0) := by omega
      have e2 : ((offset : Int) + 1).toNat = offset + 1 := by omega
      simp [e0, e1, e2, hlt0, hlt1]

def effByte (b : BitVec 8) : Rs.Eff := Rs.Eff.mk "self.emit_byte" [.n b.toNat]

def loopOpcodeEff : Rs.Eff := Rs.Eff.mk "self.emit_byte" [.n (Rs.bvOfInt 8 (Fns.OpCode.discr .Loop)).toNat]

/-- `Parser::emit_loop(loop_start)`; `code` is the chunk as it is read AFTER the `Loop` opcode byte was emitted (the model's
`len`).  Panics where the model faults; where the model says too large the error is reported (and the truncated operand
still emitted, as the source does); otherwise exactly the opcode and the model's operand, low byte first. -/
theorem emit_loop_tie (code : List (BitVec 8)) (loopStart : Nat) (hl : (code.length : Int) ≤ F64.isizeMax) :
    Fns.emit_loop (loopStart : Int) code =
      (match JumpLimits.emitLoop code.length loopStart with
       | .fault => .panic
       | .tooLarge =>
          .ok ((), [loopOpcodeEff, Rs.Eff.mk "self.error" [.s "Loop body too large."],
                    effByte (loByte ((code.length - loopStart + 2) % 65536)), effByte (hiByte ((code.length - loopStart + 2) % 65536))])
       | .ok operand => .ok ((), [loopOpcodeEff, effByte (loByte operand), effByte (hiByte operand)])) := by
  unfold Fns.emit_loop JumpLimits.emitLoop
  simp only [F64.isizeMax, Rs.len] at *
  try dsimp only
  by_cases hf : code.length < loopStart
  · rw [if_pos hf, isub_usize_panic _ _ (by omega)]; rfl
  · rw [if_neg hf, isub_usize_ok _ _ (by omega) (by omega)]
    simp only [Rs.M.bind_ok]
    rw [iadd_usize_ok _ _ (by omega) (by omega)]
    simp only [Rs.M.bind_ok]
    have ej : (code.length : Int) - loopStart + 2 = ((code.length - loopStart + 2 : Nat) : Int) := by omega
    rw [ej]
    generalize hj : code.length - loopStart + 2 = off
    have hb := bytes_of_u16 (off : Int) (by omega)
    simp only [Int.toNat_natCast] at hb
    by_cases hbig : off > JumpLimits.JUMP_SIZE_MAX
    · rw [if_pos (decide_eq_true (by simp only [JumpLimits.JUMP_SIZE_MAX] at hbig; omega))]
      simp only [hbig, if_true, Rs.M.bind_ok, hb.1, hb.2]
      simp [Rs.idx, loopOpcodeEff, effByte]
    · rw [if_neg (by intro hc; have := of_decide_eq_true hc; simp only [JumpLimits.JUMP_SIZE_MAX] at hbig; omega)]
      simp only [hbig, if_false, Rs.M.bind_ok, hb.1, hb.2]
      simp [Rs.idx, loopOpcodeEff, effByte]

/-- `Parser::patch_offset_at(pos, offset)` on the chunk `code` (the possible call of `self.error` takes `&self`: it cannot touch the
code, and the translator now knows; until then this theorem had to be stated for an arbitrary re-read chunk). -/
theorem patch_offset_at_tie (code : List (BitVec 8)) (pos offset : Nat) (hl : (code.length : Int) ≤ F64.isizeMax)
    (hp : pos + 1 < code.length) :
    Fns.patch_offset_at (pos : Int) (offset : Int) code =
      (match JumpLimits.patchOffsetAt code.length offset with
       | .fault => .panic
       | .tooLarge =>
          .ok ((), (code.set pos (loByte ((code.length - offset) % 65536))).set (pos + 1) (hiByte ((code.length - offset) % 65536)),
               [Rs.Eff.mk "self.error" [.s "Too much code in block."]])
       | .ok operand => .ok ((), (code.set pos (loByte operand)).set (pos + 1) (hiByte operand), [])) := by
  unfold Fns.patch_offset_at JumpLimits.patchOffsetAt
  simp only [F64.isizeMax, Rs.len] at *
  try dsimp only
  by_cases hf : code.length < offset
  · rw [if_pos hf, isub_usize_panic _ _ (by omega)]; rfl
  · rw [if_neg hf, isub_usize_ok _ _ (by omega) (by omega)]
    simp only [Rs.M.bind_ok]
    have ej : (code.length : Int) - offset = ((code.length - offset : Nat) : Int) := by omega
    rw [ej]
    generalize hj : code.length - offset = jump
    have hb := bytes_of_u16 (jump : Int) (by omega)
    simp only [Int.toNat_natCast] at hb
    have e0 : ¬ ((pos : Int) < 0) := by omega
    have e1 : ¬ ((pos : Int) + 1 < 0) := by omega
    have e2 : ((pos : Int) + 1).toNat = pos + 1 := by omega
    have hp0 : pos < code.length := by omega
    by_cases hbig : jump > JumpLimits.JUMP_SIZE_MAX
    · rw [if_pos (decide_eq_true (by simp only [JumpLimits.JUMP_SIZE_MAX] at hbig; omega))]
      simp only [hbig, if_true, Rs.M.bind_ok, hb.1, hb.2]
      rw [iadd_usize_ok _ _ (by omega) (by omega)]
      simp [Rs.idx, Rs.setIdx, e0, e1, e2, hp, hp0]
    · rw [if_neg (by intro hc; have := of_decide_eq_true hc; simp only [JumpLimits.JUMP_SIZE_MAX] at hbig; omega)]
      simp only [hbig, if_false, Rs.M.bind_ok, hb.1, hb.2]
      rw [iadd_usize_ok _ _ (by omega) (by omega)]
      simp [Rs.idx, Rs.setIdx, e0, e1, e2, hp, hp0]

#print axioms precedence_from_discr
#print axioms precedence_from_panics_iff
#print axioms precedence_names_are_the_table
#print axioms allPrecedences_discr
#print axioms bytes_of_u16
#print axioms patch_jump_tie
#print axioms emit_loop_tie
#print axioms patch_offset_at_tie

end Yarel.FnsTie
