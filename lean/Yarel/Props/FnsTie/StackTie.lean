/- Ties for the value stack (`stack.rs: Stack<T, N>`: a boxed array of N cells and a raw `top` pointer), translated on every run
(`Fns.stack_len / stack_peek / stack_peek_mut / stack_push / stack_pop / stack_truncate / stack_clear`), against the two models the
C10 theorems are about: `StackGuard.stepC` (every guard of stack.rs present: `cfg!(any(debug_assertions, feature = "safe_stack"))`
true) and `StackGuard.stepU` (the guards absent, the pointer arithmetic performed as written).

Meaning given to the pointer operations (xlate, stack mode): a pointer into the boxed array is its offset from the array's start
(`self.stack.as_ptr()` = 0, `p.offset(k)` = p + k, `p.offset_from(q)` = p - q, casts between pointer types keep the offset), `*p` reads
and `*p = v` writes the cell at that offset, and an access outside the array - undefined behaviour in Rust - is a panic of the
translation.  The `cfg!` test is a Boolean input of each translated function, so ONE translated body is compared with both models.

`f` maps the interpreter's values to the natural numbers the model's cells hold (any function: the stack never looks inside a value).
A guard of the checked model that fires corresponds to a panic of the code (`peek`, `peek_mut`, `push`), to the answer `None` (`pop`),
or to a silent clamp (`truncate`); `none` of the unchecked model (an access outside the array) corresponds to a panic of the
translation.  So `guard_free_equiv` (Props/StackGuardThm: on every operation sequence in which no guard fires the two models run in
lock step) is a statement about the code of stack.rs as read on this run. -/
import Yarel.Gen.Fns
import Yarel.Props.FnsTie.Base
import Yarel.Model.StackGuard

namespace Yarel.FnsTie
open Yarel Yarel.Gen Yarel.StackGuard

/-- The model's view of a stack: the cells through `f`, and how many are in use. -/
def stackView (f : Rs.Value → Nat) (stack : List Rs.Value) (top : Nat) : St := ⟨stack.map f, top⟩

theorem stack_len_tie (stack : List Rs.Value) (top : Nat) (ht : top < 4611686018427387904) :
    Fns.stack_len (top : Int) stack = .ok (top : Int) := by
  unfold Fns.stack_len
  simp only [Int.sub_zero]
  rw [iwrap_usize_of_nonneg _ (by omega) (by unfold F64.isizeMax; omega)]

theorem neg_depth1 (d : Nat) (hd : d < 4611686018427387904) : Rs.ineg .isize (Rs.iwrap .isize (d : Int)) = .ok (-(d : Int)) := by
  have h1 : Rs.iwrap .isize (d : Int) = (d : Int) := by
    simp only [Rs.iwrap, Rs.ITy.lo, Rs.ITy.hi, Int.reduceNeg, Int.reduceSub, Int.reduceAdd]; omega
  rw [h1]
  have : (-9223372036854775808 ≤ -(d : Int)) ∧ (-(d : Int) ≤ 9223372036854775807) := by omega
  simp [Rs.ineg, Rs.ck, Rs.ITy.fits, Rs.ITy.lo, Rs.ITy.hi, this.1, this.2]

theorem neg_depth2 (d : Nat) (hd : d < 4611686018427387904) : Rs.isub .isize (-(d : Int)) (1 : Int) = .ok (-(d : Int) - 1) := by
  have : (-9223372036854775808 ≤ -(d : Int) - 1) ∧ (-(d : Int) - 1 ≤ 9223372036854775807) := by omega
  simp [Rs.isub, Rs.ck, Rs.ITy.fits, Rs.ITy.lo, Rs.ITy.hi, this.1, this.2]

/-! ### what each translated method computes, in closed form (`c` = the `cfg!` test)

(Proved by rewriting with `if_pos` / `if_neg` / `Rs.M.bind_ok`; `simp` is kept away from the translated terms.) -/

def peekForm (c : Bool) (stack : List Rs.Value) (top d : Nat) : Rs.M Rs.Value :=
  if c = true ∧ d ≥ top then .panic
  else if d + 1 > top then .panic
  else match stack[top - d - 1]? with
    | some v => .ok v
    | none => .panic

theorem stack_peek_form (c : Bool) (stack : List Rs.Value) (top d : Nat) (ht : top < 4611686018427387904) (hd : d < 4611686018427387904) :
    Fns.stack_peek (d : Int) (top : Int) stack c = peekForm c stack top d := by
  unfold Fns.stack_peek peekForm
  have tail : (Rs.M.bind (Rs.ineg .isize (Rs.iwrap .isize (d : Int))) fun t_5 =>
        Rs.M.bind (Rs.isub .isize t_5 (1 : Int)) fun t_6 => Rs.M.bind (Rs.idx stack ((top : Int) + t_6)) fun t_7 => Rs.M.ok t_7)
      = (if d + 1 > top then .panic else match stack[top - d - 1]? with | some v => .ok v | none => .panic) := by
    rw [neg_depth1 d hd, Rs.M.bind_ok, neg_depth2 d hd, Rs.M.bind_ok]
    unfold Rs.idx
    by_cases hlow : d + 1 > top
    · have hi : ((top : Int) + (-(d : Int) - 1) < 0) := by omega
      rw [if_pos hi, if_pos hlow]; rfl
    · have hi : ¬ ((top : Int) + (-(d : Int) - 1) < 0) := by omega
      have hnat : ((top : Int) + (-(d : Int) - 1)).toNat = top - d - 1 := by omega
      rw [if_neg hi, if_neg hlow, hnat]
      cases stack[top - d - 1]? <;> rfl
  cases c with
  | false =>
    have hc : ¬ (false = true) := Bool.false_ne_true
    have e : ¬ (false = true ∧ d ≥ top) := fun h => hc h.1
    rw [if_neg e, if_neg hc, Rs.M.bind_ok, if_neg hc, Rs.M.bind_ok, tail]
  | true =>
    have hc : (true = true) := rfl
    rw [if_pos hc, stack_len_tie stack top ht, Rs.M.bind_ok, Rs.M.bind_ok]
    by_cases hge : d ≥ top
    · have hdec : decide ((d : Int) ≥ (top : Int)) = true := decide_eq_true (by omega)
      have e : (true = true ∧ d ≥ top) := ⟨rfl, hge⟩
      rw [hdec, if_pos e, if_pos hc, Rs.M.bind_panic]
    · have hdec : decide ((d : Int) ≥ (top : Int)) = false := decide_eq_false (by omega)
      have e : ¬ (true = true ∧ d ≥ top) := fun h => hge h.2
      rw [hdec, if_neg e, if_neg Bool.false_ne_true, Rs.M.bind_ok, tail]

/-- `peek_mut` guards and addresses exactly like `peek` (the caller writes through what it answers). -/
theorem stack_peek_mut_is_peek (d top : Int) (stack : List Rs.Value) (c : Bool) :
    Fns.stack_peek_mut d top stack c = Fns.stack_peek d top stack c := rfl

def pushForm (c : Bool) (stack : List Rs.Value) (top : Nat) (v : Rs.Value) : Rs.M (Unit × List Rs.Value × Int) :=
  if c = true ∧ top = stack.length then .panic
  else if top < stack.length then .ok ((), stack.set top v, ((top + 1 : Nat) : Int))
  else .panic

theorem stack_push_form (c : Bool) (stack : List Rs.Value) (top : Nat) (v : Rs.Value) (ht : top < 4611686018427387904) :
    Fns.stack_push v stack (top : Int) c = pushForm c stack top v := by
  unfold Fns.stack_push pushForm
  have tail : (Rs.M.bind (Rs.setIdx stack (top : Int) v) fun t_5 => Rs.M.ok ((), t_5, (top : Int) + (1 : Int)))
      = (if top < stack.length then .ok ((), stack.set top v, ((top + 1 : Nat) : Int)) else .panic) := by
    unfold Rs.setIdx
    have hneg : ¬ ((top : Int) < 0) := by omega
    rw [if_neg hneg, Int.toNat_natCast]
    by_cases hlt : top < stack.length
    · rw [if_pos hlt, if_pos hlt, Rs.M.bind_ok]; rfl
    · rw [if_neg hlt, if_neg hlt]; rfl
  cases c with
  | false =>
    have hc : ¬ (false = true) := Bool.false_ne_true
    have e : ¬ (false = true ∧ top = stack.length) := fun h => hc h.1
    rw [if_neg e, if_neg hc, Rs.M.bind_ok, if_neg hc, Rs.M.bind_ok]
    exact tail
  | true =>
    have hc : (true = true) := rfl
    rw [if_pos hc, stack_len_tie stack top ht, Rs.M.bind_ok, Rs.M.bind_ok]
    unfold Rs.len
    by_cases heq : top = stack.length
    · have hdec : decide ((top : Int) = (stack.length : Int)) = true := decide_eq_true (by omega)
      have e : (true = true ∧ top = stack.length) := ⟨rfl, heq⟩
      rw [hdec, if_pos e, if_pos hc, Rs.M.bind_panic]
    · have hdec : decide ((top : Int) = (stack.length : Int)) = false := decide_eq_false (by omega)
      have e : ¬ (true = true ∧ top = stack.length) := fun h => heq h.2
      rw [hdec, if_neg e, if_neg Bool.false_ne_true, Rs.M.bind_ok]
      exact tail

def popForm (c : Bool) (stack : List Rs.Value) (top : Nat) : Rs.M (Option Rs.Value × Int) :=
  if c = true ∧ top = 0 then .ok (none, (top : Int))
  else if top = 0 then .panic
  else match stack[top - 1]? with
    | some v => .ok (some v, (top : Int) + -1)
    | none => .panic

theorem stack_pop_form (c : Bool) (stack : List Rs.Value) (top : Nat) (ht : top < 4611686018427387904) :
    Fns.stack_pop (top : Int) stack c = popForm c stack top := by
  unfold Fns.stack_pop popForm
  have tail : (Rs.M.bind (Rs.idx stack ((top : Int) + -1)) fun t_4 => Rs.M.ok (some t_4, (top : Int) + -1))
      = (if top = 0 then .panic else match stack[top - 1]? with | some v => .ok (some v, (top : Int) + -1) | none => .panic) := by
    unfold Rs.idx
    by_cases h0 : top = 0
    · have hi : ((top : Int) + -1 < 0) := by omega
      rw [if_pos hi, if_pos h0]; rfl
    · have hi : ¬ ((top : Int) + -1 < 0) := by omega
      have hnat : ((top : Int) + -1).toNat = top - 1 := by omega
      rw [if_neg hi, if_neg h0, hnat]
      cases stack[top - 1]? <;> rfl
  cases c with
  | false =>
    have hc : ¬ (false = true) := Bool.false_ne_true
    have e : ¬ (false = true ∧ top = 0) := fun h => hc h.1
    rw [if_neg e, if_neg hc, Rs.M.bind_ok, if_neg hc]
    exact tail
  | true =>
    have hc : (true = true) := rfl
    rw [if_pos hc, stack_len_tie stack top ht, Rs.M.bind_ok, Rs.M.bind_ok]
    by_cases h0 : top = 0
    · have hdec : decide ((top : Int) = 0) = true := decide_eq_true (by omega)
      have e : (true = true ∧ top = 0) := ⟨rfl, h0⟩
      rw [hdec, if_pos e, if_pos hc]
    · have hdec : decide ((top : Int) = 0) = false := decide_eq_false (by omega)
      have e : ¬ (true = true ∧ top = 0) := fun h => h0 h.2
      rw [hdec, if_neg e, if_neg Bool.false_ne_true]
      exact tail

theorem stack_truncate_form (c : Bool) (stack : List Rs.Value) (top n : Nat) (ht : top < 4611686018427387904) (hn : n < 4611686018427387904) :
    Fns.stack_truncate (n : Int) (top : Int) stack c = .ok ((), if c = true ∧ n > top then (top : Int) else (n : Int)) := by
  unfold Fns.stack_truncate
  have w : ∀ k : Nat, k < 4611686018427387904 → (0 : Int) + Rs.iwrap .isize (k : Int) = (k : Int) := by
    intro k hk
    have h1 : Rs.iwrap .isize (k : Int) = (k : Int) := by
      simp only [Rs.iwrap, Rs.ITy.lo, Rs.ITy.hi, Int.reduceNeg, Int.reduceSub, Int.reduceAdd]; omega
    rw [h1]; omega
  cases c with
  | false =>
    have hc : ¬ (false = true) := Bool.false_ne_true
    have e : ¬ (false = true ∧ n > top) := fun h => hc h.1
    rw [if_neg e, if_neg hc, Rs.M.bind_ok, if_neg hc, Rs.M.bind_ok]
    show Rs.M.ok ((), (0 : Int) + Rs.iwrap .isize (n : Int)) = _
    rw [w n hn]
  | true =>
    have hc : (true = true) := rfl
    rw [if_pos hc, stack_len_tie stack top ht, Rs.M.bind_ok, Rs.M.bind_ok]
    by_cases hgt : n > top
    · have hdec : decide ((n : Int) > (top : Int)) = true := decide_eq_true (by omega)
      have e : (true = true ∧ n > top) := ⟨rfl, hgt⟩
      rw [hdec, if_pos e, if_pos hc, Rs.M.bind_ok, Rs.M.bind_ok]
      show Rs.M.ok ((), (0 : Int) + Rs.iwrap .isize (top : Int)) = _
      rw [w top ht]
    · have hdec : decide ((n : Int) > (top : Int)) = false := decide_eq_false (by omega)
      have e : ¬ (true = true ∧ n > top) := fun h => hgt h.2
      rw [hdec, if_neg e, if_neg Bool.false_ne_true, Rs.M.bind_ok]
      show Rs.M.ok ((), (0 : Int) + Rs.iwrap .isize (n : Int)) = _
      rw [w n hn]

theorem stack_clear_form (stack : List Rs.Value) (top : Int) : Fns.stack_clear top stack = .ok ((), 0) := rfl

/-! ### the closed forms against the two models -/

theorem peekForm_checked (f : Rs.Value → Nat) (stack : List Rs.Value) (top d : Nat) :
    match peekForm true stack top d with
    | .panic => isGuard (stepC (stackView f stack top) (.peek d)).2 = true
    | .ok v => (stepC (stackView f stack top) (.peek d)).2 = .val (f v) := by
  unfold peekForm stepC stackView
  by_cases hge : d ≥ top
  · simp [hge, isGuard]
  · have h1 : ¬ (d + 1 > top) := by omega
    simp only [hge, and_false, if_false, h1, List.getElem?_map]
    cases stack[top - d - 1]? <;> simp [isGuard]

theorem peekForm_unchecked (f : Rs.Value → Nat) (stack : List Rs.Value) (top d : Nat) :
    match peekForm false stack top d with
    | .panic => stepU (stackView f stack top) (.peek d) = none
    | .ok v => stepU (stackView f stack top) (.peek d) = some (stackView f stack top, .val (f v)) := by
  unfold peekForm stepU stackView
  by_cases hlow : d + 1 > top
  · simp [hlow]
  · simp only [Bool.false_eq_true, false_and, if_false, hlow, List.getElem?_map]
    cases stack[top - d - 1]? <;> simp

theorem pushForm_checked (f : Rs.Value → Nat) (stack : List Rs.Value) (top : Nat) (v : Rs.Value) :
    match pushForm true stack top v with
    | .panic => isGuard (stepC (stackView f stack top) (.push (f v))).2 = true ∧ (stepC (stackView f stack top) (.push (f v))).1 = stackView f stack top
    | .ok r => stepC (stackView f stack top) (.push (f v)) = (stackView f r.2.1 (top + 1), .unit) ∧ r.2.2 = ((top + 1 : Nat) : Int) := by
  unfold pushForm stepC stackView
  simp only [List.length_map]
  by_cases heq : top = stack.length
  · simp [heq, isGuard]
  · by_cases hlt : top < stack.length
    · simp [heq, hlt, List.map_set]
    · simp [heq, hlt, isGuard]

theorem pushForm_unchecked (f : Rs.Value → Nat) (stack : List Rs.Value) (top : Nat) (v : Rs.Value) :
    match pushForm false stack top v with
    | .panic => stepU (stackView f stack top) (.push (f v)) = none
    | .ok r => stepU (stackView f stack top) (.push (f v)) = some (stackView f r.2.1 (top + 1), .unit) ∧ r.2.2 = ((top + 1 : Nat) : Int) := by
  unfold pushForm stepU stackView
  simp only [List.length_map]
  by_cases hlt : top < stack.length
  · simp [hlt, List.map_set]
  · simp [hlt]

/-- `pop`, checked: on an empty stack the code answers `None` (which `Vm::pop` turns into a panic) where the model's guard fires. -/
theorem popForm_checked (f : Rs.Value → Nat) (stack : List Rs.Value) (top : Nat) :
    match popForm true stack top with
    | .panic => isGuard (stepC (stackView f stack top) .pop).2 = true
    | .ok (none, top') => stepC (stackView f stack top) .pop = (stackView f stack top, .guard .popEmpty) ∧ top' = (top : Int)
    | .ok (some v, top') => stepC (stackView f stack top) .pop = (stackView f stack (top - 1), .val (f v)) ∧ top' = (top : Int) + -1 ∧ 0 < top := by
  unfold popForm stepC stackView
  by_cases h0 : top = 0
  · simp [h0]
  · simp only [h0, and_false, if_false, List.getElem?_map]
    cases stack[top - 1]? with
    | none => simp [isGuard]
    | some v => simp; omega

theorem popForm_unchecked (f : Rs.Value → Nat) (stack : List Rs.Value) (top : Nat) :
    match popForm false stack top with
    | .panic => stepU (stackView f stack top) .pop = none
    | .ok (none, _) => False
    | .ok (some v, top') => stepU (stackView f stack top) .pop = some (stackView f stack (top - 1), .val (f v)) ∧ top' = (top : Int) + -1 := by
  unfold popForm stepU stackView
  by_cases h0 : top = 0
  · simp [h0]
  · simp only [Bool.false_eq_true, false_and, if_false, h0, List.getElem?_map]
    cases stack[top - 1]? with
    | none => simp
    | some v => simp

/-- `truncate`, checked: a size above the current length is clamped silently (the model's `truncateGrow` guard); unchecked: no clamp -
the stack may GROW over stale cells. -/
theorem truncate_models (f : Rs.Value → Nat) (stack : List Rs.Value) (top n : Nat) :
    (stepC (stackView f stack top) (.truncate n)).1 = stackView f stack (if n > top then top else n) ∧
      stepU (stackView f stack top) (.truncate n) = some (stackView f stack n, .unit) := by
  unfold stepC stepU stackView
  by_cases hgt : n > top <;> simp [hgt]

theorem clear_models (f : Rs.Value → Nat) (stack : List Rs.Value) (top : Nat) :
    (stepC (stackView f stack top) .clear).1 = stackView f stack 0 ∧ stepU (stackView f stack top) .clear = some (stackView f stack 0, .unit) := by
  simp [stepC, stepU, stackView]

/-! ### the translated methods against the two models -/

/-- `peek`, checked: the code panics exactly where a guard of the checked model fires, and otherwise answers the cell the model answers. -/
theorem stack_peek_checked (f : Rs.Value → Nat) (stack : List Rs.Value) (top d : Nat) (ht : top < 4611686018427387904) (hd : d < 4611686018427387904) :
    match Fns.stack_peek (d : Int) (top : Int) stack true with
    | .panic => isGuard (stepC (stackView f stack top) (.peek d)).2 = true
    | .ok v => (stepC (stackView f stack top) (.peek d)).2 = .val (f v) := by
  rw [stack_peek_form true stack top d ht hd]; exact peekForm_checked f stack top d

/-- `peek`, unchecked: the translation panics (an access outside the array) exactly where the unchecked model says `none`. -/
theorem stack_peek_unchecked (f : Rs.Value → Nat) (stack : List Rs.Value) (top d : Nat) (ht : top < 4611686018427387904) (hd : d < 4611686018427387904) :
    match Fns.stack_peek (d : Int) (top : Int) stack false with
    | .panic => stepU (stackView f stack top) (.peek d) = none
    | .ok v => stepU (stackView f stack top) (.peek d) = some (stackView f stack top, .val (f v)) := by
  rw [stack_peek_form false stack top d ht hd]; exact peekForm_unchecked f stack top d

theorem stack_push_checked (f : Rs.Value → Nat) (stack : List Rs.Value) (top : Nat) (v : Rs.Value) (ht : top < 4611686018427387904) :
    match Fns.stack_push v stack (top : Int) true with
    | .panic => isGuard (stepC (stackView f stack top) (.push (f v))).2 = true ∧ (stepC (stackView f stack top) (.push (f v))).1 = stackView f stack top
    | .ok r => stepC (stackView f stack top) (.push (f v)) = (stackView f r.2.1 (top + 1), .unit) ∧ r.2.2 = ((top + 1 : Nat) : Int) := by
  rw [stack_push_form true stack top v ht]; exact pushForm_checked f stack top v

theorem stack_push_unchecked (f : Rs.Value → Nat) (stack : List Rs.Value) (top : Nat) (v : Rs.Value) (ht : top < 4611686018427387904) :
    match Fns.stack_push v stack (top : Int) false with
    | .panic => stepU (stackView f stack top) (.push (f v)) = none
    | .ok r => stepU (stackView f stack top) (.push (f v)) = some (stackView f r.2.1 (top + 1), .unit) ∧ r.2.2 = ((top + 1 : Nat) : Int) := by
  rw [stack_push_form false stack top v ht]; exact pushForm_unchecked f stack top v

theorem stack_pop_checked (f : Rs.Value → Nat) (stack : List Rs.Value) (top : Nat) (ht : top < 4611686018427387904) :
    match Fns.stack_pop (top : Int) stack true with
    | .panic => isGuard (stepC (stackView f stack top) .pop).2 = true
    | .ok (none, top') => stepC (stackView f stack top) .pop = (stackView f stack top, .guard .popEmpty) ∧ top' = (top : Int)
    | .ok (some v, top') => stepC (stackView f stack top) .pop = (stackView f stack (top - 1), .val (f v)) ∧ top' = (top : Int) + -1 ∧ 0 < top := by
  rw [stack_pop_form true stack top ht]; exact popForm_checked f stack top

theorem stack_pop_unchecked (f : Rs.Value → Nat) (stack : List Rs.Value) (top : Nat) (ht : top < 4611686018427387904) :
    match Fns.stack_pop (top : Int) stack false with
    | .panic => stepU (stackView f stack top) .pop = none
    | .ok (none, _) => False
    | .ok (some v, top') => stepU (stackView f stack top) .pop = some (stackView f stack (top - 1), .val (f v)) ∧ top' = (top : Int) + -1 := by
  rw [stack_pop_form false stack top ht]; exact popForm_unchecked f stack top

theorem stack_truncate_checked (f : Rs.Value → Nat) (stack : List Rs.Value) (top n : Nat) (ht : top < 4611686018427387904) (hn : n < 4611686018427387904) :
    Fns.stack_truncate (n : Int) (top : Int) stack true = .ok ((), ((if n > top then top else n : Nat) : Int)) ∧
      (stepC (stackView f stack top) (.truncate n)).1 = stackView f stack (if n > top then top else n) := by
  refine ⟨?_, (truncate_models f stack top n).1⟩
  rw [stack_truncate_form true stack top n ht hn]
  by_cases hgt : n > top <;> simp [hgt]

theorem stack_truncate_unchecked (f : Rs.Value → Nat) (stack : List Rs.Value) (top n : Nat) (ht : top < 4611686018427387904) (hn : n < 4611686018427387904) :
    Fns.stack_truncate (n : Int) (top : Int) stack false = .ok ((), (n : Int)) ∧
      stepU (stackView f stack top) (.truncate n) = some (stackView f stack n, .unit) := by
  refine ⟨?_, (truncate_models f stack top n).2⟩
  rw [stack_truncate_form false stack top n ht hn]
  simp

theorem stack_clear_tie (f : Rs.Value → Nat) (stack : List Rs.Value) (top : Nat) :
    Fns.stack_clear (top : Int) stack = .ok ((), 0) ∧ (stepC (stackView f stack top) .clear).1 = stackView f stack 0 ∧
      stepU (stackView f stack top) .clear = some (stackView f stack 0, .unit) :=
  ⟨rfl, clear_models f stack top⟩

#print axioms stack_peek_checked
#print axioms stack_peek_unchecked
#print axioms stack_push_checked
#print axioms stack_push_unchecked
#print axioms stack_pop_checked
#print axioms stack_pop_unchecked
#print axioms stack_truncate_checked
#print axioms stack_truncate_unchecked
#print axioms stack_clear_tie
#print axioms stack_peek_mut_is_peek
#print axioms stack_peek_form
#print axioms stack_push_form
#print axioms stack_pop_form
#print axioms stack_truncate_form

end Yarel.FnsTie
