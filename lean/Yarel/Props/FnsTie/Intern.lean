/- Ties for the probe loop of the string intern table (`find_index` and `ObjStringStore::get` in `mod string_store` of vm.rs;
model `Intern.findIndexAux` / `Intern.findIndex` / `Intern.Store.get`, property C11).

The translated code sees a stored string object as the pair (cached hash, text) - the class link and the identity of the allocation
are not fields the table functions read - and the table as `List (Option (hash × text))`.  `viewSlots` turns such a table into the
array of the model (`Intern.Entry` also carries the identity `id`, which `findIndexAux` never looks at: `findIndexAux_ignores_ids`).
Texts are Lean `String`s on the translated side and byte lists in the model; `bytesOf` is injective (`bytesOf_inj`), so "same text"
means the same on both sides. -/
import Yarel.Gen.Fns
import Yarel.Props.FnsTie.Base
import Yarel.Model.Intern

namespace Yarel.FnsTie
open Yarel Yarel.Gen

/-- The bytes of a string (its UTF-8 encoding). -/
def bytesOf (s : String) : List UInt8 := s.toByteArray.data.toList

theorem bytesOf_inj {s t : String} : bytesOf s = bytesOf t ↔ s = t := by
  unfold bytesOf
  constructor
  · intro h
    apply String.toByteArray_inj.mp
    have : s.toByteArray.data = t.toByteArray.data := Array.toList_inj.mp h
    cases hs : s.toByteArray
    cases ht : t.toByteArray
    simp_all
  · intro h; rw [h]

/-- A stored string as the model has it; `id` is what the caller says the allocation's identity is. -/
def viewEntry (id : Nat) (p : BitVec 64 × String) : Intern.Entry := ⟨UInt64.ofBitVec p.1, bytesOf p.2, id⟩

/-- The table as the model has it (identities: `ids i` for the string in slot `i`). -/
def viewSlots (ids : Nat → Nat) (es : List (Option (BitVec 64 × String))) : Array (Option Intern.Entry) :=
  (es.zipIdx.map fun (o, i) => o.map (viewEntry (ids i))).toArray

theorem viewSlots_size (ids : Nat → Nat) (es : List (Option (BitVec 64 × String))) : (viewSlots ids es).size = es.length := by
  simp [viewSlots]

theorem viewSlots_get (ids : Nat → Nat) (es : List (Option (BitVec 64 × String))) (i : Nat) :
    (viewSlots ids es)[i]? = (es[i]?).map fun o => o.map (viewEntry (ids i)) := by
  simp only [viewSlots, List.getElem?_toArray, List.getElem?_map, List.getElem?_zipIdx]
  cases es[i]? <;> simp

/-- One pass of the translated `loop` body, as `Gen/Fns.lean` has it. -/
def probeStep (entries : List (Option (BitVec 64 × String))) (hash : BitVec 64) (string : String) (mask : Int) (s_1 : Int) :
    Rs.M (Sum Int Int) :=
  let index := s_1;
  (Rs.M.bind (Rs.idx entries index) fun t_2 =>
  (match t_2 with
  | some entry =>
  (if ((decide ((entry.1) = hash)) && (decide ((entry.2) = string))) then
  (Rs.M.ok (Sum.inr index))
  else
  (Rs.M.bind (Rs.iadd .usize index (1 : Int)) fun t_3 =>
  (let index := (Int.ofNat (t_3.toNat &&& mask.toNat));
  (Rs.M.ok (Sum.inl index)))))
  | none =>
  (Rs.M.ok (Sum.inr index))))

/-- What the model's answer looks like from the translated side: an index, or a panic (the model's `spin` = the bound on the loop ran
out, `oob` = `entries[index]` out of range). -/
def obsFind : Except Intern.Fault Nat → Rs.M Int
  | .ok i => .ok (i : Int)
  | .error _ => .panic

theorem probe_loop_tie (ids : Nat → Nat) (es : List (Option (BitVec 64 × String))) (hash : BitVec 64) (s : String) (mask : Nat)
    (hlen : es.length < 2 ^ 64) (fuel index : Nat) :
    (Rs.M.bind (Rs.loopN fuel (index : Int) (probeStep es hash s (mask : Int))) fun r_ =>
      match r_ with
      | some x_ => Rs.M.ok x_
      | none => Rs.M.panic)
      = obsFind (Intern.findIndexAux (viewSlots ids es) (UInt64.ofBitVec hash) (bytesOf s) mask fuel index) := by
  induction fuel generalizing index with
  | zero => simp [Rs.loopN, Intern.findIndexAux, obsFind]
  | succ n ih =>
    unfold Rs.loopN Intern.findIndexAux
    rw [viewSlots_get]
    unfold probeStep
    simp only [Rs.idx]
    have hneg : ¬ ((index : Int) < 0) := by omega
    simp only [hneg, if_false, Int.toNat_natCast]
    cases hget : es[index]? with
    | none => simp [obsFind]
    | some slot =>
      have hidx : index < es.length := by
        rcases List.getElem?_eq_some_iff.mp hget with ⟨h, _⟩; exact h
      cases slot with
      | none => simp [obsFind]
      | some entry =>
        simp only [Option.map_some, Rs.M.bind_ok, viewEntry]
        by_cases hk : entry.1 = hash ∧ entry.2 = s
        · have h1 : (UInt64.ofBitVec entry.1 = UInt64.ofBitVec hash ∧ bytesOf entry.2 = bytesOf s) := by
            rw [hk.1, hk.2]; exact ⟨rfl, rfl⟩
          simp [hk.1, hk.2, obsFind]
        · have h1 : ¬ (UInt64.ofBitVec entry.1 = UInt64.ofBitVec hash ∧ bytesOf entry.2 = bytesOf s) := by
            intro h
            apply hk
            refine ⟨?_, bytesOf_inj.mp h.2⟩
            have := congrArg UInt64.toBitVec h.1
            simpa using this
          have h2 : (decide (entry.1 = hash) && decide (entry.2 = s)) = false := by
            by_cases ha : entry.1 = hash
            · have : ¬ entry.2 = s := fun hb => hk ⟨ha, hb⟩
              simp [ha, this]
            · simp [ha]
          rw [if_neg h1]
          simp only [h2, Bool.false_eq_true, if_false]
          rw [iadd_usize_ok (index : Int) 1 (by omega) (by omega)]
          simp only [Rs.M.bind_ok]
          have e : Int.ofNat (((index : Int) + 1).toNat &&& mask) = (((index + 1) &&& mask : Nat) : Int) := by
            have : ((index : Int) + 1).toNat = index + 1 := by omega
            rw [this]; rfl
          rw [e]
          exact ih ((index + 1) &&& mask)

/-- `find_index`: the translated probe loop is the model's, for every table, key, mask and bound on the iterations; it panics exactly
where the model reports `oob` (an index outside the table) or `spin` (the bound ran out). -/
theorem store_find_index_tie (ids : Nat → Nat) (es : List (Option (BitVec 64 × String))) (hash : BitVec 64) (s : String) (mask : Nat)
    (hlen : es.length < 2 ^ 64) (fuel : Nat) :
    Fns.store_find_index fuel es (hash, s) (mask : Int)
      = obsFind (Intern.findIndexAux (viewSlots ids es) (UInt64.ofBitVec hash) (bytesOf s) mask fuel
          ((UInt64.ofBitVec hash).toNat &&& mask)) := by
  unfold Fns.store_find_index
  have e0 : Int.ofNat ((Rs.intOfBv .usize hash).toNat &&& (mask : Int).toNat) = (((UInt64.ofBitVec hash).toNat &&& mask : Nat) : Int) := by
    have h1 : Rs.intOfBv .usize hash = (hash.toNat : Int) := by
      unfold Rs.intOfBv
      have := hash.isLt
      simp only [Rs.iwrap, Rs.ITy.lo, Rs.ITy.hi]
      omega
    rw [h1, Int.toNat_natCast, Int.toNat_natCast]; rfl
  simp only [e0]
  exact probe_loop_tie ids es hash s mask hlen fuel _

/-- With the bound the model uses (the capacity: every slot is visited at most once). -/
theorem store_find_index_is_findIndex (ids : Nat → Nat) (es : List (Option (BitVec 64 × String))) (hash : BitVec 64) (s : String)
    (mask : Nat) (hlen : es.length < 2 ^ 64) :
    Fns.store_find_index es.length es (hash, s) (mask : Int)
      = obsFind (Intern.findIndex (viewSlots ids es) (UInt64.ofBitVec hash) (bytesOf s) mask) := by
  rw [store_find_index_tie ids es hash s mask hlen]
  unfold Intern.findIndex
  rw [viewSlots_size]

/-- What `get` answers, seen from the translated side. -/
def obsGet : Except Intern.Fault (Option Intern.Entry) → Rs.M (Option Intern.Entry)
  | .ok o => .ok o
  | .error _ => .panic

/-- `ObjStringStore::get`: the translated body finds the stored string the model's `Store.get` finds (same slot, hence same
identity), `none` for a vacant slot, and panics exactly where the model faults. -/
theorem store_get_tie (ids : Nat → Nat) (es : List (Option (BitVec 64 × String))) (size : Nat) (hash : BitVec 64) (s : String) (mask : Nat)
    (hlen : es.length < 2 ^ 64) :
    (Rs.M.bind (Fns.store_get es.length (hash, s) es (mask : Int)) fun r =>
        Rs.M.ok (r.map fun p => (UInt64.ofBitVec p.1, bytesOf p.2)))
      = (match Intern.Store.get ⟨viewSlots ids es, size, mask⟩ (UInt64.ofBitVec hash) (bytesOf s) with
         | .ok o => .ok (o.map fun e => (e.hash, e.text))
         | .error _ => .panic) := by
  unfold Fns.store_get Intern.Store.get
  rw [store_find_index_is_findIndex ids es hash s mask hlen]
  cases hf : Intern.findIndex (viewSlots ids es) (UInt64.ofBitVec hash) (bytesOf s) mask with
  | error f => simp [obsFind]
  | ok i =>
    simp only [obsFind, Rs.M.bind_ok, Rs.idx]
    have hneg : ¬ ((i : Int) < 0) := by omega
    simp only [hneg, if_false, Int.toNat_natCast, viewSlots_get]
    cases hget : es[i]? with
    | none => simp
    | some slot =>
      cases slot with
      | none => simp
      | some p => simp [viewEntry]

#print axioms bytesOf_inj
#print axioms probe_loop_tie
#print axioms store_find_index_tie
#print axioms store_find_index_is_findIndex
#print axioms store_get_tie

end Yarel.FnsTie
