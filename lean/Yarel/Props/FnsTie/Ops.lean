/- Ties for the opcode dispatch of `Vm::run` and the closures it passes to `binary_op_impl` (translated on every run into
`Gen/Fns.lean`): every arithmetic / comparison / bit operator on two numbers IS the operation of the verified soft-float
`Yarel.F64` that the reference interpreter (S) computes with (`Yarel.Spec.Num`, `Spec/Machine.lean` binop), so the operator
semantics of property C05 are tied to the source by translation, not only by differential runs; and the dispatch table
names, for every opcode exactly once, the handler the models are transcribed from. -/
import Yarel.Gen.Fns
import Yarel.Gen.OpCodes
import Yarel.Props.FnsTie.Base
import Yarel.Spec.NumStub

namespace Yarel.FnsTie
open Yarel Yarel.Gen

theorem op_greater_tie (a b : UInt64) : Fns.op_Greater a b = .ok (.Boolean (F64.lt b a)) := rfl
theorem op_less_tie (a b : UInt64) : Fns.op_Less a b = .ok (.Boolean (F64.lt a b)) := rfl
theorem op_subtract_tie (a b : UInt64) : Fns.op_Subtract a b = .ok (.Number (Spec.Num.sub a b)) := rfl
theorem op_multiply_tie (a b : UInt64) : Fns.op_Multiply a b = .ok (.Number (Spec.Num.mul a b)) := rfl
theorem op_divide_tie (a b : UInt64) : Fns.op_Divide a b = .ok (.Number (Spec.Num.div a b)) := rfl
theorem op_modulo_tie (a b : UInt64) : Fns.op_Modulo a b = .ok (.Number (Spec.Num.fmod a b)) := rfl
theorem op_bitwise_and_tie (a b : UInt64) : Fns.op_BitwiseAnd a b = .ok (.Number (Spec.Num.bitAnd a b)) := rfl
theorem op_bitwise_or_tie (a b : UInt64) : Fns.op_BitwiseOr a b = .ok (.Number (Spec.Num.bitOr a b)) := rfl
theorem op_bitwise_xor_tie (a b : UInt64) : Fns.op_BitwiseXor a b = .ok (.Number (Spec.Num.bitXor a b)) := rfl

theorem toU32Sat_lt (b : UInt64) : F64.toU32Sat b < 2 ^ 32 := by
  unfold F64.toU32Sat
  split
  · decide
  · split
    · decide
    · split
      · decide
      · exact Nat.lt_of_le_of_lt (Nat.min_le_right _ _) (by decide)

/-- `<<`: a count of 64 or more gives 0 (`checked_shl` answers `None`), it does not wrap. -/
theorem op_shift_left_tie (a b : UInt64) : Fns.op_BitShiftLeft a b = .ok (.Number (Spec.Num.shl a b)) := by
  unfold Fns.op_BitShiftLeft Spec.Num.shl F64.shl Rs.checkedShl64 Rs.f64ToU32 Rs.i64ToF64 Rs.f64ToIsize F64.toI64
  have h : (BitVec.ofNat 32 (F64.toU32Sat b)).toNat = F64.toU32Sat b := by
    simp only [BitVec.toNat_ofNat]; exact Nat.mod_eq_of_lt (toU32Sat_lt b)
  rw [h]
  by_cases hs : 64 ≤ F64.toU32Sat b
  · have : ¬ (F64.toU32Sat b < 64) := by omega
    simp [hs, this]
  · have : F64.toU32Sat b < 64 := by omega
    simp [hs, this]

/-- `>>`: arithmetic, and a count of 64 or more gives 0. -/
theorem op_shift_right_tie (a b : UInt64) : Fns.op_BitShiftRight a b = .ok (.Number (Spec.Num.shr a b)) := by
  unfold Fns.op_BitShiftRight Spec.Num.shr F64.shr Rs.checkedShr64 Rs.f64ToU32 Rs.i64ToF64 Rs.f64ToIsize F64.toI64
  have h : (BitVec.ofNat 32 (F64.toU32Sat b)).toNat = F64.toU32Sat b := by
    simp only [BitVec.toNat_ofNat]; exact Nat.mod_eq_of_lt (toU32Sat_lt b)
  rw [h]
  by_cases hs : 64 ≤ F64.toU32Sat b
  · have : ¬ (F64.toU32Sat b < 64) := by omega
    simp [hs, this]
  · have : F64.toU32Sat b < 64 := by omega
    simp [hs, this]

/-! ## the dispatch table -/

/-- Every opcode of `chunk.rs` (regenerated table `Gen.opcodes`) has exactly one arm in `Vm::run` (a permutation: no opcode
without an arm, none with two), plus the single fallback arm. -/
theorem dispatch_covers_every_opcode :
    (Fns.runDispatch.map (·.1)).Perm (Gen.opcodes.map (·.1) ++ ["_"]) := by
  decide

/-- What each arm does, pinned: a changed handler (an operator wired to another closure or method) breaks this obligation. -/
def expectedDispatch : List (String × String) :=
  [ ("Constant", "{let constant=self.read_constant();self.push(constant);}")
  , ("Nil", "self.push(Value::None)")
  , ("True", "self.push(Value::Boolean(true))")
  , ("False", "self.push(Value::Boolean(false))")
  , ("Pop", "self.pop")
  , ("CopyTop", "{let top=self.peek(0);self.push(top);}")
  , ("GetLocal", "self.get_local_impl")
  , ("SetLocal", "self.set_local_impl")
  , ("GetGlobal", "self.get_global_impl")
  , ("DefineGlobal", "self.define_global_impl")
  , ("SetGlobal", "self.set_global_impl")
  , ("GetUpvalue", "self.get_upvalue_impl")
  , ("SetUpvalue", "self.set_upvalue_impl")
  , ("GetProperty", "self.get_property_impl")
  , ("SetProperty", "self.set_property_impl")
  , ("GetClass", "self.get_class_impl")
  , ("GetSuper", "self.get_super_impl")
  , ("Equal", "self.equal_impl")
  , ("Greater", "self.binary_op_impl(Fns.op_Greater)")
  , ("Less", "self.binary_op_impl(Fns.op_Less)")
  , ("Add", "self.add_impl")
  , ("Subtract", "self.binary_op_impl(Fns.op_Subtract)")
  , ("Multiply", "self.binary_op_impl(Fns.op_Multiply)")
  , ("Divide", "self.binary_op_impl(Fns.op_Divide)")
  , ("BitwiseAnd", "self.binary_op_impl(Fns.op_BitwiseAnd)")
  , ("BitwiseOr", "self.binary_op_impl(Fns.op_BitwiseOr)")
  , ("BitwiseXor", "self.binary_op_impl(Fns.op_BitwiseXor)")
  , ("Modulo", "self.binary_op_impl(Fns.op_Modulo)")
  , ("LogicalNot", "self.logical_not_impl")
  , ("BitwiseNot", "self.bitwise_not_impl")
  , ("BitShiftLeft", "self.binary_op_impl(Fns.op_BitShiftLeft)")
  , ("BitShiftRight", "self.binary_op_impl(Fns.op_BitShiftRight)")
  , ("Negate", "self.negate_impl")
  , ("GetItem", "self.get_item_impl")
  , ("SetItem", "self.set_item_impl")
  , ("FormatString", "self.format_string_impl")
  , ("BuildHashMap", "self.build_hash_map_impl")
  , ("BuildRange", "self.build_range_impl")
  , ("BuildString", "self.build_string_impl")
  , ("BuildTuple", "self.build_tuple_impl")
  , ("BuildVec", "self.build_vec_impl")
  , ("IterNext", "self.iter_next_impl")
  , ("Jump", "self.jump_impl")
  , ("JumpIfFalse", "self.jump_if_false_impl")
  , ("JumpIfStopIter", "self.jump_if_stop_iter")
  , ("Loop", "self.loop_impl")
  , ("JumpFinally", "self.jump_finally_impl")
  , ("EndFinally", "self.end_finally_impl")
  , ("PushExcHandler", "self.push_exc_handler_impl")
  , ("PopExcHandler", "self.pop_exc_handler_impl")
  , ("Throw", "self.throw_impl")
  , ("Call", "self.call_impl")
  , ("Construct", "self.construct_impl")
  , ("Invoke", "self.invoke_impl")
  , ("SuperInvoke", "self.super_invoke_impl")
  , ("Closure", "self.closure_impl")
  , ("CloseUpvalue", "self.close_upvalue_impl")
  , ("Return", "if let Some(value)=self.return_impl()?{return Ok(value);}")
  , ("DeclareClass", "self.declare_class_impl")
  , ("DefineClass", "self.define_class_impl")
  , ("Inherit", "self.inherit_impl")
  , ("Method", "self.method_impl")
  , ("StaticMethod", "self.static_method_impl")
  , ("StartImport", "self.start_import_impl")
  , ("FinishImport", "self.finish_import_impl")
  , ("_", "{if cfg!(any(debug_assertions,feature=\"safe_vm_opcodes\")){panic!(\"Unknown opcode {}\",byte);}else{unsafe{hint::unreachable_unchecked();}}}")
  ]

theorem dispatch_is_the_pinned_table : Fns.runDispatch = expectedDispatch := by rfl

#print axioms op_greater_tie
#print axioms op_less_tie
#print axioms op_subtract_tie
#print axioms op_multiply_tie
#print axioms op_divide_tie
#print axioms op_modulo_tie
#print axioms op_bitwise_and_tie
#print axioms op_bitwise_or_tie
#print axioms op_bitwise_xor_tie
#print axioms op_shift_left_tie
#print axioms op_shift_right_tie
#print axioms dispatch_covers_every_opcode
#print axioms dispatch_is_the_pinned_table

end Yarel.FnsTie
