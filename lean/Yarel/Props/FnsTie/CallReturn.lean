/- What `Vm::call_closure` and `Vm::return_impl` do, proved of their bodies as TRANSLATED from vm.rs on every run
(`Fns.vm_call_closure`, `Fns.vm_return_impl` in Yarel/Gen/Fns.lean) over the abstract interpreter state `Rs.Vm`: the frames of the
running fiber are the current one (`frameIp`, `slotBase`, `curClosure`) and the ones below it (`outer`, outermost first), `frames`
counts them.

* `call_wrong_arity`, `call_depth_limit`: a call with the wrong number of arguments, or with `FRAMES_MAX` frames already active, is
  handed to the exception machinery as the stated TypeError / IndexError and pushes NO frame (C02, C07, C09: "wrong arity and exhausted
  call depth are reported");
* `call_effect`: otherwise the resume point is saved in the caller's frame, a frame is pushed whose slots begin at the callee (arity
  below the top of the stack), and execution continues at the closure's first instruction;
* `return_to_caller`: `Return` with a caller frame below: the result replaces the callee and everything above it (the stack is cut to
  the frame's base), the captured variables of the frame are closed first (the close call sees the whole stack), the caller's frame is
  current again and execution continues at its resume point;
* `call_return_roundtrip`: a call followed - after any activity of the callee that leaves its frame on top and a result on the stack -
  by `Return` leaves the caller's stack as it was below the callee, plus the result: "calls are atomic: pop argc + 1, push 1", the
  assumption the frame machine of C04 makes about calls, proved here of the real code.
-/
import Yarel.Gen.Fns
import Yarel.Props.FnsTie.Base
import Yarel.Props.FnsTie.FiberSwitch

namespace Yarel.FnsTie
open Yarel Yarel.Gen

def errArity : Rs.Err := ⟨"TypeError", "Expected {} arguments but found {}.", ["arity", "arg_count"]⟩
def errDepth : Rs.Err := ⟨"IndexError", "Stack overflow.", []⟩

/-- A call with the wrong number of arguments: the TypeError goes to the exception machinery, no frame is pushed. -/
theorem call_wrong_arity (vm : Rs.Vm) (c : Rs.ClosureRec) (argc : Int) (h1 : 1 ≤ c.arity) (h2 : c.arity ≤ 18446744073709551616)
    (hne : argc ≠ c.arity - 1) :
    Fns.vm_call_closure c argc vm = .ok (vm.handled, { vm with raised := vm.raised ++ [errArity] }) := by
  unfold Fns.vm_call_closure
  rw [isub_usize_ok _ _ (by omega) (by omega)]
  simp [hne, Rs.Vm.raise, errArity]

/-- A call when `FRAMES_MAX` (64) frames are active: IndexError "Stack overflow.", no frame is pushed. -/
theorem call_depth_limit (vm : Rs.Vm) (c : Rs.ClosureRec) (argc : Int) (h1 : 1 ≤ c.arity) (h2 : c.arity ≤ 18446744073709551616)
    (he : argc = c.arity - 1) (hfull : vm.frames = 64) :
    Fns.vm_call_closure c argc vm = .ok (vm.handled, { vm with raised := vm.raised ++ [errDepth] }) := by
  unfold Fns.vm_call_closure
  rw [isub_usize_ok _ _ (by omega) (by omega)]
  simp [he, hfull, Rs.Vm.raise, errDepth]

/-- The state after a call that goes through. -/
def afterCall (vm : Rs.Vm) (c : Rs.ClosureRec) : Rs.Vm :=
  { vm with
    outer := vm.outer ++ [(⟨vm.ip, vm.slotBase, vm.curClosure⟩ : Rs.FrameRec)],
    frames := vm.frames + 1, frameIp := c.entry, slotBase := (vm.stack.length : Int) - c.arity, curClosure := c.value, ip := c.entry }

theorem call_effect (vm : Rs.Vm) (c : Rs.ClosureRec) (argc : Int) (h1 : 1 ≤ c.arity) (h2 : c.arity ≤ (vm.stack.length : Int))
    (he : argc = c.arity - 1) (hfr : 0 < vm.frames) (hroom : vm.frames ≠ 64) (hlen : (vm.stack.length : Int) ≤ 18446744073709551615) :
    Fns.vm_call_closure c argc vm = .ok (.ok (), afterCall vm c) := by
  have hnf : ¬ (vm.frames ≤ 0) := by omega
  unfold Fns.vm_call_closure
  rw [isub_usize_ok _ _ (by omega) (by omega)]
  simp only [Rs.M.bind_ok, he, ne_eq, not_true_eq_false, decide_false, Bool.false_eq_true, if_false, hroom]
  simp only [Rs.Vm.setFrameIp, hnf, if_false, Rs.M.bind_ok, Rs.Vm.pushCallFrame]
  rw [isub_usize_ok _ _ (by omega) (by omega)]
  have hnf2 : ¬ (vm.frames + 1 ≤ 0) := by omega
  simp [Rs.Vm.loadFrame, hnf, hnf2, afterCall]

theorem take_snoc {α : Type} (l : List α) (a b : α) : (l ++ [a] ++ [b]).take (l.length + 1) = l ++ [a] := by
  have : (l ++ [a] ++ [b]) = (l ++ [a]) ++ [b] := rfl
  rw [this, List.take_append_of_le_length (by simp)]
  rw [List.take_of_length_le (by simp)]

/-- `frames.pop()` looks at, and changes, the frames only. -/
theorem popFrame_with (vm : Rs.Vm) (st : List Rs.Value) (cl : List (Int × Int)) :
    Rs.Vm.popFrame { vm with stack := st, closed := cl } = { (Rs.Vm.popFrame vm) with stack := st, closed := cl } := by
  unfold Rs.Vm.popFrame Rs.Vm.truncateFrames
  by_cases h : vm.frames ≤ 0
  · simp only [h, if_true]
  · simp only [h, if_false]
    by_cases h2 : vm.frames ≤ vm.frames - 1
    · simp only [h2, if_true]
    · simp only [h2, if_false]
      split <;> rfl

/-- `frames.pop()` with a frame below: that frame is the current one again. -/
theorem popFrame_below (vm : Rs.Vm) (os : List Rs.FrameRec) (fr : Rs.FrameRec) (ho : vm.outer = os ++ [fr]) (hfr : vm.frames = (os.length : Int) + 2) :
    Rs.Vm.popFrame vm = { vm with frames := vm.frames - 1, outer := os, frameIp := fr.ip, slotBase := fr.slotBase, curClosure := fr.closure } := by
  unfold Rs.Vm.popFrame Rs.Vm.truncateFrames
  have h1 : ¬ (vm.frames ≤ 0) := by omega
  have h2 : ¬ (vm.frames ≤ vm.frames - 1) := by omega
  simp only [h1, if_false, h2]
  have hk : (vm.frames - 1).toNat = os.length + 1 := by omega
  rw [ho, hk, take_snoc]
  simp

/-- `Return` to a caller frame: result in place of the callee and its slots, caller's frame current again. -/
theorem return_to_caller (vm : Rs.Vm) (s : List Rs.Value) (result : Rs.Value) (os : List Rs.FrameRec) (fr : Rs.FrameRec)
    (hs : vm.stack = s ++ [result]) (ho : vm.outer = os ++ [fr]) (hfr : vm.frames = (os.length : Int) + 2)
    (hb0 : 0 ≤ vm.slotBase) (hb : vm.slotBase.toNat ≤ s.length) :
    Fns.vm_return_impl vm = .ok (.ok none, { vm with
      stack := s.take vm.slotBase.toNat ++ [result],
      frames := vm.frames - 1, outer := os, frameIp := fr.ip, slotBase := fr.slotBase, curClosure := fr.closure, ip := fr.ip,
      closed := vm.closed ++ [(vm.slotBase, (s.length : Int))] }) := by
  have hnf : ¬ (vm.frames ≤ 0) := by omega
  have hne : vm.stack ≠ [] := by rw [hs]; simp
  have hpop : Rs.Vm.pop vm = .ok (result, { vm with stack := s }) := by
    unfold Rs.Vm.pop
    rw [hs]
    simp
  unfold Fns.vm_return_impl
  simp only [hpop, Rs.M.bind_ok, Rs.Vm.closeUpvaluesForFrame, hnf, if_false, Rs.Vm.closeUpvalues]
  rw [popFrame_with, popFrame_below vm os fr ho hfr]
  have hne0 : vm.frames - 1 ≠ 0 := by omega
  have hnf2 : ¬ (vm.frames - 1 ≤ 0) := by omega
  have hb1 : ¬ (vm.slotBase < 0) := by omega
  have hb' : vm.slotBase ≤ (s.length : Int) := by omega
  simp [Rs.Vm.hasFinished, hne0, Rs.Vm.loadFrame, hnf2, Rs.Vm.truncateStack, hb1, hb, hb', Rs.Vm.push]

/-- `frames.pop()` of the last frame: the fiber has finished. -/
theorem popFrame_last (vm : Rs.Vm) (ho : vm.outer = []) (hfr : vm.frames = 1) :
    Rs.Vm.popFrame vm = { vm with frames := 0, outer := [] } := by
  unfold Rs.Vm.popFrame Rs.Vm.truncateFrames
  simp [hfr, ho]

/-- `Return` from the LAST frame of a fiber that somebody called: the fiber has finished, what its body left on its value stack is
dropped, control goes back to the caller (`unload_fiber`), and the caller finds the RESULT in the slot of its pending call; both
designators name the caller; the finished fiber is parked with no frames and no caller. -/
theorem return_finishes_fiber (vm : Rs.Vm) (s : List Rs.Value) (result : Rs.Value) (y c : Nat) (rc : Rs.FiberRec)
    (hs : vm.stack = s ++ [result]) (ho : vm.outer = []) (hfr : vm.frames = 1)
    (hcur : vm.curId = some y) (hcaller : vm.caller = some c) (hne : y ≠ c) (hr : Rs.lookupFiber vm.parked c = some rc)
    (hb0 : 0 ≤ vm.slotBase) (hb : vm.slotBase.toNat ≤ s.length) (hfrc : 0 < rc.frames) (hslot : rc.stack ≠ []) :
    ∃ w', Fns.vm_return_impl vm = .ok (.ok none, w') ∧ w'.stack = rc.stack.dropLast ++ [result]
      ∧ w'.curId = some c ∧ w'.unsafeId = some c ∧ w'.ip = rc.frameIp ∧ w'.frames = rc.frames ∧ w'.handlers = rc.handlers
      ∧ (Rs.lookupFiber w'.parked y).map (fun r => (r.frames, r.caller, r.stack)) = some (0, none, s.take vm.slotBase.toNat) := by
  have hnf : ¬ (vm.frames ≤ 0) := by omega
  have hpop : Rs.Vm.pop vm = .ok (result, { vm with stack := s }) := by
    unfold Rs.Vm.pop
    rw [hs]
    simp
  have hb1 : ¬ (vm.slotBase < 0) := by omega
  have hb' : vm.slotBase ≤ (s.length : Int) := by omega
  unfold Fns.vm_return_impl
  simp only [hpop, Rs.M.bind_ok, Rs.Vm.closeUpvaluesForFrame, hnf, if_false, Rs.Vm.closeUpvalues]
  rw [popFrame_with, popFrame_last vm ho hfr]
  simp only [Rs.Vm.hasFinished, decide_true, if_true, hcaller, Option.isSome_some, Rs.Vm.truncateStack, hb1, if_false, hb, Rs.M.bind_ok]
  -- the switch back to the caller
  have hun : ∀ W : Rs.Vm, W.curId = some y → W.caller = some c → Rs.lookupFiber W.parked c = some rc → 0 ≤ W.frames →
      Fns.vm_unload_fiber none W = .ok (.ok (), afterUnload W y c rc none) :=
    fun W h1 h2 h3 h4 => unload_effect W y c none rc h1 h2 hne h3 (by intro h; cases h) h4 hfrc hslot
  rw [hun]
  · simp only [Rs.M.bind_ok]
    rw [poke_top _ _ (by simp [afterUnload, Rs.Vm.withRec])]
    refine ⟨_, rfl, ?_, ?_, ?_, ?_, ?_, ?_, ?_⟩
    · simp [afterUnload, Rs.Vm.withRec]
    · simp [afterUnload]
    · simp [afterUnload]
    · simp [afterUnload]
    · simp [afterUnload, Rs.Vm.withRec]
    · simp [afterUnload, Rs.Vm.withRec]
    · simp only [afterUnload]
      rw [lookup_cons_eq]
      simp [yielded, Rs.Vm.currentRec]
  · exact hcur
  · first | rfl | exact hcaller
  · exact hr
  · simp

/-- **Calls are atomic.**  From a state whose stack is `base ++ [callee] ++ args`: the call goes through, the callee runs - whatever it
does, as long as, when it executes `Return`, its frame is the one the call pushed, the slots below its base are as the caller left them,
and a result is on top - and `Return` leaves `base ++ [result]`, the caller's frame, and the caller's resume point. -/
theorem call_return_roundtrip (vm : Rs.Vm) (c : Rs.ClosureRec) (base args : List Rs.Value) (callee : Rs.Value)
    (hstk : vm.stack = base ++ [callee] ++ args) (harity : c.arity = (args.length : Int) + 1)
    (hfr : vm.frames = (vm.outer.length : Int) + 1) (hroom : vm.frames ≠ 64) (hlen : (vm.stack.length : Int) ≤ 18446744073709551615)
    (w : Rs.Vm) (locals : List Rs.Value) (result : Rs.Value)
    (hw_frames : w.frames = (afterCall vm c).frames) (hw_outer : w.outer = (afterCall vm c).outer)
    (hw_base : w.slotBase = (afterCall vm c).slotBase) (hw_stack : w.stack = base ++ [callee] ++ args ++ locals ++ [result]) :
    Fns.vm_call_closure c args.length vm = .ok (.ok (), afterCall vm c)
      ∧ ∃ w', Fns.vm_return_impl w = .ok (.ok none, w') ∧ w'.stack = base ++ [result] ∧ w'.ip = vm.ip ∧ w'.frames = vm.frames
          ∧ w'.outer = vm.outer ∧ w'.slotBase = vm.slotBase ∧ w'.curClosure = vm.curClosure := by
  have hl : (vm.stack.length : Int) = base.length + 1 + args.length := by rw [hstk]; simp; omega
  constructor
  · exact call_effect vm c args.length (by omega) (by omega) (by omega) (by omega) hroom hlen
  · have hbase : w.slotBase = (base.length : Int) := by rw [hw_base]; simp only [afterCall]; omega
    have ho : w.outer = vm.outer ++ [(⟨vm.ip, vm.slotBase, vm.curClosure⟩ : Rs.FrameRec)] := by rw [hw_outer]; rfl
    have hf : w.frames = (vm.outer.length : Int) + 2 := by rw [hw_frames]; simp only [afterCall]; omega
    have hs : w.stack = (base ++ [callee] ++ args ++ locals) ++ [result] := hw_stack
    have := return_to_caller w (base ++ [callee] ++ args ++ locals) result vm.outer ⟨vm.ip, vm.slotBase, vm.curClosure⟩ hs ho hf
      (by omega) (by rw [hbase]; simp)
    refine ⟨_, this, ?_, rfl, ?_, rfl, rfl, rfl⟩
    · simp only [hbase, Int.toNat_natCast]
      rw [show base ++ [callee] ++ args ++ locals = base ++ ([callee] ++ args ++ locals) by simp]
      rw [List.take_left']
      rfl
    · simp only []; omega

/-- Non-vacuity: a concrete state with a frame below, a call of a two-parameter closure and the return. -/
def demoCaller : Rs.Vm :=
  { stack := [.Other 1, .Other 50, .Number 3, .Number 4], ip := 21, code := [], consts := [], slotBase := 0, raised := [], handled := .ok (),
    frames := 2, frameIp := 5, outer := [⟨9, 0, .Other 40⟩], curClosure := .Other 41 }
def demoClosure : Rs.ClosureRec := ⟨3, 100, .Other 50⟩

example : Fns.vm_call_closure demoClosure 2 demoCaller = .ok (.ok (), afterCall demoCaller demoClosure) :=
  call_effect demoCaller demoClosure 2 (by decide) (by decide) (by decide) (by decide) (by decide) (by decide)
example : (afterCall demoCaller demoClosure).slotBase = 1 ∧ (afterCall demoCaller demoClosure).frames = 3 := by decide

#print axioms call_wrong_arity
#print axioms call_depth_limit
#print axioms call_effect
#print axioms return_to_caller
#print axioms return_finishes_fiber
#print axioms call_return_roundtrip

end Yarel.FnsTie
