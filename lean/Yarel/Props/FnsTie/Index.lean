/- Ties for utils::validate_integer, Value::try_as_bounded_index, ObjRange::make_bounded_range, ObjRangeIter::next,
ObjVecIter::next, ObjTupleIter::next (models: Yarel/Model/Index.lean, properties C13 and C18). -/
import Yarel.Gen.Fns
import Yarel.Props.FnsTie.Base

namespace Yarel.FnsTie
open Yarel Yarel.Gen

theorem validate_integer_tie (v : Rs.Value) :
    obsGen (Fns.validate_integer v) = obsModel id (Index.validateInteger (toVal v)) := by
  cases v <;> simp [Fns.validate_integer, Index.validateInteger, toVal, obsGen, obsModel, Index.mkErr, kindName, msgFmt,
    Rs.f64TruncNe, Rs.f64ToIsize]
  rename_i bits
  cases h : F64.isIntegral bits <;> simp [obsGen, obsModel, kindName, msgFmt]

theorem validateInteger_ok_range {v : Index.Val} {a : Int} (h : Index.validateInteger v = .ok a) :
    F64.isizeMin ≤ a ∧ a ≤ F64.isizeMax := by
  cases v <;> simp [Index.validateInteger, Index.mkErr] at h
  rename_i bits
  split at h <;> simp at h
  subst h
  exact Index.toIsize_range bits

theorem try_as_bounded_index_tie (v : Rs.Value) (len : Nat) (hlen : (len : Int) ≤ F64.isizeMax) (kind : String) (k : Index.Kind) :
    obsGen (Fns.try_as_bounded_index (len : Int) kind v) = obsModel (fun n : Nat => (n : Int)) (Index.boundedIndex (toVal v) len k) := by
  unfold Fns.try_as_bounded_index Index.boundedIndex
  rcases gen_of_obs (validate_integer_tie v) with ⟨a, hg, hm⟩ | ⟨e, e', hg, hm, hk, hf⟩ | ⟨s, hg, hm⟩
  · have hr := validateInteger_ok_range hm
    rw [hg, hm]
    simp only [Rs.M.bind_ok, Index.normIdx, F64.isizeMin, F64.isizeMax] at *
    by_cases hneg : a < 0
    · rw [if_pos (by simpa using hneg), iadd_isize_ok _ _ (by omega) (by omega)]
      simp only [Rs.M.bind_ok, if_pos hneg]
      by_cases hb : a + (len : Int) < 0 ∨ a + (len : Int) ≥ (len : Int)
      · simp [hb, obsGen, obsModel, Index.mkErr, kindName, msgFmt]
      · rw [iwrap_usize_of_nonneg _ (by omega) (by simp [F64.isizeMax]; omega)]
        simp [hb, obsGen, obsModel]; omega
    · rw [if_neg (by simpa using hneg)]
      simp only [Rs.M.bind_ok, if_neg hneg]
      by_cases hb : a < 0 ∨ a ≥ (len : Int)
      · simp [hb, obsGen, obsModel, Index.mkErr, kindName, msgFmt]
      · rw [iwrap_usize_of_nonneg _ (by omega) (by simp [F64.isizeMax]; omega)]
        simp [hb, obsGen, obsModel]; omega
  · rw [hg, hm]; simp [obsGen, obsModel, hk, hf]
  · rw [hg, hm]; simp [obsGen, obsModel]

/-- `ObjRange::make_bounded_range(limit, type_name)` for every range with `isize` bounds and every limit that is a length. -/
theorem make_bounded_range_tie (b e : Int) (hb : F64.isizeMin ≤ b ∧ b ≤ F64.isizeMax) (he : F64.isizeMin ≤ e ∧ e ≤ F64.isizeMax)
    (len : Nat) (hlen : (len : Int) ≤ F64.isizeMax) (tn : String) (k : Index.Kind) :
    obsGen (Fns.make_bounded_range (len : Int) tn b e)
      = obsModel (fun p : Nat × Nat => ((p.1 : Int), (p.2 : Int))) (Index.boundedRange b e len k) := by
  unfold Fns.make_bounded_range Index.boundedRange
  simp only [Index.normIdx, F64.isizeMin, F64.isizeMax] at *
  have hB : (if decide (b < 0) = true then (Rs.iadd .isize b (len:Int)).bind fun t_1 => Rs.M.ok t_1 else Rs.M.ok b)
      = Rs.M.ok (if b < 0 then b + (len:Int) else b) := by
    by_cases h : b < 0
    · rw [if_pos (by simpa using h), iadd_isize_ok _ _ (by omega) (by omega)]; simp [h]
    · rw [if_neg (by simpa using h)]; simp [h]
  have hE : (if decide (e < 0) = true then (Rs.iadd .isize e (len:Int)).bind fun t_3 => Rs.M.ok t_3 else Rs.M.ok e)
      = Rs.M.ok (if e < 0 then e + (len:Int) else e) := by
    by_cases h : e < 0
    · rw [if_pos (by simpa using h), iadd_isize_ok _ _ (by omega) (by omega)]; simp [h]
    · rw [if_neg (by simpa using h)]; simp [h]
  rw [hB]; simp only [Rs.M.bind_ok]
  have key : ∀ b' e' : Int, -9223372036854775808 ≤ b' → b' ≤ 9223372036854775807 → -9223372036854775808 ≤ e' → e' ≤ 9223372036854775807 →
      obsGen (if (decide (b' < 0) || decide (b' ≥ (len:Int))) = true then
          Rs.M.ok (Except.error { kind := "IndexError", fmt := "{} slice start out of range.", args := ["type_name"] })
        else (Rs.M.ok e').bind fun t_4 =>
          if (decide (t_4 < 0) || decide (t_4 > (len:Int))) = true then
            Rs.M.ok (Except.error { kind := "IndexError", fmt := "{} slice end out of range.", args := ["type_name"] })
          else Rs.M.ok (Except.ok (Rs.iwrap .usize b', Rs.iwrap .usize (if decide (t_4 ≥ b') = true then t_4 else b'))))
      = obsModel (fun p : Nat × Nat => ((p.1 : Int), (p.2 : Int)))
        (if b' < 0 ∨ b' ≥ (len:Int) then Index.mkErr .IndexError (.sliceStartOutOfRange k)
         else if e' < 0 ∨ e' > (len:Int) then Index.mkErr .IndexError (.sliceEndOutOfRange k)
         else .ok (b'.toNat, (if e' ≥ b' then e' else b').toNat)) := by
    intro b' e' hb1 hb2 he1 he2
    by_cases h1 : b' < 0 ∨ b' ≥ (len : Int)
    · simp [h1, obsGen, obsModel, Index.mkErr, kindName, msgFmt]
    · simp only [Rs.M.bind_ok]
      by_cases h2 : e' < 0 ∨ e' > (len : Int)
      · simp [h1, h2, obsGen, obsModel, Index.mkErr, kindName, msgFmt]
      · have w1 : Rs.iwrap .usize b' = b' := iwrap_usize_of_nonneg _ (by omega) (by simp [F64.isizeMax]; omega)
        have w2 : Rs.iwrap .usize (if decide (e' ≥ b') = true then e' else b') = (if e' ≥ b' then e' else b') := by
          rw [iwrap_usize_of_nonneg _ (by split <;> omega) (by simp only [F64.isizeMax]; split <;> omega)]; simp
        simp only [w1, w2]
        simp [h1, h2, obsGen, obsModel]
        constructor
        · omega
        · split <;> omega
  rw [hE]
  exact key (if b < 0 then b + (len:Int) else b) (if e < 0 then e + (len:Int) else e)
    (by split <;> omega) (by split <;> omega) (by split <;> omega) (by split <;> omega)

/-- `ObjRangeIter::new`: the cursor starts at `begin`, the step is +1 iff `begin < end`, else -1 (decided on the bounds
themselves, not on a difference that could overflow). -/
theorem range_iter_new_tie (b e : Int) : Fns.range_iter_new b e = .ok (Index.rangeIterNew b e) := by
  unfold Fns.range_iter_new Index.rangeIterNew
  by_cases h : b < e <;> simp [h]

def valOfNum (i : Int) : Rs.Value := .Number (Index.intToBits i)

/-- `ObjRangeIter::next`: the yielded number, the new cursor, or the overflow panic of `current += step`. -/
theorem range_iter_next_tie (e cur step : Int) :
    (match Fns.range_iter_next cur e step with
      | .ok (some v, c) => Index.Outcome.ok (some v, c)
      | .ok (none, c) => Index.Outcome.ok (none, c)
      | .panic => Index.Outcome.fault .rangeIterOverflow)
    = (match Index.rangeIterNext e cur step with
      | .ok (some i, c) => Index.Outcome.ok (some (valOfNum i), c)
      | .ok (none, c) => Index.Outcome.ok (none, c)
      | .err x => .err x
      | .fault s => .fault s) := by
  unfold Fns.range_iter_next Index.rangeIterNext
  by_cases h : cur = e
  · simp [h]
  · simp only [h, decide_false, if_false, Bool.false_eq_true, F64.isizeMin, F64.isizeMax, Rs.isizeToF64, valOfNum]
    by_cases h2 : cur + step < -9223372036854775808 ∨ cur + step > 9223372036854775807
    · rw [iadd_isize_panic _ _ h2]; simp [h2]
    · rw [iadd_isize_ok _ _ (by omega) (by omega)]; simp [h2]

/-- `ObjVecIter::next` (and, with the same text, `ObjTupleIter::next`): index-based step over the CURRENT elements. -/
theorem vec_iter_next_tie (elems : List Rs.Value) (cur : Nat) (hlen : (elems.length : Int) ≤ 9223372036854775807) :
    Fns.vec_iter_next (cur : Int) elems =
      (match Index.elemIterNext (elems.map toVal) cur with
       | .ok (some _, c) => (match elems[cur]? with | some v => Rs.M.ok (some v, (c : Int)) | none => .panic)
       | .ok (none, c) => .ok (none, (c : Int))
       | _ => .panic) := by
  unfold Fns.vec_iter_next Index.elemIterNext
  simp only [List.length_map]
  by_cases h : cur ≥ elems.length
  · rw [if_pos h, if_pos (decide_eq_true (by simp only [Rs.len]; omega))]
  · have hlt : cur < elems.length := by omega
    have hget : elems[cur]? = some elems[cur] := List.getElem?_eq_getElem hlt
    have hget2 : (elems.map toVal)[cur]? = some (toVal elems[cur]) := by simp [hget]
    have hidx : Rs.idx elems (cur : Int) = .ok elems[cur] := by
      unfold Rs.idx
      rw [if_neg (by omega)]
      simp [hget]
    rw [if_neg h, if_neg (by intro hc; have := of_decide_eq_true hc; simp only [Rs.len] at this; omega)]
    rw [hidx, Rs.M.bind_ok, iadd_usize_ok _ _ (by omega) (by omega), Rs.M.bind_ok, hget2]
    simp only [hget]
    simp

theorem tuple_iter_next_same : @Fns.tuple_iter_next = @Fns.vec_iter_next := rfl

#print axioms validate_integer_tie
#print axioms validateInteger_ok_range
#print axioms try_as_bounded_index_tie
#print axioms make_bounded_range_tie
#print axioms range_iter_new_tie
#print axioms range_iter_next_tie
#print axioms vec_iter_next_tie
#print axioms tuple_iter_next_same

end Yarel.FnsTie
