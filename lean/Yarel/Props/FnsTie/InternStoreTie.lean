/- Ties for the WRITING half of the string intern table: `ObjStringStore::adjust_capacity` and `ObjStringStore::insert` of vm.rs
(`mod string_store`), translated on every run (`Fns.store_adjust_capacity`, `Fns.store_insert`), against the model the C11 theorems
are about (`Intern.rehashInto`, `Intern.Store.adjustCapacity`, `Intern.Store.insert`).  Together with `FnsTie/Intern.lean`
(`find_index`, `get`) every function of the table is now the code as read on this run.

The translated side carries a stored string as (cached hash, text); the model's `Entry` also has the identity of the allocation.
`Rel es a` says: slot by slot, the translated table and the model table hold the same (hash, bytes) or are both vacant.  The ties are
stated as `Agree`: both sides fail together (a panic of the Rust code = a `Fault` of the model) or both succeed with related results.
The probe loop never looks at identities (`findIndexAux_erase`), so `Rel` is all the loop needs.

Bounds on the `loop` of `find_index`: the model gives every probe the capacity of the table it probes; the translated functions take
one bound for all the probes they make.  `adjust_capacity n` probes only the new table (capacity `n`); `insert` probes the table after
the growth, if any.  The ties are stated for exactly these bounds.

The growth test of `insert` is computed in floating point by the code (`(len as f64 * MAX_LOAD) as usize`) and in integers by the model
(`len * 3 / 4`); `grow_test_exact` shows, by evaluating the verified soft-float, that the two agree for every capacity 2^k, 2 ≤ k ≤ 52
(the capacities a table can have: `TInv` keeps them powers of two ≥ 4; 2^52 slots of 8 bytes exceed any address space). -/
import Yarel.Gen.Fns
import Yarel.Props.FnsTie.Base
import Yarel.Props.FnsTie.Intern
import Yarel.Model.Intern
import Yarel.Proofs.InternInv

namespace Yarel.FnsTie
open Yarel Yarel.Gen

/-- A stored string as the translated code has it. -/
abbrev TEntry := BitVec 64 × String

def eraseE (e : Intern.Entry) : UInt64 × List UInt8 := (e.hash, e.text)
def viewP (p : TEntry) : UInt64 × List UInt8 := (UInt64.ofBitVec p.1, bytesOf p.2)

/-- Slot by slot the same (hash, bytes), or both vacant. -/
def Rel (es : List (Option TEntry)) (a : Array (Option Intern.Entry)) : Prop :=
  es.map (Option.map viewP) = a.toList.map (Option.map eraseE)

theorem Rel.length {es : List (Option TEntry)} {a : Array (Option Intern.Entry)} (h : Rel es a) : es.length = a.size := by
  have := congrArg List.length h
  simpa using this

theorem Rel.get {es : List (Option TEntry)} {a : Array (Option Intern.Entry)} (h : Rel es a) (i : Nat) :
    (es[i]?).map (Option.map viewP) = (a[i]?).map (Option.map eraseE) := by
  have := congrArg (fun l => l[i]?) h
  simpa [List.getElem?_map] using this

theorem rel_viewSlots (ids : Nat → Nat) (es : List (Option TEntry)) : Rel es (viewSlots ids es) := by
  unfold Rel
  apply List.ext_getElem?
  intro i
  have hv : (viewSlots ids es).toList[i]? = (viewSlots ids es)[i]? := by simp
  rw [List.getElem?_map, List.getElem?_map, hv, viewSlots_get]
  cases es[i]? with
  | none => rfl
  | some o => cases o <;> rfl

/-- The probe loop reads hashes and bytes only: two tables that agree on those give the same answer. -/
theorem findIndexAux_erase (a b : Array (Option Intern.Entry))
    (h : a.toList.map (Option.map eraseE) = b.toList.map (Option.map eraseE)) (hash : UInt64) (text : List UInt8) (mask : Nat) :
    ∀ fuel index, Intern.findIndexAux a hash text mask fuel index = Intern.findIndexAux b hash text mask fuel index := by
  intro fuel
  induction fuel with
  | zero => intro index; rfl
  | succ n ih =>
    intro index
    unfold Intern.findIndexAux
    have hg : (a[index]?).map (Option.map eraseE) = (b[index]?).map (Option.map eraseE) := by
      have := congrArg (fun l => l[index]?) h
      simpa [List.getElem?_map] using this
    cases ha : a[index]? with
    | none =>
      cases hb : b[index]? with
      | none => rfl
      | some y => rw [ha, hb] at hg; simp at hg
    | some x =>
      cases hb : b[index]? with
      | none => rw [ha, hb] at hg; simp at hg
      | some y =>
        rw [ha, hb] at hg
        simp only [Option.map_some, Option.some.injEq] at hg
        cases x with
        | none =>
          cases y with
          | none => rfl
          | some ey => simp at hg
        | some ex =>
          cases y with
          | none => simp at hg
          | some ey =>
            simp only [Option.map_some, Option.some.injEq, eraseE, Prod.mk.injEq] at hg
            simp only [hg.1, hg.2]
            rw [ih]

/-- `find_index` on any table related to the model's. -/
theorem store_find_index_rel {es : List (Option TEntry)} {a : Array (Option Intern.Entry)} (hr : Rel es a) (hlen : es.length < 2 ^ 64)
    (hash : BitVec 64) (s : String) (mask fuel : Nat) :
    Fns.store_find_index fuel es (hash, s) (mask : Int)
      = obsFind (Intern.findIndexAux a (UInt64.ofBitVec hash) (bytesOf s) mask fuel ((UInt64.ofBitVec hash).toNat &&& mask)) := by
  rw [store_find_index_tie (fun _ => 0) es hash s mask hlen fuel]
  rw [findIndexAux_erase (viewSlots (fun _ => 0) es) a ((rel_viewSlots _ es).symm.trans hr)]

/-- Both sides fail together, or both succeed with related results. -/
def Agree {α β : Type} (R : α → β → Prop) : Rs.M α → Except Intern.Fault β → Prop
  | .ok a, .ok b => R a b
  | .panic, .error _ => True
  | _, _ => False

@[simp] theorem agree_ok {α β : Type} (R : α → β → Prop) (a : α) (b : β) : Agree R (.ok a) (.ok b) = R a b := rfl
@[simp] theorem agree_panic {α β : Type} (R : α → β → Prop) (f : Intern.Fault) : Agree R (.panic : Rs.M α) (.error f : Except Intern.Fault β) = True := rfl

/-- One pass of the `for entry in self.entries.iter_mut()` loop of `adjust_capacity`, as `Gen/Fns.lean` has it. -/
def rehashStep (fuel_ : Nat) (mask : Int) (entry : Option TEntry) (s_2 : List (Option TEntry)) :
    Rs.M (Option TEntry × List (Option TEntry)) :=
  let new_entries := s_2;
  (if (entry).isNone then
  (Rs.M.ok (entry, new_entries))
  else
  (Rs.M.bind (Rs.unwrap entry) fun t_3 =>
  (let entry_4 := t_3;
  (let key := ((entry_4.1), (entry_4.2));
  (Rs.M.bind (Fns.store_find_index fuel_ new_entries key mask) fun r_5 =>
  (let index := r_5;
  (let t_6 := entry;
  (let entry := none;
  (Rs.M.bind (Rs.setIdx new_entries index t_6) fun t_7 =>
  (let new_entries := t_7;
  (Rs.M.ok (entry, new_entries))))))))))))

theorem rel_set {new : List (Option TEntry)} {newM : Array (Option Intern.Entry)} (hr : Rel new newM) (i : Nat) (h : i < newM.size)
    (p : TEntry) (e : Intern.Entry) (hpe : viewP p = eraseE e) : Rel (new.set i (some p)) (newM.set i (some e) h) := by
  unfold Rel at *
  rw [Array.toList_set, List.map_set, List.map_set, hr]
  simp [hpe]

/-- The rehash loop: the translated loop moves the occupied slots of the old table into the new one exactly as `rehashInto` does
(old slots in slot order, each to the slot `find_index` names in the NEW table as it stands), for every pair of tables. -/
theorem rehash_loop_tie (mask : Nat) :
    ∀ (old : List (Option TEntry)) (oldM : List (Option Intern.Entry)) (new : List (Option TEntry)) (newM : Array (Option Intern.Entry)),
      old.map (Option.map viewP) = oldM.map (Option.map eraseE) → Rel new newM → new.length < 2 ^ 64 →
      Agree (fun r m => Rel r.2 m) (Rs.forInMut old new (rehashStep newM.size (mask : Int))) (Intern.rehashInto newM mask oldM) := by
  intro old
  induction old with
  | nil =>
    intro oldM new newM ho hr _
    cases oldM with
    | nil => simpa [Rs.forInMut, Intern.rehashInto] using hr
    | cons _ _ => simp at ho
  | cons x rest ih =>
    intro oldM new newM ho hr hlen
    cases oldM with
    | nil => simp at ho
    | cons xM restM =>
      simp only [List.map_cons, List.cons.injEq] at ho
      obtain ⟨hx, hrest⟩ := ho
      unfold Rs.forInMut
      cases x with
      | none =>
        cases xM with
        | some e => simp at hx
        | none =>
          simp only [rehashStep, Option.isNone_none, if_true, Rs.M.bind_ok, Intern.rehashInto]
          have := ih restM new newM hrest hr hlen
          revert this
          cases Rs.forInMut rest new (rehashStep newM.size (mask : Int)) <;>
            cases Intern.rehashInto newM mask restM <;> simp [Agree]
      | some p =>
        cases xM with
        | none => simp at hx
        | some e =>
          simp only [Option.map_some, Option.some.injEq] at hx
          have hh : UInt64.ofBitVec p.1 = e.hash := by have := congrArg Prod.fst hx; simpa [viewP, eraseE] using this
          have ht : bytesOf p.2 = e.text := by have := congrArg Prod.snd hx; simpa [viewP, eraseE] using this
          simp only [rehashStep, Option.isNone_some, Bool.false_eq_true, if_false, Rs.unwrap, Rs.M.bind_ok]
          rw [store_find_index_rel hr hlen p.1 p.2 mask newM.size, hh, ht]
          unfold Intern.rehashInto Intern.findIndex
          cases hf : Intern.findIndexAux newM e.hash e.text mask newM.size (e.hash.toNat &&& mask) with
          | error f => simp [obsFind, Agree]
          | ok i =>
            simp only [obsFind, Rs.M.bind_ok, Rs.setIdx]
            have hneg : ¬ ((i : Int) < 0) := by omega
            simp only [hneg, if_false, Int.toNat_natCast, hr.length]
            by_cases hi : i < newM.size
            · simp only [hi, if_true, dif_pos, Rs.M.bind_ok]
              have hr' := rel_set hr i hi p e hx
              have hlen' : (new.set i (some p)).length < 2 ^ 64 := by simpa using hlen
              have := ih restM (new.set i (some p)) (newM.set i (some e) hi) hrest hr' hlen'
              rw [Array.size_set] at this
              revert this
              cases Rs.forInMut rest (new.set i (some p)) (rehashStep newM.size (mask : Int)) <;>
                cases Intern.rehashInto (newM.set i (some e) hi) mask restM <;> simp [Agree]
            · simp [hi, Agree]

/-- `adjust_capacity` as read, with the loop body named. -/
theorem store_adjust_capacity_unfold (fuel_ : Nat) (newCap : Int) (es : List (Option TEntry)) (maskT : Int) :
    Fns.store_adjust_capacity fuel_ newCap es maskT =
      Rs.M.bind (Rs.isub .usize newCap (1 : Int)) fun mask =>
      Rs.M.bind (Rs.forInMut es (List.replicate newCap.toNat none) (rehashStep fuel_ mask)) fun jm =>
      Rs.M.ok ((), jm.2, mask) := rfl

/-- `rehashInto` writes into the new table slot by slot: its capacity stays what it was. -/
theorem rehashInto_size (mask : Nat) : ∀ (l : List (Option Intern.Entry)) (new r : Array (Option Intern.Entry)),
    Intern.rehashInto new mask l = .ok r → r.size = new.size := by
  intro l
  induction l with
  | nil => intro new r h; simp [Intern.rehashInto] at h; rw [← h]
  | cons x rest ih =>
    intro new r h
    cases x with
    | none => exact ih new r (by simpa [Intern.rehashInto] using h)
    | some e =>
      unfold Intern.rehashInto at h
      cases hf : Intern.findIndex new e.hash e.text mask with
      | error f => rw [hf] at h; simp at h
      | ok i =>
        rw [hf] at h
        by_cases hi : i < new.size
        · simp only [hi, dif_pos] at h
          have := ih _ r h
          simpa using this
        · simp [hi] at h

theorem adjustCapacity_size {s s1 : Intern.Store} {n : Nat} (h : s.adjustCapacity n = .ok s1) : s1.entries.size = n := by
  unfold Intern.Store.adjustCapacity at h
  cases hr : Intern.rehashInto (Array.replicate n none) (n - 1) s.entries.toList with
  | error f => rw [hr] at h; simp at h
  | ok es =>
    rw [hr] at h
    simp only [Except.ok.injEq] at h
    rw [← h]
    simpa using rehashInto_size (n - 1) _ _ _ hr

theorem rel_replicate (n : Nat) : Rel (List.replicate n none) (Array.replicate n none) := by
  simp [Rel]

/-- `ObjStringStore::adjust_capacity`: a new all-vacant table of the requested capacity, the occupied slots re-inserted in slot order,
the mask set to the capacity minus one.  The translated body and the model fail together or produce related tables and the same mask
(`size` is not touched by either).  The capacity is positive in every call the code makes (twice the current one). -/
theorem store_adjust_capacity_tie {es : List (Option TEntry)} {a : Array (Option Intern.Entry)} (hr : Rel es a) (size mask0 : Nat)
    (maskT : Int) (newCap : Nat) (hpos : 0 < newCap) (hcap : newCap < 2 ^ 64) :
    Agree (fun r (s' : Intern.Store) => Rel r.2.1 s'.entries ∧ r.2.2 = (s'.mask : Int) ∧ s'.size = size)
      (Fns.store_adjust_capacity newCap (newCap : Int) es maskT) (Intern.Store.adjustCapacity ⟨a, size, mask0⟩ newCap) := by
  rw [store_adjust_capacity_unfold]
  unfold Intern.Store.adjustCapacity
  rw [isub_usize_ok (newCap : Int) 1 (by omega) (by omega)]
  simp only [Rs.M.bind_ok, Int.toNat_natCast]
  have hm : (newCap : Int) - 1 = ((newCap - 1 : Nat) : Int) := by omega
  rw [hm]
  have ho : es.map (Option.map viewP) = a.toList.map (Option.map eraseE) := hr
  have hlen : (List.replicate newCap (none : Option TEntry)).length < 2 ^ 64 := by simpa using hcap
  have := rehash_loop_tie (newCap - 1) es a.toList (List.replicate newCap none) (Array.replicate newCap none) ho (rel_replicate newCap) hlen
  rw [Array.size_replicate] at this
  revert this
  cases Rs.forInMut es (List.replicate newCap none) (rehashStep newCap ((newCap - 1 : Nat) : Int)) <;>
    cases Intern.rehashInto (Array.replicate newCap none) (newCap - 1) a.toList <;> simp [Agree]

/-- The growth threshold as the code computes it: `(len as f64 * MAX_LOAD) as usize` with `MAX_LOAD = 0.75`. -/
def growCap (len : Nat) : Int := Rs.f64ToUsize (Rs.f64Mul (Rs.usizeToF64 (len : Int)) (4604930618986332160 : UInt64))

theorem grow_test_exact_list : ((List.range' 2 51).all fun k => growCap (2 ^ k) == ((2 ^ k * 3 / 4 : Nat) : Int)) = true := by
  decide +kernel

/-- For every capacity a table can have, the floating-point threshold of the code is the integer threshold of the model. -/
theorem grow_test_exact (k : Nat) (h2 : 2 ≤ k) (h52 : k ≤ 52) : growCap (2 ^ k) = ((2 ^ k * 3 / 4 : Nat) : Int) := by
  have h := List.all_eq_true.mp grow_test_exact_list k (by simp [List.mem_range'_1]; omega)
  simpa using h

/-- The second half of `insert` as `Gen/Fns.lean` has it: probe, look at the slot, count, store. -/
def insertTail (fuel_ : Nat) (value : TEntry) (self_entries : List (Option TEntry)) (self_size : Int) (self_mask : Int) :
    Rs.M ((Option TEntry) × (List (Option TEntry)) × Int × Int) :=
  (let key := ((value.1), (value.2));
  (Rs.M.bind (Fns.store_find_index fuel_ self_entries key self_mask) fun r_6 =>
  (let index := r_6;
  (Rs.M.bind (Rs.idx self_entries index) fun t_7 =>
  (let is_new_key := (t_7).isNone;
  (Rs.M.bind (if is_new_key then
  (Rs.M.bind (Rs.iadd .usize self_size (1 : Int)) fun t_8 =>
  (let self_size := t_8;
  (Rs.M.ok self_size)))
  else
  (Rs.M.ok self_size)) fun j_9 =>
  let self_size := j_9;
  (Rs.M.bind (Rs.idx self_entries index) fun t_10 =>
  (Rs.M.bind (Rs.setIdx self_entries index (some value)) fun t_11 =>
  (let self_entries := t_11;
  (Rs.M.ok (t_10, self_entries, self_size, self_mask)))))))))))

/-- `insert` as read, with its second half named. -/
theorem store_insert_unfold (fuel_ : Nat) (value : TEntry) (es : List (Option TEntry)) (size mask : Int) :
    Fns.store_insert fuel_ value es size mask =
      Rs.M.bind (Rs.iadd .usize size (1 : Int)) fun t_1 =>
      Rs.M.bind (if (decide (t_1 > (Rs.f64ToUsize (Rs.f64Mul (Rs.usizeToF64 (Rs.len es)) (4604930618986332160 : UInt64))))) then
          (Rs.M.bind (Rs.imul .usize (Rs.len es) (2 : Int)) fun t_2 =>
          (Rs.M.bind (Fns.store_adjust_capacity fuel_ t_2 es mask) fun r_3 => Rs.M.ok (r_3.2.1, r_3.2.2)))
        else Rs.M.ok (es, mask)) fun j_5 =>
      insertTail fuel_ value j_5.1 size j_5.2 := rfl

set_option maxRecDepth 8192 in
/-- `ObjStringStore::insert`: grow first when the new element would push the load over 3/4, then probe the (possibly new) table,
store the string there - REPLACING an equal key -, count it if the slot was vacant, answer what the slot held.  The translated body and
the model fail together or produce related tables, equal sizes and masks; the previous occupant the code answers is the one the model's
table held in that slot. -/
theorem store_insert_tie {es : List (Option TEntry)} {a : Array (Option Intern.Entry)} (hr : Rel es a) (size mask : Nat)
    (k : Nat) (h2 : 2 ≤ k) (h52 : k ≤ 52) (hcap : es.length = 2 ^ k) (hsize : size ≤ es.length)
    (p : TEntry) (e : Intern.Entry) (hpe : viewP p = eraseE e) :
    Agree (fun r (s' : Intern.Store) => Rel r.2.1 s'.entries ∧ r.2.2.1 = (s'.size : Int) ∧ r.2.2.2 = (s'.mask : Int))
      (Fns.store_insert (if (⟨a, size, mask⟩ : Intern.Store).needsGrow then es.length * 2 else es.length) p es (size : Int) (mask : Int))
      (Intern.Store.insert ⟨a, size, mask⟩ e) := by
  have hlt : (2 : Nat) ^ k ≤ 2 ^ 52 := Nat.pow_le_pow_right (by omega) h52
  have hasz : a.size = 2 ^ k := by rw [← hr.length, hcap]
  have hh : UInt64.ofBitVec p.1 = e.hash := by have := congrArg Prod.fst hpe; simpa [viewP, eraseE] using this
  have ht : bytesOf p.2 = e.text := by have := congrArg Prod.snd hpe; simpa [viewP, eraseE] using this
  -- the second half: probe, store, count - for any related pair of tables
  have tail : ∀ (es1 : List (Option TEntry)) (a1 : Array (Option Intern.Entry)) (mask1 : Nat), Rel es1 a1 → es1.length < 2 ^ 64 →
      Agree (fun r (s' : Intern.Store) => Rel r.2.1 s'.entries ∧ r.2.2.1 = (s'.size : Int) ∧ r.2.2.2 = (s'.mask : Int))
        (insertTail a1.size p es1 (size : Int) (mask1 : Int))
        (match Intern.findIndex a1 e.hash e.text mask1 with
          | .error f => .error f
          | .ok i =>
            if h : i < a1.size then
              .ok { entries := a1.set i (some e) h, size := if a1[i].isNone then size + 1 else size, mask := mask1 }
            else .error .oob) := by
    intro es1 a1 mask1 hr1 hlen1
    unfold insertTail
    simp only []
    rw [store_find_index_rel hr1 hlen1 p.1 p.2 mask1 a1.size, hh, ht]
    unfold Intern.findIndex
    cases hf : Intern.findIndexAux a1 e.hash e.text mask1 a1.size (e.hash.toNat &&& mask1) with
    | error f => simp [obsFind, Agree]
    | ok i =>
      simp only [obsFind, Rs.M.bind_ok, Rs.idx, Rs.setIdx]
      have hneg : ¬ ((i : Int) < 0) := by omega
      simp only [hneg, if_false, Int.toNat_natCast]
      by_cases hi : i < es1.length
      · have hi' : i < a1.size := by rw [← hr1.length]; exact hi
        have hget := hr1.get i
        rw [List.getElem?_eq_getElem hi, Array.getElem?_eq_getElem hi'] at hget
        simp only [Option.map_some, Option.some.injEq] at hget
        have hnone : (es1[i]).isNone = (a1[i]).isNone := by
          cases h1 : es1[i] <;> cases h2 : a1[i] <;> simp_all
        rw [List.getElem?_eq_getElem hi]
        simp only [Rs.M.bind_ok, hi, if_true, hi', dif_pos]
        have hsz : (size : Int) + 1 ≤ 18446744073709551615 := by
          have : size ≤ 2 ^ 52 := by omega
          omega
        cases hn : (a1[i]).isNone with
        | true =>
          rw [hn] at hnone
          simp only [hnone, if_true, iadd_usize_ok (size : Int) 1 (by omega) hsz, Rs.M.bind_ok, agree_ok]
          refine ⟨rel_set hr1 i hi' p e hpe, ?_⟩
          simp
        | false =>
          rw [hn] at hnone
          simp only [hnone, Bool.false_eq_true, if_false, Rs.M.bind_ok, agree_ok]
          refine ⟨rel_set hr1 i hi' p e hpe, ?_⟩
          simp
      · have hi' : ¬ i < a1.size := by rw [← hr1.length]; exact hi
        have : es1[i]? = none := List.getElem?_eq_none (by omega)
        simp [this, hi', Agree]
  rw [store_insert_unfold]
  unfold Intern.Store.insert
  have hsz1 : (size : Int) + 1 ≤ 18446744073709551615 := by
    have : size ≤ 2 ^ 52 := by omega
    omega
  rw [iadd_usize_ok (size : Int) 1 (by omega) hsz1]
  simp only [Rs.M.bind_ok]
  have hgrow : Rs.f64ToUsize (Rs.f64Mul (Rs.usizeToF64 (Rs.len es)) (4604930618986332160 : UInt64)) = ((es.length * 3 / 4 : Nat) : Int) := by
    have := grow_test_exact k h2 h52
    unfold growCap at this
    rw [Rs.len, hcap]
    exact_mod_cast this
  rw [hgrow]
  have hng : (⟨a, size, mask⟩ : Intern.Store).needsGrow = decide ((size : Int) + 1 > ((es.length * 3 / 4 : Nat) : Int)) := by
    unfold Intern.Store.needsGrow
    rw [← hr.length]
    by_cases hc : size + 1 > es.length * 3 / 4
    · simp [hc]; omega
    · simp [hc]; omega
  rw [← hng]
  cases hg : (⟨a, size, mask⟩ : Intern.Store).needsGrow with
  | true =>
    simp only [if_true]
    have hmul : Rs.imul .usize (Rs.len es) (2 : Int) = .ok ((es.length * 2 : Nat) : Int) := by
      rw [Rs.len, imul_usize_ok _ _ (by omega) (by rw [hcap]; omega)]
      simp
    rw [hmul]
    simp only [Rs.M.bind_ok]
    have hadj := store_adjust_capacity_tie hr size mask (mask : Int) (es.length * 2) (by rw [hcap]; have := Nat.two_pow_pos k; omega) (by rw [hcap]; omega)
    rw [← hr.length]
    revert hadj
    cases hA : Fns.store_adjust_capacity (es.length * 2) ((es.length * 2 : Nat) : Int) es (mask : Int) with
    | panic =>
      cases hB : Intern.Store.adjustCapacity ⟨a, size, mask⟩ (es.length * 2) with
      | error f => intro _; simp [Agree]
      | ok s1 => simp [Agree]
    | ok r =>
      cases hB : Intern.Store.adjustCapacity ⟨a, size, mask⟩ (es.length * 2) with
      | error f => simp [Agree]
      | ok s1 =>
        simp only [agree_ok, Rs.M.bind_ok]
        intro ⟨hr1, hm1, hs1⟩
        have hsz := adjustCapacity_size hB
        obtain ⟨a1, sz1, m1⟩ := s1
        simp only at hr1 hm1 hs1 hsz
        subst hs1
        have hl1 : r.2.1.length < 2 ^ 64 := by rw [hr1.length, hsz, hcap]; omega
        have := tail r.2.1 a1 m1 hr1 hl1
        rw [← hm1] at this
        rw [← hsz]
        exact this
  | false =>
    simp only [Bool.false_eq_true, if_false, Rs.M.bind_ok]
    have := tail es a mask hr (by rw [hcap]; omega)
    rw [hr.length]
    exact this

attribute [local irreducible] Agree in
/-- On every table the interpreter can reach (`Intern.Inv`: the invariant the C11 theorems establish for every history of string
creations), of at most 2^52 slots, the code's `insert` as read on this run and the model's `insert` fail together or lead to related
tables with the same count and mask: the headline theorems of C11 (`intern_id_iff_bytes`, ...) are about the code's own table
functions. -/
theorem store_insert_on_reachable (H : List UInt8 → UInt64) (s : Intern.Store) (h : Intern.Inv H s) (hbig : s.entries.size ≤ 2 ^ 52)
    {es : List (Option TEntry)} (hr : Rel es s.entries) (p : TEntry) (e : Intern.Entry) (hpe : viewP p = eraseE e) :
    Agree (fun r (s' : Intern.Store) => Rel r.2.1 s'.entries ∧ r.2.2.1 = (s'.size : Int) ∧ r.2.2.2 = (s'.mask : Int))
      (Fns.store_insert (if s.needsGrow then es.length * 2 else es.length) p es (s.size : Int) (s.mask : Int))
      (s.insert e) := by
  obtain ⟨k, hk⟩ := h.cap
  have hk52 : k + 2 ≤ 52 := by
    rw [hk] at hbig
    by_cases hc : k + 2 ≤ 52
    · exact hc
    · have h53 : 53 ≤ k + 2 := by omega
      have h1 : 2 ^ 53 ≤ 2 ^ (k + 2) := Nat.pow_le_pow_right (by omega) h53
      omega
  have hsz : s.size ≤ es.length := by
    have := h.load
    rw [hr.length]
    omega
  obtain ⟨a, size, mask⟩ := s
  exact store_insert_tie hr size mask (k + 2) (by omega) hk52 (by rw [hr.length]; exact hk) hsz p e hpe

/-- `ObjStringStore::get` on any table related to the model's: both fail together or find related entries (or both nothing). -/
theorem store_get_rel {es : List (Option TEntry)} {a : Array (Option Intern.Entry)} (hr : Rel es a) (hlen : es.length < 2 ^ 64)
    (size mask : Nat) (hash : BitVec 64) (s : String) :
    Agree (fun (o : Option TEntry) (o' : Option Intern.Entry) => o.map viewP = o'.map eraseE)
      (Fns.store_get a.size (hash, s) es (mask : Int)) (Intern.Store.get ⟨a, size, mask⟩ (UInt64.ofBitVec hash) (bytesOf s)) := by
  unfold Fns.store_get Intern.Store.get Intern.findIndex
  rw [store_find_index_rel hr hlen hash s mask a.size]
  cases hf : Intern.findIndexAux a (UInt64.ofBitVec hash) (bytesOf s) mask a.size ((UInt64.ofBitVec hash).toNat &&& mask) with
  | error f => simp [obsFind, Agree]
  | ok i =>
    have hneg : ¬ ((i : Int) < 0) := by omega
    have hget := hr.get i
    simp only [obsFind, Rs.M.bind_ok, Rs.idx, hneg, if_false, Int.toNat_natCast]
    cases h1 : es[i]? with
    | none =>
      cases h2 : a[i]? with
      | none => simp [Agree]
      | some y => rw [h1, h2] at hget; simp at hget
    | some x =>
      cases h2 : a[i]? with
      | none => rw [h1, h2] at hget; simp at hget
      | some y =>
        rw [h1, h2] at hget
        simp only [Option.map_some, Option.some.injEq] at hget
        cases x <;> cases y <;> simp_all [Agree]

#print axioms store_get_rel
#print axioms store_insert_on_reachable
#print axioms findIndexAux_erase
#print axioms store_find_index_rel
#print axioms rehash_loop_tie
#print axioms store_adjust_capacity_tie
#print axioms grow_test_exact
#print axioms store_insert_tie

end Yarel.FnsTie
