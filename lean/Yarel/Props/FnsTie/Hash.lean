/- Ties for utils::hash_number (model HashMapM.hashNumberFixed, property C12) and FnvHasher::write (model Intern.fnvWrite,
property C11). -/
import Yarel.Gen.Fns
import Yarel.Props.FnsTie.Base
import Yarel.Model.HashMapM
import Yarel.Model.Intern

namespace Yarel.FnsTie
open Yarel Yarel.Gen

/-- `utils::hash_number`: the translated body is the model's hash (with the −0 normalisation of the repair F17). -/
theorem hash_number_tie (bits : UInt64) :
    Fns.hash_number bits = .ok (HashMapM.hashNumberFixed bits).toBitVec := by
  unfold Fns.hash_number HashMapM.hashNumberFixed HashMapM.hashNumber
  simp only [Rs.f64Eq, Rs.wshl, Rs.wshr, F64.posZero]
  rfl

theorem bvmul_fnv (x : BitVec 64) :
    Rs.bvmul (x.setWidth 128) (16777619#128) = .ok ((x.setWidth 128) * (16777619#128)) := by
  unfold Rs.bvmul
  have h1 : (x.setWidth 128).toNat = x.toNat := by
    simp only [BitVec.toNat_setWidth]
    exact Nat.mod_eq_of_lt (Nat.lt_of_lt_of_le x.isLt (by decide))
  have h2 : (16777619#128).toNat = 16777619 := by decide
  rw [h1, h2, if_pos]
  have := x.isLt
  have e : (2:Nat) ^ 128 = 2 ^ 64 * 2 ^ 64 := by decide
  rw [e]
  calc x.toNat * 16777619 < 2 ^ 64 * 16777619 := Nat.mul_lt_mul_of_pos_right this (by decide)
    _ ≤ 2 ^ 64 * 2 ^ 64 := Nat.mul_le_mul_left _ (by decide)

theorem fnv_step (x : BitVec 64) : ((x.setWidth 128) * (16777619#128)).setWidth 64 = x * 16777619#64 := by
  apply BitVec.eq_of_toNat_eq
  have h1 : (x.setWidth 128).toNat = x.toNat := by
    simp only [BitVec.toNat_setWidth]
    exact Nat.mod_eq_of_lt (Nat.lt_of_lt_of_le x.isLt (by decide))
  have h2 : (16777619#128).toNat = 16777619 := by decide
  have h3 : (16777619#64).toNat = 16777619 := by decide
  rw [BitVec.toNat_setWidth, BitVec.toNat_mul, BitVec.toNat_mul, h1, h2, h3]
  have e : (2:Nat) ^ 128 = 2 ^ 64 * 2 ^ 64 := by decide
  rw [e, Nat.mod_mul_left_mod]

/-- `FnvHasher::write`: never panics (the 128-bit product cannot overflow) and folds exactly like the model's `fnvWrite`. -/
theorem fnv_write_tie (msg : List UInt8) (h : UInt64) :
    Fns.fnv_write (msg.map (·.toBitVec)) h.toBitVec = .ok ((), (Intern.fnvWrite h msg).toBitVec) := by
  unfold Fns.fnv_write Intern.fnvWrite
  induction msg generalizing h with
  | nil => simp [Rs.forIn]
  | cons c rest ih =>
    simp only [List.map_cons, Rs.forIn, List.foldl_cons]
    rw [bvmul_fnv, Rs.M.bind_ok, fnv_step]
    have e1 : (h.toBitVec ^^^ BitVec.setWidth 64 c.toBitVec) * 16777619#64 = ((h ^^^ c.toUInt64) * 16777619).toBitVec := by
      rfl
    simp only [Rs.M.bind_ok]
    rw [e1]
    exact ih ((h ^^^ c.toUInt64) * 16777619)

#print axioms hash_number_tie
#print axioms bvmul_fnv
#print axioms fnv_step
#print axioms fnv_write_tie

end Yarel.FnsTie
