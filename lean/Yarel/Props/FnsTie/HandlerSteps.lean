/- Ties for the exception-handler mechanics translated from the source on every run (`Gen/Fns.lean`): `ExcHandler::has_catch_block`,
`ObjFiber::{push_exc_handler, pop_exc_handler, take_return_data, record_error_site}` and `Vm::{push_exc_handler_impl,
pop_exc_handler_impl, unwind_stack, throw_impl, jump_finally_impl, end_finally_impl}`, over the abstract interpreter state `Rs.Vm`.
These are the statements of property C08's mechanism theorems (`unwind_contract`, `handler_lifo`, `finally_flag`, … of Props/C08,
proved there of the hand-written model) proved HERE of the code as translated: an edit of one of these Rust functions that changes
what it does to the handler stack, the value stack, the frames, the flag or the instruction pointer breaks a theorem below.
The order "close the captured variables, THEN cut the stack" (repair F11) is part of the statements: `closed` records the stack
height each `close_upvalues` call saw. -/
import Yarel.Gen.Fns
import Yarel.Props.FnsTie.Base
import Yarel.Props.FnsTie.VmSteps
set_option maxRecDepth 2000
namespace Yarel.FnsTie
open Yarel Yarel.Gen

theorem popHandler_append (vm : Rs.Vm) (rest : List Rs.Handler) (h : Rs.Handler) (hh : vm.handlers = rest ++ [h]) :
    Rs.Vm.popHandler vm = .ok (some h, { vm with handlers := rest }) := by
  unfold Rs.Vm.popHandler
  simp [hh]

theorem popHandler_empty (vm : Rs.Vm) (hh : vm.handlers = []) :
    Rs.Vm.popHandler vm = .ok (none, vm) := by
  unfold Rs.Vm.popHandler
  cases vm
  simp_all

theorem peek0_append (vm : Rs.Vm) (s : List Rs.Value) (v : Rs.Value) (hs : vm.stack = s ++ [v]) : Rs.Vm.peek vm 0 = .ok v := by
  unfold Rs.Vm.peek
  simp [hs]

/-- `PopExcHandler`: the innermost handler is dropped (nothing happens when there is none); nothing else changes. -/
theorem vm_pop_handler_effect (vm : Rs.Vm) :
    Fns.vm_pop_exc_handler_impl vm = .ok ((), { vm with handlers := vm.handlers.dropLast }) := by
  simp [Fns.vm_pop_exc_handler_impl, Fns.fiber_pop_exc_handler, Rs.Vm.popHandler]

/-- `ObjFiber::push_exc_handler`: the new handler records the two addresses, the CURRENT height of the value stack and the
CURRENT number of frames, and becomes the innermost one. -/
theorem fiber_push_handler_effect (vm : Rs.Vm) (c f : Int) :
    Fns.fiber_push_exc_handler c f vm =
      .ok ((), { vm with handlers := vm.handlers ++ [⟨c, f, (vm.stack.length : Int), vm.frames⟩] }) := by
  simp [Fns.fiber_push_exc_handler, Rs.len]

/-- `PushExcHandler try_size catch_size`: reads its two operands; the catch address is (offset after the operands) + try_size,
the finally address that + catch_size; the handler records the current stack height and frame count. -/
theorem vm_push_handler_effect (vm : Rs.Vm) (pre post : List (BitVec 8)) (lo1 hi1 lo2 hi2 : BitVec 8)
    (hc : vm.code = pre ++ lo1 :: hi1 :: lo2 :: hi2 :: post) (hip : vm.ip = (pre.length : Int)) :
    Fns.vm_push_exc_handler_impl vm =
      .ok ((), { vm with ip := vm.ip + 4,
                         handlers := vm.handlers ++ [⟨vm.ip + 4 + (u16 lo1 hi1 : Nat), vm.ip + 4 + ((u16 lo1 hi1 : Nat) + (u16 lo2 hi2 : Nat) : Int),
                                                     (vm.stack.length : Int), vm.frames⟩] }) := by
  unfold Fns.vm_push_exc_handler_impl
  rw [readShort_at vm pre (lo2 :: hi2 :: post) lo1 hi1 hc hip]
  simp only [Rs.M.bind_ok]
  have hc2 : ({ vm with ip := vm.ip + 2 } : Rs.Vm).code = (pre ++ [lo1, hi1]) ++ lo2 :: hi2 :: post := by simp [hc]
  have hip2 : ({ vm with ip := vm.ip + 2 } : Rs.Vm).ip = ((pre ++ [lo1, hi1]).length : Int) := by simp [hip]
  rw [readShort_at { vm with ip := vm.ip + 2 } (pre ++ [lo1, hi1]) post lo2 hi2 hc2 hip2]
  simp only [Rs.M.bind_ok, intOfBv_usize_16, short_toNat]
  have h1 : u16 lo1 hi1 < 65536 := by unfold u16; have := lo1.isLt; have := hi1.isLt; omega
  have h2 : u16 lo2 hi2 < 65536 := by unfold u16; have := lo2.isLt; have := hi2.isLt; omega
  rw [iadd_usize_ok _ _ (by omega) (by omega)]
  have w1 : Rs.iwrap .isize ((u16 lo1 hi1 : Nat) : Int) = (u16 lo1 hi1 : Nat) := by
    simp only [Rs.iwrap, Rs.ITy.lo, Rs.ITy.hi]
    have e : (9223372036854775807 : Int) - -9223372036854775808 + 1 = 18446744073709551616 := by decide
    rw [e]; omega
  have w2 : Rs.iwrap .isize (((u16 lo1 hi1 : Nat) : Int) + ((u16 lo2 hi2 : Nat) : Int)) = ((u16 lo1 hi1 : Nat) : Int) + (u16 lo2 hi2 : Nat) := by
    simp only [Rs.iwrap, Rs.ITy.lo, Rs.ITy.hi]
    have e : (9223372036854775807 : Int) - -9223372036854775808 + 1 = 18446744073709551616 := by decide
    rw [e]; omega
  simp only [Rs.M.bind_ok, w1, w2, Fns.fiber_push_exc_handler, Rs.len]
  have e1 : vm.ip + 2 + 2 = vm.ip + 4 := by omega
  have e2 : vm.ip + 2 + 2 + ((u16 lo1 hi1 : Nat) : Int) = vm.ip + 4 + (u16 lo1 hi1 : Nat) := by omega
  have e3 : vm.ip + 2 + 2 + (((u16 lo1 hi1 : Nat) : Int) + ((u16 lo2 hi2 : Nat) : Int)) = vm.ip + 4 + ((u16 lo1 hi1 : Nat) + (u16 lo2 hi2 : Nat) : Int) := by omega
  rw [e2, e3, e1]

/-- `frames.truncate(n)` leaves `min frames n` frames. -/
theorem truncateFrames_frames (vm : Rs.Vm) (n : Int) : (Rs.Vm.truncateFrames vm n).frames = min vm.frames n := by
  unfold Rs.Vm.truncateFrames
  by_cases h : vm.frames ≤ n
  · simp only [h, if_true]; omega
  · simp only [h, if_false]
    split <;> (simp only []; omega)

/-- `frames.truncate(n)` changes nothing but the frames. -/
theorem truncateFrames_other (vm : Rs.Vm) (n : Int) :
    (Rs.Vm.truncateFrames vm n).stack = vm.stack ∧ (Rs.Vm.truncateFrames vm n).handlers = vm.handlers
      ∧ (Rs.Vm.truncateFrames vm n).errorIp = vm.errorIp ∧ (Rs.Vm.truncateFrames vm n).handling = vm.handling
      ∧ (Rs.Vm.truncateFrames vm n).ip = vm.ip ∧ (Rs.Vm.truncateFrames vm n).closed = vm.closed
      ∧ (Rs.Vm.truncateFrames vm n).returnIp = vm.returnIp ∧ (Rs.Vm.truncateFrames vm n).returnValue = vm.returnValue
      ∧ (Rs.Vm.truncateFrames vm n).curId = vm.curId ∧ (Rs.Vm.truncateFrames vm n).parked = vm.parked := by
  unfold Rs.Vm.truncateFrames
  by_cases h : vm.frames ≤ n
  · simp only [h, if_true, and_self]
  · simp only [h, if_false]
    split <;> simp

/-- `frames.truncate(n)` looks at, and changes, the frames only: it commutes with changes of the stack, the handlers and the log of
closed cells. -/
theorem truncateFrames_with (vm : Rs.Vm) (st : List Rs.Value) (hd : List Rs.Handler) (cl : List (Int × Int)) (n : Int) :
    Rs.Vm.truncateFrames { vm with stack := st, handlers := hd, closed := cl } n
      = { (Rs.Vm.truncateFrames vm n) with stack := st, handlers := hd, closed := cl } := by
  unfold Rs.Vm.truncateFrames
  by_cases h : vm.frames ≤ n
  · simp only [h, if_true]
  · simp only [h, if_false]
    split <;> rfl

/-- **unwind contract** (C08): with handlers `rest ++ [h]` (h innermost) and the exception value on top of the stack, unwinding
leaves `rest`, at most `h.frame_count` frames (`frames.truncate`: the frames above are dropped, `truncateFrames_frames`), the first
`h.init_stack_size` slots unchanged plus the exception, continues at `h.catch_ip`; the captured variables above `h.init_stack_size`
are closed BEFORE the stack is cut (the close call saw the whole stack); the exception-in-flight flag is kept exactly when the
statement has no catch block. -/
theorem vm_unwind_contract (vm : Rs.Vm) (rest : List Rs.Handler) (h : Rs.Handler) (s : List Rs.Value) (exc : Rs.Value)
    (hh : vm.handlers = rest ++ [h]) (hs : vm.stack = s ++ [exc])
    (hk0 : 0 ≤ h.init_stack_size) (hk : h.init_stack_size.toNat ≤ s.length) (hfr : 0 < min vm.frames h.frame_count) :
    Fns.vm_unwind_stack vm =
      .ok (.ok (), { (Rs.Vm.truncateFrames vm h.frame_count) with
        handlers := rest,
        stack := s.take h.init_stack_size.toNat ++ [exc],
        handling := decide (h.finally_ip = h.catch_ip),
        errorIp := if decide (h.finally_ip = h.catch_ip) then (Rs.Vm.truncateFrames vm h.frame_count).errorIp else none,
        frameIp := h.catch_ip,
        ip := h.catch_ip,
        closed := vm.closed ++ [(h.init_stack_size, ((s.length + 1 : Nat) : Int))] }) := by
  unfold Fns.vm_unwind_stack
  rw [peek0_append vm s exc hs]
  simp only [Rs.M.bind_ok, Fns.fiber_pop_exc_handler]
  rw [popHandler_append vm rest h hh]
  simp only [Rs.M.bind_ok]
  have htr : Rs.Vm.truncateStack (Rs.Vm.closeUpvalues { vm with handlers := rest } h.init_stack_size) h.init_stack_size
      = .ok { (Rs.Vm.closeUpvalues { vm with handlers := rest } h.init_stack_size) with stack := s.take h.init_stack_size.toNat } := by
    unfold Rs.Vm.truncateStack Rs.Vm.closeUpvalues
    rw [if_neg (by omega)]
    simp only [hs, List.length_append, List.length_singleton]
    rw [if_pos (by omega)]
    congr 2
    rw [List.take_append_of_le_length hk]
  rw [htr]
  simp only [Rs.M.bind_ok, Fns.handler_has_catch_block, Rs.Vm.push, Rs.Vm.closeUpvalues]
  have hfrm := truncateFrames_frames vm h.frame_count
  have hnf : ¬ ((Rs.Vm.truncateFrames vm h.frame_count).frames ≤ 0) := by rw [hfrm]; omega
  have hnf' : ¬ (min vm.frames h.frame_count ≤ 0) := by omega
  by_cases hc : h.finally_ip = h.catch_ip
  · simp only [hc, decide_true, Bool.not_true, Bool.false_eq_true, if_false, if_true]
    rw [truncateFrames_with]
    simp only [Rs.Vm.setFrameIp, hnf, hnf', if_false, Rs.M.bind_ok, Rs.Vm.loadFrame, hs, hfrm]
    simp
  · simp only [hc, decide_false, Bool.not_false, if_true, Bool.false_eq_true, if_false]
    rw [truncateFrames_with]
    simp only [Rs.Vm.setFrameIp, hnf, hnf', if_false, Rs.M.bind_ok, Rs.Vm.loadFrame, hs, hfrm]
    simp

/-- … and with no handler on this fiber the run ends with the error made from the value; nothing is cleaned up here. -/
theorem vm_unwind_uncaught (vm : Rs.Vm) (s : List Rs.Value) (exc : Rs.Value) (hh : vm.handlers = []) (hs : vm.stack = s ++ [exc]) :
    Fns.vm_unwind_stack vm = .ok (.error (Rs.errorFromValue exc), vm) := by
  unfold Fns.vm_unwind_stack
  rw [peek0_append vm s exc hs]
  simp only [Rs.M.bind_ok, Fns.fiber_pop_exc_handler]
  rw [popHandler_empty vm hh]
  simp

/-- `throw`: sets the exception-in-flight flag, records the site (address and call depth), unwinds. -/
theorem vm_throw_effect (vm : Rs.Vm) :
    Fns.vm_throw_impl vm = Fns.vm_unwind_stack { vm with handling := true, errorIp := some (vm.ip, vm.frames) } := by
  unfold Fns.vm_throw_impl
  simp only [Fns.fiber_record_error_site, Rs.M.bind_ok]
  cases Fns.vm_unwind_stack { vm with handling := true, errorIp := some (vm.ip, vm.frames) } with
  | panic => rfl
  | ok r => rfl

/-- `JumpFinally` (a `return` inside `try`): the return value and the resume address are saved, the value is popped, the innermost
handler is popped, the captured variables above its height are closed BEFORE the stack is cut to that height, and execution
continues at the handler's finally address. -/
theorem vm_jump_finally_effect (vm : Rs.Vm) (rest : List Rs.Handler) (h : Rs.Handler) (s : List Rs.Value) (v : Rs.Value)
    (hh : vm.handlers = rest ++ [h]) (hs : vm.stack = s ++ [v]) (hk0 : 0 ≤ h.init_stack_size) (hk : h.init_stack_size.toNat ≤ s.length) :
    Fns.vm_jump_finally_impl vm =
      .ok ((), { vm with returnIp := some vm.ip, returnValue := v, handlers := rest, stack := s.take h.init_stack_size.toNat,
                         ip := h.finally_ip, closed := vm.closed ++ [(h.init_stack_size, (s.length : Int))] }) := by
  unfold Fns.vm_jump_finally_impl
  rw [peek0_append vm s v hs]
  simp only [Rs.M.bind_ok]
  rw [pop_append { vm with returnIp := some vm.ip, returnValue := v } s v hs]
  simp only [Rs.M.bind_ok, Fns.fiber_pop_exc_handler]
  rw [popHandler_append { vm with returnIp := some vm.ip, returnValue := v, stack := s } rest h hh]
  simp only [Rs.M.bind_ok, Rs.unwrap, Rs.Vm.closeUpvalues, Rs.Vm.truncateStack]
  rw [if_neg (by omega)]
  simp [hk]

/-- `EndFinally` with nothing in flight: a pending return resumes (value pushed back, execution at the saved address, the
record cleared); otherwise execution simply goes on. -/
theorem vm_end_finally_pending_return (vm : Rs.Vm) (r : Int) (hf : vm.handling = false) (hr : vm.returnIp = some r) :
    Fns.vm_end_finally_impl vm =
      .ok (.ok (), { vm with returnIp := none, returnValue := .None, stack := vm.stack ++ [vm.returnValue], ip := r }) := by
  unfold Fns.vm_end_finally_impl
  simp [hf, Fns.fiber_take_return_data, Rs.Vm.takeReturnIp, hr, Rs.Vm.push]

theorem vm_end_finally_nothing_pending (vm : Rs.Vm) (hf : vm.handling = false) (hr : vm.returnIp = none) :
    Fns.vm_end_finally_impl vm = .ok (.ok (), vm) := by
  unfold Fns.vm_end_finally_impl
  simp [hf, Fns.fiber_take_return_data, Rs.Vm.takeReturnIp, hr]
  cases vm; simp_all

/-- `EndFinally` while an exception is in flight re-raises it: with no further handler on this fiber the run ends. -/
theorem vm_end_finally_rethrows_uncaught (vm : Rs.Vm) (s : List Rs.Value) (exc : Rs.Value)
    (hf : vm.handling = true) (hh : vm.handlers = []) (hs : vm.stack = s ++ [exc]) :
    Fns.vm_end_finally_impl vm = .ok (.error (Rs.errorFromValue exc), vm) := by
  unfold Fns.vm_end_finally_impl
  simp [hf, vm_unwind_uncaught vm s exc hh hs]

#print axioms vm_pop_handler_effect
#print axioms fiber_push_handler_effect
#print axioms vm_push_handler_effect
#print axioms truncateFrames_frames
#print axioms truncateFrames_with
#print axioms truncateFrames_other
#print axioms vm_unwind_contract
#print axioms vm_unwind_uncaught
#print axioms vm_throw_effect
#print axioms vm_jump_finally_effect
#print axioms vm_end_finally_pending_return
#print axioms vm_end_finally_nothing_pending
#print axioms vm_end_finally_rethrows_uncaught

end Yarel.FnsTie
