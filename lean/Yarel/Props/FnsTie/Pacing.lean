/- Ties for Heap::allocate_raw, Heap::collect_if_required, Heap::collect (model Yarel/Model/Pacing.lean, property C16). -/
import Yarel.Gen.Fns
import Yarel.Props.FnsTie.Base
import Yarel.Model.Pacing

namespace Yarel.FnsTie
open Yarel Yarel.Gen

/-- `allocate_raw` calls `collect` in checked builds and `collect_if_required` otherwise, then pushes the box and adds the
size; nothing else touches the two accounting fields in its own body. -/
theorem allocate_raw_tie (bytes : Int) (size : Nat) (bytes2 : Nat) (cfg : Bool) (b g : String)
    (h : (bytes2 : Int) + size ≤ 18446744073709551615) :
    Fns.allocate_raw bytes b g (size : Int) (bytes2 : Int) cfg =
      .ok ((), (bytes2 : Int) + size,
        [Rs.Eff.mk (if cfg then "self.collect" else "self.collect_if_required") [], Rs.Eff.mk "self.objects.push" [.s "boxed"]]) := by
  unfold Fns.allocate_raw
  cases cfg <;> simp only [Bool.false_eq_true, if_false, if_true, Rs.M.bind_ok, List.nil_append, List.cons_append] <;>
    rw [iadd_usize_ok _ _ (by omega) h] <;> rfl

/-- `collect_if_required` calls `collect` iff `bytes_allocated >= collection_threshold` (the model's `allocPaced` test). -/
theorem collect_if_required_tie (st : Pacing.State) :
    Fns.collect_if_required (st.bytes : Int) (st.thr : Int) =
      .ok ((), if st.bytes ≥ st.thr then [Rs.Eff.mk "self.collect" []] else []) := by
  unfold Fns.collect_if_required
  dsimp only
  by_cases h : st.bytes ≥ st.thr
  · rw [if_pos (decide_eq_true (by omega)), if_pos h]; rfl
  · rw [if_neg (by intro hc; have := of_decide_eq_true hc; omega), if_neg h]; rfl

/-- `collect`: marks, traces, sweeps (in that order) and then `bytes_allocated -= bytes_freed;
collection_threshold = bytes_allocated * HEAP_GROWTH_FACTOR` - the model's `Pacing.collect live` with
`live = bytes - freed`.  `bytes` is what `bytes_allocated` holds when it is re-read after the sweep. -/
theorem collect_tie (b0 t0 t1 : Int) (bytes freed : Nat) (hf : freed ≤ bytes) (hb : 2 * ((bytes:Int) - freed) ≤ 18446744073709551615) :
    Fns.collect b0 t0 (freed : Int) (bytes : Int) t1 =
      .ok ((), ((Pacing.collect (bytes - freed)).bytes : Int), ((Pacing.collect (bytes - freed)).thr : Int),
        [Rs.Eff.mk "self.mark_roots" [], Rs.Eff.mk "self.trace_references" [], Rs.Eff.mk "self.sweep" []]) := by
  unfold Fns.collect Pacing.collect
  dsimp only
  rw [isub_usize_ok _ _ (by omega) (by omega)]
  simp only [List.nil_append, List.cons_append, Rs.M.bind_ok]
  rw [imul_usize_ok _ _ (by omega) (by omega)]
  simp only [Rs.M.bind_ok]
  have e1 : ((bytes - freed : Nat) : Int) = (bytes : Int) - freed := by omega
  have e2 : (((bytes - freed) * 2 : Nat) : Int) = ((bytes : Int) - freed) * 2 := by omega
  rw [e1, e2]

/-- The three translated bodies glued along their opaque calls: `allocate_raw` calls `collect` (checked builds) or
`collect_if_required`, which calls `collect` when its test says so.  FRAME ASSUMPTION (stated, not proved): `mark_roots`,
`trace_references`, `sweep` and `objects.push` leave `bytes_allocated` / `collection_threshold` alone, and `sweep` answers `freed`. -/
def allocGlued (cfg : Bool) (st : Pacing.State) (size freed : Nat) : Rs.M (Pacing.State × Bool) :=
  -- which callee allocate_raw invokes does not depend on the re-read value
  Rs.M.bind (Fns.allocate_raw (st.bytes : Int) "" "" (size : Int) 0 cfg) fun r0 =>
  let callee := (r0.2.2.head?.map (·.callee)).getD ""
  Rs.M.bind
    (if callee = "self.collect" then Rs.M.ok true
     else Rs.M.bind (Fns.collect_if_required (st.bytes : Int) (st.thr : Int)) fun r => Rs.M.ok (r.2.any (·.callee = "self.collect")))
    fun collects =>
  Rs.M.bind
    (if collects then
      Rs.M.bind (Fns.collect (st.bytes : Int) (st.thr : Int) (freed : Int) (st.bytes : Int) (st.thr : Int)) fun r => Rs.M.ok (r.2.1, r.2.2.1)
     else Rs.M.ok ((st.bytes : Int), (st.thr : Int)))
    fun bt =>
  Rs.M.bind (Fns.allocate_raw (st.bytes : Int) "" "" (size : Int) bt.1 cfg) fun r =>
  Rs.M.ok ({ bytes := r.2.1.toNat, thr := bt.2.toNat }, collects)

/-- The glued translation IS the pacing model the C16 theorems are about, in both build configurations. -/
theorem alloc_glued_is_model (cfg : Bool) (st : Pacing.State) (size freed : Nat) (hf : freed ≤ st.bytes)
    (h1 : 2 * (st.bytes : Int) + size ≤ 18446744073709551615) :
    allocGlued cfg st size freed
      = .ok (Pacing.alloc (if cfg then .always else .paced) st size (st.bytes - freed)) := by
  unfold allocGlued
  have hlive : ((st.bytes - freed : Nat) : Int) = (st.bytes : Int) - freed := by omega
  rw [show (0 : Int) = ((0 : Nat) : Int) from rfl, allocate_raw_tie _ _ _ _ _ _ (by omega)]
  simp only [Rs.M.bind_ok, List.head?_cons, Option.map_some, Option.getD_some]
  cases cfg
  · -- paced
    simp only [Bool.false_eq_true, if_false]
    rw [if_neg (by decide), collect_if_required_tie]
    simp only [Rs.M.bind_ok, Pacing.alloc, Pacing.allocPaced]
    by_cases h : st.bytes ≥ st.thr
    · simp only [if_pos h, List.any_cons, List.any_nil, decide_true, Bool.or_false, if_true]
      rw [collect_tie _ _ _ _ _ hf (by omega)]
      simp only [Rs.M.bind_ok]
      rw [allocate_raw_tie _ _ _ _ _ _ (by simp only [Pacing.collect]; omega)]
      simp only [Rs.M.bind_ok, Pacing.collect]
      congr 2
    · simp only [if_neg h, List.any_nil, Bool.false_eq_true, if_false, Rs.M.bind_ok]
      rw [allocate_raw_tie _ _ _ _ _ _ (by omega)]
      simp only [Rs.M.bind_ok]
      congr 2
  · -- always
    simp only [if_true]
    simp only [Rs.M.bind_ok, Pacing.alloc, Pacing.allocAlways, if_true]
    rw [collect_tie _ _ _ _ _ hf (by omega)]
    simp only [Rs.M.bind_ok]
    rw [allocate_raw_tie _ _ _ _ _ _ (by simp only [Pacing.collect]; omega)]
    simp only [Rs.M.bind_ok, Pacing.collect]
    congr 2

#print axioms allocate_raw_tie
#print axioms collect_if_required_tie
#print axioms collect_tie
#print axioms alloc_glued_is_model

end Yarel.FnsTie
