/- No-panic corollaries (property C02) for the one-instruction handlers of vm.rs translated from the source: with the operands
on the stack that the bytecode verifier of C04 guarantees (`verify_sound`: `needs ≤ height`), whatever the KINDS of those operands,
each handler answers - a result, or an error handed to the exception machinery - and never panics. -/
import Yarel.Props.FnsTie.VmSteps
import Yarel.Props.FnsTie.Ops
set_option maxRecDepth 2000
namespace Yarel.FnsTie
open Yarel Yarel.Gen

theorem split_last {α : Type} (l : List α) (h : 1 ≤ l.length) : ∃ r v, l = r ++ [v] := by
  have hne : l ≠ [] := by intro e; subst e; simp at h
  exact ⟨l.dropLast, l.getLast hne, (List.dropLast_concat_getLast hne).symm⟩

theorem split_last2 {α : Type} (l : List α) (h : 2 ≤ l.length) : ∃ r a b, l = r ++ [a, b] := by
  obtain ⟨r1, b, h1⟩ := split_last l (by omega)
  have : 1 ≤ r1.length := by rw [h1] at h; simp at h; omega
  obtain ⟨r, a, h2⟩ := split_last r1 this
  exact ⟨r, a, b, by rw [h1, h2]; simp⟩

/-- the operator closures never panic -/
theorem op_total (op : UInt64 → UInt64 → Rs.M Rs.Value) (hop : op ∈ [Fns.op_Greater, Fns.op_Less, Fns.op_Subtract, Fns.op_Multiply, Fns.op_Divide,
    Fns.op_Modulo, Fns.op_BitwiseAnd, Fns.op_BitwiseOr, Fns.op_BitwiseXor, Fns.op_BitShiftLeft, Fns.op_BitShiftRight]) (a b : UInt64) :
    ∃ r, op a b = .ok r := by
  simp only [List.mem_cons, List.mem_nil_iff, or_false] at hop
  rcases hop with h | h | h | h | h | h | h | h | h | h | h <;> subst h
  · exact ⟨_, op_greater_tie a b⟩
  · exact ⟨_, op_less_tie a b⟩
  · exact ⟨_, op_subtract_tie a b⟩
  · exact ⟨_, op_multiply_tie a b⟩
  · exact ⟨_, op_divide_tie a b⟩
  · exact ⟨_, op_modulo_tie a b⟩
  · exact ⟨_, op_bitwise_and_tie a b⟩
  · exact ⟨_, op_bitwise_or_tie a b⟩
  · exact ⟨_, op_bitwise_xor_tie a b⟩
  · exact ⟨_, op_shift_left_tie a b⟩
  · exact ⟨_, op_shift_right_tie a b⟩

/-- **no panic** (C02) for the binary operators: with the two operands the verifier guarantees on the stack, whatever their kinds,
the handler answers - a result, or a TypeError handed to the exception machinery - and never panics. -/
theorem vm_binary_op_never_panics (op : UInt64 → UInt64 → Rs.M Rs.Value) (hop : ∀ a b, ∃ r, op a b = .ok r) (vm : Rs.Vm)
    (h : 2 ≤ vm.stack.length) : Fns.vm_binary_op_impl op vm ≠ .panic := by
  obtain ⟨rest, x, y, hs⟩ := split_last2 vm.stack h
  by_cases hn : ∃ a b, x = .Number a ∧ y = .Number b
  · obtain ⟨a, b, rfl, rfl⟩ := hn
    obtain ⟨r, hr⟩ := hop a b
    rw [vm_binary_op_numbers op vm rest a b r hs hr]; simp
  · rw [vm_binary_op_type_error op vm rest x y hs hn]; simp

theorem vm_equal_never_panics (vm : Rs.Vm) (h : 2 ≤ vm.stack.length) : Fns.vm_equal_impl vm ≠ .panic := by
  obtain ⟨rest, x, y, hs⟩ := split_last2 vm.stack h
  rw [vm_equal_effect vm rest x y hs]; simp

theorem vm_logical_not_never_panics (vm : Rs.Vm) (h : 1 ≤ vm.stack.length) : Fns.vm_logical_not_impl vm ≠ .panic := by
  obtain ⟨rest, x, hs⟩ := split_last vm.stack h
  rw [vm_logical_not_effect vm rest x hs]; simp

theorem vm_negate_never_panics (vm : Rs.Vm) (h : 1 ≤ vm.stack.length) : Fns.vm_negate_impl vm ≠ .panic := by
  obtain ⟨rest, x, hs⟩ := split_last vm.stack h
  by_cases hn : ∃ a, x = .Number a
  · obtain ⟨a, rfl⟩ := hn
    rw [vm_negate_number vm rest a hs]; simp
  · rw [vm_negate_type_error vm rest x hs (fun a ha => hn ⟨a, ha⟩)]; simp

#print axioms split_last
#print axioms split_last2
#print axioms op_total
#print axioms vm_binary_op_never_panics
#print axioms vm_equal_never_panics
#print axioms vm_logical_not_never_panics
#print axioms vm_negate_never_panics

end Yarel.FnsTie
