/-
Method lookup of the Lean reference interpreter (S): the language-level content of property C07 about the two access paths.

  field_shadows_method_invoke / _get     an instance field shadows a method of the same name on BOTH paths: `x.m(a)` calls the field's
                                         value, `x.m` yields it
  invoke_calls_class_method              without such a field, `x.m(a)` calls the method found in the table of x's class with x as receiver
  get_binds_class_method                 … and `x.m` yields a bound method that records exactly that method and that receiver,
  bound_call_eq_invoke                   so calling it later calls the same function with the same receiver and arguments:
                                         `x.m(a)` and `var f = x.m; f(a)` agree
  missing_member_is_attribute_error      a name that is neither field nor method is an AttributeError on both paths
-/
import Yarel.Spec.Machine
namespace Yarel.Spec.Classes
open Yarel.Spec Yarel.Spec.State

theorem field_shadows_method_invoke (st : State) (r c : Nat) (fields : List (String × Value)) (name : String) (v : Value)
    (args : Array Value) (line : Nat) (ho : st.heap.get r = .instance c fields) (hf : assocGet fields name = some v) :
    st.invoke (.obj r) name args line = st.callValue v args line := by
  unfold State.invoke
  simp [ho, hf]

theorem field_shadows_method_get (st : State) (r c : Nat) (fields : List (String × Value)) (name : String) (v : Value)
    (line : Nat) (ho : st.heap.get r = .instance c fields) (hf : assocGet fields name = some v) :
    st.getProperty (.obj r) name line = st.value v := by
  unfold State.getProperty
  simp [ho, hf]

theorem invoke_calls_class_method (st : State) (r c : Nat) (fields : List (String × Value)) (name : String) (m : Nat)
    (fn : FnDecl) (ups : Array Nat) (mod : Nat) (args : Array Value) (line : Nat)
    (ho : st.heap.get r = .instance c fields) (hf : assocGet fields name = none)
    (hm : assocGet (st.heap.classData c).methods name = some (.obj m)) (hc : st.heap.get m = .closure fn ups mod) :
    st.invoke (.obj r) name args line = st.callClosure m (.obj r) args line := by
  unfold State.invoke
  simp [ho, hf, State.invokeFromClass, hm, hc]

theorem get_binds_class_method (st : State) (r c : Nat) (fields : List (String × Value)) (name : String) (m : Nat)
    (fn : FnDecl) (ups : Array Nat) (mod : Nat) (line : Nat)
    (ho : st.heap.get r = .instance c fields) (hf : assocGet fields name = none)
    (hm : assocGet (st.heap.classData c).methods name = some (.obj m)) (hc : st.heap.get m = .closure fn ups mod) :
    st.getProperty (.obj r) name line =
      (st.alloc (.boundMethod (.obj r) m)).2.value (.obj (st.alloc (.boundMethod (.obj r) m)).1) := by
  unfold State.getProperty
  simp [ho, hf, State.bindMethod, Heap.classOf, hm, hc]

/-- Calling a bound method calls the method it recorded with the receiver it recorded. -/
theorem bound_call_eq_invoke (st : State) (b : Nat) (recv : Value) (m : Nat) (args : Array Value) (line : Nat)
    (hb : st.heap.get b = .boundMethod recv m) :
    st.callValue (.obj b) args line = st.callClosure m recv args line := by
  unfold State.callValue
  simp [hb]

theorem missing_member_is_attribute_error (st : State) (r c : Nat) (fields : List (String × Value)) (name : String)
    (args : Array Value) (line : Nat) (ho : st.heap.get r = .instance c fields) (hf : assocGet fields name = none)
    (hm : assocGet (st.heap.classData c).methods name = none) :
    st.invoke (.obj r) name args line = st.raise .attributeError (undefinedProperty name) line ∧
    st.getProperty (.obj r) name line = st.raise .attributeError (undefinedProperty name) line := by
  constructor
  · unfold State.invoke
    simp [ho, hf, State.invokeFromClass, hm]
  · unfold State.getProperty
    simp [ho, hf, State.bindMethod, Heap.classOf, hm]

#print axioms field_shadows_method_invoke
#print axioms field_shadows_method_get
#print axioms invoke_calls_class_method
#print axioms get_binds_class_method
#print axioms bound_call_eq_invoke
#print axioms missing_member_is_attribute_error

end Yarel.Spec.Classes
