/-
Glue that the hand models transcribe and that is not translated into `Gen/Fns.lean`, regenerated from the source on every run as
signature + statements (statements under cfg(verif_hooks) stripped at every depth) and pinned here, function by function: captured variables (Model/Upvalues.lean: one open cell per slot, found before it is made; cells at or above a slot are closed, in order, and unlinked).

The models of these mechanisms were written against exactly these texts and are tied to the behaviour by event / request correspondence;
these obligations say that the text is still the one the models were written against - a guard added around a write, a reordered pair of
statements, an early return, a fast path.  A harmless rewrite breaks them as well: the correspondence then runs as the search, and if
it finds nothing the violation line ends in no-failing-input-found and this file is what has to be reviewed.
-/
import Yarel.Gen.CfgSites
namespace Yarel.GlueText
open Yarel

theorem capture_upvalue_as_modelled :
    Gen.glue_Vm_capture_upvalue =
    [ "fn capture_upvalue (& mut self , location : usize) -> Gc < RefCell < ObjUpvalue > >"
    , "let loc_addr = unsafe { self . active_fiber () . stack . as_ptr () . offset (location as isize) } ;"
    , "let predicate = | v | v > loc_addr ;"
    , "let mut prev_upvalue = None ;"
    , "let mut upvalue = self . active_fiber () . open_upvalues ;"
    , "while upvalue . is_some () && upvalue . unwrap () . borrow () . is_open_with_pred (predicate) { prev_upvalue = upvalue ; upvalue = upvalue . unwrap () . borrow () . next ; }"
    , "if let Some (upvalue) = upvalue { if upvalue . borrow () . is_open_with_pred (| v | v == loc_addr) { return upvalue ; } }"
    , "let created_upvalue = Root :: new (RefCell :: new (ObjUpvalue :: new (loc_addr as * mut _))) ;"
    , "if let Some (uv) = prev_upvalue { uv . borrow_mut () . next = Some (created_upvalue . as_gc ()) ; } else { self . active_fiber_mut () . open_upvalues = Some (created_upvalue . as_gc ()) ; }"
    , "created_upvalue . borrow_mut () . next = upvalue ;"
    , "created_upvalue . as_gc ()"
    ] := by rfl

theorem close_upvalues_as_modelled :
    Gen.glue_ObjFiber_close_upvalues =
    [ "fn close_upvalues (& mut self , index : usize)"
    , "let index_addr = & self . stack [index] as * const _ ;"
    , "let predicate = | v | v >= index_addr ;"
    , "while self . open_upvalues . is_some () && self . open_upvalues . unwrap () . borrow () . is_open_with_pred (predicate) { let upvalue = self . open_upvalues . unwrap () ; self . open_upvalues = { let mut borrowed_upvalue = upvalue . borrow_mut () ; borrowed_upvalue . close () ; borrowed_upvalue . next . take () } ; }"
    ] := by rfl

theorem close_upvalues_for_frame_as_modelled :
    Gen.glue_ObjFiber_close_upvalues_for_frame =
    [ "fn close_upvalues_for_frame (& mut self)"
    , "let slot_base = self . current_frame () . unwrap () . slot_base ;"
    , "self . close_upvalues (slot_base) ;"
    ] := by rfl

#print axioms capture_upvalue_as_modelled
#print axioms close_upvalues_as_modelled
#print axioms close_upvalues_for_frame_as_modelled

end Yarel.GlueText
