/-
Glue that the hand models transcribe and that is not translated into `Gen/Fns.lean`, regenerated from the source on every run as
signature + statements (statements under cfg(verif_hooks) stripped at every depth) and pinned here, function by function: the class table and the property / invoke / super paths (Model/ClassTable.lean).

The models of these mechanisms were written against exactly these texts and are tied to the behaviour by event / request correspondence;
these obligations say that the text is still the one the models were written against - a guard added around a write, a reordered pair of
statements, an early return, a fast path.  A harmless rewrite breaks them as well: the correspondence then runs as the search, and if
it finds nothing the violation line ends in no-failing-input-found and this file is what has to be reviewed.
-/
import Yarel.Gen.CfgSites
namespace Yarel.GlueText
open Yarel

theorem bind_method_as_modelled :
    Gen.glue_Vm_bind_method =
    [ "fn bind_method (& mut self , class : Gc < ObjClass > , name : Gc < ObjString >) -> Result < () , Error >"
    , "let instance = self . peek (0) ;"
    , "let bound = match class . methods . get (& name) { Some (Value :: ObjClosure (ptr)) => { Value :: ObjBoundMethod (self . new_root_obj_bound_method (instance , * ptr) . as_gc ()) } Some (Value :: ObjNative (ptr)) => { Value :: ObjBoundNative (self . new_root_obj_bound_method (instance , * ptr) . as_gc ()) } None => { let err = error ! (ErrorKind :: AttributeError , \"Undefined property '{}'.\" , * name) ; return self . try_handle_error (err) ; } _ => unreachable ! () , } ;"
    , "self . pop () ;"
    , "self . push (bound) ;"
    , "Ok (())"
    ] := by rfl

theorem declare_class_impl_as_modelled :
    Gen.glue_Vm_declare_class_impl =
    [ "fn declare_class_impl (& mut self)"
    , "let name = self . read_string () ;"
    , "let metaclass_name = self . new_gc_obj_string (format ! (\"{}Class\" , * name) . as_str ()) ;"
    , "let metaclass = UniqueRoot :: new (ObjClass :: new (metaclass_name , self . class_store . base_metaclass () , Some (self . class_store . object_class ()) , object :: new_obj_string_value_map () ,)) ;"
    , "let class = UniqueRoot :: new (ObjClass :: new (name , self . class_store . base_metaclass () , Some (self . class_store . object_class ()) , object :: new_obj_string_value_map () ,)) ;"
    , "self . working_class_def = Some (ClassDef :: new (class , metaclass)) ;"
    , "self . push (Value :: None) ;"
    ] := by rfl

theorem define_class_impl_as_modelled :
    Gen.glue_Vm_define_class_impl =
    [ "fn define_class_impl (& mut self)"
    , "let mut class_def = self . working_class_def . take () . expect (\"Expected ClassDef.\") ;"
    , "let defined_metaclass : Root < ObjClass > = class_def . metaclass . into () ;"
    , "class_def . class . metaclass = defined_metaclass . as_gc () ;"
    , "let defined_class : Root < ObjClass > = class_def . class . into () ;"
    , "self . poke (0 , Value :: ObjClass (defined_class . as_gc ())) ;"
    ] := by rfl

theorem define_method_as_modelled :
    Gen.glue_Vm_define_method =
    [ "fn define_method (& mut self , name : Gc < ObjString > , is_static : bool) -> Result < () , Error >"
    , "let method = self . peek (0) ;"
    , "let class_def = self . working_class_def . as_mut () . unwrap () ;"
    , "class_def . class . methods . insert (name , method) ;"
    , "if is_static { class_def . metaclass . methods . insert (name , method) ; } else { class_def . metaclass . methods . remove (& name) ; }"
    , "self . pop () ;"
    , "Ok (())"
    ] := by rfl

theorem get_property_impl_as_modelled :
    Gen.glue_Vm_get_property_impl =
    [ "fn get_property_impl (& mut self) -> Result < () , Error >"
    , "let name = self . read_string () ;"
    , "if let Some (instance) = self . peek (0) . try_as_obj_instance () { let borrowed_instance = instance . borrow () ; if let Some (& property) = borrowed_instance . fields . get (& name) { self . pop () ; self . push (property) ; return Ok (()) ; } }"
    , "if let Some (module) = self . peek (0) . try_as_obj_module () { if let Some (& property) = module . borrow () . attributes . get (& name) { self . pop () ; self . push (property) ; return Ok (()) ; } }"
    , "let class = self . get_class (self . peek (0)) ;"
    , "self . bind_method (class , name)"
    ] := by rfl

theorem get_super_impl_as_modelled :
    Gen.glue_Vm_get_super_impl =
    [ "fn get_super_impl (& mut self) -> Result < () , Error >"
    , "let name = self . read_string () ;"
    , "let superclass = self . pop () . try_as_obj_class () . expect (\"Expected ObjClass.\") ;"
    , "self . bind_method (superclass , name)"
    ] := by rfl

theorem inherit_impl_as_modelled :
    Gen.glue_Vm_inherit_impl =
    [ "fn inherit_impl (& mut self) -> Result < () , Error >"
    , "let superclass = if let Some (ptr) = self . peek (1) . try_as_obj_class () { ptr } else { let err = error ! (ErrorKind :: RuntimeError , \"Superclass must be a class.\") ; return self . try_handle_error (err) ; } ;"
    , "self . working_class_def . as_mut () . unwrap () . class . superclass = Some (superclass) ;"
    , "for (name , method) in & superclass . methods { self . working_class_def . as_mut () . unwrap () . class . methods . insert (* name , * method) ; }"
    , "self . pop () ;"
    , "Ok (())"
    ] := by rfl

theorem invoke_as_modelled :
    Gen.glue_Vm_invoke =
    [ "fn invoke (& mut self , name : Gc < ObjString > , arg_count : usize) -> Result < () , Error >"
    , "let receiver = self . peek (arg_count) ;"
    , "let class = match receiver { Value :: ObjInstance (instance) => { let field = instance . borrow () . fields . get (& name) . copied () ; if let Some (value) = field { self . poke (arg_count , value) ; return self . call_value (value , arg_count) ; } instance . borrow () . class } Value :: ObjModule (module) => { let global = module . borrow () . attributes . get (& name) . copied () ; if let Some (value) = global { self . poke (arg_count , value) ; return self . call_value (value , arg_count) ; } module . borrow () . class } _ => self . get_class (receiver) , } ;"
    , "self . invoke_from_class (class , name , arg_count)"
    ] := by rfl

theorem invoke_from_class_as_modelled :
    Gen.glue_Vm_invoke_from_class =
    [ "fn invoke_from_class (& mut self , class : Gc < ObjClass > , name : Gc < ObjString > , arg_count : usize ,) -> Result < () , Error >"
    , "if let Some (value) = class . methods . get (& name) { return match value { Value :: ObjClosure (closure) => self . call_closure (* closure , arg_count) , Value :: ObjNative (native) => self . call_native (* native , arg_count) , _ => unreachable ! () , } ; }"
    , "let err = error ! (ErrorKind :: AttributeError , \"Undefined property '{}'.\" , * name) ;"
    , "self . try_handle_error (err)"
    ] := by rfl

theorem invoke_impl_as_modelled :
    Gen.glue_Vm_invoke_impl =
    [ "fn invoke_impl (& mut self) -> Result < () , Error >"
    , "let method = self . read_string () ;"
    , "let arg_count = self . read_byte () as usize ;"
    , "self . invoke (method , arg_count)"
    ] := by rfl

theorem set_property_impl_as_modelled :
    Gen.glue_Vm_set_property_impl =
    [ "fn set_property_impl (& mut self) -> Result < () , Error >"
    , "if let Some (module) = self . peek (1) . try_as_obj_module () { let name = self . read_string () ; let value = self . peek (0) ; module . borrow_mut () . attributes . insert (name , value) ; self . pop () ; self . pop () ; self . push (value) ; return Ok (()) ; }"
    , "let instance = if let Some (ptr) = self . peek (1) . try_as_obj_instance () { ptr } else { let err = error ! (ErrorKind :: AttributeError , \"Only instances have fields.\") ; return self . try_handle_error (err) ; } ;"
    , "let name = self . read_string () ;"
    , "let value = self . peek (0) ;"
    , "instance . borrow_mut () . fields . insert (name , value) ;"
    , "self . pop () ;"
    , "self . pop () ;"
    , "self . push (value) ;"
    , "Ok (())"
    ] := by rfl

theorem static_method_impl_as_modelled :
    Gen.glue_Vm_static_method_impl =
    [ "fn static_method_impl (& mut self) -> Result < () , Error >"
    , "let name = self . read_string () ;"
    , "self . define_method (name , true)"
    ] := by rfl

theorem super_invoke_impl_as_modelled :
    Gen.glue_Vm_super_invoke_impl =
    [ "fn super_invoke_impl (& mut self) -> Result < () , Error >"
    , "let method = self . read_string () ;"
    , "let arg_count = self . read_byte () as usize ;"
    , "let superclass = match self . pop () { Value :: ObjClass (ptr) => ptr , _ => unreachable ! () , } ;"
    , "self . invoke_from_class (superclass , method , arg_count)"
    ] := by rfl

#print axioms bind_method_as_modelled
#print axioms declare_class_impl_as_modelled
#print axioms define_class_impl_as_modelled
#print axioms define_method_as_modelled
#print axioms get_property_impl_as_modelled
#print axioms get_super_impl_as_modelled
#print axioms inherit_impl_as_modelled
#print axioms invoke_as_modelled
#print axioms invoke_from_class_as_modelled
#print axioms invoke_impl_as_modelled
#print axioms set_property_impl_as_modelled
#print axioms static_method_impl_as_modelled
#print axioms super_invoke_impl_as_modelled

end Yarel.GlueText
