/-
Glue that the hand models transcribe and that is not translated into `Gen/Fns.lean`, regenerated from the source on every run as
signature + statements (statements under cfg(verif_hooks) stripped at every depth) and pinned here, function by function: re-use of one interpreter (Model/Reuse.lean: what a run starts from, what `reset` restores).

The models of these mechanisms were written against exactly these texts and are tied to the behaviour by event / request correspondence;
these obligations say that the text is still the one the models were written against - a guard added around a write, a reordered pair of
statements, an early return, a fast path.  A harmless rewrite breaks them as well: the correspondence then runs as the search, and if
it finds nothing the violation line ends in no-failing-input-found and this file is what has to be reviewed.
-/
import Yarel.Gen.CfgSites
namespace Yarel.GlueText
open Yarel

theorem reset_as_modelled :
    Gen.glue_Vm_reset =
    [ "fn reset (& mut self)"
    , "self . reset_stack () ;"
    , "self . range_cache . clear () ;"
    , "self . chunks = self . core_chunks . clone () ;"
    , "self . modules . retain (| & k , _ | k . as_str () == \"main\") ;"
    , "self . active_module = self . module (\"main\") ;"
    , "self . active_module . borrow_mut () . attributes = object :: new_obj_string_value_map () ;"
    , "self . init_built_in_globals (\"main\") ;"
    ] := by rfl

theorem reset_stack_as_modelled :
    Gen.glue_Vm_reset_stack =
    [ "fn reset_stack (& mut self)"
    , "if let Some (fiber) = self . fiber . as_ref () { let mut waiting = { let mut borrowed_fiber = fiber . borrow_mut () ; if borrowed_fiber . stack . len () > 0 { borrowed_fiber . close_upvalues (0) ; } borrowed_fiber . stack . clear () ; borrowed_fiber . frames . clear () ; borrowed_fiber . caller } ; while let Some (caller) = waiting { let mut borrowed_caller = caller . borrow_mut () ; if borrowed_caller . stack . len () > 0 { borrowed_caller . close_upvalues (0) ; } waiting = borrowed_caller . caller ; } }"
    ] := by rfl

theorem execute_as_modelled :
    Gen.glue_Vm_execute =
    [ "fn execute (& mut self , function : Root < ObjFunction > , args : & [Value]) -> Result < Value , Error >"
    , "self . ip = ptr :: null () ;"
    , "self . fiber = None ;"
    , "self . handling_exception = false ;"
    , "let module = self . module (& function . module_path) ;"
    , "let closure = self . new_root_obj_closure (function . as_gc () , module) ;"
    , "let fiber = self . new_root_obj_fiber (closure . as_gc ()) ;"
    , "let arity = closure . function . arity - 1 ;"
    , "if arity != args . len () { return Err (error ! (ErrorKind :: TypeError , \"Expected {} arguments but found {}.\" , arity , args . len ())) ; }"
    , "self . load_fiber (fiber . as_gc () , None) ? ;"
    , "for & arg in args { self . push (arg) ; }"
    , "match self . run () { Ok (value) => Ok (value) , Err (mut error) => Err (self . runtime_error (& mut error)) , }"
    ] := by rfl

theorem module_as_modelled :
    Gen.glue_Vm_module =
    [ "fn module (& mut self , path : & str) -> Gc < RefCell < ObjModule > >"
    , "let path = self . new_gc_obj_string (path) ;"
    , "if let Some (module) = self . modules . get (& path) { return module . as_gc () ; }"
    , "let module = Root :: new (RefCell :: new (ObjModule :: new (self . class_store . module_class () , path ,))) ;"
    , "let gc_module = module . as_gc () ;"
    , "self . modules . insert (path , module) ;"
    , "gc_module"
    ] := by rfl

#print axioms reset_as_modelled
#print axioms reset_stack_as_modelled
#print axioms execute_as_modelled
#print axioms module_as_modelled

end Yarel.GlueText
