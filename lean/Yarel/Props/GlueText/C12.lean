/-
Glue that the hand models transcribe and that is not translated into `Gen/Fns.lean`, regenerated from the source on every run as
signature + statements (statements under cfg(verif_hooks) stripped at every depth) and pinned here, function by function: the hash map natives (Model/HashMapM.lean).

The models of these mechanisms were written against exactly these texts and are tied to the behaviour by event / request correspondence;
these obligations say that the text is still the one the models were written against - a guard added around a write, a reordered pair of
statements, an early return, a fast path.  A harmless rewrite breaks them as well: the correspondence then runs as the search, and if
it finds nothing the violation line ends in no-failing-input-found and this file is what has to be reviewed.
-/
import Yarel.Gen.CfgSites
namespace Yarel.GlueText
open Yarel

theorem build_hash_map_as_modelled :
    Gen.glue_Vm_build_hash_map =
    [ "fn build_hash_map (& mut self , num_elements : usize) -> Result < Root < RefCell < ObjHashMap > > , Error >"
    , "let map = self . new_root_obj_hash_map () ;"
    , "let begin = self . stack_size () - num_elements * 2 ;"
    , "for i in 0 .. num_elements { let key = self . active_fiber () . stack [begin + 2 * i] ; if ! key . has_hash () { return Err (error ! (ErrorKind :: ValueError , \"Cannot use unhashable value '{}' as HashMap key.\" , key)) ; } let value = self . active_fiber () . stack [begin + 2 * i + 1] ; map . borrow_mut () . elements . insert (key , value) ; }"
    , "self . discard (num_elements * 2) ;"
    , "Ok (map)"
    ] := by rfl

theorem build_hash_map_impl_as_modelled :
    Gen.glue_Vm_build_hash_map_impl =
    [ "fn build_hash_map_impl (& mut self) -> Result < () , Error >"
    , "let num_elements = self . read_byte () as usize ;"
    , "match self . build_hash_map (num_elements) { Ok (map) => { self . push (Value :: ObjHashMap (map . as_gc ())) ; } Err (e) => { self . try_handle_error (e) ? ; } }"
    , "Ok (())"
    ] := by rfl

theorem hash_map_clear_as_modelled :
    Gen.glue_hash_map_clear =
    [ "fn hash_map_clear (vm : & mut Vm , num_args : usize) -> Result < Value , Error >"
    , "check_num_args (num_args , 0) ? ;"
    , "let hash_map = vm . peek (0) . try_as_obj_hash_map () . expect (\"Expected ObjHashMap\") ;"
    , "let mut borrowed_hash_map = hash_map . borrow_mut () ;"
    , "borrowed_hash_map . elements . clear () ;"
    , "Ok (Value :: None)"
    ] := by rfl

theorem hash_map_get_as_modelled :
    Gen.glue_hash_map_get =
    [ "fn hash_map_get (vm : & mut Vm , num_args : usize) -> Result < Value , Error >"
    , "check_num_args (num_args , 1) ? ;"
    , "let hash_map = vm . peek (1) . try_as_obj_hash_map () . expect (\"Expected ObjHashMap\") ;"
    , "let key = validate_hash_map_key (vm . peek (0)) ? ;"
    , "let borrowed_hash_map = hash_map . borrow () ;"
    , "Ok (* borrowed_hash_map . elements . get (& key) . unwrap_or (& Value :: None))"
    ] := by rfl

theorem hash_map_has_key_as_modelled :
    Gen.glue_hash_map_has_key =
    [ "fn hash_map_has_key (vm : & mut Vm , num_args : usize) -> Result < Value , Error >"
    , "check_num_args (num_args , 1) ? ;"
    , "let hash_map = vm . peek (1) . try_as_obj_hash_map () . expect (\"Expected ObjHashMap.\") ;"
    , "let key = validate_hash_map_key (vm . peek (0)) ? ;"
    , "let borrowed_hash_map = hash_map . borrow () ;"
    , "Ok (Value :: Boolean (borrowed_hash_map . elements . contains_key (& key) ,))"
    ] := by rfl

theorem hash_map_insert_as_modelled :
    Gen.glue_hash_map_insert =
    [ "fn hash_map_insert (vm : & mut Vm , num_args : usize) -> Result < Value , Error >"
    , "check_num_args (num_args , 2) ? ;"
    , "let hash_map = vm . peek (2) . try_as_obj_hash_map () . expect (\"Expected ObjHashMap\") ;"
    , "let key = validate_hash_map_key (vm . peek (1)) ? ;"
    , "let value = vm . peek (0) ;"
    , "let mut borrowed_hash_map = hash_map . borrow_mut () ;"
    , "Ok (borrowed_hash_map . elements . insert (key , value) . unwrap_or (Value :: None))"
    ] := by rfl

theorem hash_map_items_as_modelled :
    Gen.glue_hash_map_items =
    [ "fn hash_map_items (vm : & mut Vm , num_args : usize) -> Result < Value , Error >"
    , "check_num_args (num_args , 0) ? ;"
    , "let hash_map = vm . peek (0) . try_as_obj_hash_map () . expect (\"Expected ObjHashMap\") ;"
    , "let borrowed_hash_map = hash_map . borrow () ;"
    , "let root_obj_pairs : Vec < _ > = borrowed_hash_map . elements . iter () . map (| (& k , & v) | vm . new_root_obj_tuple (vec ! [k , v])) . collect () ;"
    , "let vec_elements = root_obj_pairs . iter () . map (| o | Value :: ObjTuple (o . as_gc ())) . collect () ;"
    , "let obj_items = vm . new_root_obj_vec () ;"
    , "obj_items . borrow_mut () . elements = vec_elements ;"
    , "Ok (Value :: ObjVec (obj_items . as_gc ()))"
    ] := by rfl

theorem hash_map_keys_as_modelled :
    Gen.glue_hash_map_keys =
    [ "fn hash_map_keys (vm : & mut Vm , num_args : usize) -> Result < Value , Error >"
    , "check_num_args (num_args , 0) ? ;"
    , "let hash_map = vm . peek (0) . try_as_obj_hash_map () . expect (\"Expected ObjHashMap\") ;"
    , "let borrowed_hash_map = hash_map . borrow () ;"
    , "let keys : Vec < _ > = borrowed_hash_map . elements . keys () . map (| & v | v) . collect () ;"
    , "let obj_keys = vm . new_root_obj_vec () ;"
    , "obj_keys . borrow_mut () . elements = keys ;"
    , "Ok (Value :: ObjVec (obj_keys . as_gc ()))"
    ] := by rfl

theorem hash_map_len_as_modelled :
    Gen.glue_hash_map_len =
    [ "fn hash_map_len (vm : & mut Vm , num_args : usize) -> Result < Value , Error >"
    , "check_num_args (num_args , 0) ? ;"
    , "let hash_map = vm . peek (0) . try_as_obj_hash_map () . expect (\"Expected ObjHashMap\") ;"
    , "let borrowed_hash_map = hash_map . borrow () ;"
    , "Ok (Value :: Number (borrowed_hash_map . elements . len () as f64))"
    ] := by rfl

theorem hash_map_remove_as_modelled :
    Gen.glue_hash_map_remove =
    [ "fn hash_map_remove (vm : & mut Vm , num_args : usize) -> Result < Value , Error >"
    , "check_num_args (num_args , 1) ? ;"
    , "let hash_map = vm . peek (1) . try_as_obj_hash_map () . expect (\"Expected ObjHashMap\") ;"
    , "let key = validate_hash_map_key (vm . peek (0)) ? ;"
    , "let mut borrowed_hash_map = hash_map . borrow_mut () ;"
    , "Ok (borrowed_hash_map . elements . remove (& key) . unwrap_or (Value :: None))"
    ] := by rfl

theorem hash_map_values_as_modelled :
    Gen.glue_hash_map_values =
    [ "fn hash_map_values (vm : & mut Vm , num_args : usize) -> Result < Value , Error >"
    , "check_num_args (num_args , 0) ? ;"
    , "let hash_map = vm . peek (0) . try_as_obj_hash_map () . expect (\"Expected ObjHashMap\") ;"
    , "let borrowed_hash_map = hash_map . borrow () ;"
    , "let values : Vec < _ > = borrowed_hash_map . elements . values () . map (| & v | v) . collect () ;"
    , "let obj_values = vm . new_root_obj_vec () ;"
    , "obj_values . borrow_mut () . elements = values ;"
    , "Ok (Value :: ObjVec (obj_values . as_gc ()))"
    ] := by rfl

theorem validate_hash_map_key_as_modelled :
    Gen.glue_validate_hash_map_key =
    [ "fn validate_hash_map_key (key : Value) -> Result < Value , Error >"
    , "if ! key . has_hash () { return Err (error ! (ErrorKind :: ValueError , \"Cannot use unhashable value '{}' as HashMap key.\" , key)) ; }"
    , "Ok (key)"
    ] := by rfl

#print axioms build_hash_map_as_modelled
#print axioms build_hash_map_impl_as_modelled
#print axioms hash_map_clear_as_modelled
#print axioms hash_map_get_as_modelled
#print axioms hash_map_has_key_as_modelled
#print axioms hash_map_insert_as_modelled
#print axioms hash_map_items_as_modelled
#print axioms hash_map_keys_as_modelled
#print axioms hash_map_len_as_modelled
#print axioms hash_map_remove_as_modelled
#print axioms hash_map_values_as_modelled
#print axioms validate_hash_map_key_as_modelled

end Yarel.GlueText
