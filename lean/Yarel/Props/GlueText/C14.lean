/-
Glue that the hand models transcribe and that is not translated into `Gen/Fns.lean`, regenerated from the source on every run as
signature + statements (statements under cfg(verif_hooks) stripped at every depth) and pinned here, function by function: modules (Model/Modules.lean: absent / loading / loaded; a body runs when the state is absent, `imported` is set when, and only when, the body has returned; one module object per path).

The models of these mechanisms were written against exactly these texts and are tied to the behaviour by event / request correspondence;
these obligations say that the text is still the one the models were written against - a guard added around a write, a reordered pair of
statements, an early return, a fast path.  A harmless rewrite breaks them as well: the correspondence then runs as the search, and if
it finds nothing the violation line ends in no-failing-input-found and this file is what has to be reviewed.
-/
import Yarel.Gen.CfgSites
namespace Yarel.GlueText
open Yarel

theorem start_import_impl_as_modelled :
    Gen.glue_Vm_start_import_impl =
    [ "fn start_import_impl (& mut self) -> Result < () , Error >"
    , "let path = self . read_string () ;"
    , "if let Some (module) = self . modules . get (& path) . map (| m | m . as_gc ()) { if module . borrow () . imported { self . push (Value :: ObjModule (module)) ; self . push (Value :: None) ; } else { let err = error ! (ErrorKind :: ImportError , \"Circular dependency encountered when importing module '{}'.\" , path . as_str ()) ; self . try_handle_error (err) ? ; } return Ok (()) ; }"
    , "let source = match (self . module_loader) (& path) { Ok (s) => s , Err (e) => { return self . try_handle_error (e) ; } } ;"
    , "let function = match compiler :: compile (self , source , Some (& path)) { Ok (f) => f , Err (e) => { let mut error = error ! (ErrorKind :: ImportError , \"Error compiling module:\") ; for msg in e . messages () { error . add_message (& format ! (\"    {}\" , msg)) ; } return self . try_handle_error (error) ; } } ;"
    , "let module = self . module (& path) ;"
    , "self . push (Value :: ObjModule (module)) ;"
    , "let closure = self . new_root_obj_closure (function . as_gc () , module) ;"
    , "self . push (Value :: ObjClosure (closure . as_gc ())) ;"
    , "self . init_built_in_globals (path . as_str ()) ;"
    , "self . call_value (self . peek (0) , 0) ? ;"
    , "Ok (())"
    ] := by rfl

theorem finish_import_impl_as_modelled :
    Gen.glue_Vm_finish_import_impl =
    [ "fn finish_import_impl (& mut self)"
    , "self . pop () ;"
    , "let module = self . peek (0) . try_as_obj_module () . expect (\"Expected ObjModule.\") ;"
    , "module . borrow_mut () . imported = true ;"
    ] := by rfl

theorem module_as_modelled :
    Gen.glue_Vm_module =
    [ "fn module (& mut self , path : & str) -> Gc < RefCell < ObjModule > >"
    , "let path = self . new_gc_obj_string (path) ;"
    , "if let Some (module) = self . modules . get (& path) { return module . as_gc () ; }"
    , "let module = Root :: new (RefCell :: new (ObjModule :: new (self . class_store . module_class () , path ,))) ;"
    , "let gc_module = module . as_gc () ;"
    , "self . modules . insert (path , module) ;"
    , "gc_module"
    ] := by rfl

#print axioms start_import_impl_as_modelled
#print axioms finish_import_impl_as_modelled
#print axioms module_as_modelled

end Yarel.GlueText
