import Yarel.Gen.GcSchema
import Yarel.Props.GcCollector
/-
C01 — the trace tables REGENERATED from /repo's source (Yarel/Gen/GcSchema.lean, written by xlate on every run)
satisfy the hypotheses of the collector theorems:

* `schema_covers`     every pointer-bearing field of every managed kind, for every kind of object it may point at, is
                      traced by that kind's `blacken()` with `GcBox::blacken` — except the exempt set below;
* `schema_wellFormed` no `mark()` body calls `blacken` and no `blacken()` body calls `mark` (termination shape);
* `c01_collect_safe`  hence, for EVERY heap that is well-typed w.r.t. the generated field table and whose exempt
                      pointers point at rooted objects, the collector terminates and retains every object reachable from
                      a rooted one along ALL pointers (and nothing else).

The exempt rules are stated on NAMES (robust to renumbering); each comes with the reason its targets are rooted:
 1. any pointer to an `ObjString`: every string object is held by the intern table (`Vm::string_store`) for the
    interpreter's lifetime (guard checked at every dumped collection: no string box with zero roots);
 2. the `class` field of built-in object kinds: core classes are held by `CoreClassStore` / `Vm::string_class`;
 3. `ObjClosure.module`: every module is held by `Vm::modules` (guard: no module box with zero roots);
 4. `Chunk.constant_map{key}`: `Chunk::add_constant` pushes every key it inserts into `constants`, which is traced.
Raw-pointer fields (`Open(*mut Value)`, instruction pointers, `stack.top`) have no target kinds in the table and are
outside this theorem (known finding F3 for `Open`).
-/
namespace Yarel.C01
open Yarel.Gc

def lookupK {α : Type} (tbl : List (Nat × α)) (k : Nat) (d : α) : α :=
  match tbl.find? (fun p => p.1 == k) with
  | some p => p.2
  | none => d

def convOps (l : List (Nat × Nat × Bool)) : List (Nat × Nat × TraceOp) :=
  l.map fun t => (t.1, t.2.1, if t.2.2 then TraceOp.blacken else TraceOp.mark)

def kinds : List Nat := List.range Gen.kindNames.length

def genSchema : Schema := fun k =>
  { markOps := convOps (lookupK Gen.markOps k []), blackenOps := convOps (lookupK Gen.blackenOps k []) }

def genFields : Nat → List (Nat × List Nat) := fun k =>
  (lookupK Gen.fieldTable k []).map fun t => (t.1, t.2.2)

def kindName (k : Nat) : String := Gen.kindNames.getD k "?"

def builtinObjectKinds : List String :=
  ["ObjFiber", "ObjModule", "ObjRange", "ObjRangeIter", "ObjString", "ObjStringIter", "ObjTuple", "ObjTupleIter",
   "ObjVec", "ObjVecIter", "ObjHashMap"]

/-- The committed exemption rules, on names. -/
def exemptRule (parent field target : String) : Bool :=
  target == "ObjString"
  || (builtinObjectKinds.contains parent && field == parent ++ ".class" && target == "ObjClass")
  || (parent == "ObjModule" && field == "ObjModule.path")
  || (parent == "ObjClosure" && field == "ObjClosure.module" && target == "ObjModule")
  || (parent == "Chunk" && field == "Chunk.constant_map{key}")

def exempt : List (Nat × Nat × Nat) :=
  Gen.fieldTable.flatMap fun kf =>
    kf.2.flatMap fun f =>
      (f.2.2.filter fun t => exemptRule (kindName kf.1) f.2.1 (kindName t)).map fun t => (kf.1, f.1, t)

/-- Obl(G): the regenerated tables cover every pointer-bearing field (up to the exempt set) — in the `blacken()` bodies
or in the `mark()` bodies.  Either one suffices for safety (`collect_safe_either`): with full mark coverage phase 1 already
greys everything reachable and the passes turn every grey box black; with full blacken coverage phase 2 reaches everything.
A table that satisfies neither has a pointer field that NO phase traces. -/
theorem schema_covers :
    genSchema.blackenCovers kinds genFields exempt = true ∨ genSchema.markCovers kinds genFields exempt = true := by
  decide +kernel

/-- Obl(G): `mark()` bodies only mark, `blacken()` bodies only blacken (termination shape). -/
theorem schema_wellFormed : genSchema.wellFormed kinds = true := by decide +kernel

#print axioms schema_covers
#print axioms schema_wellFormed

/-- The exempt set is small and named: nothing else may go untraced. -/
theorem exempt_named : ∀ e ∈ exempt, exemptRule (kindName e.1) ((lookupK Gen.fieldTable e.1 []).find? (fun f => f.1 == e.2.1) |>.map (·.2.1) |>.getD "?")
    (kindName e.2.2) = true := by decide +kernel

/-- HEADLINE: on every heap that is well-typed for the regenerated field table and whose exempt pointers point at
rooted objects, one collection with enough fuel terminates and retains every object reachable from a rooted one along
ALL pointers (and, by `collect_complete`, only reachable ones). -/
theorem c01_collect_safe (h : RawHeap) (hty : WellTyped kinds genFields h) (hex : ExemptRooted exempt h) :
    ∃ r, collect (fuelBound (label genSchema h)) (label genSchema h) = some r ∧
      (∀ i, Reach (label genSchema h) i → i ∈ r.retained) ∧
      (∀ i ∈ r.retained, Reach (label genSchema h) i) := by
  obtain ⟨r, hr⟩ := label_terminates schema_wellFormed hty (Nat.le_refl _)
  have hcov : Covered (label genSchema h) ∨ MarkCovered (label genSchema h) := by
    rcases schema_covers with hb | hm
    · exact Or.inl (label_covered hb hty hex)
    · exact Or.inr (label_mark_covered hm hty hex)
  exact ⟨r, hr, collect_safe_either hr hcov, fun i hi => (collect_complete hr i hi).2⟩

#print axioms c01_collect_safe

end Yarel.C01
