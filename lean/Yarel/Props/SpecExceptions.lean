/-
Exception semantics of the Lean reference interpreter (S), stated on its machine (`Yarel/Spec/Machine.lean`): the language-level
content of property C08 as theorems about what every program does, for ALL states, continuations and values.

  throw_reaches_innermost_handler   a raised value reaches the innermost enclosing `try … catch` of the running function; the
                                    expression, block and loop frames in between are dropped one per step, nothing is printed,
                                    no object is touched, no call is left
  throw_enters_catch                there the block's variables are dropped and the value becomes the catch variable
  completion_enters_finally,        every way out of the try block and of the catch block - exception, return, break, continue,
  completion_in_catch_enters_finally, normal_end_of_*_enters_finally      and normal completion - runs the finally block (once: the
                                    statement's frame goes tryK → (catchK →) finallyK → gone, never back)
  finally_end_resumes / _rethrows / _nothing_pending   afterwards the pending completion continues unchanged
  completion_in_finally_replaces_pending               (a new abrupt completion inside finally wins)
  throw_leaves_call, return_delivers_value             function boundaries
  uncaught_at_fiber_bottom_ends_run                    handlers of other fibers are not consulted

The implementation is tied to (S) by the program differential of C08 (generated exception programs, scenarios, failure
catalogue); where it deviates (known findings F13 F14 F23 F25 F26 F27 F35 F39) the generators avoid exactly those shapes.
-/
import Yarel.Spec.Machine
import Yarel.Proofs.SpecRun
namespace Yarel.Spec.Exc
open Yarel.Spec Yarel.Spec.State

/-- Frames a propagating exception simply drops: everything except `try` statement frames, function calls and fiber bottoms
(loop frames intercept `break`/`continue` only; a block's `scope` frame drops the block's variables). -/
def throwLocal : Frame → Bool
  | .tryK .. | .catchK .. | .finallyK .. | .call .. | .fiberBase => false
  | _ => true

/-- What passing those frames leaves of the state: only the variable array may have shrunk and the frames are gone. -/
structure SameButEnv (a b : State) : Prop where
  heap : a.heap = b.heap
  fiber : a.fiber = b.fiber
  fn : a.fn = b.fn
  depth : a.depth = b.depth
  errLine : a.errLine = b.errLine
  modules : a.modules = b.modules
  printed : a.printed = b.printed
  outcome : a.outcome = b.outcome
  envSize : a.env.size ≤ b.env.size

theorem truncateEnv_same (st : State) (n : Nat) : SameButEnv (st.truncateEnv n) st := by
  unfold State.truncateEnv
  split
  · refine ⟨rfl, rfl, rfl, rfl, rfl, rfl, rfl, rfl, ?_⟩
    simp [Array.size_extract]; omega
  · exact ⟨rfl, rfl, rfl, rfl, rfl, rfl, rfl, rfl, Nat.le_refl _⟩

@[simp] theorem truncateEnv_printed (st : State) (n : Nat) : (st.truncateEnv n).printed = st.printed := by
  unfold State.truncateEnv; split <;> rfl
@[simp] theorem truncateEnv_outcome (st : State) (n : Nat) : (st.truncateEnv n).outcome = st.outcome := by
  unfold State.truncateEnv; split <;> rfl
@[simp] theorem truncateEnv_fn (st : State) (n : Nat) : (st.truncateEnv n).fn = st.fn := by
  unfold State.truncateEnv; split <;> rfl
@[simp] theorem truncateEnv_depth (st : State) (n : Nat) : (st.truncateEnv n).depth = st.depth := by
  unfold State.truncateEnv; split <;> rfl
@[simp] theorem truncateEnv_heap (st : State) (n : Nat) : (st.truncateEnv n).heap = st.heap := by
  unfold State.truncateEnv; split <;> rfl
@[simp] theorem truncateEnv_kont (st : State) (n : Nat) : (st.truncateEnv n).kont = st.kont := by
  unfold State.truncateEnv; split <;> rfl
@[simp] theorem truncateEnv_ctl' (st : State) (n : Nat) : (st.truncateEnv n).ctl = st.ctl := by
  unfold State.truncateEnv; split <;> rfl
@[simp] theorem truncateEnv_errLine (st : State) (n : Nat) : (st.truncateEnv n).errLine = st.errLine := by
  unfold State.truncateEnv; split <;> rfl

theorem truncateEnv_ctl (st : State) (n : Nat) : (st.truncateEnv n).ctl = st.ctl ∧ (st.truncateEnv n).kont = st.kont := by
  unfold State.truncateEnv; split <;> simp

/-- One step of a propagating exception over a frame it does not concern. -/
theorem step_throw_local (st : State) (v : Value) (f : Frame) (rest : List Frame) (hf : throwLocal f = true)
    (hk : st.kont = f :: rest) (hc : st.ctl = .unwind (.throw v)) (ho : st.outcome = none) :
    (step st).kont = rest ∧ (step st).ctl = .unwind (.throw v) ∧ SameButEnv (step st) st := by
  unfold State.step
  rw [ho, hc]
  simp only
  unfold State.onUnwind
  rw [hk]
  cases f <;> simp only [throwLocal] at hf <;> try (exact absurd hf (by decide))
  all_goals first
    | exact ⟨rfl, hc, ⟨rfl, rfl, rfl, rfl, rfl, rfl, rfl, rfl, Nat.le_refl _⟩⟩
    | skip
  all_goals (
    rename_i n
    have h1 := truncateEnv_ctl { st with kont := rest } n
    have h2 := truncateEnv_same { st with kont := rest } n
    exact ⟨h1.2, h1.1.trans hc, ⟨h2.heap, h2.fiber, h2.fn, h2.depth, h2.errLine, h2.modules, h2.printed, h2.outcome, h2.envSize⟩⟩)

theorem SameButEnv.trans {a b c : State} (h1 : SameButEnv a b) (h2 : SameButEnv b c) : SameButEnv a c :=
  ⟨h1.heap.trans h2.heap, h1.fiber.trans h2.fiber, h1.fn.trans h2.fn, h1.depth.trans h2.depth, h1.errLine.trans h2.errLine,
   h1.modules.trans h2.modules, h1.printed.trans h2.printed, h1.outcome.trans h2.outcome, Nat.le_trans h1.envSize h2.envSize⟩

theorem SameButEnv.refl (a : State) : SameButEnv a a := ⟨rfl, rfl, rfl, rfl, rfl, rfl, rfl, rfl, Nat.le_refl _⟩


/-- A propagating exception passes any number of frames that do not concern it, one per step: nothing is printed, no object
is touched, no call is left; only variables of blocks that are left may disappear. -/
theorem throw_passes_local_frames (pre : List Frame) : ∀ (st : State) (v : Value) (rest : List Frame),
    (∀ f ∈ pre, throwLocal f = true) → st.kont = pre ++ rest → st.ctl = .unwind (.throw v) → st.outcome = none →
    (run pre.length st).kont = rest ∧ (run pre.length st).ctl = .unwind (.throw v) ∧ SameButEnv (run pre.length st) st := by
  induction pre with
  | nil =>
    intro st v rest _ hk hc _
    have : run ([] : List Frame).length st = st := rfl
    rw [this]
    exact ⟨by simpa using hk, hc, SameButEnv.refl st⟩
  | cons f pre ih =>
    intro st v rest hall hk hc ho
    have hs := step_throw_local st v f (pre ++ rest) (hall f (by simp)) (by simpa using hk) hc ho
    have ho' : (step st).outcome = none := hs.2.2.outcome.trans ho
    rw [List.length_cons, State.run_succ]
    have := ih (step st) v rest (fun g hg => hall g (by simp [hg])) hs.1 hs.2.1 ho'
    exact ⟨this.1, this.2.1, this.2.2.trans hs.2.2⟩

/-- At the innermost enclosing `try` statement that has a `catch`: the block's variables are dropped, the exception value
becomes the catch variable (a fresh variable), the recorded raise site is forgotten and the catch block starts; nothing is printed. -/
theorem throw_enters_catch (st : State) (v : Value) (catchBody finallyBody : List Stmt) (hasFinally : Bool) (endLine n : Nat)
    (rest : List Frame) (hk : st.kont = .tryK true catchBody hasFinally finallyBody endLine n :: rest)
    (hc : st.ctl = .unwind (.throw v)) (ho : st.outcome = none) :
    (step st).kont = .catchK hasFinally finallyBody endLine n :: rest ∧ (step st).ctl = .exec catchBody ∧
    (step st).errLine = none ∧ (step st).printed = st.printed ∧ (step st).outcome = none ∧ (step st).fn = st.fn ∧
    (step st).depth = st.depth := by
  unfold State.step
  rw [ho, hc]
  simp only
  unfold State.onUnwind
  rw [hk]
  simp only
  refine ⟨?_, ?_, ?_, ?_, ?_, ?_, ?_⟩ <;>
    simp [State.pushLocal, State.newCell, State.withHeap, State.takeHeap, ho]

/-- **C08 on the reference interpreter**: a raised value transfers control to the innermost enclosing `try` statement with a
`catch` of the running function - whatever expression, block and loop frames lie in between are dropped, one per step. -/
theorem throw_reaches_innermost_handler (st : State) (v : Value) (pre : List Frame) (catchBody finallyBody : List Stmt)
    (hasFinally : Bool) (endLine n : Nat) (rest : List Frame) (hpre : ∀ f ∈ pre, throwLocal f = true)
    (hk : st.kont = pre ++ .tryK true catchBody hasFinally finallyBody endLine n :: rest)
    (hc : st.ctl = .unwind (.throw v)) (ho : st.outcome = none) :
    let st' := run (pre.length + 1) st
    st'.kont = .catchK hasFinally finallyBody endLine n :: rest ∧ st'.ctl = .exec catchBody ∧ st'.printed = st.printed ∧
    st'.outcome = none ∧ st'.fn = st.fn ∧ st'.depth = st.depth := by
  intro st'
  have h1 := throw_passes_local_frames pre st v _ hpre hk hc ho
  have ho1 : (run pre.length st).outcome = none := h1.2.2.outcome.trans ho
  have h2 := throw_enters_catch (run pre.length st) v catchBody finallyBody hasFinally endLine n rest h1.1 h1.2.1 ho1
  have hrun : st' = step (run pre.length st) := by
    show run (pre.length + 1) st = _
    rw [State.run_add 1 pre.length st, State.run_succ 0]
    rfl
  rw [hrun]
  exact ⟨h2.1, h2.2.1, h2.2.2.2.1.trans h1.2.2.printed, h2.2.2.2.2.1, h2.2.2.2.2.2.1.trans h1.2.2.fn, h2.2.2.2.2.2.2.trans h1.2.2.depth⟩


/-! ## `finally` -/

/-- Whatever leaves the `try` block abruptly and is not caught here - an exception when there is no `catch`, a `return`, a
`break`, a `continue` - runs the `finally` block, with that completion pending. -/
theorem completion_enters_finally (st : State) (r : Reason) (hasCatch : Bool) (catchBody finallyBody : List Stmt) (endLine n : Nat)
    (rest : List Frame) (hk : st.kont = .tryK hasCatch catchBody true finallyBody endLine n :: rest)
    (hc : st.ctl = .unwind r) (ho : st.outcome = none) (hnc : ∀ v, r = .throw v → hasCatch = false) :
    (step st).kont = .finallyK (.reason r) endLine n :: rest ∧ (step st).ctl = .exec finallyBody ∧
    (step st).printed = st.printed ∧ (step st).outcome = none := by
  unfold State.step
  rw [ho, hc]
  simp only
  unfold State.onUnwind
  rw [hk]
  cases r with
  | throw v => have := hnc v rfl; subst this; simp [ho]
  | ret v => cases hasCatch <;> simp [ho]
  | brk => cases hasCatch <;> simp [ho]
  | cont => cases hasCatch <;> simp [ho]

/-- The same for whatever leaves the `catch` block abruptly (including an exception raised inside it). -/
theorem completion_in_catch_enters_finally (st : State) (r : Reason) (finallyBody : List Stmt) (endLine n : Nat)
    (rest : List Frame) (hk : st.kont = .catchK true finallyBody endLine n :: rest)
    (hc : st.ctl = .unwind r) (ho : st.outcome = none) :
    (step st).kont = .finallyK (.reason r) endLine n :: rest ∧ (step st).ctl = .exec finallyBody ∧
    (step st).printed = st.printed ∧ (step st).outcome = none := by
  unfold State.step
  rw [ho, hc]
  simp only
  unfold State.onUnwind
  rw [hk]
  simp [ho]

/-- Normal completion of the `try` block, and of the `catch` block, runs the `finally` block with nothing pending. -/
theorem normal_end_of_try_enters_finally (st : State) (hasCatch : Bool) (catchBody finallyBody : List Stmt) (endLine n : Nat)
    (rest : List Frame) (hk : st.kont = .tryK hasCatch catchBody true finallyBody endLine n :: rest)
    (hc : st.ctl = .next) (ho : st.outcome = none) :
    (step st).kont = .finallyK .none endLine n :: rest ∧ (step st).ctl = .exec finallyBody ∧ (step st).printed = st.printed := by
  unfold State.step
  rw [ho, hc]
  simp only
  unfold State.onNext
  rw [hk]
  simp [hc, ho]

theorem normal_end_of_catch_enters_finally (st : State) (finallyBody : List Stmt) (endLine n : Nat)
    (rest : List Frame) (hk : st.kont = .catchK true finallyBody endLine n :: rest)
    (hc : st.ctl = .next) (ho : st.outcome = none) :
    (step st).kont = .finallyK .none endLine n :: rest ∧ (step st).ctl = .exec finallyBody ∧ (step st).printed = st.printed := by
  unfold State.step
  rw [ho, hc]
  simp only
  unfold State.onNext
  rw [hk]
  simp [hc, ho]

/-- When the `finally` block completes normally the pending completion continues: a `return` still returns its value, a
`break`/`continue` still leaves/continues its loop; with nothing pending execution goes on after the statement. -/
theorem finally_end_resumes (st : State) (r : Reason) (endLine n : Nat) (rest : List Frame)
    (hk : st.kont = .finallyK (.reason r) endLine n :: rest) (hc : st.ctl = .next) (ho : st.outcome = none)
    (hr : ∀ v, r ≠ .throw v) :
    (step st).kont = rest ∧ (step st).ctl = .unwind r ∧ (step st).printed = st.printed := by
  unfold State.step
  rw [ho, hc]
  simp only
  unfold State.onNext
  rw [hk]
  cases r with
  | throw v => exact absurd rfl (hr v)
  | ret v => simp
  | brk => simp
  | cont => simp

theorem finally_end_nothing_pending (st : State) (endLine n : Nat) (rest : List Frame)
    (hk : st.kont = .finallyK .none endLine n :: rest) (hc : st.ctl = .next) (ho : st.outcome = none) :
    (step st).kont = rest ∧ (step st).ctl = .next ∧ (step st).printed = st.printed := by
  unfold State.step
  rw [ho, hc]
  simp only
  unfold State.onNext
  rw [hk]
  simp [hc]

/-- … and a pending exception is raised again (`throwValue`: it goes on to the next enclosing handler of this fiber, or ends
the run when there is none). -/
theorem finally_end_rethrows (st : State) (v : Value) (endLine n : Nat) (rest : List Frame)
    (hk : st.kont = .finallyK (.reason (.throw v)) endLine n :: rest) (hc : st.ctl = .next) (ho : st.outcome = none) :
    step st = (({ st with kont := rest }).truncateEnv n).throwValue v endLine := by
  unfold State.step
  rw [ho, hc]
  simp only
  unfold State.onNext
  rw [hk]
  simp [hc, ho]

/-- A new abrupt completion inside the `finally` block replaces the pending one. -/
theorem completion_in_finally_replaces_pending (st : State) (r : Reason) (p : Pending) (endLine n : Nat) (rest : List Frame)
    (hk : st.kont = .finallyK p endLine n :: rest) (hc : st.ctl = .unwind r) (ho : st.outcome = none) :
    (step st).kont = rest ∧ (step st).ctl = .unwind r := by
  unfold State.step
  rw [ho, hc]
  simp only
  unfold State.onUnwind
  rw [hk]
  simp [hc]

/-! ## function calls and fibers -/

/-- An exception that leaves a function restores the caller's registers and keeps propagating in the caller. -/
theorem throw_leaves_call (st : State) (v : Value) (env : Array Nat) (fn : FnInfo) (line : Nat) (rest : List Frame)
    (hk : st.kont = .call env fn line :: rest) (hc : st.ctl = .unwind (.throw v)) (ho : st.outcome = none) :
    (step st).kont = rest ∧ (step st).ctl = .unwind (.throw v) ∧ (step st).env = env ∧ (step st).fn = fn ∧
    (step st).depth = st.depth - 1 ∧ (step st).printed = st.printed ∧ (step st).heap = st.heap := by
  unfold State.step
  rw [ho, hc]
  simp only
  unfold State.onUnwind
  rw [hk]
  simp [hc]

/-- `return v` reaching the call frame delivers `v` to the caller. -/
theorem return_delivers_value (st : State) (v : Value) (env : Array Nat) (fn : FnInfo) (line : Nat) (rest : List Frame)
    (hk : st.kont = .call env fn line :: rest) (hc : st.ctl = .unwind (.ret v)) (ho : st.outcome = none) :
    (step st).kont = rest ∧ (step st).ctl = .value v ∧ (step st).env = env ∧ (step st).fn = fn ∧ (step st).depth = st.depth - 1 := by
  unfold State.step
  rw [ho, hc]
  simp only
  unfold State.onUnwind
  rw [hk]
  simp [State.value]

/-- An exception that reaches the bottom of its fiber ends the run with an error: the frames of the fibers waiting in `call`
are not consulted (handlers belong to the fiber that installed them). -/
theorem uncaught_at_fiber_bottom_ends_run (st : State) (v : Value)
    (hk : st.kont = [.fiberBase]) (hc : st.ctl = .unwind (.throw v)) (ho : st.outcome = none) :
    ∃ kind msgs, (step st).outcome = some (.error kind msgs) := by
  unfold State.step
  rw [ho, hc]
  simp only
  unfold State.onUnwind
  rw [hk]
  simp only [State.failUncaught, State.halt]
  split <;> exact ⟨_, _, rfl⟩


#print axioms truncateEnv_same
#print axioms truncateEnv_ctl
#print axioms step_throw_local
#print axioms SameButEnv.trans
#print axioms SameButEnv.refl
#print axioms throw_passes_local_frames
#print axioms throw_enters_catch
#print axioms throw_reaches_innermost_handler
#print axioms completion_enters_finally
#print axioms completion_in_catch_enters_finally
#print axioms normal_end_of_try_enters_finally
#print axioms normal_end_of_catch_enters_finally
#print axioms finally_end_resumes
#print axioms finally_end_nothing_pending
#print axioms finally_end_rethrows
#print axioms completion_in_finally_replaces_pending
#print axioms throw_leaves_call
#print axioms return_delivers_value
#print axioms uncaught_at_fiber_bottom_ends_run

end Yarel.Spec.Exc
