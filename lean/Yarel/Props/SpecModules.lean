/-
Imports of the Lean reference interpreter (S): the language-level content of property C14.

  import_loaded_does_not_rerun    importing a module that has finished loading binds the SAME module object and starts no body
  import_loading_is_circular      importing a module that is registered but still loading - itself, or any module up the chain of
                                  imports in progress - is an ImportError raised at the import statement; no body is started
  import_missing_is_error, import_uncompilable_is_error   a missing or uncompilable module is an ImportError value raised in the
                                  importer; the registry is not changed
  (the body of a new module runs as a call of its script; `FinishImport` marks it loaded: `importK` in Machine.lean)
-/
import Yarel.Spec.Machine
namespace Yarel.Spec.Modules
open Yarel.Spec Yarel.Spec.State

theorem import_loaded_does_not_rerun (st : State) (path : String) (g : Option String) (line : Nat) (m : Nat) (p : String)
    (attrs : List (String × Value)) (hm : st.modules.lookup path = some m) (ho : st.heap.get m = .module p true attrs) :
    st.startImport path g line = st.bindImport m g := by
  unfold State.startImport
  rw [hm]
  simp [ho]

theorem import_loading_is_circular (st : State) (path : String) (g : Option String) (line : Nat) (m : Nat) (p : String)
    (attrs : List (String × Value)) (hm : st.modules.lookup path = some m) (ho : st.heap.get m = .module p false attrs) :
    st.startImport path g line =
      st.raise .importError ("Circular dependency encountered when importing module '" ++ path ++ "'.") line := by
  unfold State.startImport
  rw [hm]
  simp [ho]

theorem import_missing_is_error (st : State) (path : String) (g : Option String) (line : Nat)
    (hm : st.modules.lookup path = none) (hs : st.sources.lookup path = none) :
    st.startImport path g line = st.raise .importError ("Unable to read file '" ++ path ++ ".yl' (file not found).") line := by
  unfold State.startImport
  rw [hm]
  simp [hs]

theorem import_uncompilable_is_error (st : State) (path : String) (g : Option String) (line : Nat) (src : String) (msgs : List String)
    (hm : st.modules.lookup path = none) (hs : st.sources.lookup path = some src) (hc : compileWith st.tbl src path = .error msgs) :
    st.startImport path g line =
      st.raise .importError (Heap.joinWith "\n" ("Error compiling module:" :: msgs.map fun m => "    " ++ m)) line := by
  unfold State.startImport
  rw [hm]
  simp [hs, hc]

theorem throwValue_keeps_registry (st : State) (v : Value) (line : Nat) : (st.throwValue v line).modules = st.modules := by
  unfold State.throwValue
  split
  · rfl
  · simp only [State.failUncaught, State.halt]
    split <;> simp [State.setObj, State.modHeap, State.takeHeap]

/-- Raising an error does not touch the module registry: a failed import (missing, uncompilable, circular) leaves it as it was. -/
theorem raise_keeps_registry (st : State) (k : ErrorKind) (msg : String) (line : Nat) :
    (st.raise k msg line).modules = st.modules := by
  unfold State.raise
  rw [throwValue_keeps_registry]
  simp [State.withHeap, State.takeHeap]

#print axioms import_loaded_does_not_rerun
#print axioms import_loading_is_circular
#print axioms import_missing_is_error
#print axioms import_uncompilable_is_error
#print axioms raise_keeps_registry

end Yarel.Spec.Modules
