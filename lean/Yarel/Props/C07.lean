/-
C07 — class construction and member dispatch.

"A member access on an instance finds its own fields first and otherwise the method defined nearest in its class's
ancestry as declared at class definition; a method taken as a value stays bound to the instance it was taken from;
constructors return the new instance and run inherited initialisation only when asked via super. `super.m` always
means the method of the defining class's declared superclass, inside a static method `Self` denotes the class it was
invoked through, and unknown members, wrong arity and non-class superclasses are reported as
AttributeError/TypeError/RuntimeError."

Model: Yarel/Model/ClassTable.lean. Invariant `WF` and helper lemmas: Yarel/Proofs/ClassTable.lean.
All theorems about states quantify over EVERY well-formed state `WF st`; `wf_reachable`, `construct_wf`,
`setProperty_wf` show that the initial store, every sequence of class statements / assignments, instance creation and
field assignment stay inside `WF`.

Deviations from the informal property that the model (= the Rust code) forces, each proved below:
  * `static_not_inherited_via_class`: a static method (or constructor) is NOT reachable through a SUBCLASS VALUE
    (`Inherit` copies into the class's table only, never into the metaclass): `B.make()` is an AttributeError when only
    `A` defines `#[static] make`. It IS reachable through an instance of the subclass (copy-down copies statics too).
  * `copy_down_false_for_metaclass`: for METACLASS objects the table is not "nearest definition": a non-static
    definition of a name Object has (`derives`) removes Object's method from the metaclass.
-/
import Yarel.Proofs.ClassTable

namespace Yarel.Props.C07
open Yarel.ClassTable

/-! ## Reachable states are well-formed -/

theorem wf_reachable (env0 : Env) (prog : List Stmt) : WF (run (State.init, env0) prog).1 :=
  run_wf prog (State.init, env0) wf_init
#print axioms wf_reachable

/-! ## Non-vacuity fixture: a 3-level hierarchy with overriding at each level, a static method, constructors

```
#[constructor(new)] class A { fn m1(self){} fn m2(self,x){} fn m3(self){} #[static] fn make(){} }
#[derive(A)]        class B { fn m2(self,x){ super.m2(x) } fn m3(self){} #[constructor] fn new(self,x){ super.new() } }
#[constructor(new), derive(B)] class C { fn m3(self){} }
```
names: derives=0 m1=1 m2=2 m3=3 make=4 new=6; class names A=10 B=11 C=12; body ids 1xx (A), 11x (B), 12x (C).
Class identities after the three statements: A=8 (metaclass 7), B=10 (9), C=12 (11). -/

def declA : ClassDecl :=
  { name := 10, derive := none, ctor := some (6, 100),
    methods := [⟨1, .method, 101, 0⟩, ⟨2, .method, 102, 1⟩, ⟨3, .method, 103, 0⟩, ⟨4, .static, 104, 0⟩] }
def declB : ClassDecl :=
  { name := 11, derive := some 10, ctor := none,
    methods := [⟨2, .method, 112, 1⟩, ⟨3, .method, 113, 0⟩, ⟨6, .ctor, 110, 1⟩] }
def declC : ClassDecl :=
  { name := 12, derive := some 11, ctor := some (6, 120), methods := [⟨3, .method, 123, 0⟩] }

def prog3 : List Stmt := [.classDecl declA, .classDecl declB, .classDecl declC]
/-- store and variables after the three class statements -/
def s3 : State × Env := run (State.init, []) prog3
def st3 : State := s3.1
/-- `var c = C.new();` : an instance (id 0) of C -/
def st4 : State := (construct st3 (.cls 12)).1
/-- a plain closure -/
def someFn : Method := { body := 999, arity := some 0, init := false, superCap := none }
/-- `c.m1 = someFn;` : the field `m1` shadows the method `m1` -/
def st5 : State :=
  match setProperty st4 (.inst 0) 1 (.method someFn) with
  | .ok s => s
  | _ => st4

def mA1 : Method := { body := 101, arity := some 0, init := false, superCap := none }
def mAmake : Method := { body := 104, arity := some 0, init := false, superCap := none }
def mB2 : Method := { body := 112, arity := some 1, init := false, superCap := some 8 }
def mC3 : Method := { body := 123, arity := some 0, init := false, superCap := some 10 }

example : WF st3 := wf_reachable [] prog3
example : s3.2 = [(12, .cls 12), (11, .cls 10), (10, .cls 8)] := by decide
example : st3.classes.length = 13 := by decide

/-! ## copy_down_is_nearest -/

/-- After any sequence of class definitions (any well-formed store): the table of every class `C` (user or built-in,
not a metaclass object) maps `n` to the definition of the NEAREST class in `C`'s ancestry chain — following the
`superclass` links as recorded at definition time up to Object — that defines `n`, or to nothing if none does.
The chain is complete (it ends in Object, id 0). -/
theorem copy_down_is_nearest (st : State) (h : WF st) (c : ClassId) (C : ClassObj)
    (hc : st.classes[c]? = some C) (hplain : C.name.isMeta = false) (n : Name) :
    tget C.methods n = nearest st c n ∧ (ancestry st c).getLast? = some objectId :=
  ⟨nearest_eq st h c C hc hplain n, ancestry_reaches_root st h c C hc⟩
#print axioms copy_down_is_nearest

/-- The same for the states programs reach. -/
theorem copy_down_is_nearest_run (env0 : Env) (prog : List Stmt) (c : ClassId) (C : ClassObj)
    (hc : (run (State.init, env0) prog).1.classes[c]? = some C) (hplain : C.name.isMeta = false) (n : Name) :
    tget C.methods n = nearest (run (State.init, env0) prog).1 c n :=
  (copy_down_is_nearest _ (wf_reachable env0 prog) c C hc hplain n).1
#print axioms copy_down_is_nearest_run

-- non-vacuity: C's ancestry is C, B, A, Object; m1 comes from A, m2 from B, m3 from C, `derives` from Object
example : ancestry st3 12 = [12, 10, 8, 0] := by decide
example : (st3.classes[12]?).map (fun C => (tget C.methods 1, tget C.methods 2, tget C.methods 3, tget C.methods 0, tget C.methods 5))
    = some (some mA1, some mB2, some mC3, some nativeDerives, none) := by decide
example : (nearest st3 12 1, nearest st3 12 2, nearest st3 12 3, nearest st3 12 0, nearest st3 12 5)
    = (some mA1, some mB2, some mC3, some nativeDerives, none) := by decide

/-- The statement is FALSE for metaclass objects (they are classes too: `type(A)` is a value): `class A { fn
derives(self){} }` — the non-static definition removes Object's `derives` from A's metaclass (id 7), although the
nearest definition in the metaclass's ancestry (AClass, Object) is Object's. So `A.derives(x)` is an AttributeError
while `B.derives(x)` works for every other class `B`. For metaclasses the equation holds up to such removed names
(`Yarel.ClassTable.nearest_meta`), and their exact content is `static_self`. -/
theorem copy_down_false_for_metaclass :
    ∃ (prog : List Stmt) (c : ClassId) (n : Name),
      ((run (State.init, []) prog).1.classes[c]?).map (fun C => (C.name.isMeta, tget C.methods n)) = some (true, none) ∧
      nearest (run (State.init, []) prog).1 c n = some nativeDerives :=
  ⟨[.classDecl { name := 10, derive := none, ctor := none, methods := [⟨0, .method, 101, 1⟩] }], 7, 0, by decide⟩
#print axioms copy_down_false_for_metaclass

/-! ## rebinding_irrelevant -/

/-- No statement — in particular neither a new class statement reusing the NAME of an ancestor nor an assignment to
the variable that names an ancestor — changes any existing class object (identity `c`): its table, its recorded
superclass link, and (in well-formed stores) the nearest-definition function of `c` stay what they were. -/
theorem rebinding_irrelevant (s : State × Env) (prog : List Stmt) (c : ClassId) (C : ClassObj)
    (hc : s.1.classes[c]? = some C) :
    (run s prog).1.classes[c]? = some C ∧
    (WF s.1 → C.name.isMeta = false → ∀ n, nearest (run s prog).1 c n = nearest s.1 c n) := by
  obtain ⟨⟨extra, he⟩, _⟩ := run_frame prog s
  have hc' : (run s prog).1.classes[c]? = some C := by rw [he]; exact getElem?_append_mono _ _ _ _ hc
  refine ⟨hc', ?_⟩
  intro h hplain n
  rw [← nearest_eq _ (run_wf prog s h) c C hc' hplain n, ← nearest_eq _ h c C hc hplain n]
#print axioms rebinding_irrelevant

/-- An assignment touches nothing but the variable. -/
theorem assign_store (s : State × Env) (x : Name) (v : Val) : (exec s (.assign x v)).1 = s.1 := rfl

-- non-vacuity: after `A = 5; class A { fn m1(self){} }` (new class id 14) B and C still resolve m1 to the OLD A's body
example :
    let s' := run s3 [.assign 10 (.other 6), .classDecl { name := 10, derive := none, ctor := none, methods := [⟨1, .method, 777, 0⟩] }]
    tget s'.2 10 = some (.cls 14) ∧ nearest s'.1 12 1 = some mA1 ∧ s'.1.classes[12]? = st3.classes[12]? ∧
    nearest s'.1 14 1 = some { body := 777, arity := some 0, init := false, superCap := none } := by decide

/-! ## fields_first -/

/-- Both access paths consult the instance's fields before (and, on a hit, instead of) the class table: whatever the
class defines under `n`, a field `n ↦ v` makes `recv.n` evaluate to `v` and `recv.n(args)` call `v`. -/
theorem fields_first (st : State) (i : InstId) (I : InstObj) (n : Name) (v : Val) (argc : Nat)
    (hi : st.insts[i]? = some I) (hf : tget I.fields n = some v) :
    getProperty st (.inst i) n = .ok v ∧ invoke st (.inst i) n argc = callValue v argc := by
  simp [getProperty, invoke, hi, hf]
#print axioms fields_first

/-- ... and only without such a field is the class table used, with the instance as receiver. -/
theorem fields_first_miss (st : State) (i : InstId) (I : InstObj) (n : Name) (argc : Nat)
    (hi : st.insts[i]? = some I) (hf : tget I.fields n = none) :
    getProperty st (.inst i) n = bindMethod st I.cls n (.inst i) ∧
    invoke st (.inst i) n argc = invokeFromClass st I.cls n (.inst i) argc := by
  simp [getProperty, invoke, hi, hf]
#print axioms fields_first_miss

-- non-vacuity: instance 0 of C with field m1 = someFn: `c.m1` is the closure, `c.m1()` runs body 999 with the CLOSURE
-- (not the instance) in slot 0; before the assignment the same expressions reach A's m1 with the instance in slot 0
example : getProperty st5 (.inst 0) 1 = .ok (.method someFn) ∧
    invoke st5 (.inst 0) 1 0 = .ok ⟨someFn, .method someFn, 0⟩ ∧
    getProperty st4 (.inst 0) 1 = .ok (.bound (.inst 0) mA1) ∧
    invoke st4 (.inst 0) 1 0 = .ok ⟨mA1, .inst 0, 0⟩ := by decide

/-! ## invoke_eq_get_call -/

/-- The fast path `Invoke n argc` and the two-step `GetProperty n` + `Call argc` agree on EVERY receiver value (instance,
class, anything), name and argument count: same body, same slot-0 value, same arity check, or the same error.
There is NO exceptional field case in the state-to-outcome function: on a field hit `invoke` pokes the field value `v`
into slot 0 and runs `call_value(v)`; the two-step path has `v` in slot 0 (it replaced the receiver) and runs
`call_value(v)`. A field holding a closure is called with the CLOSURE in slot 0, a field holding a bound method with
that method's own receiver, anything else is `TypeError: Can only call functions and methods.` — on both paths.
What does differ is outside this function: WHEN the lookup happens relative to argument evaluation (`Invoke` looks up
after the arguments were evaluated, so `a.zz(f())` runs `f` before raising AttributeError, and `a.f(a.f = g)` calls
`g`), and that the two-step path allocates a bound-method object. -/
theorem invoke_eq_get_call (st : State) (recv : Val) (n : Name) (argc : Nat) :
    invoke st recv n argc =
      match getProperty st recv n with
      | .ok v => callValue v argc
      | .error e => .error e
      | .fault f => .fault f := by
  have key : ∀ c, invokeFromClass st c n recv argc =
      match bindMethod st c n recv with
      | .ok v => callValue v argc
      | .error e => .error e
      | .fault f => .fault f := by
    intro c
    unfold invokeFromClass bindMethod
    cases st.classes[c]? with
    | none => rfl
    | some C =>
      dsimp only
      cases tget C.methods n <;> rfl
  cases recv with
  | inst i =>
    simp only [invoke, getProperty]
    cases st.insts[i]? with
    | none => rfl
    | some I =>
      dsimp only
      cases tget I.fields n with
      | some v => rfl
      | none => exact key _
  | cls c =>
    simp only [invoke, getProperty]
    cases classOfVal st (.cls c) with
    | ok k => exact key k
    | error e => rfl
    | fault f => rfl
  | method m =>
    simp only [invoke, getProperty]
    cases classOfVal st (.method m) with
    | ok k => exact key k
    | error e => rfl
    | fault f => rfl
  | bound r m =>
    simp only [invoke, getProperty]
    cases classOfVal st (.bound r m) with
    | ok k => exact key k
    | error e => rfl
    | fault f => rfl
  | other k' =>
    simp only [invoke, getProperty]
    cases classOfVal st (.other k') with
    | ok k => exact key k
    | error e => rfl
    | fault f => rfl
#print axioms invoke_eq_get_call

-- non-vacuity: method hit, field hit, arity error, undefined, through a class value
example : invoke st5 (.inst 0) 2 1 = .ok ⟨mB2, .inst 0, 1⟩ ∧ invoke st5 (.inst 0) 2 0 = .error (.arity 1 0) ∧
    invoke st5 (.inst 0) 5 0 = .error (.undefinedProperty 5) ∧ invoke st5 (.cls 8) 4 0 = .ok ⟨mAmake, .cls 8, 0⟩ := by
  decide

/-! ## bound_keeps_receiver -/

/-- A method taken as a value from instance `i` is `bound (inst i) m`. Calling that value — `callValue` does not even
look at the state, so: at any later time, from anywhere — runs `m` with `inst i` in slot 0; and however often the
value is copied (variables copy values; stored into field `f` of ANY instance `j` in ANY state `st'`), reading the
copy gives the same value (a field read never re-binds) and invoking it through `j.f(args)` still runs `m` with
`inst i` — not `j` — in slot 0. -/
theorem bound_keeps_receiver (st : State) (i : InstId) (I : InstObj) (C : ClassObj) (n : Name) (m : Method)
    (hi : st.insts[i]? = some I) (hnf : tget I.fields n = none)
    (hC : st.classes[I.cls]? = some C) (hm : tget C.methods n = some m) :
    getProperty st (.inst i) n = .ok (.bound (.inst i) m) ∧
    (∀ argc, callValue (.bound (.inst i) m) argc = callClosure m (.inst i) argc) ∧
    (∀ argc call, callClosure m (.inst i) argc = .ok call → call.m = m ∧ call.slot0 = .inst i) ∧
    (∀ (st' : State) (j : InstId) (J : InstObj) (f : Name) (argc : Nat),
      st'.insts[j]? = some J → tget J.fields f = some (.bound (.inst i) m) →
      getProperty st' (.inst j) f = .ok (.bound (.inst i) m) ∧
      invoke st' (.inst j) f argc = callClosure m (.inst i) argc) := by
  refine ⟨by simp [getProperty, hi, hnf, bindMethod, hC, hm], fun _ => rfl, ?_, ?_⟩
  · intro argc call hcall
    unfold callClosure at hcall
    split at hcall
    · split at hcall
      · cases hcall; exact ⟨rfl, rfl⟩
      · cases hcall
    · cases hcall; exact ⟨rfl, rfl⟩
  · intro st' j J f argc hj hf
    simp [getProperty, invoke, hj, hf, callValue]
#print axioms bound_keeps_receiver

-- non-vacuity: `var g = c.m3; other.k = g; other.k()` where `other` is a second instance (of A): runs C's m3 with c
def st6 : State := (construct st5 (.cls 8)).1      -- instance 1, of A
def st7 : State :=
  match setProperty st6 (.inst 1) 9 (.bound (.inst 0) mC3) with
  | .ok s => s
  | _ => st6
example : getProperty st6 (.inst 0) 3 = .ok (.bound (.inst 0) mC3) ∧
    getProperty st7 (.inst 1) 9 = .ok (.bound (.inst 0) mC3) ∧
    invoke st7 (.inst 1) 9 0 = .ok ⟨mC3, .inst 0, 0⟩ := by decide

/-! ## super_static -/

/-- `super.name` / `super.name(args)` inside a method `m` that was defined by the body of class `D` (and has a `super`
upvalue at all, i.e. `D` was declared with `#[derive(..)]`): the class operand is `D`'s superclass AS DECLARED, and the
lookup happens in THAT class's table — for every value `self` in slot 0, whatever its dynamic class (an instance of a
subclass that merely inherited `m`, or even a class value when `m` is static). No variable is consulted
(`superInvokeIn` takes no environment), so rebinding names later is irrelevant, and the table of `s` itself never
changes (`rebinding_irrelevant`). -/
theorem super_static (st : State) (h : WF st) (d : ClassId) (D : ClassObj) (hd : st.classes[d]? = some D)
    (hplain : D.name.isMeta = false) (n : Name) (m : Method) (hm : tget D.own n = some m)
    (huses : m.superCap ≠ none) :
    ∃ s S, D.superclass = some s ∧ st.classes[s]? = some S ∧ m.superCap = some s ∧
      ∀ (self : Val) (name : Name) (argc : Nat),
        superInvokeIn st m self name argc =
          (match tget S.methods name with
           | some m' => callClosure m' self argc
           | none => .error (.undefinedProperty name)) ∧
        getSuperIn st m self name =
          (match tget S.methods name with
           | some m' => .ok (.bound self m')
           | none => .error (.undefinedProperty name)) := by
  rcases h.superCap d D hd hplain n m hm with h0 | h1
  · exact absurd h0 huses
  · cases hs : D.superclass with
    | none => rw [hs] at h1; exact absurd h1 huses
    | some s =>
      obtain ⟨S, hS, _⟩ := h.table d D hd hplain s hs
      refine ⟨s, S, rfl, hS, by rw [h1, hs], ?_⟩
      intro self name argc
      rw [hs] at h1
      simp only [superInvokeIn, getSuperIn, superInvoke, getSuper, h1, invokeFromClass, bindMethod, hS]
      exact ⟨rfl, rfl⟩
#print axioms super_static

-- non-vacuity (tests/scripts/super/super_in_inherited_method.yl): instance 0 of C calls the INHERITED B.m2, which
-- does `super.m2(x)`: that runs A's m2 (body 102) — the superclass of the DEFINING class B — although the receiver's
-- own class C has superclass B, whose m2 is body 112
example :
    invoke st4 (.inst 0) 2 1 = .ok ⟨mB2, .inst 0, 1⟩ ∧
    superInvokeIn st4 mB2 (.inst 0) 2 1 = .ok ⟨{ body := 102, arity := some 1, init := false, superCap := none }, .inst 0, 1⟩ ∧
    (st4.classes[12]?).map (·.superclass) = some (some 10) ∧
    invokeFromClass st4 10 2 (.inst 0) 1 = .ok ⟨mB2, .inst 0, 1⟩ := by decide

/-! ## static_self -/

/-- The class statement `d` executed successfully and created class `cid`. For a name `n` whose LAST definition in the
body is `md`:
  * `md` static (or a constructor): `K.n(args)` through the class value runs that closure with the class `K` itself in
    slot 0, and `Self` (= `GetLocal 0; GetClass`) is `K`;
  * `md` an ordinary method — also when an earlier `#[static]` definition of `n` exists in the same body (the later
    non-static definition removed it), and even when `n` is a name Object has: the member does not exist on the class
    value (AttributeError), on both access paths. -/
theorem static_self (st : State) (env : Env) (d : ClassDecl) (h : WF st) (st' : State) (env' : Env) (cid : ClassId)
    (hex : execClass st env d = (st', env', .ok cid)) (n : Name) (md : MethodDecl)
    (hl : lastDecl d.allDecls n = some md) (argc : Nat) :
    (md.isStatic = true →
      invoke st' (.cls cid) n argc = callClosure (mkMethod (superOf env d) md) (.cls cid) argc ∧
      getProperty st' (.cls cid) n = .ok (.bound (.cls cid) (mkMethod (superOf env d) md)) ∧
      getClass st' (.cls cid) = .ok (.cls cid)) ∧
    (md.isStatic = false →
      invoke st' (.cls cid) n argc = .error (.undefinedProperty n) ∧
      getProperty st' (.cls cid) n = .error (.undefinedProperty n)) := by
  obtain ⟨K, M, s, S, hcid, hcls, _, _, hKm, _, _, _, _, _, hM, _, _⟩ :=
    execClass_ok_spec st env d h st' env' cid hex
  have hK : st'.classes[cid]? = some K := by
    rw [hcls, hcid, List.getElem?_append_right (by omega)]; simp
  have hMi : st'.classes[K.metaclass]? = some M := by
    rw [hcls, hKm, List.getElem?_append_right (by omega)]; simp
  have hMn := hM n
  simp only [metaEntry, hl] at hMn
  constructor
  · intro hs
    simp only [hs, if_true] at hMn
    simp [invoke, getProperty, getClass, classOfVal, hK, invokeFromClass, bindMethod, hMi, hMn]
  · intro hs
    simp only [hs, Bool.false_eq_true, if_false] at hMn
    simp [invoke, getProperty, classOfVal, hK, invokeFromClass, bindMethod, hMi, hMn]
#print axioms static_self

/-- Metaclass tables are NOT inherited: for a name `n` the body of `d` does not define, the class value has exactly
what Object has under `n` — whatever static methods or constructors the superclass has. So `B.make()` is an
AttributeError when only its superclass `A` defines `#[static] make`, and `B.new()` when only `A` has the constructor.
(The informal "or a subclass that inherited it" holds only for access through an INSTANCE, see `static_via_instance`.) -/
theorem static_not_inherited_via_class (st : State) (env : Env) (d : ClassDecl) (h : WF st) (st' : State) (env' : Env)
    (cid : ClassId) (hex : execClass st env d = (st', env', .ok cid)) (n : Name)
    (hl : lastDecl d.allDecls n = none) (argc : Nat) :
    invoke st' (.cls cid) n argc =
      (match tget (objM st) n with
       | some m => callClosure m (.cls cid) argc
       | none => .error (.undefinedProperty n)) := by
  obtain ⟨K, M, s, S, hcid, hcls, _, _, hKm, _, _, _, _, _, hM, _, _⟩ :=
    execClass_ok_spec st env d h st' env' cid hex
  have hK : st'.classes[cid]? = some K := by
    rw [hcls, hcid, List.getElem?_append_right (by omega)]; simp
  have hMi : st'.classes[K.metaclass]? = some M := by
    rw [hcls, hKm, List.getElem?_append_right (by omega)]; simp
  have hMn := hM n
  simp only [metaEntry, hl] at hMn
  simp only [invoke, classOfVal, hK, invokeFromClass, hMi, hMn]
  cases tget (objM st) n <;> rfl
#print axioms static_not_inherited_via_class

/-- Through an instance a static method is an ordinary entry of the (copy-down) class table: it runs with the
INSTANCE in slot 0 and `Self` evaluates to the instance's dynamic class — the subclass, for an inherited static. -/
theorem static_via_instance (st : State) (i : InstId) (I : InstObj) (C : ClassObj) (n : Name) (m : Method) (argc : Nat)
    (hi : st.insts[i]? = some I) (hnf : tget I.fields n = none)
    (hC : st.classes[I.cls]? = some C) (hm : tget C.methods n = some m) :
    invoke st (.inst i) n argc = callClosure m (.inst i) argc ∧ getClass st (.inst i) = .ok (.cls I.cls) := by
  simp [invoke, hi, hnf, invokeFromClass, hC, hm, getClass, classOfVal]
#print axioms static_via_instance

-- non-vacuity: A.make() runs with <class A>; B.make() and C.make() are AttributeErrors; c.make() (instance of C) runs
-- A's body with the instance in slot 0 and Self = <class C>; A.m1() (an instance method) is not reachable via the class
example : invoke st4 (.cls 8) 4 0 = .ok ⟨mAmake, .cls 8, 0⟩ ∧ getClass st4 (.cls 8) = .ok (.cls 8) ∧
    invoke st4 (.cls 10) 4 0 = .error (.undefinedProperty 4) ∧ invoke st4 (.cls 12) 4 0 = .error (.undefinedProperty 4) ∧
    invoke st4 (.inst 0) 4 0 = .ok ⟨mAmake, .inst 0, 0⟩ ∧ getClass st4 (.inst 0) = .ok (.cls 12) ∧
    invoke st4 (.cls 8) 1 0 = .error (.undefinedProperty 1) := by decide
-- `class K { #[static] fn f(){}  fn f(self){}  fn g(self){}  #[static] fn g(){} }`: K.f() is gone, K.g() is static
def declK : ClassDecl :=
  { name := 10, derive := none, ctor := none,
    methods := [⟨1, .static, 201, 0⟩, ⟨1, .method, 202, 0⟩, ⟨2, .method, 203, 0⟩, ⟨2, .static, 204, 0⟩] }
example :
    let r := execClass State.init [] declK
    r.2.2 = .ok 8 ∧ invoke r.1 (.cls 8) 1 0 = .error (.undefinedProperty 1) ∧
    invoke r.1 (.cls 8) 2 0 = .ok ⟨{ body := 204, arity := some 0, init := false, superCap := none }, .cls 8, 0⟩ := by
  decide

/-! ## ctor_returns_instance -/

/-- A constructor `md` of class `K` (a `#[constructor]` method, or the default constructor of `#[constructor(n)]`: they
are emitted as static initialisers) called through the class value with the right number of arguments: the initialiser
runs with the class in slot 0; its first instruction `Construct` replaces slot 0 by a FRESH instance of `K` (new
identity, no fields; nothing else in the heap or the class store changes, in particular NO inherited initialiser is
run); the value in slot 0 is what the initialiser returns.
Called with an instance in slot 0 instead (`obj.new(..)`, or `super.new(..)` from a subclass's initialiser, which is the
only way an inherited initialiser ever runs) `Construct` does nothing: the initialiser re-initialises and returns that
same instance. -/
theorem ctor_returns_instance (st : State) (env : Env) (d : ClassDecl) (h : WF st) (st' : State) (env' : Env)
    (cid : ClassId) (hex : execClass st env d = (st', env', .ok cid)) (n : Name) (md : MethodDecl)
    (hl : lastDecl d.allDecls n = some md) (hk : md.kind = .ctor) :
    (∃ call, invoke st' (.cls cid) n md.arity = .ok call ∧ call.slot0 = .cls cid ∧ call.m.init = true ∧
        call.m.body = md.body) ∧
    (∀ (hp : State),
      construct hp (.cls cid) = ({ hp with insts := hp.insts ++ [{ cls := cid, fields := [] }] }, .inst hp.insts.length) ∧
      hp.insts[hp.insts.length]? = none ∧
      (construct hp (.cls cid)).1.insts[hp.insts.length]? = some { cls := cid, fields := [] }) ∧
    (∀ (hp : State) (i : InstId), construct hp (.inst i) = (hp, .inst i)) := by
  refine ⟨?_, ?_, fun _ _ => rfl⟩
  · have hs : md.isStatic = true := by simp [MethodDecl.isStatic, hk]
    have := ((static_self st env d h st' env' cid hex n md hl md.arity).1 hs).1
    refine ⟨⟨mkMethod (superOf env d) md, .cls cid, md.arity⟩, ?_, rfl, ?_, rfl⟩
    · rw [this]; simp [callClosure, mkMethod]
    · simp [mkMethod, hk]
  · intro hp
    refine ⟨rfl, by simp, ?_⟩
    simp [construct]
#print axioms ctor_returns_instance

-- non-vacuity: `C.new()` (default constructor), `B.new(1)` whose body does `super.new()`: that runs A's default
-- initialiser (body 100) on the SAME instance; `c.new()` through an instance re-initialises it
example :
    invoke st3 (.cls 12) 6 0 = .ok ⟨{ body := 120, arity := some 0, init := true, superCap := some 10 }, .cls 12, 0⟩ ∧
    (construct st3 (.cls 12)).2 = .inst 0 ∧ st4.insts = [{ cls := 12, fields := [] }] ∧
    invoke st3 (.cls 10) 6 1 = .ok ⟨{ body := 110, arity := some 1, init := true, superCap := some 8 }, .cls 10, 1⟩ ∧
    superInvokeIn st4 { body := 110, arity := some 1, init := true, superCap := some 8 } (.inst 0) 6 0
      = .ok ⟨{ body := 100, arity := some 0, init := true, superCap := none }, .inst 0, 0⟩ ∧
    construct st4 (.inst 0) = (st4, .inst 0) ∧
    invoke st4 (.inst 0) 6 0 = .ok ⟨{ body := 120, arity := some 0, init := true, superCap := some 10 }, .inst 0, 0⟩ := by
  decide

/-! ## errors_classified -/

/-- A receiver that refers to existing objects. -/
def ValidRecv (st : State) : Val → Prop
  | .inst i => i < st.insts.length
  | .cls c => c < st.classes.length
  | .other k => k < st.classes.length
  | .method _ => True
  | .bound _ _ => True

/-- Every failure of member access, call and class definition is one of the documented errors, raised exactly when
described; no access on a valid receiver in a well-formed state can panic.
 1. member lookup: either a value, or `AttributeError: Undefined property 'n'` (for exactly the name asked);
 2. calling a value: bound methods/closures whose declared parameter count `k` differs from the argument count give
    `TypeError: Expected k arguments but found argc`; natives are entered unchecked; every non-callable value (numbers,
    instances, CLASS VALUES — classes are not callable) gives `TypeError: Can only call functions and methods`;
 3. hence `invoke` yields a call, or exactly one of these three errors, never a fault;
 4. `Inherit` fails exactly for non-class values, with `RuntimeError: Superclass must be a class`, and then the
    statement creates no class;
 5. assigning a field on a non-instance is `AttributeError: Only instances have fields`. -/
theorem errors_classified (st : State) (h : WF st) :
    (∀ recv n, ValidRecv st recv →
      (∃ v, getProperty st recv n = .ok v) ∨ getProperty st recv n = .error (.undefinedProperty n)) ∧
    (∀ v argc,
      callValue v argc =
        (match v with
         | .bound r m => (match m.arity with
            | some k => if argc = k then .ok ⟨m, r, argc⟩ else .error (.arity k argc)
            | none => .ok ⟨m, r, argc⟩)
         | .method m => (match m.arity with
            | some k => if argc = k then .ok ⟨m, .method m, argc⟩ else .error (.arity k argc)
            | none => .ok ⟨m, .method m, argc⟩)
         | _ => .error .notCallable)) ∧
    (∀ recv n argc, ValidRecv st recv →
      (∃ call, invoke st recv n argc = .ok call ∧ (call.m.arity = none ∨ call.m.arity = some argc)) ∨
      invoke st recv n argc = .error (.undefinedProperty n) ∨
      (∃ k, k ≠ argc ∧ invoke st recv n argc = .error (.arity k argc)) ∨
      invoke st recv n argc = .error .notCallable) ∧
    (∀ v, (∀ c, v ≠ .cls c) → inherit st v = .error .superclassMustBeClass) ∧
    (∀ (env : Env) (d : ClassDecl) (x : Name) (v : Val), d.derive = some x →
      tget (tinsert env d.name nilVal) x = some v → (∀ c, v ≠ .cls c) →
      (execClass st env d).2.2 = .error .superclassMustBeClass ∧ (execClass st env d).1.classes = st.classes ∧
      tget (execClass st env d).2.1 d.name = some nilVal) ∧
    (∀ recv n v, (∀ i, recv ≠ .inst i) → setProperty st recv n v = .error .onlyInstancesHaveFields) := by
  have hbind : ∀ c n recv, c < st.classes.length →
      (∃ v, bindMethod st c n recv = .ok v) ∨ bindMethod st c n recv = .error (.undefinedProperty n) := by
    intro c n recv hc
    unfold bindMethod
    rw [List.getElem?_eq_getElem hc]
    simp only
    cases tget (st.classes[c]).methods n with
    | some m => exact Or.inl ⟨_, rfl⟩
    | none => exact Or.inr rfl
  have hclass : ∀ recv, ValidRecv st recv → ∃ c, classOfVal st recv = .ok c ∧ c < st.classes.length := by
    intro recv hv
    cases recv with
    | inst i =>
      have hi : i < st.insts.length := hv
      refine ⟨st.insts[i].cls, by simp [classOfVal, List.getElem?_eq_getElem hi], ?_⟩
      exact h.instValid i _ (List.getElem?_eq_getElem hi)
    | cls c =>
      have hc : c < st.classes.length := hv
      refine ⟨st.classes[c].metaclass, by simp [classOfVal, List.getElem?_eq_getElem hc], ?_⟩
      exact h.metaValid c _ (List.getElem?_eq_getElem hc)
    | method m =>
      refine ⟨_, rfl, ?_⟩
      have := h.hasType
      split
      · exact Nat.lt_trans (by decide) this
      · exact Nat.lt_trans (by decide) this
    | bound r m =>
      refine ⟨_, rfl, ?_⟩
      have := h.hasType
      split
      · exact Nat.lt_trans (by decide) this
      · exact Nat.lt_trans (by decide) this
    | other k => exact ⟨k, rfl, hv⟩
  have hget : ∀ recv n, ValidRecv st recv →
      (∃ v, getProperty st recv n = .ok v) ∨ getProperty st recv n = .error (.undefinedProperty n) := by
    intro recv n hv
    obtain ⟨c, hc, hlt⟩ := hclass recv hv
    cases recv with
    | inst i =>
      have hi : i < st.insts.length := hv
      simp only [getProperty, List.getElem?_eq_getElem hi]
      cases tget (st.insts[i]).fields n with
      | some v => exact Or.inl ⟨v, rfl⟩
      | none =>
        simp only [classOfVal, List.getElem?_eq_getElem hi, Res.ok.injEq] at hc
        rw [hc]; exact hbind c n _ hlt
    | cls c' => simp only [getProperty, hc]; exact hbind c n _ hlt
    | method m => simp only [getProperty, hc]; exact hbind c n _ hlt
    | bound r m => simp only [getProperty, hc]; exact hbind c n _ hlt
    | other k => simp only [getProperty, hc]; exact hbind c n _ hlt
  have hcall : ∀ v argc,
      callValue v argc =
        (match v with
         | .bound r m => (match m.arity with
            | some k => if argc = k then .ok ⟨m, r, argc⟩ else .error (.arity k argc)
            | none => .ok ⟨m, r, argc⟩)
         | .method m => (match m.arity with
            | some k => if argc = k then .ok ⟨m, .method m, argc⟩ else .error (.arity k argc)
            | none => .ok ⟨m, .method m, argc⟩)
         | _ => .error .notCallable) := by
    intro v argc
    cases v with
    | bound r m => simp only [callValue, callClosure]; cases m.arity <;> rfl
    | method m => simp only [callValue, callClosure]; cases m.arity <;> rfl
    | inst i => rfl
    | cls c => rfl
    | other k => rfl
  refine ⟨hget, hcall, ?_, ?_, ?_, ?_⟩
  · intro recv n argc hv
    rw [invoke_eq_get_call]
    rcases hget recv n hv with ⟨v, hv'⟩ | he
    · rw [hv']
      simp only
      rw [hcall]
      cases v with
      | bound r m =>
        simp only
        cases hm : m.arity with
        | none => exact Or.inl ⟨_, rfl, Or.inl hm⟩
        | some k =>
          simp only
          by_cases hk : argc = k
          · simp only [hk, if_true]; exact Or.inl ⟨_, rfl, Or.inr (by rw [hm])⟩
          · simp only [hk, if_false]
            exact Or.inr (Or.inr (Or.inl ⟨k, fun e => hk e.symm, rfl⟩))
      | method m =>
        simp only
        cases hm : m.arity with
        | none => exact Or.inl ⟨_, rfl, Or.inl hm⟩
        | some k =>
          simp only
          by_cases hk : argc = k
          · simp only [hk, if_true]; exact Or.inl ⟨_, rfl, Or.inr (by rw [hm])⟩
          · simp only [hk, if_false]
            exact Or.inr (Or.inr (Or.inl ⟨k, fun e => hk e.symm, rfl⟩))
      | inst i => exact Or.inr (Or.inr (Or.inr rfl))
      | cls c => exact Or.inr (Or.inr (Or.inr rfl))
      | other k => exact Or.inr (Or.inr (Or.inr rfl))
    · rw [he]; exact Or.inr (Or.inl rfl)
  · intro v hv
    cases v with
    | cls c => exact absurd rfl (hv c)
    | inst i => rfl
    | method m => rfl
    | bound r m => rfl
    | other k => rfl
  · intro env d x v hd hx hv
    obtain ⟨O, hO, _⟩ := h.obj
    have hO' : st.classes[objectId]? = some O := hO
    have hinh : ∀ s, inherit s v = .error .superclassMustBeClass := by
      intro s
      cases v with
      | cls c => exact absurd rfl (hv c)
      | inst i => rfl
      | method m => rfl
      | bound r m => rfl
      | other k => rfl
    unfold execClass
    simp only [declare, hO', hd, hx, hinh]
    refine ⟨trivial, trivial, ?_⟩
    simp [tget_insert]
  · intro recv n v hr
    cases recv with
    | inst i => exact absurd rfl (hr i)
    | cls c => rfl
    | method m => rfl
    | bound r m => rfl
    | other k => rfl
#print axioms errors_classified

def declE : ClassDecl := { name := 13, derive := some 20, ctor := none, methods := [] }
-- non-vacuity: each error class occurs in the fixture; `var x = 5; #[derive(x)] class E {}` creates nothing
example : ValidRecv st5 (.inst 0) ∧ ValidRecv st5 (.cls 12) :=
  ⟨by show 0 < st5.insts.length; decide, by show 12 < st5.classes.length; decide⟩
example :
    invoke st5 (.inst 0) 5 0 = .error (.undefinedProperty 5) ∧
    invoke st5 (.inst 0) 2 3 = .error (.arity 1 3) ∧
    callValue (.cls 8) 0 = .error .notCallable ∧
    setProperty st5 (.cls 8) 1 nilVal = .error .onlyInstancesHaveFields ∧
    (let r := execClass st5 [(20, .other 6)] declE
     r.2.2 = .error .superclassMustBeClass ∧ r.1.classes = st5.classes ∧ r.1.working.isSome = true ∧
     r.2.1 = [(13, nilVal), (20, .other 6)]) := by decide

end Yarel.Props.C07
