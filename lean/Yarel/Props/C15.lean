import Yarel.Model.Reuse
/-
C15 on the reuse model: whatever a previous run left behind (an exception in flight, a fiber with stale stack, frames,
handlers, pending return, a class definition in progress), the next run starts from a state that depends only on the
persistent definitions and the range cache; after `reset` it starts from exactly the state a new interpreter starts from.
The unrepaired prologue / reset are shown NOT to have these properties (witnesses = the ledger's F18 and F29).
-/
namespace Yarel.Reuse

/-- residue_fresh: the observable start state of a run is a function of the persistent part and the range cache only. -/
theorem residue_fresh {P} (vm₁ vm₂ : Vm P) (hp : vm₁.persistent = vm₂.persistent) (hc : vm₁.rangeCache = vm₂.rangeCache) :
    observable (executePrologue vm₁) = observable (executePrologue vm₂) := by
  simp [observable, executePrologue, hp, hc]

/-- In particular: after ANY previous run (any outcome, any leftovers) the next run starts as after a clean one. -/
theorem residue_fresh_after_any_run {P} (vm : Vm P) (p' : P) (h₁ h₂ : Bool) (l₁ l₂ : FiberLeft) (c₁ c₂ : Bool)
    (cache : List (Int × Int)) :
    observable (executePrologue (afterRun vm p' h₁ l₁ c₁ cache)) =
      observable (executePrologue (afterRun vm p' h₂ l₂ c₂ cache)) := by
  simp [observable, executePrologue, afterRun]

/-- reset_eq_new: after a reset the next run starts exactly as on a new interpreter. -/
theorem reset_eq_new {P} (init : P) (vm : Vm P) :
    observable (executePrologue (reset init vm)) = observable (executePrologue (newVm init)) := by
  simp [observable, executePrologue, reset, newVm]

/-- F18 witness: without clearing the flag the start state depends on how the previous run ended. -/
theorem unrepaired_prologue_leaks :
    observable (executePrologueUnrepaired (afterRun (newVm ()) () true freshFiber false [])) ≠
      observable (executePrologueUnrepaired (afterRun (newVm ()) () false freshFiber false [])) := by
  decide

/-- F29 witness: without emptying the range cache a reset interpreter differs from a new one. -/
theorem unrepaired_reset_differs :
    observable (executePrologue (resetUnrepaired () (afterRun (newVm ()) () false freshFiber false [(1, 3)]))) ≠
      observable (executePrologue (newVm ())) := by
  decide

#print axioms residue_fresh
#print axioms residue_fresh_after_any_run
#print axioms reset_eq_new
#print axioms unrepaired_prologue_leaks
#print axioms unrepaired_reset_differs

-- non-vacuity: a concrete dirty state
example : observable (executePrologue (afterRun (newVm (0 : Nat)) 5 true ⟨7, 3, 2, true, true⟩ true [(1, 3)])) =
    (5, false, some freshFiber, some freshFiber, [(1, 3)]) := by decide

end Yarel.Reuse
