import Yarel.Gen.CfgSites
import Yarel.Model.StackGuard
import Yarel.Model.Fibers
/-
C10 "Optimised and checked builds behave identically" — the inventory obligation.

The two builds differ ONLY where the source says `cfg!(…)` / `#[cfg(…)]` (other than `test` / `verif_hooks`, which xlate
strips).  xlate lists those places (`Gen.cfgSites`) and every write to the two designators of the running fiber
(`Gen.fiberWrites`).  Each of them is paired below, in COMMITTED tables, with the model operation / guard that accounts
for it, and the pairing is re-checked against the source on every run:

  stack.rs guards           ↔ `Yarel.StackGuard.Site` (stepC has the guard, stepU does not; `guard_free_equiv`,
                              Props/StackGuardThm.lean: no guard fires ⇒ both builds compute the same)
  active_fiber(_mut) cfg    ↔ `Yarel.Fibers.Vm.active` for `Build.checked` / `Build.unchecked`
                              (`active_fiber_dual`, Props/C09.lean: the two designators agree in every reachable state)
  writes to fiber/unsafe_fiber ↔ `Fibers.execute` (clears `fiber` only), `Fibers.switchTo` (load_fiber: both),
                              `Fibers.switchBack` (unload_fiber: both)             (`*_writes` lemmas below)
  allocate_raw collection policy ↔ C01/C16 (collect at every allocation vs. threshold pacing: Model/Pacing.lean;
                              a collection is unobservable by C01)
  get_class / run unknown arms ↔ unreachable by verified bytecode (C04: every fetched byte is an opcode; no
                              `Value::ObjFunction` ever reaches `get_class` because function constants are only
                              operands of `Closure`)
  debug_* features          ↔ output only (printing; not part of either compared configuration)

What change of the source breaks these theorems
* a new `cfg!`/`#[cfg]` site, a new predicate, or a site moving to another function → `cfg_sites_accounted` fails until
  a line is added to `cfgTable` (and, if it is a behavioural switch, a model for it exists);
* a new write to `Vm.fiber`/`Vm.unsafe_fiber` (e.g. in a new switch path) → `fiber_writes_accounted` fails: exactly the
  "forgot to update the raw pointer on one path" regression the property is about;
* `cfg_table_not_stale`/`fiber_table_not_stale` (warning level) fail when a site disappears.
-/
namespace Yarel.Props.C10
open Yarel

/-- What a conditional-compilation site is accounted for by. -/
inductive Role where
  /-- stack.rs: the site is the checked-build guard `site` of `StackGuard.stepC` (absent in `stepU`) -/
  | stackGuard (site : StackGuard.Site)
  /-- vm.rs: the variant of `active_fiber`/`active_fiber_mut` compiled for `build` = `Fibers.Vm.active build` -/
  | activeFiber (build : Fibers.Build)
  /-- memory.rs `allocate_raw`: collect always (checked) vs. `collect_if_required` (optimised): C01/C16 -/
  | collectionPolicy
  /-- an arm that verified bytecode cannot reach (checked: `unreachable!`/`panic!`, optimised: `unreachable_unchecked`) -/
  | unreachableByVerifiedBytecode (arm : String)
  /-- a `debug_*` feature that only prints -/
  | outputOnly
deriving DecidableEq, Repr

abbrev CfgKey := String × String × String

/-- COMMITTED table: one line per conditional-compilation site, in source order (duplicates = several sites with the
same key in one function). -/
def cfgTable : List (CfgKey × Role) :=
  [ (("compiler.rs", "Parser::finalise_compiler", "feature=\"debug_bytecode\""), .outputOnly)
  , (("memory.rs", "GcBox::mark", "feature=\"debug_trace_gc\""), .outputOnly)
  , (("memory.rs", "GcBox::blacken", "feature=\"debug_trace_gc\""), .outputOnly)
  , (("memory.rs", "Heap::allocate_raw", "any(debug_assertions,feature=\"debug_stress_gc\")"), .collectionPolicy)
  , (("memory.rs", "Heap::allocate_raw", "feature=\"debug_trace_gc\""), .outputOnly)
  , (("memory.rs", "Heap::collect", "feature=\"debug_trace_gc\""), .outputOnly)
  , (("memory.rs", "Heap::collect", "feature=\"debug_trace_gc\""), .outputOnly)
  , (("memory.rs", "Heap::sweep", "feature=\"debug_trace_gc\""), .outputOnly)
  , (("stack.rs", "Stack::peek", "any(debug_assertions,feature=\"safe_stack\")"), .stackGuard .peekRange)
  , (("stack.rs", "Stack::peek_mut", "any(debug_assertions,feature=\"safe_stack\")"), .stackGuard .pokeRange)
  , (("stack.rs", "Stack::push", "any(debug_assertions,feature=\"safe_stack\")"), .stackGuard .pushOverflow)
  , (("stack.rs", "Stack::pop", "any(debug_assertions,feature=\"safe_stack\")"), .stackGuard .popEmpty)
  , (("stack.rs", "Stack::truncate", "any(debug_assertions,feature=\"safe_stack\")"), .stackGuard .truncateGrow)
  , (("vm.rs", "Vm::get_class", "any(debug_assertions,feature=\"safe_class_lookup\")"),
      .unreachableByVerifiedBytecode "Value::ObjFunction in get_class")
  , (("vm.rs", "Vm::run", "feature=\"debug_trace\""), .outputOnly)
  , (("vm.rs", "Vm::run", "any(debug_assertions,feature=\"safe_vm_opcodes\")"),
      .unreachableByVerifiedBytecode "unknown opcode byte in run")
  , (("vm.rs", "Vm::active_fiber", "any(debug_assertions,feature=\"safe_active_fiber\")"), .activeFiber .checked)
  , (("vm.rs", "Vm::active_fiber", "not(any(debug_assertions,feature=\"safe_active_fiber\"))"), .activeFiber .unchecked)
  , (("vm.rs", "Vm::active_fiber_mut", "any(debug_assertions,feature=\"safe_active_fiber\")"), .activeFiber .checked)
  , (("vm.rs", "Vm::active_fiber_mut", "not(any(debug_assertions,feature=\"safe_active_fiber\"))"), .activeFiber .unchecked)
  ]

/-- Which model operation performs a write to `Vm.fiber` / `Vm.unsafe_fiber`. -/
inductive FiberOp where
  | execute      -- `Fibers.execute`:   `self.fiber = None` (unsafe_fiber untouched)
  | switchTo     -- `Fibers.switchTo`:  load_fiber,   `unsafe_fiber = fiber; fiber.replace(fiber)`
  | switchBack   -- `Fibers.switchBack`: unload_fiber, `fiber.replace(caller); unsafe_fiber = caller`
deriving DecidableEq, Repr

/-- COMMITTED table: (fn, field, ordinal within fn) ↦ model operation. -/
def fiberTable : List ((String × String × Nat) × FiberOp) :=
  [ (("Vm::execute", "fiber", 0), .execute)
  , (("Vm::load_fiber", "unsafe_fiber", 0), .switchTo)
  , (("Vm::load_fiber", "fiber", 1), .switchTo)
  , (("Vm::unload_fiber", "fiber", 0), .switchBack)
  , (("Vm::unload_fiber", "unsafe_fiber", 1), .switchBack)
  ]

/-- same elements with the same multiplicities -/
def sameMultiset {α} [DecidableEq α] (a b : List α) : Bool :=
  a.all (fun k => a.count k == b.count k) && b.all (fun k => a.count k == b.count k)

/-- cfg_sites_accounted: every conditional-compilation site of the source is in the committed table. -/
theorem cfg_sites_accounted : ∀ s ∈ Gen.cfgSites, s ∈ cfgTable.map (·.1) := by decide +kernel

/-- …with the same multiplicity (a SECOND `cfg!` with an already known key in the same function is noticed too). -/
theorem cfg_sites_counted : sameMultiset Gen.cfgSites (cfgTable.map (·.1)) = true := by decide +kernel

/-- (warning level) no line of the table refers to a site that no longer exists. -/
theorem cfg_table_not_stale : ∀ k ∈ cfgTable.map (·.1), k ∈ Gen.cfgSites := by decide +kernel

/-- A key has one role only (the table is a function on keys). -/
theorem cfg_table_functional :
    ∀ e₁ ∈ cfgTable, ∀ e₂ ∈ cfgTable, e₁.1 = e₂.1 → e₁.2 = e₂.2 := by decide +kernel

/-- fiber_writes_accounted: every write to `Vm.fiber`/`Vm.unsafe_fiber` in vm.rs belongs to a modelled operation. -/
theorem fiber_writes_accounted : ∀ w ∈ Gen.fiberWrites, w ∈ fiberTable.map (·.1) := by decide +kernel

theorem fiber_table_not_stale : ∀ k ∈ fiberTable.map (·.1), k ∈ Gen.fiberWrites := by decide +kernel

/-- The shape C09/C10 rely on: each switching function writes BOTH designators exactly once, `execute` writes
`fiber` only. -/
theorem fiber_writes_paired :
    (Gen.fiberWrites.filter (·.1 == "Vm::load_fiber")).map (·.2.1) = ["unsafe_fiber", "fiber"] ∧
    (Gen.fiberWrites.filter (·.1 == "Vm::unload_fiber")).map (·.2.1) = ["fiber", "unsafe_fiber"] ∧
    (Gen.fiberWrites.filter (·.1 == "Vm::execute")).map (·.2.1) = ["fiber"] ∧
    Gen.fiberWrites.all (fun w => w.1 == "Vm::load_fiber" || w.1 == "Vm::unload_fiber" || w.1 == "Vm::execute") = true := by
  decide +kernel

/-- Every `any(debug_assertions, feature = "safe_*")` switch of stack.rs is one of the five guards of the model, each
exactly once, and stack.rs has no other conditional code. -/
theorem stack_guards_exactly :
    (cfgTable.filter (·.1.1 == "stack.rs")).map (·.2) =
      [.stackGuard .peekRange, .stackGuard .pokeRange, .stackGuard .pushOverflow, .stackGuard .popEmpty,
       .stackGuard .truncateGrow] ∧
    (Gen.cfgSites.filter (·.1 == "stack.rs")).length = 5 := by decide +kernel

/-- The only BEHAVIOURAL switches (everything that is not printing) are: the five stack guards, the two variants of
the two active-fiber accessors, the collection policy and the two unreachable arms — 12 sites. -/
theorem behavioural_switches :
    (cfgTable.filter (fun e => e.2 != .outputOnly)).length = 12 ∧
    (cfgTable.filter (fun e => e.2 == .outputOnly)).all
      (fun e => e.1.2.2 == "feature=\"debug_bytecode\"" || e.1.2.2 == "feature=\"debug_trace_gc\"" ||
                e.1.2.2 == "feature=\"debug_trace\"") = true := by decide +kernel

/-! ### the paired model operations really perform the paired writes -/

/-- `switchTo` (second half of `load_fiber`) assigns BOTH designators, to the same fiber. -/
theorem switchTo_writes (rep : Bool) (vm vm' : Fibers.Vm) (fs : List Fibers.Fiber) (f : Nat) (arg : Option Yarel.Val)
    (h : Fibers.switchTo rep vm fs f arg = .ok vm') : vm'.fiber = some f ∧ vm'.unsafeFiber = some f := by
  unfold Fibers.switchTo at h
  split at h
  · cases h
  · split at h
    · cases h
    · cases h; exact ⟨rfl, rfl⟩

/-- `switchBack` (second half of `unload_fiber`) assigns BOTH designators, to the caller. -/
theorem switchBack_writes (vm vm' : Fibers.Vm) (fs : List Fibers.Fiber) (c : Nat) (arg : Option Yarel.Val)
    (h : Fibers.switchBack vm fs c arg = .ok vm') : vm'.fiber = some c ∧ vm'.unsafeFiber = some c := by
  unfold Fibers.switchBack at h
  split at h
  · cases h
  · split at h
    · cases h
    · split at h
      · cases h
      · split at h
        · cases h
        · split at h
          · cases h
          · cases h; exact ⟨rfl, rfl⟩

/-- `execute` clears `fiber` and leaves `unsafe_fiber` alone (visible when it returns early). -/
theorem execute_writes (b : Fibers.Build) (vm vm' : Fibers.Vm) (closure : Nat)
    (h : (Fibers.execute b vm closure false).1 = .error .arity vm') :
    vm'.fiber = none ∧ vm'.unsafeFiber = vm.unsafeFiber := by
  simp only [Fibers.execute, Bool.not_false, if_true, Fibers.newFiber] at h
  cases h; exact ⟨rfl, rfl⟩

/-- `Vm.active` is the cfg-selected accessor: checked → `fiber`, unchecked → `unsafe_fiber`. -/
theorem active_is_cfg_selected (vm : Fibers.Vm) :
    vm.active .checked = vm.fiber ∧ vm.active .unchecked = vm.unsafeFiber := ⟨rfl, rfl⟩

-- non-vacuity
example : (("stack.rs", "Stack::push", "any(debug_assertions,feature=\"safe_stack\")") : CfgKey) ∈ Gen.cfgSites := by
  decide +kernel
example : sameMultiset [1, 1, 2] [1, 2, 1] = true ∧ sameMultiset [1, 1, 2] [1, 2] = false := by decide

#print axioms cfg_sites_accounted
#print axioms cfg_sites_counted
#print axioms cfg_table_not_stale
#print axioms cfg_table_functional
#print axioms fiber_writes_accounted
#print axioms fiber_table_not_stale
#print axioms fiber_writes_paired
#print axioms stack_guards_exactly
#print axioms behavioural_switches
#print axioms switchTo_writes
#print axioms switchBack_writes
#print axioms execute_writes

end Yarel.Props.C10
