import Yarel.Model.ChunkLines
import Yarel.Proofs.ChunkLines
import Yarel.Gen.CoreSource
import Yarel.Gen.Messages
import Yarel.Gen.CfgSites
/-
C17 "Errors carry the right class, message and source lines" — the parts that are facts about data structures:

(1) the line table: `Chunk.lines` stays parallel to `Chunk.code` under EVERY sequence of the chunk writer operations
    the compiler has (`lines_parallel`), patching never touches it and each byte keeps the line it was emitted with
    (`lines_are_emitted_lines`); hence the lookup `chunk.lines[code_offset(frame.ip) - 1]` of `Vm::runtime_error` is in
    range for every saved ip that points after at least one fetched byte and not past the end of the code
    (`trace_line_in_range`), and the trace has one entry per frame of the active fiber, innermost first (`trace_shape`).
(2) the two conversions ErrorKind → class (`new_root_obj_err_from_error`) and class → ErrorKind
    (`new_error_from_value`): `kind_class_roundtrip`, `class_kind_roundtrip`, the pre-repair witness (ledger F20),
    and which thrown values are reported as RuntimeError "Unhandled exception" (`unhandled_exception_values`).
(3) table obligations re-checked against the source: the error classes exist in class_store.yaml as yarel classes
    (`error_classes_in_class_store`); every error message site has one of the 8 ErrorKinds (`message_kinds_known`),
    compile errors are only produced by the parser/scanner (`compile_errors_only_from_parser`).

NOT covered here (dynamic, checked by the C17 program generator): that `frame.ip` of a caller frame points just behind
its call instruction, that the line of that byte is the line of the statement (the compiler passes `previous.line`),
frames of CALLER FIBERS do not appear in the trace (only `active_fiber().frames` is walked), message text.

What change of the source breaks these theorems
* model side (re-read chunk.rs/compiler.rs when `Gen` reports a change there): a new writer that pushes to `code`
  without `lines` has to be added to `WOp`, and `apply_ok` then fails;
* a 9th `ErrorKind` used at a message site, a CompileError produced outside compiler.rs, a renamed/removed error class
  in class_store.yaml → (3) fails;
* re-introducing a `runtime_error_class() → CompileError` branch is the `branchesPreRepair` model: `pre_repair_breaks_roundtrip`.
-/
namespace Yarel.ChunkLines

/-! ### (1) line table -/

/-- lines_parallel: after ANY sequence of writer operations on a chunk whose tables are parallel (in particular on
`Chunk::new()`), if the compiler did not panic, `lines.length = code.length`. -/
theorem lines_parallel (ops : List WOp) (c c' : Chunk) (hc : c.parallel) (h : run c ops = .ok c') : c'.parallel := by
  have := run_ok h
  unfold Chunk.parallel at *
  rw [this.2, this.1, List.length_append, hc]

theorem lines_parallel_from_new (ops : List WOp) (c' : Chunk) (h : run Chunk.empty ops = .ok c') :
    c'.lines.length = c'.code.length :=
  lines_parallel ops Chunk.empty c' (show Chunk.empty.lines.length = Chunk.empty.code.length from rfl) h

/-- Each single operation preserves the invariant (the inductive step, for whoever adds an operation). -/
theorem apply_parallel (op : WOp) (c c' : Chunk) (hc : c.parallel) (h : apply c op = .ok c') : c'.parallel :=
  lines_parallel [op] c c' hc (by simp [run, h])

/-- The line table is exactly the sequence of lines given to the emitting operations, in emission order:
in-place patches (`patch_jump`, `patch_offset_at`) and `add_constant` never touch it. -/
theorem lines_are_emitted_lines (ops : List WOp) (c' : Chunk) (h : run Chunk.empty ops = .ok c') :
    c'.lines = ops.flatMap WOp.pushedLines := by
  have := (run_ok h).1
  simpa [Chunk.empty] using this

/-- trace_line_in_range: for a chunk produced by the compiler and every saved ip at byte offset `off` with
`1 ≤ off ≤ code.length`, `chunk.lines[off - 1]` exists: `runtime_error` neither underflows nor indexes out of range. -/
theorem trace_line_in_range (ops : List WOp) (c : Chunk) (h : run Chunk.empty ops = .ok c)
    (off : Nat) (h1 : 1 ≤ off) (h2 : off ≤ c.code.length) :
    ∃ l, traceLine c off = .ok l ∧ c.lines[off - 1]? = some l := by
  have hp := lines_parallel_from_new ops c h
  have hlt : off - 1 < c.lines.length := by omega
  have hne : c.code.isEmpty = false := by
    cases hc : c.code with
    | nil => simp [hc] at h2; omega
    | cons => rfl
  refine ⟨c.lines[off - 1], ?_, List.getElem?_eq_getElem hlt⟩
  unfold traceLine
  have : ¬ off = 0 := by omega
  simp [hne, this, List.getElem?_eq_getElem hlt]

/-- patch_after_emit_ok: the index writes of `patch_jump` cannot go out of range: the offset it is given is what an
earlier `emit_jump` returned (`code.len() - 2` right after emitting the opcode and two placeholder bytes), and the code
never shrinks afterwards. (Discharges the `self.chunk.code[offset]` / `[offset + 1]` panic sites of `patch_jump`.) -/
theorem patch_after_emit_ok (c c1 c2 : Chunk) (op : UInt8) (l : Int) (later : List WOp)
    (h1 : apply c (.emitJump op l) = .ok c1) (h2 : run c1 later = .ok c2) :
    ∃ c3, apply c2 (.patchJump (c1.code.length - 2)) = .ok c3 := by
  have hlen := (apply_ok h1).2
  simp only [WOp.pushedLines, List.length_cons, List.length_nil] at hlen
  have := run_code_length_mono h2
  exact patchJump_in_range c2 _ (by omega)

/-- The same for `patch_offset_at` in `try_statement`: `pos` (and `pos + 2`) are positions of placeholder bytes that
have already been emitted, `offset` is a code length recorded earlier. -/
theorem patch_offset_after_emit_ok (c c' : Chunk) (pos offset : Nat) (later : List WOp)
    (hpos : pos + 2 ≤ c.code.length) (hoff : offset ≤ c.code.length) (h : run c later = .ok c') :
    ∃ c'', apply c' (.patchOffsetAt pos offset) = .ok c'' := by
  have := run_code_length_mono h
  exact patchOffsetAt_in_range c' pos offset (by omega) (by omega)

/-- A finished function's code is never empty (`finalise_compiler` always ends with `emit_return`), so
`code_offset`'s `&self.code[0]` does not panic for the chunk of any call frame. -/
theorem finalised_code_nonempty (ops : List WOp) (c c' : Chunk) (ret : UInt8) (l : Int)
    (h : run c (ops ++ [.write ret l]) = .ok c') : c'.code ≠ [] := by
  have := (run_ok h).2
  intro hc
  simp [hc, WOp.pushedLines] at this

/-- The two excluded offsets really fault (the hypotheses of `trace_line_in_range` are needed): a frame whose ip is
still at the first byte, and the empty placeholder chunk of `Vm::new` (vm.rs:1920). -/
theorem trace_line_faults :
    traceLine ⟨[1, 2], [7, 7], []⟩ 0 = .error .offsetZero ∧
    traceLine Chunk.empty 1 = .error .emptyCode ∧
    traceLine ⟨[1, 2], [7, 7], []⟩ 3 = .error (.outOfRange 2 2) := by decide

/-- trace_shape: if every frame of the active fiber runs a compiler-produced chunk and has fetched at least one byte,
`runtime_error` yields exactly one entry per frame, innermost first: entry `i` is the entry of frame `n-1-i`
(`frames` is the Vec used as call stack, outermost first), naming its module, its function ("script" for a module
body) and the line recorded for the byte before its ip. -/
theorem trace_shape (frames : List Frame)
    (h : ∀ f ∈ frames, f.chunk.parallel ∧ 1 ≤ f.ipOff ∧ f.ipOff ≤ f.chunk.code.length) :
    ∃ es, runtimeErrorTrace frames = .ok es ∧ es.length = frames.length ∧
      ∀ i (hi : i < frames.length), ∃ e, es[i]? = some e ∧ (frames[frames.length - 1 - i]'(by omega)).entry = .ok e := by
  obtain ⟨es, he, hl, hes⟩ := entries_ok (fs := frames.reverse) (by simpa using h)
  refine ⟨es, he, by simpa using hl, ?_⟩
  intro i hi
  obtain ⟨e, h1, h2⟩ := hes i (by simpa using hi)
  refine ⟨e, h1, ?_⟩
  rw [List.getElem_reverse] at h2
  exact h2

/-! ### (2) ErrorKind ↔ class -/

/-- kind_class_roundtrip: an error of kind `k` raised by the VM or by a host native, thrown into the program as an
instance of `classOfKind k` and not caught, comes back out with kind `k` — except `CompileError ↦ RuntimeError`
(by design: programs have no CompileError class. The VM itself never raises that kind at run time — a compile error of
an imported module is wrapped as ImportError "Error compiling module:" — so this case only arises when a host native or
the host's module loader returns `ErrorKind::CompileError`; the program then sees a RuntimeError instance.
Observed on the real build: `host_raise("CompileError","m")` uncaught → kind RuntimeError, "Unhandled RuntimeError: m"). -/
theorem kind_class_roundtrip (k : ErrorKind) :
    kindOfClass (classOfKind k) = (if k = .compileError then .runtimeError else k) := by
  cases k <;> decide

/-- class_kind_roundtrip: on the seven classes that have a kind, class → kind → class is the identity;
every other class (Error, StopIter, user classes incl. user subclasses of the seven) goes to RuntimeError. -/
theorem class_kind_roundtrip (c : ErrClass) :
    classOfKind (kindOfClass c) = (if c ∈ ErrClass.kinded then c else .runtimeError) := by
  cases c <;> decide

/-- `classOfKind` hits exactly the seven kinded classes. -/
theorem classOfKind_range : ∀ c, (∃ k, classOfKind k = c) ↔ c ∈ ErrClass.kinded := by
  intro c
  constructor
  · rintro ⟨k, rfl⟩; cases k <;> decide
  · intro h
    cases c <;> first
      | (exfalso; revert h; decide)
      | exact ⟨.runtimeError, rfl⟩ | exact ⟨.attributeError, rfl⟩ | exact ⟨.indexError, rfl⟩
      | exact ⟨.importError, rfl⟩ | exact ⟨.nameError, rfl⟩ | exact ⟨.typeError, rfl⟩ | exact ⟨.valueError, rfl⟩

/-- A host native failing with `k`, uncaught: the embedder sees kind `k` (CompileError ↦ RuntimeError), the class
name in the first message line, and the native's message (the `context` field). -/
theorem host_error_uncaught (k : ErrorKind) :
    hostErrorUncaught k = ((if k = .compileError then .runtimeError else k), .className, .contextField) := by
  cases k <;> decide

/-- F20 witness (pre-repair source): the RuntimeError class came back as CompileError, so the round trip failed
on `RuntimeError` (and on `CompileError`), and on the class side too. -/
theorem pre_repair_breaks_roundtrip :
    kindOfClassPreRepair (classOfKind .runtimeError) = .compileError ∧
    kindOfClassPreRepair (classOfKind .runtimeError) ≠ .runtimeError ∧
    classOfKind (kindOfClassPreRepair .runtimeError) = .runtimeError ∧
    ¬ (∀ k, kindOfClassPreRepair (classOfKind k) = (if k = .compileError then .runtimeError else k)) := by
  refine ⟨by decide, by decide, by decide, fun h => absurd (h .runtimeError) (by decide)⟩

/-- Strongest true variant for the pre-repair source. -/
theorem kind_class_roundtrip_partial (k : ErrorKind) (h1 : k ≠ .runtimeError) (h2 : k ≠ .compileError) :
    kindOfClassPreRepair (classOfKind k) = k := by
  cases k <;> first | rfl | contradiction

/-- The two versions differ on the RuntimeError class only. -/
theorem repair_changes_only_runtime_error (c : ErrClass) (h : c ≠ .runtimeError) :
    kindOfClassPreRepair c = kindOfClass c := by
  cases c <;> first | rfl | contradiction

/-- unhandled_exception_values: which uncaught throws are reported as `RuntimeError`:
* "Unhandled exception: <value>"  — exactly the thrown values that are NOT instances (nil, booleans, numbers,
  strings, tuples, vecs, ranges, maps, iterators, functions, natives, bound methods, classes, modules, fibers);
* "Unhandled <ClassName>: …"      — instances of `RuntimeError` itself and of every class without a kind:
  `Error`, `StopIter`, and any user class, including user subclasses of TypeError etc. (pointer comparison). -/
theorem unhandled_exception_values (t : Thrown) :
    ((uncaught t).2.1 = .exception ↔ t = .nonInstance) ∧
    ((uncaught t).1 = .runtimeError ↔
      t = .nonInstance ∨ ∃ c b, t = .instance c b ∧ (c = .runtimeError ∨ c ∉ ErrClass.kinded)) := by
  cases t with
  | nonInstance => simp [uncaught]
  | «instance» c b =>
    refine ⟨by simp [uncaught], ?_⟩
    cases c <;> simp [uncaught, kindOfClass, chain, branchesCurrent, ErrClass.kinded]

/-! ### (3) obligations over the generated tables -/

/-- Every class of the Error family that the conversions name exists in class_store.yaml (`Gen.coreClasses`) as a
class defined in core.yl (kind "yarel", no native superclass entry). -/
theorem error_classes_in_class_store :
    ∀ c ∈ ErrClass.all, ∀ n, c.storeName = some n → Gen.coreClasses.contains (n, "", "yarel", "") = true := by
  have : ∀ c ∈ ErrClass.all, (match c.storeName with
      | some n => Gen.coreClasses.contains (n, "", "yarel", "") | none => true) = true := by decide +kernel
  intro c hc n hn
  have := this c hc
  rw [hn] at this
  exact this

/-- …and conversely every `*_error`/`stop_iter` entry of class_store.yaml is one of the modelled classes
(a new built-in error class needs a constructor of `ErrClass` and a decision about its ErrorKind). -/
theorem class_store_errors_modelled :
    ∀ e ∈ Gen.coreClasses, (e.1.endsWith "error" || e.1 == "stop_iter") = true →
      (ErrClass.all.filterMap ErrClass.storeName).contains e.1 = true := by
  decide +kernel

/-- The ErrorKind named at a message site (Gen.messages), if it is one of the 8 Rust variants. -/
def kindNamed (s : String) : Option ErrorKind := ErrorKind.all.find? (·.name == s)

/-- message_kinds_known: every error message site of the interpreter is tagged with one of the 8 `ErrorKind`s of the
model, or is a scanner error token (`ScanError`, re-reported by the parser as a compile error at the token's line), or
is the one dynamic site `new_error_from_value` (whose kind is `uncaught`). -/
theorem message_kinds_known :
    ∀ m ∈ Gen.messages,
      (kindNamed m.2.2.2.1).isSome = true ∨ (m.2.2.2.1 = "ScanError" ∧ m.1 = "scanner.rs") ∨
      (m.2.2.2.1 = "<dynamic:kind>" ∧ m.2.1 = "Vm::new_error_from_value") := by
  decide +kernel

/-- compile_errors_only_from_parser: a CompileError is only ever produced in compiler.rs by `Parser::*` functions —
`Parser::parse` builds the final `Error` from `self.errors`, every other site reports through
`error`/`error_at_current`/`error_at`, and `error_at` is the only writer of `self.errors`; it formats
`[module "<path>", line <token.line>] Error…` — and never at run time (no vm.rs/core.rs/object.rs site has that kind,
so `classOfKind .compileError` is reached only via a module import, whose error is wrapped as ImportError). -/
theorem compile_errors_only_from_parser :
    ∀ m ∈ Gen.messages, m.2.2.2.1 = "CompileError" → m.1 = "compiler.rs" ∧ m.2.1.startsWith "Parser::" = true := by
  have : ∀ m ∈ Gen.messages, (m.2.2.2.1 == "CompileError") = true →
      (m.1 == "compiler.rs" && m.2.1.startsWith "Parser::") = true := by decide +kernel
  intro m hm h
  have := this m hm (by simp [h])
  simpa using this

/-- Every one of the 7 run-time kinds is actually raised somewhere outside the compiler (non-vacuity of the kind list). -/
theorem every_runtime_kind_is_raised :
    ∀ k ∈ ErrorKind.all, k ≠ .compileError → Gen.messages.any (fun m => m.2.2.2.1 == k.name && m.1 != "compiler.rs") = true := by
  decide +kernel

-- non-vacuity examples --------------------------------------------------------------------------------------------

/-- a compilation with a forward jump that is patched, a loop and a constant: 11 bytes, 11 lines -/
def sampleOps : List WOp :=
  [ .addConstant 7, .emitConstantOp 0 0 1, .emitJump 43 2, .write 4 2, .patchJump 4, .emitLoop 45 0 3, .write 57 4 ]

example : run Chunk.empty sampleOps = .ok ⟨[0, 0, 0, 43, 1, 0, 4, 45, 10, 0, 57], [1, 1, 1, 2, 2, 2, 2, 3, 3, 3, 4], [7]⟩ := by decide
example : traceLine ⟨[0, 0, 0, 43, 1, 0, 4, 45, 10, 0, 57], [1, 1, 1, 2, 2, 2, 2, 3, 3, 3, 4], [7]⟩ 7 = .ok 2 ∧
    traceLine ⟨[0, 0, 0, 43, 1, 0, 4, 45, 10, 0, 57], [1, 1, 1, 2, 2, 2, 2, 3, 3, 3, 4], [7]⟩ 11 = .ok 4 := by decide
-- a patch outside the code is a compiler panic, not a silent no-op
example : run Chunk.empty [.write 1 1, .patchJump 0] = .error .usizeUnderflow ∧
    run Chunk.empty [.write 1 1, .patchOffsetAt 0 0] = .error (.indexOutOfRange 1 1) := by decide
-- hypotheses of trace_shape are met by a two-frame stack; innermost (f) first
example :
    runtimeErrorTrace [⟨"main", "", ⟨[1, 2, 3], [5, 5, 6], []⟩, 3⟩, ⟨"main", "f", ⟨[1, 2, 3], [5, 5, 6], []⟩, 1⟩] =
      .ok [⟨"main", "f()", 5⟩, ⟨"main", "script", 6⟩] := by decide +kernel
example : classOfKind .compileError = .runtimeError ∧ kindOfClass .runtimeError = .runtimeError ∧
    kindOfClass .other = .runtimeError ∧ kindOfClass .stopIter = .runtimeError := by decide

/-- `lines_parallel` is about the writer operations of the model (`Chunk::write` pushes one byte and one line; the patch routines assign
elements).  That these are ALL the ways the sources change a chunk's two vectors is an obligation over the inventory regenerated from
the sources on every run (`Gen.chunkWrites`: every method call on a `.code` / `.lines` vector that is not a read, every assignment to
one or to an element of one, every `&mut` borrow of one): the only calls that change a length are the two `push`es of `Chunk::write`,
one per vector, and everything else assigns an element of `code` (which keeps its length).  A compiler pass that removes or inserts
code bytes without touching the line table (or the other way round) breaks this. -/
theorem chunk_vectors_change_only_in_step :
    (Gen.chunkWrites.filter fun s => s.2.2 != "code[_] = ..") =
      [("chunk.rs", "Chunk::write", "code.push"), ("chunk.rs", "Chunk::write", "lines.push")] := by decide

#print axioms chunk_vectors_change_only_in_step
#print axioms lines_parallel
#print axioms lines_parallel_from_new
#print axioms apply_parallel
#print axioms lines_are_emitted_lines
#print axioms trace_line_in_range
#print axioms patch_after_emit_ok
#print axioms patch_offset_after_emit_ok
#print axioms finalised_code_nonempty
#print axioms trace_line_faults
#print axioms trace_shape
#print axioms kind_class_roundtrip
#print axioms class_kind_roundtrip
#print axioms classOfKind_range
#print axioms host_error_uncaught
#print axioms pre_repair_breaks_roundtrip
#print axioms kind_class_roundtrip_partial
#print axioms repair_changes_only_runtime_error
#print axioms unhandled_exception_values
#print axioms error_classes_in_class_store
#print axioms class_store_errors_modelled
#print axioms message_kinds_known
#print axioms compile_errors_only_from_parser
#print axioms every_runtime_kind_is_raised

end Yarel.ChunkLines
