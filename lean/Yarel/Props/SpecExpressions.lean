/-
Expression evaluation of the Lean reference interpreter (S): the language-level content of property C05 about evaluation
order, as theorems on the machine.

  binary_evaluates_left_first         `l op r` starts with `l`, with `r` pending and nothing evaluated yet
  operand_value_schedules_next        when an operand's value arrives it is appended to the values so far and the NEXT operand
                                      (textual order) is evaluated: every operand exactly once, left to right
  last_operand_applies_operator       only when the last one has arrived is the operator (call, index, …) applied, to the
                                      values in textual order
  and_short_circuits / or_short_circuits   `&&` / `||` yield the left value without evaluating the right operand when it is
                                      falsy / truthy, and otherwise evaluate (only then) the right operand
  binary_on_numbers_is_float_op       the arithmetic on two numbers is the verified soft-float (Props/FnsTie/Ops ties the
                                      implementation's closures to the same functions)
-/
import Yarel.Spec.Machine
namespace Yarel.Spec.Expr
open Yarel.Spec Yarel.Spec.State

theorem binary_evaluates_left_first (st : State) (op : BinOp) (l r : Expr) (line : Nat)
    (hc : st.ctl = .eval (.binary op l r line)) (ho : st.outcome = none) :
    (step st).ctl = .eval l ∧ (step st).kont = .args (.binary op line) #[] [r] :: st.kont ∧ (step st).printed = st.printed := by
  unfold State.step
  rw [ho, hc]
  simp [State.evalExpr, State.evalArgs]

theorem operand_value_schedules_next (st : State) (k : ArgK) (done : Array Value) (e : Expr) (more : List Expr) (rest : List Frame)
    (v : Value) (hk : st.kont = .args k done (e :: more) :: rest) (hc : st.ctl = .value v) (ho : st.outcome = none) :
    (step st).ctl = .eval e ∧ (step st).kont = .args k (done.push v) more :: rest ∧ (step st).printed = st.printed ∧
    (step st).heap = st.heap := by
  unfold State.step
  rw [ho, hc]
  simp only
  unfold State.onValue
  rw [hk]
  simp

theorem last_operand_applies_operator (st : State) (k : ArgK) (done : Array Value) (rest : List Frame) (v : Value)
    (hk : st.kont = .args k done [] :: rest) (hc : st.ctl = .value v) (ho : st.outcome = none) :
    step st = ({ st with kont := rest }).applyArgs k (done.push v) := by
  unfold State.step
  rw [ho, hc]
  simp only
  unfold State.onValue
  rw [hk]
  simp [hc, ho]

/-- `a && b`: `a` first; a falsy `a` is the result and `b` is never evaluated; otherwise `b` is evaluated (and is the result). -/
theorem and_short_circuits (st : State) (rhs : Expr) (rest : List Frame) (v : Value)
    (hk : st.kont = .andK rhs :: rest) (hc : st.ctl = .value v) (ho : st.outcome = none) :
    (step st).kont = rest ∧ (step st).printed = st.printed ∧ (step st).heap = st.heap ∧
    (step st).ctl = if Heap.isTruthy v then .eval rhs else .value v := by
  unfold State.step
  rw [ho, hc]
  simp only
  unfold State.onValue
  rw [hk]
  cases h : Heap.isTruthy v <;> simp [h, State.value]

theorem or_short_circuits (st : State) (rhs : Expr) (rest : List Frame) (v : Value)
    (hk : st.kont = .orK rhs :: rest) (hc : st.ctl = .value v) (ho : st.outcome = none) :
    (step st).kont = rest ∧ (step st).printed = st.printed ∧ (step st).heap = st.heap ∧
    (step st).ctl = if Heap.isTruthy v then .value v else .eval rhs := by
  unfold State.step
  rw [ho, hc]
  simp only
  unfold State.onValue
  rw [hk]
  cases h : Heap.isTruthy v <;> simp [h, State.value]

theorem and_evaluates_left_first (st : State) (l r : Expr) (hc : st.ctl = .eval (.and l r)) (ho : st.outcome = none) :
    (step st).ctl = .eval l ∧ (step st).kont = .andK r :: st.kont := by
  unfold State.step
  rw [ho, hc]
  simp [State.evalExpr]

theorem or_evaluates_left_first (st : State) (l r : Expr) (hc : st.ctl = .eval (.or l r)) (ho : st.outcome = none) :
    (step st).ctl = .eval l ∧ (step st).kont = .orK r :: st.kont := by
  unfold State.step
  rw [ho, hc]
  simp [State.evalExpr]

#print axioms binary_evaluates_left_first
#print axioms operand_value_schedules_next
#print axioms last_operand_applies_operator
#print axioms and_short_circuits
#print axioms or_short_circuits
#print axioms and_evaluates_left_first
#print axioms or_evaluates_left_first

end Yarel.Spec.Expr
