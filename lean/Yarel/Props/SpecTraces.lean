/-
Error traces of the Lean reference interpreter (S): the language-level content of property C17 about the trace's shape.

  traceLines_one_per_active_call   the trace of an uncaught error has exactly one line for the function that was running and one
                                   per active call of the running fiber below it - no more (frames of statements and
                                   expressions contribute nothing), no fewer
  traceLines_innermost_first       the first line is the running function at the line of the failure; the others follow the call
                                   chain outwards, each at the line of its call instruction
  uncaught_outcome_is_error_with_trace   an uncaught value ends the run with outcome `error kind (messages ++ trace)`
-/
import Yarel.Spec.Machine
namespace Yarel.Spec.Traces
open Yarel.Spec Yarel.Spec.State

def isCall : Frame → Bool
  | .call .. => true
  | _ => false

/-- the call frames of a continuation, innermost first, as (function that made the call … its registers, line of the call) -/
def calls : List Frame → List (FnInfo × Nat)
  | [] => []
  | .call _ fn line :: rest => (fn, line) :: calls rest
  | _ :: rest => calls rest

theorem go_spec (st : State) (frames : List Frame) (acc : List String) :
    State.traceLines.go st frames acc = acc.reverse ++ (calls frames).map fun (p : FnInfo × Nat) => st.traceLine p.1 p.2 := by
  induction frames generalizing acc with
  | nil => simp [State.traceLines.go, calls]
  | cons f rest ih =>
    cases f <;> simp [State.traceLines.go, calls, ih]

theorem traceLines_eq (st : State) (topLine : Nat) :
    st.traceLines topLine = st.traceLine st.fn topLine :: (calls st.kont).map fun (p : FnInfo × Nat) => st.traceLine p.1 p.2 := by
  unfold State.traceLines
  rw [go_spec]
  simp

theorem calls_length (frames : List Frame) : (calls frames).length = (frames.filter isCall).length := by
  induction frames with
  | nil => rfl
  | cons f rest ih => cases f <;> simp [calls, isCall, List.filter, ih]

theorem traceLines_one_per_active_call (st : State) (topLine : Nat) :
    (st.traceLines topLine).length = 1 + (st.kont.filter isCall).length := by
  rw [traceLines_eq, List.length_cons, List.length_map, calls_length]
  omega

theorem traceLines_innermost_first (st : State) (topLine : Nat) :
    (st.traceLines topLine).head? = some (st.traceLine st.fn topLine) := by
  rw [traceLines_eq]; rfl

/-- every line has the shape `[module "<path>", line <n>] in <f>()` / `in script` -/
theorem traceLine_shape (st : State) (fn : FnInfo) (line : Nat) :
    st.traceLine fn line = "[module \"" ++ st.modulePath fn.module ++ "\", line " ++ toString line ++ "] in " ++
      (if fn.name == "" then "script" else fn.name ++ "()") := rfl

theorem halt_outcome (st : State) (o : Outcome) : (st.halt o).outcome = some o := by
  unfold State.halt
  split <;> rfl

/-- An uncaught value ends the run with an error whose messages end with the trace: one line for the running function and
one per active call of the running fiber. -/
theorem uncaught_outcome_is_error_with_trace (st : State) (v : Value) (line : Nat) :
    ∃ (kind : ErrorKind) (msgs trace : List String), (st.failUncaught v line).outcome = some (.error kind (msgs ++ trace)) ∧
      trace.length = 1 + (st.kont.filter isCall).length := by
  unfold State.failUncaught
  rcases st.describeUncaught v with ⟨kind, msgs, heap⟩
  simp only []
  refine ⟨kind, msgs, _, halt_outcome _ _, ?_⟩
  rw [traceLines_one_per_active_call]

#print axioms traceLines_one_per_active_call
#print axioms traceLines_innermost_first
#print axioms traceLine_shape
#print axioms uncaught_outcome_is_error_with_trace

end Yarel.Spec.Traces
