/-
Scoping and closures of the Lean reference interpreter (S): the language-level content of property C06 as theorems.

  resolveLocal_is_innermost_preceding   a use refers to the innermost enclosing declaration that textually precedes it
  pushLocal_fresh, pushLocal_twice_distinct   every entry into a block / function body creates fresh variables (a new cell
                                        each time; existing variables are untouched)
  makeClosure_captures_cells            a closure records the CELLS of the variables it captures, not their values
  write_then_read_shared                writes through one reference (declaring scope, any closure) are seen through every other
  write_does_not_disturb_other          shadowing never disturbs the shadowed variable (it is another cell)
  truncateEnv_keeps_cells               leaving the scope cuts the names, not the cells: closures keep the variable alive

The implementation is tied to (S) by the program differential of C06; its own mechanism (open-cell list, closing) is the
subject of the refinement theorem `refines_cells` in Props/C06.lean, whose abstract store is exactly this cell semantics.
-/
import Yarel.Spec.Machine
import Yarel.Spec.ParserBase
namespace Yarel.Spec.Scope
open Yarel.Spec Yarel.Spec.State

/-! ## variables are cells -/

theorem heap_newCell (h : Heap) (v : Value) :
    (h.newCell v).1 = h.cells.size ∧ (h.newCell v).2.cells = h.cells.push v := by
  simp [Heap.newCell, Heap.takeCells]

theorem heap_readCell_writeCell_same (h : Heap) (c : Nat) (v : Value) (hc : c < h.cells.size) :
    (h.writeCell c v).readCell c = v := by
  simp [Heap.writeCell, Heap.readCell, Heap.takeCells, Array.getElem?_setIfInBounds, hc]

theorem heap_readCell_writeCell_other (h : Heap) (c d : Nat) (v : Value) (hne : c ≠ d) :
    (h.writeCell c v).readCell d = h.readCell d := by
  simp [Heap.writeCell, Heap.readCell, Heap.takeCells, Array.getElem?_setIfInBounds, hne]

@[simp] theorem writeCell_heap (st : State) (c : Nat) (v : Value) : (st.writeCell c v).heap = st.heap.writeCell c v := by
  simp [State.writeCell, State.modHeap, State.takeHeap]

@[simp] theorem writeCell_cellOf (st : State) (c : Nat) (v : Value) (r : VarRef) : (st.writeCell c v).cellOf r = st.cellOf r := by
  cases r <;> simp [State.cellOf, State.writeCell, State.modHeap, State.takeHeap]

theorem readVar_of_cell (st : State) (r : VarRef) (c : Nat) (h : st.cellOf r = some c) (hl : ∀ n, r ≠ .global n) :
    st.readVar r = some (st.heap.readCell c) := by
  cases r with
  | global n => exact absurd rfl (hl n)
  | «local» i => simp [State.readVar, h]
  | upvalue i => simp [State.readVar, h]

theorem writeVar_of_cell (st : State) (r : VarRef) (c : Nat) (v : Value) (h : st.cellOf r = some c) (hl : ∀ n, r ≠ .global n) :
    st.writeVar r v = st.writeCell c v := by
  cases r with
  | global n => exact absurd rfl (hl n)
  | «local» i => simp [State.writeVar, h]
  | upvalue i => simp [State.writeVar, h]

/-- Declaring a variable creates a FRESH cell (one that no existing variable or closure refers to: its index is the number of
cells that existed), puts it at the end of the variable array, and leaves every existing cell as it was. -/
theorem pushLocal_fresh (st : State) (v : Value) :
    (st.pushLocal v).env = st.env.push st.heap.cells.size ∧
    (st.pushLocal v).heap.readCell st.heap.cells.size = v ∧
    (∀ c, c < st.heap.cells.size → (st.pushLocal v).heap.readCell c = st.heap.readCell c) ∧
    (st.pushLocal v).heap.cells.size = st.heap.cells.size + 1 := by
  simp only [State.pushLocal, State.newCell, State.withHeap, State.takeHeap, Heap.newCell, Heap.takeCells, Heap.readCell]
  refine ⟨trivial, by simp, ?_, by simp⟩
  intro c hc
  simp [Array.getElem?_push, hc, Nat.ne_of_lt hc]

/-- Two entries into a block (two executions of the same declaration) give two different variables. -/
theorem pushLocal_twice_distinct (st st' : State) (v w : Value) (hmono : st.heap.cells.size < st'.heap.cells.size) :
    (st.pushLocal v).env.back? ≠ (st'.pushLocal w).env.back? := by
  rw [(pushLocal_fresh st v).1, (pushLocal_fresh st' w).1]
  simp
  omega

/-- Leaving a block or a function forgets the NAMES (the variable array is cut) but never touches a cell: a closure that
captured one of the block's variables keeps reading and writing that very variable. -/
theorem truncateEnv_keeps_cells (st : State) (n : Nat) : (st.truncateEnv n).heap = st.heap := by
  unfold State.truncateEnv; split <;> rfl

/-! ## closures capture variables, not values -/

/-- Writing a variable through one reference and reading it through another reference to the same cell - the declaring
scope's local slot and a closure's captured slot, or two closures - sees the written value. -/
theorem write_then_read_shared (st : State) (r1 r2 : VarRef) (c : Nat) (v : Value)
    (h1 : st.cellOf r1 = some c) (h2 : st.cellOf r2 = some c) (hc : c < st.heap.cells.size)
    (hl1 : ∀ n, r1 ≠ .global n) (hl2 : ∀ n, r2 ≠ .global n) :
    (st.writeVar r1 v).readVar r2 = some v := by
  rw [writeVar_of_cell st r1 c v h1 hl1, readVar_of_cell _ r2 c (by simpa using h2) hl2]
  simp [heap_readCell_writeCell_same _ _ _ hc]

/-- … and a write to one variable never disturbs another (shadowing included: the shadowing declaration has its own cell). -/
theorem write_does_not_disturb_other (st : State) (r1 r2 : VarRef) (c d : Nat) (v : Value)
    (h1 : st.cellOf r1 = some c) (h2 : st.cellOf r2 = some d) (hne : c ≠ d)
    (hl1 : ∀ n, r1 ≠ .global n) (hl2 : ∀ n, r2 ≠ .global n) :
    (st.writeVar r1 v).readVar r2 = st.readVar r2 := by
  rw [writeVar_of_cell st r1 c v h1 hl1, readVar_of_cell _ r2 d (by simpa using h2) hl2, readVar_of_cell st r2 d h2 hl2]
  simp [heap_readCell_writeCell_other _ _ _ _ hne]

/-- A closure records, for each captured variable, the CELL of the enclosing function's variable (or of the enclosing
closure's captured variable) - never the value: so the closure and the declaring scope share the variable. -/
theorem makeClosure_captures_cells (st : State) (fn : FnDecl) (caps : List Capture) :
    ∃ r, (st.makeClosure fn caps).1 = .obj r ∧
      (st.makeClosure fn caps).2.heap.get r =
        .closure fn ((caps.map fun (c : Capture) => if c.1 then (st.env[c.2]?).getD 0 else (st.fn.upvals[c.2]?).getD 0).toArray) st.fn.module := by
  refine ⟨st.heap.objs.size, ?_, ?_⟩
  · simp [State.makeClosure, State.alloc, State.withHeap, State.takeHeap, Heap.alloc, Heap.takeObjs]
  · simp [State.makeClosure, State.alloc, State.withHeap, State.takeHeap, Heap.alloc, Heap.takeObjs, Heap.get]

/-! ## name resolution: the innermost declaration that textually precedes the use -/

theorem resolveGo_spec (c : Compiler) (name : String) (k i : Nat) (h : P.resolveLocalIn.go c name k = .ok i) :
    i < k ∧ (∃ l, c.locals[i]? = some l ∧ (l.name == name) = true ∧ l.depth.isSome = true) ∧
    ∀ j, i < j → j < k → ∀ l, c.locals[j]? = some l → (l.name == name) = false := by
  induction k with
  | zero => simp [P.resolveLocalIn.go] at h
  | succ k ih =>
    unfold P.resolveLocalIn.go at h
    cases hl : c.locals[k]? with
    | none =>
      rw [hl] at h
      simp only at h
      obtain ⟨h1, h2, h3⟩ := ih h
      refine ⟨by omega, h2, ?_⟩
      intro j hij hjk l hjl
      by_cases hjk' : j = k
      · subst hjk'; rw [hl] at hjl; cases hjl
      · exact h3 j hij (by omega) l hjl
    | some l =>
      rw [hl] at h
      simp only at h
      by_cases hn : (l.name == name) = true
      · rw [if_pos hn] at h
        cases hd : l.depth with
        | none => rw [hd] at h; cases h
        | some d =>
          rw [hd] at h
          injection h with h
          subst h
          refine ⟨by omega, ⟨l, hl, hn, by simp [hd]⟩, ?_⟩
          intro j hij hjk; omega
      · rw [if_neg hn] at h
        obtain ⟨h1, h2, h3⟩ := ih h
        refine ⟨by omega, h2, ?_⟩
        intro j hij hjk l' hjl
        by_cases hjk' : j = k
        · subst hjk'; rw [hl] at hjl; injection hjl with hjl; subst hjl; simpa using hn
        · exact h3 j hij (by omega) l' hjl

/-- A use of a name inside the function that declares it refers to the LATEST declaration of that name that precedes the use
(declarations are appended as they are met and removed when their block ends, so "latest in the list" is "innermost enclosing,
textually preceding"); a declaration still being initialised (`var a = a;`) is an error, not a reference to an outer `a`. -/
theorem resolveLocal_is_innermost_preceding (c : Compiler) (name : String) (i : Nat) (h : P.resolveLocalIn c name = .ok i) :
    (∃ l, c.locals[i]? = some l ∧ (l.name == name) = true ∧ l.depth.isSome = true) ∧
    ∀ j, i < j → ∀ l, c.locals[j]? = some l → (l.name == name) = false := by
  unfold P.resolveLocalIn at h
  obtain ⟨h1, h2, h3⟩ := resolveGo_spec c name c.locals.size i h
  refine ⟨h2, ?_⟩
  intro j hij l hjl
  have : j < c.locals.size := by
    by_cases hlt : j < c.locals.size
    · exact hlt
    · rw [Array.getElem?_eq_none (by omega)] at hjl; cases hjl
  exact h3 j hij this l hjl


#print axioms heap_newCell
#print axioms heap_readCell_writeCell_same
#print axioms heap_readCell_writeCell_other
#print axioms readVar_of_cell
#print axioms writeVar_of_cell
#print axioms pushLocal_fresh
#print axioms pushLocal_twice_distinct
#print axioms truncateEnv_keeps_cells
#print axioms write_then_read_shared
#print axioms write_does_not_disturb_other
#print axioms makeClosure_captures_cells
#print axioms resolveGo_spec
#print axioms resolveLocal_is_innermost_preceding

end Yarel.Spec.Scope
