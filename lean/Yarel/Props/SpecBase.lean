/-
Base properties of the Lean reference interpreter (S) in `Yarel/Spec`:

  A  the scanner is total with a fixed output shape (one `eof`, at the end; fuel never binds; lines)
  B  `compileWith` answers `.ok` or a non-empty list of located messages
  C  the machine: finished states are fixed points, more fuel never changes a finished run, a step
     prints at most one line
  D  the rule table covers every token kind; the precedence ladder is strict
-/
import Yarel.Proofs.SpecRun
import Yarel.Proofs.SpecScanAll
import Yarel.Proofs.SpecScanFuel
import Yarel.Proofs.SpecCompile
import Yarel.Proofs.SpecPrintedStep

namespace Yarel.Spec.Base
open Yarel.Spec
open Yarel.Spec.Scanner (scanStart scanAll_eq_list scanStart_spec)

/-! ## A. Scanner -/

/-- Progress of one `scanToken` call: the text is untouched, the position never decreases and never
leaves the text, and every token but `eof` consumes at least one character. -/
theorem scanToken_progress (s : Scanner) :
    (s.scanToken).2.src = s.src ∧
    s.current ≤ (s.scanToken).2.current ∧
    (s.current ≤ s.src.size → (s.scanToken).2.current ≤ s.src.size) ∧
    ((s.scanToken).1.kind ≠ .eof → s.current < (s.scanToken).2.current) := by
  obtain ⟨h, _, hp⟩ := Scanner.scanToken_spec s
  refine ⟨h.src, h.cur, h.bound, fun hne => ?_⟩
  rcases hp with hp | hp
  · exact absurd hp hne
  · exact hp

/-- **A1** the token stream ends with `eof`, and `eof` occurs nowhere else. -/
theorem scanAll_ends_with_eof (src : String) :
    (scanAll src).back?.map (·.kind) = some .eof ∧
    ∀ i (h : i < (scanAll src).size), (scanAll src)[i].kind = .eof → i + 1 = (scanAll src).size := by
  obtain ⟨⟨pre, t, hl, ht, hpre⟩, -⟩ := scanStart_spec src
  rw [scanAll_eq_list, hl]
  refine ⟨by simp [ht], ?_⟩
  intro i hi hk
  simp only [List.size_toArray, List.length_append, List.length_cons, List.length_nil] at hi ⊢
  simp only [List.getElem_toArray] at hk
  by_cases hlt : i < pre.length
  · rw [List.getElem_append_left hlt] at hk
    exact absurd hk (hpre _ (List.getElem_mem hlt))
  · omega

#print axioms scanAll_ends_with_eof

/-- **A2** the fuel of `scanAll` is never the reason the loop stops: more fuel, same tokens. -/
theorem scanAll_fuel_enough (src : String) (k : Nat) :
    Scanner.scanAllAux (src.toList.toArray.size + 2 + k) { src := src.toList.toArray } #[] =
      scanAll src := by
  have h := (scanStart_spec src).2.2.2 k
  unfold scanAll
  rw [Scanner.scanAllAux_eq, Scanner.scanAllAux_eq]
  exact congrArg (fun l => #[] ++ List.toArray l) h

#print axioms scanAll_fuel_enough

/-- A2 for an arbitrary scanner state inside its text: `remaining characters + 1` iterations suffice. -/
theorem scanAllAux_fuel_enough (s : Scanner) (hs : s.current ≤ s.src.size) (hl : 1 ≤ s.line)
    (hn : s.line ≤ 1 + Scanner.nlUpTo s.src s.current) (acc : Array Token) (n k : Nat)
    (hfuel : s.src.size - s.current + 1 ≤ n) :
    Scanner.scanAllAux (n + k) s acc = Scanner.scanAllAux n s acc := by
  rw [Scanner.scanAllAux_eq, Scanner.scanAllAux_eq,
    (Scanner.scanList_spec n s ⟨hs, hl, hn⟩ hfuel).2.2.2 k]

#print axioms scanAllAux_fuel_enough

/-- A2 for the INNER loops: the fuels `scanToken` hands to `skipWhitespace`, `skipLineComment`,
`identTail`, `digitsTail` (`size + 1`) and `stringBody` (`size + 2`) never bind either, whatever the
scanner state. -/
theorem scanner_inner_fuels_enough (s : Scanner) (k : Nat) :
    Scanner.skipWhitespace (s.src.size + 1 + k) s = Scanner.skipWhitespace (s.src.size + 1) s ∧
    Scanner.skipLineComment (s.src.size + 1 + k) s = Scanner.skipLineComment (s.src.size + 1) s ∧
    Scanner.identTail (s.src.size + 1 + k) s = Scanner.identTail (s.src.size + 1) s ∧
    Scanner.digitsTail (s.src.size + 1 + k) s = Scanner.digitsTail (s.src.size + 1) s ∧
    ∀ buf err, Scanner.stringBody (s.src.size + 2 + k) s buf err =
      Scanner.stringBody (s.src.size + 2) s buf err :=
  Scanner.inner_fuels_enough s k

#print axioms scanner_inner_fuels_enough

/-- **A3a** token lines never decrease. -/
theorem scanAll_lines_monotone (src : String) (i j : Nat) (hij : i ≤ j) (hj : j < (scanAll src).size) :
    ((scanAll src)[i]'(Nat.lt_of_le_of_lt hij hj)).line ≤ (scanAll src)[j].line := by
  have hpw := (scanStart_spec src).2.1
  have key : ∀ (a : Array Token) (l : List Token), a = l.toArray →
      l.Pairwise (fun x y => x.line ≤ y.line) →
      ∀ (hj : j < a.size), (a[i]'(Nat.lt_of_le_of_lt hij hj)).line ≤ a[j].line := by
    intro a l ha hp hj
    subst ha
    simp only [List.getElem_toArray]
    rcases Nat.lt_or_eq_of_le hij with hlt | heq
    · exact (List.pairwise_iff_getElem.1 hp) i j _ _ hlt
    · subst heq; exact Nat.le_refl _
  exact key _ _ (scanAll_eq_list src) hpw hj

#print axioms scanAll_lines_monotone

/-- **A3b** every token line is between 1 and 1 + the number of newlines of the text. -/
theorem scanAll_lines_bounded (src : String) (i : Nat) (h : i < (scanAll src).size) :
    1 ≤ (scanAll src)[i].line ∧ (scanAll src)[i].line ≤ 1 + src.toList.count '\n' := by
  have hb := (scanStart_spec src).2.2.1
  have key : ∀ (a : Array Token) (l : List Token), a = l.toArray →
      (∀ t ∈ l, 1 ≤ t.line ∧ t.line ≤ 1 + src.toList.count '\n') →
      ∀ (h : i < a.size), 1 ≤ a[i].line ∧ a[i].line ≤ 1 + src.toList.count '\n' := by
    intro a l ha hp h
    subst ha
    simp only [List.getElem_toArray]
    exact hp _ (List.getElem_mem _)
  exact key _ _ (scanAll_eq_list src) hb h

#print axioms scanAll_lines_bounded

/-- There are at most as many tokens as characters, plus the `eof`. -/
theorem scanAll_size_le (src : String) :
    1 ≤ (scanAll src).size ∧ (scanAll src).size ≤ src.toList.length + 1 := by
  have h := Scanner.scanList_length (src.toList.toArray.size + 2) (scanStart src) (Scanner.Inv.init _)
  obtain ⟨⟨pre, t, hl, -, -⟩, -⟩ := scanStart_spec src
  rw [scanAll_eq_list]
  constructor
  · rw [hl]; simp
  · simpa [scanStart] using h

#print axioms scanAll_size_le

/- non-vacuity (kernel-evaluated): a text with a keyword, a comment, a string with an interpolation
and two newlines -/
example : (scanAll "var x = \"a${1}b\"; // c\nprint(x)\n;").map (·.kind) =
    #[.var_, .identifier, .equal, .interpolation, .number, .str, .semiColon,
      .identifier, .leftParen, .identifier, .rightParen, .semiColon, .eof] := by decide +kernel
example : (scanAll "var x = \"a${1}b\"; // c\nprint(x)\n;").map (·.line) =
    #[1, 1, 1, 1, 1, 1, 1, 2, 2, 2, 2, 3, 3] := by decide +kernel
/- a newline swallowed by a bad escape IS counted since F51 (the error token keeps the line it was found on, what follows is on the
next line); before that repair this example read (1, 1, 1) -/
example : (scanAll "\"\\\n\"").map (fun t => (t.kind, t.line)) =
    #[(.error, 1), (.error, 2), (.eof, 2)] := by decide +kernel

/-! ## B. Compiler result dichotomy -/

/-- The messages of a compile result (`[]` for `.ok`). -/
def msgsOf : CompileResult → List String
  | .ok _ => []
  | .error ms => ms

-- the proofs below never look inside the parser run; keep the elaborator from unfolding it
attribute [local irreducible] compileRun compileWith

/-- The answer of `compileWith` as a function of what the parser run produced. -/
private theorem answer_cases (r : List Stmt × PState) (res : CompileResult)
    (h : res = if !r.2.errors.isEmpty then .error r.2.errors.toList else .ok (.mk "" 0 .script r.1)) :
    (r.2.errors.isEmpty = true ∧ res = .ok (.mk "" 0 .script r.1)) ∨
    (r.2.errors.isEmpty = false ∧ res = .error r.2.errors.toList ∧ r.2.errors.toList ≠ []) := by
  cases he : r.2.errors.isEmpty with
  | true => left; simp [h, he]
  | false =>
    right
    refine ⟨rfl, by simp [h, he], ?_⟩
    intro hnil
    have : r.2.errors = #[] := by simpa using hnil
    rw [this] at he
    simp at he

private theorem compileWith_cases (tbl : List Rule) (src m : String) :
    ((compileRun tbl src m).2.errors.isEmpty = true ∧
      compileWith tbl src m = .ok (.mk "" 0 .script (compileRun tbl src m).1)) ∨
    ((compileRun tbl src m).2.errors.isEmpty = false ∧
      compileWith tbl src m = .error (compileRun tbl src m).2.errors.toList ∧
      (compileRun tbl src m).2.errors.toList ≠ []) :=
  answer_cases _ _ (compileWith_eq tbl src m)

/-- **B1a** an `.error` answer carries at least one message. -/
theorem compileWith_error_nonempty (tbl : List Rule) (src m : String) (msgs : List String)
    (h : compileWith tbl src m = .error msgs) : msgs ≠ [] := by
  rcases compileWith_cases tbl src m with ⟨-, h'⟩ | ⟨-, h', hne⟩
  · rw [h'] at h; cases h
  · rw [h'] at h; cases h; exact hne

#print axioms compileWith_error_nonempty

/-- **B1b** `.ok` is answered exactly when the parser recorded no error … -/
theorem compileWith_ok_iff (tbl : List Rule) (src m : String) :
    (∃ f, compileWith tbl src m = .ok f) ↔ (compileRun tbl src m).2.errors.isEmpty = true := by
  rcases compileWith_cases tbl src m with ⟨he, h'⟩ | ⟨he, h', -⟩
  · exact ⟨fun _ => he, fun _ => ⟨_, h'⟩⟩
  · constructor
    · rintro ⟨f, hf⟩; rw [h'] at hf; cases hf
    · intro h; rw [he] at h; cases h

#print axioms compileWith_ok_iff

/-- … and `.error msgs` exactly when it recorded some, `msgs` being all of them, in order. -/
theorem compileWith_error_iff (tbl : List Rule) (src m : String) (msgs : List String) :
    compileWith tbl src m = .error msgs ↔
      msgs = (compileRun tbl src m).2.errors.toList ∧ msgs ≠ [] := by
  rcases compileWith_cases tbl src m with ⟨he, h'⟩ | ⟨-, h', hne⟩
  · constructor
    · intro h; rw [h'] at h; cases h
    · rintro ⟨rfl, hne⟩
      exfalso; apply hne
      have : (compileRun tbl src m).2.errors = #[] := by simpa using he
      rw [this]
  · constructor
    · intro h; rw [h'] at h; cases h; exact ⟨rfl, hne⟩
    · rintro ⟨rfl, -⟩; exact h'

#print axioms compileWith_error_iff

/-- **B1** compilation is total: any text yields a function or a non-empty list of messages. -/
theorem compileWith_total (tbl : List Rule) (src m : String) :
    (∃ f, compileWith tbl src m = .ok f) ∨ (∃ msgs, compileWith tbl src m = .error msgs ∧ msgs ≠ []) := by
  cases h : compileWith tbl src m with
  | ok f => exact Or.inl ⟨f, rfl⟩
  | error msgs => exact Or.inr ⟨msgs, rfl, compileWith_error_nonempty tbl src m msgs h⟩

#print axioms compileWith_total

/-- **B2** every reported message is located in the module being compiled — except the model's own
"spec parser: fuel exhausted" (pushed unlocated by `P.fuelOut`; it IS reachable, see below). -/
theorem compileWith_messages_located (tbl : List Rule) (src m : String) (msgs : List String)
    (h : compileWith tbl src m = .error msgs) :
    ∀ e ∈ msgs, (∃ rest, e = "[module \"" ++ m ++ "\", line " ++ rest) ∨
      e = "spec parser: fuel exhausted" := by
  obtain ⟨rfl, -⟩ := (compileWith_error_iff tbl src m msgs).1 h
  intro e he
  exact (compileRun_inv tbl src m).2 e (by simpa using he)

#print axioms compileWith_messages_located

/-- B2 in the `_partial` form: the extra hypothesis spelled out. -/
theorem compileWith_messages_located_partial (tbl : List Rule) (src m : String) (msgs : List String)
    (h : compileWith tbl src m = .error msgs) (e : String) (he : e ∈ msgs)
    (hfuel : e ≠ "spec parser: fuel exhausted") :
    ∃ rest, e = "[module \"" ++ m ++ "\", line " ++ rest := by
  rcases compileWith_messages_located tbl src m msgs h e he with h' | h'
  · exact h'
  · exact absurd h' hfuel

#print axioms compileWith_messages_located_partial

/- Whether the unlocated message is reachable at all depends on the parser fuel (`16 * tokens + 64`, a bound on the nesting
depth of the mutual block): with the earlier `4 * tokens + 64` seventy unclosed `[` exhausted it (the chain
`parsePrecedence → prefixRule → argumentList → argumentLoop → expression` costs 5 per bracket), which made (S) disagree with the
implementation on deeply nested malformed input; no chain costs 16 per token, but that the message is now unreachable is NOT
proved, hence the exception stays in `compileWith_messages_located`. -/

/- non-vacuity (kernel-evaluated): an `.ok` text, a text with two located errors -/
example : msgsOf (compile "var x = 1; print(x);") = [] ∧
    (∃ f, compile "var x = 1; print(x);" = .ok f) := by
  refine ⟨by decide +kernel, (compileWith_ok_iff _ _ _).2 (by decide +kernel)⟩
example : msgsOf (compile "var = 1;\nreturn 2;" "lib/util") =
    ["[module \"lib/util\", line 1] Error at '=': Expected variable name.",
     "[module \"lib/util\", line 2] Error at 'return': Cannot return from top-level code."] := by
  decide +kernel

/-! ## C. Machine: budget independence -/

open State

/-- **C1** a finished state is a fixed point of `step` (and of `run`). -/
theorem step_halted (st : State) (h : st.outcome.isSome = true) : step st = st ∧ ∀ n, run n st = st := by
  obtain ⟨o, ho⟩ := Option.isSome_iff_exists.1 h
  exact ⟨step_of_outcome_some ho, run_of_outcome_some ho⟩

#print axioms step_halted

/-- `run` is `step` iterated (its own test for a finished state is subsumed by the one in `step`). -/
theorem run_succ_eq (n : Nat) (st : State) : run (n + 1) st = run n (step st) := State.run_succ n st

#print axioms run_succ_eq

/-- **C2** once a run has reached an outcome — any outcome, also `.timeout`/`.fault` raised by the
machine itself — more fuel changes nothing: the whole final state (output, outcome, heap) is the same. -/
theorem run_fuel_mono (n : Nat) (st : State) (o : Outcome) (h : (run n st).outcome = some o)
    (m : Nat) (hm : n ≤ m) : run m st = run n st := run_stable h hm

#print axioms run_fuel_mono

/-- Two sufficient budgets agree. -/
theorem run_fuel_agree (n m : Nat) (st : State) (hn : (run n st).outcome.isSome = true)
    (hm : (run m st).outcome.isSome = true) : run n st = run m st := by
  obtain ⟨o, ho⟩ := Option.isSome_iff_exists.1 hn
  obtain ⟨o', ho'⟩ := Option.isSome_iff_exists.1 hm
  rcases Nat.le_total n m with h | h
  · exact (run_stable ho h).symm
  · exact run_stable ho' h

#print axioms run_fuel_agree

/-- **C2 for `runSnippet`** if a snippet does not answer `.timeout` with fuel `n`, it gives the same
answer (`.ok` / `.error k msgs` / `.fault`) and the same final state — in particular the same
`printed` — with every larger fuel. -/
theorem runSnippet_fuel_mono (st : State) (src : String) (n : Nat) (compileOnly : Bool)
    (h : (st.runSnippet src n compileOnly).1 ≠ .timeout) (m : Nat) (hm : n ≤ m) :
    st.runSnippet src m compileOnly = st.runSnippet src n compileOnly := by
  rw [runSnippet_eq] at h ⊢
  rw [runSnippet_eq]
  cases hc : compileWith st.tbl src "main" with
  | error msgs => rfl
  | ok script =>
    rw [hc] at h
    dsimp only at h ⊢
    cases compileOnly with
    | true => rfl
    | false =>
      simp only [Bool.false_eq_true, if_false] at h ⊢
      obtain ⟨o, ho⟩ := outcome_of_snippetAnswer_ne_timeout h
      rw [run_stable ho hm]

#print axioms runSnippet_fuel_mono

/-- … and the answer and output are the same for any two fuels that both avoid `.timeout`. -/
theorem runSnippet_fuel_agree (st : State) (src : String) (n m : Nat) (compileOnly : Bool)
    (hn : (st.runSnippet src n compileOnly).1 ≠ .timeout)
    (hm : (st.runSnippet src m compileOnly).1 ≠ .timeout) :
    st.runSnippet src n compileOnly = st.runSnippet src m compileOnly := by
  rcases Nat.le_total n m with h | h
  · exact (runSnippet_fuel_mono st src n compileOnly hn m h).symm
  · exact runSnippet_fuel_mono st src m compileOnly hm n h

#print axioms runSnippet_fuel_agree

/-- **C3** one step leaves `printed` alone or appends exactly one line (for every state, finished or
not). -/
theorem step_printed (st : State) :
    (step st).printed = st.printed ∨ ∃ line, (step st).printed = st.printed.push line :=
  step_pstep st

#print axioms step_printed

/-- `printed` only grows: after `n` steps the old output is a prefix, at most `n` lines were added. -/
theorem run_printed_prefix (n : Nat) (st : State) :
    ∃ added : Array String, (run n st).printed = st.printed ++ added ∧ added.size ≤ n := by
  induction n generalizing st with
  | zero => exact ⟨#[], by simp [run], Nat.le_refl _⟩
  | succ n ih =>
    rw [State.run_succ]
    obtain ⟨added, h1, h2⟩ := ih (step st)
    rcases step_pstep st with h | ⟨line, h⟩
    · exact ⟨added, by rw [h1, h], Nat.le_succ_of_le h2⟩
    · refine ⟨#[line] ++ added, ?_, ?_⟩
      · rw [h1, h]; simp
      · simp; omega

#print axioms run_printed_prefix

/- non-vacuity (kernel-evaluated on a hand-made state; the bootstrapped interpreter is too big for the
kernel, see the `#eval`s below).  `printSt` is about to call a `print` native on "hi". -/
private def printSt : State :=
  { heap := { objs := #[.native "print" .print] }
    ctl := .next
    kont := [.args (.call 1) #[.obj 0, .str "hi"] [], .discard] }

example : printSt.outcome.isSome = false ∧ (step printSt).printed = printSt.printed.push "hi" := by
  decide +kernel
-- two more steps and the continuation is empty: the machine stops (with a fault, there is no fiber)
example : (run 2 printSt).outcome.isSome = false ∧ (run 3 printSt).outcome.isSome = true ∧
    (run 3 printSt).printed = #["hi"] ∧ (run 50 printSt).printed = #["hi"] := by
  decide +kernel

/- On the real interpreter instance (checked with `#eval`, not kernel-reducible in reasonable time):
     #eval ((State.bootstrap).runSnippet "print(1); print(\"a\" + \"b\");" 1000).2.printed
       -- #["1", "ab"]
     #eval (((State.bootstrap).runSnippet "print(1); print(\"a\" + \"b\");" 1000).1,
            ((State.bootstrap).runSnippet "print(1); print(\"a\" + \"b\");" 5).1)
       -- (ok, timeout) -/

/-! ## D. Rule table -/

/-- **D1** the table has one entry per token kind and entry `k.index` is the rule of `k`: `getRule rules`
never takes its fallback branch. -/
theorem getRule_rules_total (k : TokenKind) :
    rules.length = 72 ∧ ∃ r, rules[k.index]? = some r ∧ getRule rules k = r ∧ r.kind = k := by
  refine ⟨rfl, ?_⟩
  cases k <;> exact ⟨_, rfl, rfl, rfl⟩

#print axioms getRule_rules_total

/-- **D2** the precedence ladder is strict (ranks 0 … 15 in this order; `range` sits between `factor`
and `unary`, as in compiler.rs) and `ofRank` inverts `rank`. -/
theorem prec_ladder :
    ([Prec.none, .assignment, .or_, .and_, .equality, .comparison, .bitwiseOr, .bitwiseXor, .bitwiseAnd,
      .bitShift, .term, .factor, .range, .unary, .call, .primary].map Prec.rank
        = List.range 16) ∧
    (∀ p : Prec, Prec.ofRank p.rank = p) ∧
    (∀ p q : Prec, p.rank = q.rank → p = q) := by
  refine ⟨by decide, fun p => by cases p <;> rfl, fun p q => by cases p <;> cases q <;> decide⟩

#print axioms prec_ladder

/-- **D3** a token has an infix rule exactly when its precedence is not `none`; a binary operator sits
on one of the eight arithmetic/comparison rungs, strictly between `and_` and `range`, so that its
right operand is parsed one rung higher (left associativity) without saturating `ofRank`. -/
theorem infix_rules_sane (k : TokenKind) :
    ((getRule rules k).inf.isSome ↔ (getRule rules k).prec ≠ .none) ∧
    ((getRule rules k).inf = some .binary →
      Prec.and_.rank < (getRule rules k).prec.rank ∧ (getRule rules k).prec.rank < Prec.range.rank ∧
      (Prec.ofRank ((getRule rules k).prec.rank + 1)).rank = (getRule rules k).prec.rank + 1) := by
  cases k <;> decide

#print axioms infix_rules_sane

/-- The infix table itself: operator token ↦ (handler, precedence). -/
theorem infix_table :
    (rules.filterMap fun r => r.inf.map fun h => (r.kind, h, r.prec)) =
      [(.leftParen, .call, .call), (.leftBracket, .index, .call), (.dot, .dot, .call),
       (.dotDot, .dotdot, .range), (.minus, .binary, .term), (.plus, .binary, .term),
       (.slash, .binary, .factor), (.star, .binary, .factor), (.bangEqual, .binary, .equality),
       (.equalEqual, .binary, .equality), (.greater, .binary, .comparison),
       (.greaterEqual, .binary, .comparison), (.less, .binary, .comparison),
       (.lessEqual, .binary, .comparison), (.amp, .binary, .bitwiseAnd), (.bar, .binary, .bitwiseOr),
       (.caret, .binary, .bitwiseXor), (.percent, .binary, .factor),
       (.greaterGreater, .binary, .bitShift), (.lessLess, .binary, .bitShift),
       (.ampAmp, .and_, .and_), (.barBar, .or_, .or_)] := by decide

#print axioms infix_table

end Yarel.Spec.Base
