/-
C14 – module imports (`start_import_impl` / `finish_import_impl` / `Vm::module` / `init_built_in_globals`,
globals = attributes of `active_module`).

Model: `Yarel/Model/Modules.lean` (read its header for what is transcribed). Vocabulary used below:
* `Cfg` – the loader (`prog : path ↦ notFound | compileError | body statements`) and `framesMax` (= `FRAMES_MAX`, 64);
* `State` – `registry` (path ↦ `{imported, attrs}`; a module object IS its path), `active` module, `callers`
  (modules of the frames below), `log` (events: `bodyStart p`, `bodyEnd p`, `bodyFail p e`, `bound m name p`,
  `caught m e`, `readG m name v`, `readA m target attr v`, `printed m tag`); `st.stack = active :: callers`;
* `exec cfg fuel st acts` runs top-level statements of the active module; `startImport cfg fuel st p` is one
  `StartImport p … FinishImport`; `run cfg main` runs a root script in a fresh interpreter (`boot`);
* `isReg / isLoading / isImported reg p` – `p` is registered / registered with `imported = false` / `= true`;
* `Inv st` (Proofs/ModulesInv.lean) – well-formedness: registry keys and frame stack duplicate-free, every module on
  the frame stack is loading, every module VALUE stored in any attribute table designates a completely imported module,
  a `bodyStart p` event occurs at most once and only for registered `p`, #bodyStart ≤ #registered. `inv_boot : Inv boot`,
  and every outcome of `exec`/`startImport` from an `Inv` state is `Inv` again (`reachable_inv`), so the hypotheses
  `Inv st` below mean "any state an interpreter can be in between two statements".

Quirks of the code that the model reproduces and the theorems state:
* `failed_body_poisons` – a module whose body raised (or whose frame could not be pushed) stays registered with
  `imported = false`; every later import of it reports "Circular dependency…" although nothing is circular.
* `overflow_*` – an import at frame depth `FRAMES_MAX` raises IndexError "Stack overflow." (not an ImportError), leaves
  the module registered without built-ins and never runs it; if the error is caught, `start_import_impl` resumes and
  re-seeds the built-ins of the CATCHING module, silently undoing that module's own redefinition of e.g. `print`.
-/
import Yarel.Proofs.ModulesFacts

namespace Yarel.Modules

/-! ### concrete programs for the non-vacuity examples

paths: 0 = main, 1 = a, 2 = b, 3 = c, 4 = d, 5/6/7 = a 3-cycle, 8 = does not compile, 9 = not listed (missing),
10 = raises at top level, 11 = imports itself.  names ≥ 100 are user globals, names < 21 the built-ins (2 = `print`). -/

def demo : Cfg := { prog := [
  (1, .body [.importMod 2 102, .importMod 3 103, .readAttr 102 200, .print 1]),           -- a: imports b and c
  (2, .body [.importMod 4 104, .define 200 7, .setAttr 104 300 5, .print 2]),              -- b: imports d, writes d.x
  (3, .body [.importMod 4 104, .readAttr 104 300, .readAttr 104 2, .print 3]),             -- c: imports d, reads d.x, d.print
  (4, .body [.define 300 1, .readGlobal 2, .define 100 44, .print 4]),                     -- d
  (5, .body [.print 5, .importMod 6 106, .print 55]),                                      -- 5 → 6 → 7 → 5
  (6, .body [.print 6, .importMod 7 107, .print 66]),
  (7, .body [.print 7, .tryImport 5 105, .print 77]),
  (8, .compileError),
  (10, .body [.define 400 1, .fail 99, .print 10]),
  (11, .body [.importMod 11 111]) ] }

def logOf (o : Outcome) : List Event :=
  match o.state? with
  | some st => st.log
  | none => []

def regOf (o : Outcome) : List (Nat × RegState) :=
  match o.state? with
  | some st => (keys st.registry).map fun p => (p, regState st.registry p)
  | none => []

/-- main: `var x = 9 (name 100); import a; import d; print(d.x); print(x);` -/
def diamondMain : List Action := [.define 100 9, .importMod 1 101, .importMod 4 104, .readAttr 104 300, .readGlobal 100]

/-- The diamond: `d` runs once (one `bodyStart 4`), `b` and `c` and main get the same object (c and main read the `5`
that b wrote through its handle), main's global `100` is still `9` although `d` defined its own `100`, `d` sees
`print`, and `c` can even reach `print` as `d.print`. -/
example : logOf (run demo diamondMain) =
    [.bodyStart 0, .bodyStart 1, .bodyStart 2, .bodyStart 4, .readG 4 2 (.builtin 2), .printed 4 4, .bodyEnd 4,
     .bound 2 104 4, .printed 2 2, .bodyEnd 2, .bound 1 102 2,
     .bodyStart 3, .bound 3 104 4, .readA 3 4 300 (.num 5), .readA 3 4 2 (.builtin 2), .printed 3 3, .bodyEnd 3,
     .bound 1 103 3, .readA 1 2 200 (.num 7), .printed 1 1, .bodyEnd 1, .bound 0 101 1,
     .bound 0 104 4, .readA 0 4 300 (.num 5), .readG 0 100 (.num 9)] := by decide

example : regOf (run demo diamondMain) =
    [(0, .loading), (1, .cached), (2, .cached), (4, .cached), (3, .cached)] := by decide

/-- main: a 3-cycle whose last member catches, a missing module, an uncompilable one, a self-import – each caught. -/
def errorsMain : List Action := [.tryImport 5 105, .tryImport 9 109, .tryImport 8 108, .tryImport 11 111, .print 0]

example : logOf (run demo errorsMain) =
    [.bodyStart 0,
     .bodyStart 5, .printed 5 5, .bodyStart 6, .printed 6 6, .bodyStart 7, .printed 7 7,
     .caught 7 (.circular 5), .printed 7 77, .bodyEnd 7, .bound 6 107 7, .printed 6 66, .bodyEnd 6, .bound 5 106 6,
     .printed 5 55, .bodyEnd 5, .bound 0 105 5,
     .caught 0 (.loader 9), .caught 0 (.compile 8),
     .bodyStart 11, .bodyFail 11 (.circular 11), .caught 0 (.circular 11), .printed 0 0] := by decide

/-- the missing and the uncompilable module were never registered; the self-importing one is poisoned. -/
example : regOf (run demo errorsMain) =
    [(0, .loading), (5, .cached), (6, .cached), (7, .cached), (11, .loading)] := by decide

/-- an uncaught cycle: the error travels through all three bodies to main, nothing hangs. -/
example : run { prog := [(5, .body [.importMod 6 106]), (6, .body [.importMod 7 107]), (7, .body [.importMod 5 105])] }
      [.importMod 5 105, .print 0] matches .err (.circular 5) _ := by decide

/-! ### reachable states are well-formed -/

/-- `Inv` is an invariant: it holds for a fresh interpreter and is preserved by running any statements, whatever the
outcome (normal completion or a propagating error). -/
theorem reachable_inv (cfg : Cfg) (fuel : Nat) (st : State) (acts : List Action) (h : Inv st) (st' : State)
    (hr : (exec cfg fuel st acts).state? = some st') : Inv st' := by
  have := exec_post cfg fuel st acts h
  cases ho : exec cfg fuel st acts with
  | ok s => rw [ho] at this hr; cases hr; exact this.1
  | err e s => rw [ho] at this hr; cases hr; exact this.1
  | outOfFuel => rw [ho] at hr; cases hr

#print axioms reachable_inv
#print axioms inv_boot

/-- non-vacuity: the state in the middle of the diamond (inside `d`, three frames deep) is well-formed. -/
example : Inv ((((boot.register 1).enterBody 1).register 2).enterBody 2) :=
  Inv.enter (Inv.enter inv_boot (by decide)) (by decide)

/-! ### 1. `body_at_most_once` -/

/-- In every run from a well-formed state, for every path, the log contains at most one "body started" event –
and none at all for a path that is not registered at the end. -/
theorem body_at_most_once (cfg : Cfg) (fuel : Nat) (st : State) (acts : List Action) (h : Inv st) (st' : State)
    (hr : (exec cfg fuel st acts).state? = some st') (p : Nat) :
    st'.log.count (.bodyStart p) ≤ 1 ∧ (isReg st'.registry p = false → st'.log.count (.bodyStart p) = 0) := by
  have := (reachable_inv cfg fuel st acts h st' hr).startsOnce p
  constructor
  · split at this <;> omega
  · intro hp; simp only [hp] at this; simpa using this

#print axioms body_at_most_once

/-- … in particular for whole programs. -/
theorem body_at_most_once_run (cfg : Cfg) (main : List Action) (st' : State)
    (hr : (run cfg main).state? = some st') (p : Nat) : st'.log.count (.bodyStart p) ≤ 1 :=
  (body_at_most_once cfg _ boot main inv_boot st' hr p).1

#print axioms body_at_most_once_run

example : (logOf (run demo diamondMain)).count (.bodyStart 4) = 1 := by decide

/-! ### termination: every run is finite -/

/-- The number of body starts is bounded by the number of distinct registered paths, which is bounded by the paths
registered before plus the loader's entries; the registry never holds a path twice. -/
theorem starts_le_paths (cfg : Cfg) (fuel : Nat) (st : State) (acts : List Action) (h : Inv st) (st' : State)
    (hr : (exec cfg fuel st acts).state? = some st') :
    starts st'.log ≤ st'.registry.length ∧ (keys st'.registry).Nodup ∧
      st'.registry.length ≤ st.registry.length + cfg.prog.length ∧
      (∀ q, isReg st'.registry q = true → isReg st.registry q = true ∨ ∃ body, cfg.load q = .body body) := by
  have hinv := reachable_inv cfg fuel st acts h st' hr
  have hpost := exec_post cfg fuel st acts h
  have hg : Grow cfg st.callers st st' := by
    cases ho : exec cfg fuel st acts with
    | ok s => rw [ho] at hpost hr; cases hr; exact hpost.2.toGrow
    | err e s => rw [ho] at hpost hr; cases hr; exact hpost.2.1.toGrow
    | outOfFuel => rw [ho] at hr; cases hr
  refine ⟨hinv.startsLe, hinv.nodupKeys, ?_, hg.newKeys⟩
  have h1 := hg.size
  have h2 := pend_le_length cfg.prog st.registry
  omega

#print axioms starts_le_paths

/-- `fuelFor` (length of the statements + total size of the not yet registered module bodies) is enough: the fuel
never runs out, i.e. the big-step evaluation terminates with a result – cycles included. -/
theorem fuel_suffices (cfg : Cfg) (st : State) (acts : List Action) (h : Inv st) (fuel : Nat)
    (hf : fuelFor cfg st.registry acts ≤ fuel) : exec cfg fuel st acts ≠ .outOfFuel :=
  exec_ne_oof cfg fuel st acts h hf

#print axioms fuel_suffices

/-- every program run ends, normally or with an error value, after at most `1 + |loader entries|` body starts. -/
theorem run_terminates (cfg : Cfg) (main : List Action) :
    ∃ st', (run cfg main).state? = some st' ∧ starts st'.log ≤ 1 + cfg.prog.length := by
  have hne := fuel_suffices cfg boot main inv_boot _ (Nat.le_refl _)
  cases ho : run cfg main with
  | outOfFuel => exact absurd ho hne
  | ok s =>
    have := starts_le_paths cfg _ boot main inv_boot s (by unfold run at ho; rw [ho]; rfl)
    refine ⟨s, rfl, ?_⟩
    have hb : boot.registry.length = 1 := rfl
    omega
  | err e s =>
    have := starts_le_paths cfg _ boot main inv_boot s (by unfold run at ho; rw [ho]; rfl)
    refine ⟨s, rfl, ?_⟩
    have hb : boot.registry.length = 1 := rfl
    omega

#print axioms run_terminates

/-! ### 2. `same_object` -/

/-- Importing a completely imported path does nothing at all – no loader call, no body, no registry change – and
succeeds (the cached object is pushed). -/
theorem same_object_cached (cfg : Cfg) (fuel : Nat) (st : State) (p : Nat) (h : isImported st.registry p = true) :
    startImport cfg fuel st p = .ok st :=
  importWith_cached h

#print axioms same_object_cached

/-- Every successful `import p as b`, from any module in any well-formed state, binds `b` to the module value
`Val.module p`, whose identity is the path; `p` is then registered exactly once (the registry has no duplicate keys) and
completely imported. So all successful imports of one path yield the same registry entry. -/
theorem same_object (cfg : Cfg) (fuel : Nat) (st : State) (p b : Nat) (h : Inv st) (st' : State)
    (hr : stepWith cfg (exec cfg fuel) st (.importMod p b) = .ok st') :
    st'.getGlobal b = some (.module p) ∧ isImported st'.registry p = true ∧ (keys st'.registry).Nodup ∧
      st'.active = st.active := by
  obtain ⟨ent, hent⟩ := h.active_entry
  rw [stepWith_importMod hent] at hr
  have hI := startImport_post cfg fuel st p h
  unfold startImport at hI
  split at hr
  · rename_i s hi
    rw [hi] at hI
    cases hr
    obtain ⟨hs, es, himp⟩ := hI
    have hreg : isReg s.registry s.active = true := isReg_of_isLoading hs.active_loading
    have hb := post_bind (cfg := cfg) (S := []) hs b p himp (by simp)
    refine ⟨getGlobal_bindImport b p hreg, hb.2.impMono p himp, hb.1.nodupKeys, ?_⟩
    rw [hb.2.active, es.active]
  · rename_i o hno
    cases hi : importWith cfg (exec cfg fuel) st p with
    | ok s => exact absurd hi (hno s)
    | err e s => rw [hi] at hr; cases hr
    | outOfFuel => rw [hi] at hr; cases hr

#print axioms same_object

/-- Holders of the same module object see each other's attribute writes: after `x.a = v` through ANY variable `x`
holding the object of `q`, a read `y.a` through any variable `y` holding it, executed by any module (`st2` is any later
state with the same registry, e.g. with another active module), produces `v`. -/
theorem same_object_shared_writes (cfg : Cfg) (run : State → List Action → Outcome) (st : State) (x a v q : Nat)
    (hact : isReg st.registry st.active = true) (hx : st.getGlobal x = some (.module q))
    (hq : isReg st.registry q = true) :
    stepWith cfg run st (.setAttr x a v) = .ok (st.setAttr q a (.num v)) ∧
    ∀ st2 y, st2.registry = (st.setAttr q a (.num v)).registry → isReg st2.registry st2.active = true →
      st2.getGlobal y = some (.module q) →
      stepWith cfg run st2 (.readAttr y a) = .ok (st2.logEv (.readA st2.active q a (.num v))) := by
  obtain ⟨ent, hent⟩ := isReg_eq_true.mp hact
  obtain ⟨tgt, htgt⟩ := isReg_eq_true.mp hq
  rw [getGlobal_of_entry hent] at hx
  refine ⟨stepWith_setAttr_handle hent hx htgt a v, ?_⟩
  intro st2 y hreg hact2 hy
  obtain ⟨ent2, hent2⟩ := isReg_eq_true.mp hact2
  rw [getGlobal_of_entry hent2] at hy
  have hq2 : aget st2.registry q = some (ModEntry.setAttr a (.num v) tgt) := by
    rw [hreg]; simp [State.setAttr, aget_amod, htgt]
  rw [stepWith_readAttr_handle hent2 hy hq2 a]
  simp [ModEntry.setAttr, aget_aset]

#print axioms same_object_shared_writes

/-- non-vacuity: in the diamond, main's state after `import a; import d` holds a handle to `d`, and so does `c`. -/
example : ∃ st, (run demo [.importMod 1 101, .importMod 4 104]).state? = some st ∧
    st.getGlobal 104 = some (.module 4) ∧ st.getAttr 3 104 = some (.module 4) ∧ st.getAttr 2 104 = some (.module 4) ∧
    isReg st.registry st.active = true ∧ isReg st.registry 4 = true := by
  refine ⟨_, rfl, ?_⟩; decide

/-! ### 3. `cycle_reported` -/

/-- Importing a path that is registered and not yet `imported` yields the ImportError "Circular dependency…" at the
importing statement, immediately: the state is unchanged – no loader call, no body start, no log entry. -/
theorem cycle_reported (cfg : Cfg) (fuel : Nat) (st : State) (p : Nat) (h : isLoading st.registry p = true) :
    startImport cfg fuel st p = .err (.circular p) st ∧ (Err.circular p).isImportError = true :=
  ⟨importWith_loading h, rfl⟩

#print axioms cycle_reported

/-- Every module that has a frame on the stack is in that situation: a module importing itself, or any module on the
chain of imports currently in progress (2-cycles and longer), gets the error. -/
theorem cycle_reported_on_stack (cfg : Cfg) (fuel : Nat) (st : State) (p : Nat) (h : Inv st) (hp : p ∈ st.stack) :
    startImport cfg fuel st p = .err (.circular p) st :=
  (cycle_reported cfg fuel st p (h.stackLoading p hp)).1

#print axioms cycle_reported_on_stack

/-- non-vacuity: three frames deep in 5 → 6 → 7, all of 0, 5, 6, 7 are on the stack. -/
example : let st := (((((boot.register 5).enterBody 5).register 6).enterBody 6).register 7).enterBody 7
    Inv st ∧ st.stack = [7, 6, 5, 0] :=
  ⟨Inv.enter (Inv.enter (Inv.enter inv_boot (by decide)) (by decide)) (by decide), rfl⟩

/-! ### 4. `errors_are_values` -/

/-- A path the loader cannot find, or whose source does not compile, is reported as an error value to the importing
statement with the state – registry included – exactly as before; both are ImportErrors (for the loader: with the
default loader, which returns ImportError "Unable to read file …"). -/
theorem errors_are_values (cfg : Cfg) (fuel : Nat) (st : State) (p : Nat) (h : isReg st.registry p = false) :
    (cfg.load p = .notFound → startImport cfg fuel st p = .err (.loader p) st) ∧
    (cfg.load p = .compileError → startImport cfg fuel st p = .err (.compile p) st) ∧
    (Err.loader p).isImportError = true ∧ (Err.compile p).isImportError = true :=
  ⟨importWith_notFound h, importWith_compileError h, rfl, rfl⟩

#print axioms errors_are_values

/-- An import that fails in any way, from a well-formed state, is reported to the importing statement in a
well-formed state with the importer's frame on top again (same active module, same callers), the importer's and its
callers' registry entries unchanged, and the error is never the model fault. If the path had a compilable source, the
module stays registered and NOT imported. -/
theorem errors_are_values_body (cfg : Cfg) (fuel : Nat) (st : State) (p : Nat) (h : Inv st) (e : Err) (st' : State)
    (hr : startImport cfg fuel st p = .err e st') :
    Inv st' ∧ st'.active = st.active ∧ st'.callers = st.callers ∧ e ≠ .fault ∧
      (∀ q ∈ st.stack, aget st'.registry q = aget st.registry q) ∧
      (∀ body, isReg st.registry p = false → cfg.load p = .body body → isLoading st'.registry p = true) := by
  have hI := startImport_post cfg fuel st p h
  rw [hr] at hI
  obtain ⟨hs, es, hne⟩ := hI
  exact ⟨hs, es.active, es.callers, hne, es.frame, fun body hp hl => importWith_fresh_err_loading h hp hl hr⟩

#print axioms errors_are_values_body

/-- A caught import failure never stops the importing module: `tryImport` yields no error, whatever went wrong. -/
theorem errors_are_values_caught (cfg : Cfg) (fuel : Nat) (st : State) (p b : Nat) (h : Inv st) :
    ∀ e st', stepWith cfg (exec cfg fuel) st (.tryImport p b) ≠ .err e st' := by
  obtain ⟨ent, hent⟩ := h.active_entry
  intro e st'
  rw [stepWith_tryImport hent]
  split <;> simp

#print axioms errors_are_values_caught

/-- The model fault (a dangling module value or an unregistered active module – a crash in the interpreter) is
unreachable. -/
theorem no_fault (cfg : Cfg) (fuel : Nat) (st : State) (acts : List Action) (h : Inv st) (st' : State) :
    exec cfg fuel st acts ≠ .err .fault st' := by
  intro ho
  have := exec_post cfg fuel st acts h
  rw [ho] at this
  exact this.2.2 rfl

#print axioms no_fault

example : regState boot.registry 9 = .absent ∧ demo.load 9 = .notFound ∧ demo.load 8 = .compileError := by decide

/-! ### 5. `globals_private` -/

/-- Running an import – the whole body of the imported module and everything it imports in turn – leaves the
registry entries (flags and ALL globals) of the importing module and of every module below it on the frame stack
exactly as they were, whether the import succeeds or fails; and none of the reads performed meanwhile (`GetGlobal` and
`GetProperty` on module objects alike) was a read of one of their attribute tables. -/
theorem globals_private (cfg : Cfg) (fuel : Nat) (st : State) (p : Nat) (h : Inv st) (st' : State)
    (hr : (startImport cfg fuel st p).state? = some st') :
    (∀ q ∈ st.stack, aget st'.registry q = aget st.registry q ∧ st'.attrsOf q = st.attrsOf q) ∧
    ∃ new, st'.log = st.log ++ new ∧ ∀ ev ∈ new, ∀ t, ev.target? = some t → t ∉ st.stack := by
  have hI := startImport_post cfg fuel st p h
  have hg : Grow cfg st.stack st st' := by
    cases ho : startImport cfg fuel st p with
    | ok s => rw [ho] at hI hr; cases hr; exact hI.2.1.toGrow
    | err e s => rw [ho] at hI hr; cases hr; exact hI.2.1.toGrow
    | outOfFuel => rw [ho] at hr; cases hr
  exact ⟨fun q hq => ⟨hg.frame q hq, attrsOf_congr (hg.frame q hq)⟩, hg.log⟩

#print axioms globals_private

/-- The only effect of a successful `import p as b` on the importing module's globals is the binding of `b` to the
module object: none of `p`'s global names leaks into them. -/
theorem globals_private_no_leak (cfg : Cfg) (fuel : Nat) (st : State) (p b : Nat) (h : Inv st) (st' : State)
    (hr : stepWith cfg (exec cfg fuel) st (.importMod p b) = .ok st') :
    st'.attrsOf st.active = aset (st.attrsOf st.active) b (.module p) ∧
    ∀ q ∈ st.callers, st'.attrsOf q = st.attrsOf q := by
  obtain ⟨ent, hent⟩ := h.active_entry
  have hpost := stepWith_post cfg (exec cfg fuel) st (.importMod p b) (exec_post cfg fuel) h
  rw [hr] at hpost
  refine ⟨?_, fun q hq => attrsOf_congr (hpost.2.frame q hq)⟩
  rw [stepWith_importMod hent] at hr
  have hI := startImport_post cfg fuel st p h
  unfold startImport at hI
  split at hr
  · rename_i s hi
    rw [hi] at hI
    cases hr
    obtain ⟨hs, es, himp⟩ := hI
    have hreg : isReg s.registry s.active = true := isReg_of_isLoading hs.active_loading
    have := attrsOf_bindImport b p hreg
    rw [es.active] at this
    rw [this, attrsOf_congr (es.frame st.active (by simp [State.stack]))]
  · rename_i o hno
    cases hi : importWith cfg (exec cfg fuel) st p with
    | ok s => exact absurd hi (hno s)
    | err e s => rw [hi] at hr; cases hr
    | outOfFuel => rw [hi] at hr; cases hr

#print axioms globals_private_no_leak

/-- `DefineGlobal` / `SetGlobal` / `GetGlobal` act on the attribute table of the active module and on nothing else. -/
theorem globals_are_active_attributes (cfg : Cfg) (run : State → List Action → Outcome) (st : State) (n v : Nat)
    (hact : isReg st.registry st.active = true) :
    (stepWith cfg run st (.define n v) = .ok (st.setGlobal n (.num v)) ∧
      (st.setGlobal n (.num v)).attrsOf st.active = aset (st.attrsOf st.active) n (.num v) ∧
      ∀ q, q ≠ st.active → (st.setGlobal n (.num v)).attrsOf q = st.attrsOf q) ∧
    (stepWith cfg run st (.assign n v) =
      match aget (st.attrsOf st.active) n with
      | some _ => .ok (st.setGlobal n (.num v))
      | none => .err (.undefinedVar n) st) ∧
    (stepWith cfg run st (.readGlobal n) =
      match aget (st.attrsOf st.active) n with
      | some w => .ok (st.logEv (.readG st.active n w))
      | none => .err (.undefinedVar n) st) := by
  obtain ⟨ent, hent⟩ := isReg_eq_true.mp hact
  have hattrs : st.attrsOf st.active = ent.attrs := by simp [State.attrsOf, hent]
  refine ⟨⟨stepWith_define hent n v, attrsOf_setAttr_self n _ hact, fun q hq => attrsOf_setAttr_ne st n _ hq⟩, ?_, ?_⟩
  · rw [stepWith_assign hent, hattrs]; rfl
  · rw [stepWith_readGlobal hent, hattrs]; rfl

#print axioms globals_are_active_attributes

/-- non-vacuity / illustration: `d` defines its own global `100 := 44`; main's `100` stays `9`; `d`'s is reachable only
as attribute of the module object. -/
example : ∃ st, (run demo diamondMain).state? = some st ∧
    st.getGlobal 100 = some (.num 9) ∧ st.getAttr 4 100 = some (.num 44) ∧ st.getGlobal 300 = none := by
  refine ⟨_, rfl, ?_⟩; decide

/-! ### 6. `builtins_everywhere` -/

/-- The first statement of every freshly loaded module body – and of the root script – finds every built-in name
bound to the built-in object in ITS OWN globals (they are seeded per module, not inherited). -/
theorem builtins_everywhere (st : State) (p b : Nat) (hp : isReg st.registry p = false) (hb : b < numBuiltins) :
    ((st.register p).enterBody p).getGlobal b = some (.builtin b) ∧ ((st.register p).enterBody p).active = p ∧
    boot.getGlobal b = some (.builtin b) :=
  ⟨getGlobal_enterBody hp hb, rfl, getGlobal_boot hb⟩

#print axioms builtins_everywhere

/-- … as executed: a body that starts with `print(<built-in b>)` logs the built-in object, read from the new module. -/
theorem builtins_everywhere_exec (cfg : Cfg) (fuel : Nat) (st : State) (p b : Nat) (rest : List Action)
    (hp : isReg st.registry p = false) (hb : b < numBuiltins) :
    exec cfg (fuel + 1) ((st.register p).enterBody p) (.readGlobal b :: rest) =
      exec cfg fuel (((st.register p).enterBody p).logEv (.readG p b (.builtin b))) rest := by
  have hnone : aget st.registry p = none := by simpa [isReg] using hp
  have hent : aget ((st.register p).enterBody p).registry ((st.register p).enterBody p).active
      = some (ModEntry.seed ⟨false, []⟩) := by
    simp [State.enterBody, State.register, aget_amod, aget_append_single_self _ _ _ hnone]
  simp only [exec]
  rw [stepWith_readGlobal hent]
  have : aget (ModEntry.seed ⟨false, []⟩).attrs b = some (.builtin b) := by
    simp [ModEntry.seed, aget_seedAttrs, hb]
  rw [this]
  rfl

#print axioms builtins_everywhere_exec

example : numBuiltins = builtinLabels.length ∧ builtinLabels[2]? = some "print" := by decide

/-! ### 7. the quirks -/

/-- After an import of `p` failed once the module had been registered (its body raised, or its frame could not be
pushed), EVERY later import of `p` – in any later state `st2` of that interpreter in which `p` is still in that registry
state, which it is until `reset` – reports "Circular dependency…", and the body is never run (again). -/
theorem failed_body_poisons (cfg : Cfg) (fuel fuel2 : Nat) (st : State) (p : Nat) (body : List Action) (h : Inv st)
    (hp : isReg st.registry p = false) (hl : cfg.load p = .body body) (e : Err) (st' : State)
    (hr : startImport cfg fuel st p = .err e st') :
    startImport cfg fuel2 st' p = .err (.circular p) st' :=
  importWith_loading (importWith_fresh_err_loading h hp hl hr)

#print axioms failed_body_poisons

/-- witness: module 10 raises at top level; main catches, imports it again: "circular"; its body ran once, partially. -/
example : logOf (run demo [.tryImport 10 110, .tryImport 10 110, .print 0]) =
    [.bodyStart 0, .bodyStart 10, .bodyFail 10 (.runtime 99), .caught 0 (.runtime 99), .caught 0 (.circular 10),
     .printed 0 0] := by decide

/-- Registry flags only move forward while statements run: a completely imported module stays imported (every later
import of it is the cached no-op of `same_object_cached`), and a module that is registered but not imported – on the
frame stack or poisoned – stays in that state. -/
theorem flags_persist (cfg : Cfg) (fuel : Nat) (st : State) (acts : List Action) (h : Inv st) (st' : State)
    (hr : (exec cfg fuel st acts).state? = some st') (p : Nat) :
    (isImported st.registry p = true → isImported st'.registry p = true) ∧
    (isLoading st.registry p = true → isLoading st'.registry p = true) := by
  have hpost := exec_post cfg fuel st acts h
  cases ho : exec cfg fuel st acts with
  | ok s => rw [ho] at hpost hr; cases hr; exact ⟨hpost.2.impMono p, hpost.2.loadMono p⟩
  | err e s => rw [ho] at hpost hr; cases hr; exact ⟨hpost.2.1.impMono p, hpost.2.1.loadMono p⟩
  | outOfFuel => rw [ho] at hr; cases hr

#print axioms flags_persist

/-- … hence the poisoning is permanent: after the failed import, run ANY statements `acts` (of the importer, which
caught the error); an import of `p` in the resulting state still reports "Circular dependency…". -/
theorem failed_body_poisons_forever (cfg : Cfg) (fuel fuel2 fuel3 : Nat) (st : State) (p : Nat) (body : List Action)
    (h : Inv st) (hp : isReg st.registry p = false) (hl : cfg.load p = .body body) (e : Err) (st' : State)
    (hr : startImport cfg fuel st p = .err e st') (acts : List Action) (st'' : State)
    (hr2 : (exec cfg fuel2 st' acts).state? = some st'') :
    startImport cfg fuel3 st'' p = .err (.circular p) st'' := by
  have hinv' : Inv st' := by
    have := startImport_post cfg fuel st p h
    rw [hr] at this; exact this.1
  exact importWith_loading
    ((flags_persist cfg fuel2 st' acts hinv' st'' hr2 p).2 (importWith_fresh_err_loading h hp hl hr))

#print axioms failed_body_poisons_forever

/-- `FRAMES_MAX` scaled down to 3: main → 1 → 2 → 3. Module 2 redefines `print` (name 2) and catches the failure of
`import 3`. The import of 3 fails with "Stack overflow." (not an ImportError); 3 is registered but never runs and has
no globals at all; and module 2's own `print` is back to the built-in afterwards (re-seeded by the resumed
`start_import_impl`). -/
def deep : Cfg := { framesMax := 3, prog := [
  (1, .body [.importMod 2 102]),
  (2, .body [.define 2 1234, .readGlobal 2, .tryImport 3 103, .readGlobal 2, .tryImport 3 103]),
  (3, .body [.print 3]) ] }

example : logOf (run deep [.importMod 1 101]) =
    [.bodyStart 0, .bodyStart 1, .bodyStart 2, .readG 2 2 (.num 1234), .caught 2 .stackOverflow,
     .readG 2 2 (.builtin 2), .caught 2 (.circular 3), .bodyEnd 2, .bound 1 102 2, .bodyEnd 1, .bound 0 101 1] := by
  decide

example : ∃ st, (run deep [.importMod 1 101]).state? = some st ∧
    regState st.registry 3 = .loading ∧ st.attrsOf 3 = [] ∧ Err.stackOverflow.isImportError = false := by
  refine ⟨_, rfl, ?_⟩; decide

end Yarel.Modules
