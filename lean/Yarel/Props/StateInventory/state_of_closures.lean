/- One obligation of Props/StateInventory (see Base.lean for what these obligations are), in a module of its own so that it fails for the
properties that depend on it and for no others. -/
import Yarel.Props.StateInventory.Base
namespace Yarel.StateInventory
open Yarel

/-- C06 C14 -/
theorem state_of_closures :
    fieldsOf ["ObjUpvalue", "ObjClosure", "ObjFunction", "ObjNative", "ObjModule"] =
    [ ("ObjUpvalue", "data", "ObjUpvalueState"),
      ("ObjUpvalue", "next", "Option<Gc<RefCell<ObjUpvalue>>>"),
      ("ObjClosure", "function", "Gc<ObjFunction>"),
      ("ObjClosure", "upvalues", "RefCell<Vec<Gc<RefCell<ObjUpvalue>>>>"),
      ("ObjClosure", "module", "Gc<RefCell<ObjModule>>"),
      ("ObjFunction", "arity", "usize"),
      ("ObjFunction", "upvalue_count", "usize"),
      ("ObjFunction", "chunk", "Gc<Chunk>"),
      ("ObjFunction", "name", "Gc<ObjString>"),
      ("ObjFunction", "module_path", "Gc<ObjString>"),
      ("ObjNative", "name", "Gc<ObjString>"),
      ("ObjNative", "function", "NativeFn"),
      ("ObjNative", "manages_stack", "bool"),
      ("ObjModule", "imported", "bool"),
      ("ObjModule", "class", "Gc<ObjClass>"),
      ("ObjModule", "path", "Gc<ObjString>"),
      ("ObjModule", "attributes", "HashMap<Gc<ObjString>,Value,BuildPassThroughHasher>") ] := by decide +kernel

#print axioms state_of_closures

end Yarel.StateInventory
