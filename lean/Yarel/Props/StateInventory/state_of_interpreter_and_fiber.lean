/- One obligation of Props/StateInventory (see Base.lean for what these obligations are), in a module of its own so that it fails for the
properties that depend on it and for no others. -/
import Yarel.Props.StateInventory.Base
namespace Yarel.StateInventory
open Yarel

/-- C15 C09 C08 C02 (the state `residue_fresh`, the handler stack and the fiber models abstract) -/
theorem state_of_interpreter_and_fiber :
    fieldsOf ["Vm", "ObjFiber", "CallFrame", "ExcHandler", "ClassDef"] =
    [ ("Vm", "ip", "*const u8"),
      ("Vm", "active_module", "Gc<RefCell<ObjModule>>"),
      ("Vm", "active_chunk", "Gc<Chunk>"),
      ("Vm", "fiber", "Option<Root<RefCell<ObjFiber>>>"),
      ("Vm", "unsafe_fiber", "*mut ObjFiber"),
      ("Vm", "next_string", "Gc<ObjString>"),
      ("Vm", "class_store", "CoreClassStore"),
      ("Vm", "chunks", "Vec<Root<Chunk>>"),
      ("Vm", "modules", "HashMap<Gc<ObjString>,Root<RefCell<ObjModule>>,BuildPassThroughHasher>"),
      ("Vm", "core_chunks", "Vec<Root<Chunk>>"),
      ("Vm", "string_class", "Option<Root<ObjClass>>"),
      ("Vm", "string_store", "ObjStringStore"),
      ("Vm", "range_cache", "Vec<(Root<ObjRange>,Instant)>"),
      ("Vm", "working_class_def", "Option<ClassDef>"),
      ("Vm", "module_loader", "LoadModuleFn"),
      ("Vm", "printer", "NativeFn"),
      ("Vm", "handling_exception", "bool"),
      ("ObjFiber", "class", "Gc<ObjClass>"),
      ("ObjFiber", "caller", "Option<Gc<RefCell<ObjFiber>>>"),
      ("ObjFiber", "stack", "Stack<Value,STACK_MAX>"),
      ("ObjFiber", "frames", "Vec<CallFrame>"),
      ("ObjFiber", "native_arity", "Option<usize>"),
      ("ObjFiber", "open_upvalues", "Option<Gc<RefCell<ObjUpvalue>>>"),
      ("ObjFiber", "call_arity", "usize"),
      ("ObjFiber", "return_value", "Value"),
      ("ObjFiber", "exc_handlers", "Vec<ExcHandler>"),
      ("ObjFiber", "return_ip", "Option<*const u8>"),
      ("ObjFiber", "error_ip", "Option<(*const u8,usize)>"),
      ("ObjFiber", "handling_exception", "bool"),
      ("CallFrame", "closure", "Gc<ObjClosure>"),
      ("CallFrame", "ip", "*const u8"),
      ("CallFrame", "slot_base", "usize"),
      ("ExcHandler", "catch_ip", "*const u8"),
      ("ExcHandler", "finally_ip", "*const u8"),
      ("ExcHandler", "init_stack_size", "usize"),
      ("ExcHandler", "frame_count", "usize"),
      ("ClassDef", "class", "UniqueRoot<ObjClass>"),
      ("ClassDef", "metaclass", "UniqueRoot<ObjClass>") ] := by decide +kernel

#print axioms state_of_interpreter_and_fiber

end Yarel.StateInventory
