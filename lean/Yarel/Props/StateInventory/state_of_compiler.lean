/- One obligation of Props/StateInventory (see Base.lean for what these obligations are), in a module of its own so that it fails for the
properties that depend on it and for no others. -/
import Yarel.Props.StateInventory.Base
namespace Yarel.StateInventory
open Yarel

/-- C03 C04 C17 -/
theorem state_of_compiler :
    fieldsOf ["Chunk", "Compiler", "Parser", "Scanner"] =
    [ ("Chunk", "code", "Vec<u8>"),
      ("Chunk", "lines", "Vec<i32>"),
      ("Chunk", "constant_map", "HashMap<Value,usize>"),
      ("Chunk", "constants", "Vec<Value>"),
      ("Compiler", "function", "ObjFunction"),
      ("Compiler", "kind", "FunctionKind"),
      ("Compiler", "chunk", "Chunk"),
      ("Compiler", "locals", "Vec<Local>"),
      ("Compiler", "upvalues", "Vec<Upvalue>"),
      ("Compiler", "scope_depth", "usize"),
      ("Compiler", "lambda_count", "usize"),
      ("Compiler", "in_try_block", "bool"),
      ("Compiler", "loop_stack", "Vec<(usize,usize)>"),
      ("Compiler", "break_stack", "Vec<Vec<usize>>"),
      ("Parser", "current", "Token"),
      ("Parser", "previous", "Token"),
      ("Parser", "panic_mode", "Cell<bool>"),
      ("Parser", "single_target_mode", "bool"),
      ("Parser", "scanner", "&Scanner"),
      ("Parser", "compilers", "Vec<Compiler>"),
      ("Parser", "class_compilers", "Vec<ClassCompiler>"),
      ("Parser", "errors", "RefCell<Vec<String>>"),
      ("Parser", "compiled_functions", "Vec<Root<ObjFunction>>"),
      ("Parser", "module_path", "Gc<ObjString>"),
      ("Parser", "attributes", "HashMap<String,Attribute>"),
      ("Parser", "attribute_opener", "Option<Token>"),
      ("Parser", "vm", "&Vm"),
      ("Scanner", "source", "String"),
      ("Scanner", "start", "usize"),
      ("Scanner", "current", "usize"),
      ("Scanner", "line", "usize"),
      ("Scanner", "parantheses", "Vec<usize>") ] := by decide +kernel

#print axioms state_of_compiler

end Yarel.StateInventory
