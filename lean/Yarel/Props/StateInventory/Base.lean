/-
The state the models abstract is all the state there is.

Every model in `Yarel/Model` abstracts particular fields of the run-time structures (the interpreter, a fiber, a class, a string, the
heap, the compiler ...).  A field that is added later - a look-up cache, a memo, a counter that outlives a run, a hint for the next
search - is state those models do not describe: the theorems go on checking, and say nothing about what the new state does.  This
file pins, per group of structures, the fields as they were when the models were written; `Gen.stateFields` is regenerated from the
sources on every run (verif_hooks / test items stripped), so a new, removed, renamed or retyped field breaks the obligation of exactly
the properties whose models abstract that structure.  (Most of the changes that seeding agents proposed as "optimisations" add such a
field: a method cache on the interpreter, a selector cache on the class, a key-list memo on the map, a resume hint on the string, a
raised frame limit.)  When one breaks, the owning check's search looks for a failing input; if the new field is harmless the report
ends in no-failing-input-found and the list here is what has to be reviewed.
-/
import Yarel.Gen.StateFields
namespace Yarel.StateInventory
open Yarel

def fieldsOf (names : List String) : List (String × String × String) :=
  Gen.stateFields.filter fun e => names.contains e.1

end Yarel.StateInventory
