/- One obligation of Props/StateInventory (see Base.lean for what these obligations are), in a module of its own so that it fails for the
properties that depend on it and for no others. -/
import Yarel.Props.StateInventory.Base
namespace Yarel.StateInventory
open Yarel

/-- C07 (a class is a name, a metaclass, a superclass link and a method table; an instance a class and fields; a bound method a receiver and a method) -/
theorem state_of_classes :
    fieldsOf ["ObjClass", "ObjInstance", "ObjBoundMethod", "CoreClassStore"] =
    [ ("ObjClass", "name", "Gc<ObjString>"),
      ("ObjClass", "metaclass", "Gc<ObjClass>"),
      ("ObjClass", "superclass", "Option<Gc<ObjClass>>"),
      ("ObjClass", "methods", "HashMap<Gc<ObjString>,Value,BuildPassThroughHasher>"),
      ("ObjInstance", "class", "Gc<ObjClass>"),
      ("ObjInstance", "fields", "HashMap<Gc<ObjString>,Value,BuildPassThroughHasher>"),
      ("ObjBoundMethod", "receiver", "Value"),
      ("ObjBoundMethod", "method", "Gc<T>"),
      ("CoreClassStore", "<struct not found>", "") ] := by decide +kernel

#print axioms state_of_classes

end Yarel.StateInventory
