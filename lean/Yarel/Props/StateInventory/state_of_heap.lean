/- One obligation of Props/StateInventory (see Base.lean for what these obligations are), in a module of its own so that it fails for the
properties that depend on it and for no others. -/
import Yarel.Props.StateInventory.Base
namespace Yarel.StateInventory
open Yarel

/-- C01 C16 C10 -/
theorem state_of_heap :
    fieldsOf ["Heap", "GcBox", "Stack"] =
    [ ("Heap", "collection_threshold", "usize"),
      ("Heap", "bytes_allocated", "usize"),
      ("Heap", "objects", "Vec<Pin<Box<GcBox<dyn GcManaged>>>>"),
      ("GcBox", "colour", "Cell<Colour>"),
      ("GcBox", "num_roots", "Cell<usize>"),
      ("GcBox", "_pin", "PhantomPinned"),
      ("GcBox", "data", "T"),
      ("Stack", "stack", "Box<[T;N]>"),
      ("Stack", "top", "*mut T") ] := by decide +kernel

#print axioms state_of_heap

end Yarel.StateInventory
