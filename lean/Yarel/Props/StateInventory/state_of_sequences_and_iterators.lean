/- One obligation of Props/StateInventory (see Base.lean for what these obligations are), in a module of its own so that it fails for the
properties that depend on it and for no others. -/
import Yarel.Props.StateInventory.Base
namespace Yarel.StateInventory
open Yarel

/-- C13 C18 -/
theorem state_of_sequences_and_iterators :
    fieldsOf ["ObjVec", "ObjTuple", "ObjRange", "ObjRangeIter", "ObjVecIter", "ObjTupleIter", "ObjStringIter"] =
    [ ("ObjVec", "class", "Gc<ObjClass>"),
      ("ObjVec", "elements", "Vec<Value>"),
      ("ObjVec", "disp_lock", "Cell<bool>"),
      ("ObjTuple", "class", "Gc<ObjClass>"),
      ("ObjTuple", "elements", "Vec<Value>"),
      ("ObjTuple", "self_lock", "Cell<bool>"),
      ("ObjRange", "class", "Gc<ObjClass>"),
      ("ObjRange", "begin", "isize"),
      ("ObjRange", "end", "isize"),
      ("ObjRangeIter", "class", "Gc<ObjClass>"),
      ("ObjRangeIter", "iterable", "Gc<ObjRange>"),
      ("ObjRangeIter", "current", "isize"),
      ("ObjRangeIter", "step", "isize"),
      ("ObjVecIter", "class", "Gc<ObjClass>"),
      ("ObjVecIter", "iterable", "Gc<RefCell<ObjVec>>"),
      ("ObjVecIter", "current", "usize"),
      ("ObjTupleIter", "class", "Gc<ObjClass>"),
      ("ObjTupleIter", "iterable", "Gc<ObjTuple>"),
      ("ObjTupleIter", "current", "usize"),
      ("ObjStringIter", "class", "Gc<ObjClass>"),
      ("ObjStringIter", "iterable", "Gc<ObjString>"),
      ("ObjStringIter", "pos", "usize") ] := by decide +kernel

#print axioms state_of_sequences_and_iterators

end Yarel.StateInventory
