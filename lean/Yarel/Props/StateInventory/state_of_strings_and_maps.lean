/- One obligation of Props/StateInventory (see Base.lean for what these obligations are), in a module of its own so that it fails for the
properties that depend on it and for no others. -/
import Yarel.Props.StateInventory.Base
namespace Yarel.StateInventory
open Yarel

/-- C11 C12 (a string is its text, cached hash and class; the intern table entries, size, mask; a map is its table) -/
theorem state_of_strings_and_maps :
    fieldsOf ["ObjString", "ObjStringStore", "ObjHashMap"] =
    [ ("ObjString", "class", "Gc<ObjClass>"),
      ("ObjString", "string", "String"),
      ("ObjString", "hash", "u64"),
      ("ObjStringStore", "entries", "Vec<Option<Root<ObjString>>>"),
      ("ObjStringStore", "size", "usize"),
      ("ObjStringStore", "mask", "usize"),
      ("ObjHashMap", "class", "Gc<ObjClass>"),
      ("ObjHashMap", "elements", "HashMap<Value,Value,BuildPassThroughHasher>"),
      ("ObjHashMap", "disp_lock", "Cell<bool>") ] := by decide +kernel

#print axioms state_of_strings_and_maps

end Yarel.StateInventory
