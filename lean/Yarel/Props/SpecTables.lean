/-
The tables of the reference interpreter (S) are the tables of the source.

`Yarel.Gen.tokenKinds`, `Yarel.Gen.precedences` and `Yarel.Gen.rules` are regenerated from /repo/yarel/src/scanner.rs and
compiler.rs on every run (Table C of the translator).  The reference parser `Yarel.Spec.compileWith` is driven by
`Yarel.Spec.rules`; the theorems below say that this table, the order of the token kinds (which indexes it) and the precedence
ladder are exactly what the source says now.  An edit of the Pratt table, of the `TokenKind` enum or of `Precedence` in the
implementation therefore breaks an obligation here (and, if it changes behaviour, shows up in the program differential).
-/
import Yarel.Spec.ParserBase
import Yarel.Gen.Rules
import Yarel.Gen.Limits
import Yarel.Gen.Messages
import Yarel.Spec.Machine
import Yarel.Spec.NativeTables
import Yarel.Gen.Natives
namespace Yarel.Spec

def PrefixFn.rustName : PrefixFn → String
  | .grouping => "grouping" | .hashMap => "hash_map" | .vector => "vector" | .unary => "unary" | .lambda => "lambda"
  | .variable => "variable" | .string => "string" | .interpolation => "interpolation" | .number => "number"
  | .capSelf => "cap_self" | .literal => "literal" | .self_ => "self_" | .super_ => "super_"

def InfixFn.rustName : InfixFn → String
  | .call => "call" | .index => "index" | .dot => "dot" | .dotdot => "dotdot" | .binary => "binary" | .and_ => "and" | .or_ => "or"

def Prec.rustName : Prec → String
  | .none => "None" | .assignment => "Assignment" | .or_ => "Or" | .and_ => "And" | .equality => "Equality"
  | .comparison => "Comparison" | .bitwiseOr => "BitwiseOr" | .bitwiseXor => "BitwiseXor" | .bitwiseAnd => "BitwiseAnd"
  | .bitShift => "BitShift" | .term => "Term" | .factor => "Factor" | .range => "Range" | .unary => "Unary" | .call => "Call"
  | .primary => "Primary"

def allPrecs : List Prec :=
  [.none, .assignment, .or_, .and_, .equality, .comparison, .bitwiseOr, .bitwiseXor, .bitwiseAnd, .bitShift, .term, .factor,
   .range, .unary, .call, .primary]

/-- Entry for entry, the rule table of (S) is the `RULES` array of compiler.rs. -/
theorem spec_rules_are_the_sources :
    rules.map (fun r => (r.kind.debugName, r.pre.map PrefixFn.rustName, r.inf.map InfixFn.rustName, r.prec.rustName))
      = Yarel.Gen.rules := by decide +kernel
#print axioms spec_rules_are_the_sources

/-- Entry `i` of the table belongs to the token kind with discriminant `i`, and the discriminants are those of scanner.rs. -/
theorem spec_token_kinds_are_the_sources :
    (rules.map fun r => r.kind.debugName) = Yarel.Gen.tokenKinds ∧
    (rules.mapIdx fun i r => r.kind.index == i).all id = true := by decide +kernel
#print axioms spec_token_kinds_are_the_sources

/-- The precedence ladder of (S), by rank, is `enum Precedence` of compiler.rs in declaration order. -/
theorem spec_precedences_are_the_sources :
    allPrecs.map Prec.rustName = Yarel.Gen.precedences ∧ (allPrecs.mapIdx fun i p => p.rank == i).all id = true := by
  decide +kernel
#print axioms spec_precedences_are_the_sources

/-- The limits (S) enforces are the constants of common.rs / compiler.rs / scanner.rs / vm.rs as they are now. -/
theorem spec_limits_are_the_sources :
    Yarel.Gen.limits.lookup "FRAMES_MAX" = some (framesMax : Int) ∧
    Yarel.Gen.limits.lookup "LOCALS_MAX" = some (localsMax : Int) ∧
    Yarel.Gen.limits.lookup "UPVALUES_MAX" = some (upvaluesMax : Int) ∧
    Yarel.Gen.limits.lookup "INTERPOLATION_DEPTH_MAX" = some (Scanner.interpolationDepthMax : Int) ∧
    Yarel.Gen.limits.lookup "RANGE_CACHE_SIZE" = some (Heap.rangeCacheSize : Int) := by decide +kernel
#print axioms spec_limits_are_the_sources

/-- Every built-in class of (S) binds the same method names to the same natives, in the same order, as the function of
core.rs that builds the class does now (the tables `bootstrap` installs are `NativeTables.*`). -/
theorem spec_natives_are_the_sources :
    NativeTables.all.map (fun e => (e.1, e.2.map fun b => (b.1, b.2.rustName.getD "<none>"))) = Yarel.Gen.nativeBindings := by
  decide +kernel
#print axioms spec_natives_are_the_sources

end Yarel.Spec
