/-
C12 — the language-level HashMap.

"After any sequence of literal construction, insert, remove, get, has_key, clear and len with hashable keys, a
HashMap holds exactly the entries of an abstract map whose keys are compared with `==`; unhashable keys are
rejected with a ValueError and leave the map unchanged."

Shape of the argument
  real std HashMap  ──(std contract)──  `Bucketed hash`  ──`bucketed_refines_assoc`──  `Assoc`  ──`assoc_is_map_by_eq`── map keyed by `==`
The middle step needs the hash to be coherent with `==`.  For the PRESENT hash it is not (`0.0 == -0.0`, different
hashes: `coherent_fails_neg_zero`); it is after the planned repair (`coherent_fixed`), and for the present hash as
long as no `-0.0` occurs in a key (`coherent_partial`).
-/
import Yarel.Model.HashMapM
import Yarel.Proofs.HashMapKey
import Yarel.Proofs.HashMapList
import Yarel.Proofs.HashMapAssoc

namespace Yarel.C12
open Yarel Yarel.HashMapM

/-- `hash` is coherent with `==` on the hashable keys satisfying `S`: keys that are `==` hash alike. -/
def CoherentOn (hash : Key → UInt64) (S : Key → Prop) : Prop :=
  ∀ a b, S a → S b → hasHash a = true → hasHash b = true → valueEq a b = true → hash a = hash b

/-! ## 0. the hash functions are the Rust ones

Reference vectors, obtained by compiling `utils::hash_number`, `FnvHasher` + `str::hash` and `isize as f64`
standalone with rustc and printing the results. -/

example : hashNumber 0x0000000000000000 = 0x0000000000000000 := by decide
example : hashNumber 0x8000000000000000 = 0x60b4f1ddafcb56aa := by decide
example : hashNumber 0x3ff0000000000000 = 0x7a0fedce1f1ef4e0 := by decide
example : hashNumber 0xbff0000000000000 = 0x343a9b5cab5b0b49 := by decide
example : hashNumber 0x400921f9f01b866e = 0x1761f2aa08768ff7 := by decide
example : hashNumber 0x7ff8000000000000 = 0x43a3d766c036f380 := by decide
example : hashNumber 0xfff0000000000000 = 0x8747aecd806de701 := by decide
example : hashNumber 0x0000000000000001 = 0x0000000015515fbc := by decide
example : fnv [] = 0x00811d687a0b824e := by decide
example : fnv [0x68, 0x65, 0x6c, 0x6c, 0x6f] = 0xa8db56e9ab92c83c := by decide              -- "hello"
example : fnv [0x4f, 0x62, 0x6a, 0x65, 0x63, 0x74] = 0x61b1f4cd8427a63f := by decide        -- "Object"
example : intToF64 0 = 0 ∧ intToF64 1 = 0x3ff0000000000000 ∧ intToF64 (-100) = 0xc059000000000000 ∧
    intToF64 9007199254740991 = 0x433fffffffffffff ∧ intToF64 9007199254740993 = 0x4340000000000000 ∧
    intToF64 9007199254740995 = 0x4340000000000002 ∧ intToF64 9223372036854775807 = 0x43e0000000000000 ∧
    intToF64 (-9223372036854775808) = 0xc3e0000000000000 ∧ intToF64 4611686018427388417 = 0x43d0000000000001 := by
  decide

/-! ## 1. the present hash is not coherent -/

/-- `0.0 == -0.0`, both are legal keys, and `impl Hash for Value` hashes them differently. -/
theorem coherent_fails_neg_zero :
    valueEq (.num F64.posZero) (.num F64.negZero) = true ∧
    hasHash (.num F64.posZero) = true ∧ hasHash (.num F64.negZero) = true ∧
    valueHash (.num F64.posZero) ≠ valueHash (.num F64.negZero) := by decide
#print axioms coherent_fails_neg_zero

theorem valueHash_not_coherent : ¬ CoherentOn valueHash (fun _ => True) := fun h =>
  coherent_fails_neg_zero.2.2.2
    (h _ _ trivial trivial coherent_fails_neg_zero.2.1 coherent_fails_neg_zero.2.2.1 coherent_fails_neg_zero.1)
#print axioms valueHash_not_coherent

/-- What it costs: with the present hash the `std`-contract model and the `==`-keyed map disagree
(`m = {0.0: "a"}; m[-0.0]` finds nothing; `m.insert(-0.0, ..)` makes a second entry). -/
theorem present_hash_breaks_refinement :
    ∃ ops, (Bucketed.run valueHash [] ops).2 ≠ (Assoc.run [] ops).2 := by
  refine ⟨[.insert (.num F64.posZero) (.str [97]), .get (.num F64.negZero)], fun h => ?_⟩
  have h2 := congrArg (fun rs => match rs with
    | [_, .value (.str _)] => true
    | _ => false) h
  revert h2
  decide
#print axioms present_hash_breaks_refinement

/-! ## 2. coherence after the repair, and of the present hash away from `-0.0` -/

/-- With `hash_number` normalising `-0.0` to `0.0` the hash is coherent: for hashable keys `a`, `b` living in one
heap `H` (an object id always carries the same class name / range bounds), `a == b → hash a = hash b`.
(For keys containing NaN the premise `a == b` is never true.) -/
theorem coherent_fixed (H : Heap) : CoherentOn valueHashFixed (fun k => k.inHeap H = true) :=
  fun a b ha hb _ _ h =>
    valueHashWith_coherent hashNumberFixed _ hashNumberFixed_coherent H a b ha hb (numsIn_true a) (numsIn_true b) h
#print axioms coherent_fixed

/-- The PRESENT hash is coherent on keys in which no number is `-0.0`. -/
theorem coherent_partial (H : Heap) :
    CoherentOn valueHash (fun k => k.inHeap H = true ∧ k.noNegZero = true) :=
  fun a b ha hb _ _ h =>
    valueHashWith_coherent hashNumber _ hashNumber_coherent H a b ha.1 hb.1
      (numsIn_noNegZero a ha.2) (numsIn_noNegZero b hb.2) h
#print axioms coherent_partial

/-- a heap for the examples: class 7 is "A", range 3 is `1..5`, range 4 is `1..5` too (a different object) -/
def exHeap : Heap := ⟨fun i => if i = 7 then [65] else [], fun _ => (1, 5)⟩

-- 1 and 1.0 are the same bits; 0.0 / -0.0; equal tuples; nested tuples
example : valueHashFixed (.num 0x3FF0000000000000) = valueHashFixed (.num 0x3FF0000000000000) :=
  coherent_fixed exHeap _ _ (by decide) (by decide) (by decide) (by decide) (by decide)
example : valueHashFixed (.num F64.posZero) = valueHashFixed (.num F64.negZero) :=
  coherent_fixed exHeap _ _ (by decide) (by decide) (by decide) (by decide) (by decide)
example : valueHashFixed (.tuple [.num 0x3FF0000000000000, .str [97], .cls 7 [65], .range 3 1 5])
        = valueHashFixed (.tuple [.num 0x3FF0000000000000, .str [97], .cls 7 [65], .range 3 1 5]) :=
  coherent_fixed exHeap _ _ (by decide) (by decide) (by decide) (by decide) (by decide)
example : valueHashFixed (.tuple [.tuple [.num F64.posZero, .nil], .tuple [], .bool true])
        = valueHashFixed (.tuple [.tuple [.num F64.negZero, .nil], .tuple [], .bool true]) :=
  coherent_fixed exHeap _ _ (by decide) (by decide) (by decide) (by decide) (by decide)
example : valueHash (.tuple [.tuple [.num F64.posZero, .nil], .num 0x3FF0000000000000])
        = valueHash (.tuple [.tuple [.num F64.posZero, .nil], .num 0x3FF0000000000000]) :=
  coherent_partial exHeap _ _ (by decide) (by decide) (by decide) (by decide) (by decide)
-- ranges 3 and 4 have the same bounds and the same hash but are different objects: not `==`
example : valueEq (.range 3 1 5) (.range 4 1 5) = false := by decide

/-! ## 3. the `std`-contract model refines the `==`-keyed map -/

/-- For ANY hash coherent on a set `S` of keys: starting from a common state whose stored keys are in `S`, every
sequence of operations whose keys are in `S` yields the same results and the same final state — hence the same
`keys`/`values`/`items` enumerations and `len` — in `Bucketed hash` and in `Assoc`.  (Unhashable keys need not be
in `S`: both models reject them alike.) -/
theorem bucketed_refines_assoc (hash : Key → UInt64) (S : Key → Prop) (hcoh : CoherentOn hash S)
    (m : Entries) (hm : ∀ k ∈ ListMap.keys m, S k ∧ hasHash k = true)
    (ops : List Op) (hops : ∀ op ∈ ops, ∀ k ∈ op.usedKeys, hasHash k = true → S k) :
    Bucketed.run hash m ops = Assoc.run m ops := by
  apply ListMap.run_congr (T := fun k => S k ∧ hasHash k = true) _ ops m hm
    (fun op hop k hk hh => ⟨hops op hop k hk hh, hh⟩)
  intro q s hq hs
  simp only [Bucketed.same, Assoc.same]
  cases h : valueEq q s with
  | false => simp
  | true => simp [hcoh q s hq.1 hs.1 hq.2 hs.2 h]
#print axioms bucketed_refines_assoc

/-- Instance: the repaired hash, any program whose keys come from one heap, from the empty map. -/
theorem bucketed_fixed_refines_assoc (H : Heap) (ops : List Op)
    (hops : ∀ op ∈ ops, ∀ k ∈ op.usedKeys, k.inHeap H = true) :
    Bucketed.run valueHashFixed [] ops = Assoc.run [] ops :=
  bucketed_refines_assoc valueHashFixed _ (coherent_fixed H) [] (fun _ h => nomatch h) ops
    (fun op hop k hk _ => hops op hop k hk)
#print axioms bucketed_fixed_refines_assoc

/-- Instance: the PRESENT hash, as long as no key contains `-0.0`. -/
theorem bucketed_present_refines_assoc_partial (H : Heap) (ops : List Op)
    (hops : ∀ op ∈ ops, ∀ k ∈ op.usedKeys, k.inHeap H = true ∧ k.noNegZero = true) :
    Bucketed.run valueHash [] ops = Assoc.run [] ops :=
  bucketed_refines_assoc valueHash _ (coherent_partial H) [] (fun _ h => nomatch h) ops
    (fun op hop k hk _ => hops op hop k hk)
#print axioms bucketed_present_refines_assoc_partial

/-- a program for the examples: literal with a duplicate key (`0.0`/`-0.0`), tuple keys, an unhashable key -/
def exOps : List Op :=
  [ .literal [(.num F64.posZero, .str [97]), (.num F64.negZero, .str [98]), (.cls 7 [65], .nil)],
    .insert (.tuple [.num 0x3FF0000000000000, .tuple [.str [], .range 3 1 5]]) (.num 0x4000000000000000),
    .get (.tuple [.num 0x3FF0000000000000, .tuple [.str [], .range 3 1 5]]),
    .get (.tuple [.num 0x3FF0000000000000, .tuple [.str [], .range 4 1 5]]),
    .insert (.unhashable 1) .nil,
    .hasKey (.num F64.negZero), .len, .remove (.num F64.negZero), .len, .keys, .items, .clear, .len ]

example : Bucketed.run valueHashFixed [] exOps = Assoc.run [] exOps :=
  bucketed_fixed_refines_assoc exHeap exOps (by decide)

-- ... and what that run is: one entry for 0.0/-0.0 holding the later value under the FIRST key object
example : (Assoc.run [] exOps).2 =
    [ .built, .value .nil, .value (.num 0x4000000000000000), .value .nil, .valueError,
      .value (.bool true), .count 3, .value (.str [98]), .count 2,
      .keyList [.cls 7 [65], .tuple [.num 0x3FF0000000000000, .tuple [.str [], .range 3 1 5]]],
      .itemList [(.cls 7 [65], .nil),
                 (.tuple [.num 0x3FF0000000000000, .tuple [.str [], .range 3 1 5]], .num 0x4000000000000000)],
      .value .nil, .count 0 ] := by rfl

/-! ## 4. `Assoc` is a map keyed by `==` -/

/-- The laws of a finite map whose keys are the `==`-classes, for a state `m` of `Assoc`.
`Assoc.find? q m : Option Key` is the raw lookup (`get` returns it with `nil` for `none`, `has_key` its `isSome`);
`Assoc.insertRaw` / `Assoc.removeRaw` return the new state and the previous value.
The laws hold for ALL keys; the three that need `k == k` say so (`k.nanFree`: no NaN inside `k`). -/
structure MapByEq (m : Entries) : Prop where
  /-- keys that are `==` denote the same entry -/
  same_entry : ∀ k k', valueEq k k' = true → Assoc.find? k m = Assoc.find? k' m
  /-- after `insert k v`: exactly the queries `==` to `k` see `v`, all others are untouched -/
  get_insert : ∀ k v q,
    Assoc.find? q (Assoc.insertRaw m k v).1 = if valueEq q k = true then some v else Assoc.find? q m
  get_insert_self : ∀ k v, k.nanFree = true → Assoc.find? k (Assoc.insertRaw m k v).1 = some v
  /-- keys that are not `==` never denote the same entry -/
  get_insert_other : ∀ k v q, valueEq q k = false → Assoc.find? q (Assoc.insertRaw m k v).1 = Assoc.find? q m
  insert_returns : ∀ k v, (Assoc.insertRaw m k v).2 = Assoc.find? k m
  len_insert : ∀ k v, ListMap.len (Assoc.insertRaw m k v).1 =
    if (Assoc.find? k m).isSome then ListMap.len m else ListMap.len m + 1
  /-- after `remove k`: exactly the queries `==` to `k` see nothing, all others are untouched -/
  get_remove : ∀ k q,
    Assoc.find? q (Assoc.removeRaw m k).1 = if valueEq q k = true then none else Assoc.find? q m
  remove_returns : ∀ k, (Assoc.removeRaw m k).2 = Assoc.find? k m
  len_remove : ∀ k, ListMap.len (Assoc.removeRaw m k).1 =
    if (Assoc.find? k m).isSome then ListMap.len m - 1 else ListMap.len m
  /-- `keys` enumerates each entry once: no two enumerated keys are `==` -/
  keys_distinct : (ListMap.keys m).Pairwise (fun a b => valueEq a b = false)
  keys_hashable : ∀ k ∈ ListMap.keys m, hasHash k = true
  /-- `has_key q` ⇔ some enumerated key is `==` to `q` -/
  hasKey_iff : ∀ q, (Assoc.find? q m).isSome = (ListMap.keys m).any (valueEq q)
  /-- `items` pairs `keys` with `values` position by position -/
  items_zip : ListMap.items m = (ListMap.keys m).zip (ListMap.values m)
  /-- every enumerated item is what a lookup of its key returns -/
  item_lookup : ∀ s v, (s, v) ∈ ListMap.items m → s.nanFree = true → Assoc.find? s m = some v
  /-- every successful lookup returns an enumerated item whose key is `==` to the query -/
  lookup_item : ∀ q v, Assoc.find? q m = some v → ∃ s, (s, v) ∈ ListMap.items m ∧ valueEq q s = true
  /-- `len` counts the entries -/
  len_keys : ListMap.len m = (ListMap.keys m).length
  len_values : ListMap.len m = (ListMap.values m).length
  len_items : ListMap.len m = (ListMap.items m).length

theorem items_eq_zip : ∀ m : Entries, ListMap.items m = (ListMap.keys m).zip (ListMap.values m)
  | [] => rfl
  | (s, v) :: es => by
    have ih := items_eq_zip es
    simp only [ListMap.items, ListMap.keys, ListMap.values, List.map_cons, List.zip_cons_cons] at ih ⊢
    rw [← ih]

theorem mapByEq_of_wf {m : Entries} (hm : Assoc.WF m) : MapByEq m where
  same_entry k k' h := Assoc.find?_of_valueEq h m
  get_insert k v q := Assoc.find?_insertRaw m k v q
  get_insert_self k v hk := (Assoc.find?_insertRaw m k v k).trans (by rw [valueEq_self, hk]; rfl)
  get_insert_other k v q h := (Assoc.find?_insertRaw m k v q).trans (by rw [h]; rfl)
  insert_returns := Assoc.insertRaw_snd m
  len_insert := Assoc.len_insertRaw m
  get_remove k q := Assoc.find?_removeRaw m hm k q
  remove_returns := Assoc.removeRaw_snd m
  len_remove := Assoc.len_removeRaw m
  keys_distinct := hm.distinct
  keys_hashable := hm.hashable
  hasKey_iff q := Assoc.isSome_find? q m
  items_zip := items_eq_zip m
  item_lookup _ _ h hs := Assoc.find?_of_mem hm.distinct h hs
  lookup_item _ _ h := Assoc.find?_some_mem h
  len_keys := by simp [ListMap.len, ListMap.keys]
  len_values := by simp [ListMap.len, ListMap.values]
  len_items := rfl

/-- Every state `Assoc` can reach — by any sequence of operations, with any keys, from the empty map (or from any
state already satisfying the laws' invariant) — is a map keyed by `==`. -/
theorem assoc_is_map_by_eq (ops : List Op) : MapByEq (Assoc.run [] ops).1 :=
  mapByEq_of_wf (Assoc.WF.run ops Assoc.WF.nil)
#print axioms assoc_is_map_by_eq

/-- ... and so is every state of the `std`-contract model with the repaired hash (keys from one heap). -/
theorem bucketed_fixed_is_map_by_eq (H : Heap) (ops : List Op)
    (hops : ∀ op ∈ ops, ∀ k ∈ op.usedKeys, k.inHeap H = true) :
    MapByEq (Bucketed.run valueHashFixed [] ops).1 := by
  rw [bucketed_fixed_refines_assoc H ops hops]
  exact assoc_is_map_by_eq ops
#print axioms bucketed_fixed_is_map_by_eq

/-- How the language-level operations read off those raw laws (`k` hashable). -/
theorem assoc_step_spec (m : Entries) (k v : Key) (hk : hasHash k = true) :
    Assoc.step m (.insert k v) = ((Assoc.insertRaw m k v).1, .value ((Assoc.find? k m).getD .nil)) ∧
    Assoc.step m (.remove k) = ((Assoc.removeRaw m k).1, .value ((Assoc.find? k m).getD .nil)) ∧
    Assoc.step m (.get k) = (m, .value ((Assoc.find? k m).getD .nil)) ∧
    Assoc.step m (.hasKey k) = (m, .value (.bool (Assoc.find? k m).isSome)) ∧
    Assoc.step m .len = (m, .count (ListMap.len m)) ∧
    Assoc.step m .keys = (m, .keyList (ListMap.keys m)) ∧
    Assoc.step m .values = (m, .keyList (ListMap.values m)) ∧
    Assoc.step m .items = (m, .itemList (ListMap.items m)) := by
  simp [ListMap.step, hk, Assoc.insertRaw_snd, Assoc.removeRaw_snd]
#print axioms assoc_step_spec

/-- `clear` empties the map; the empty map has no entries. -/
theorem assoc_clear (m : Entries) :
    Assoc.step m .clear = ([], .value .nil) ∧ (∀ q, Assoc.find? q [] = none) ∧ ListMap.len [] = 0 ∧
    ListMap.keys [] = [] ∧ ListMap.values [] = [] ∧ ListMap.items [] = [] :=
  ⟨rfl, fun _ => rfl, rfl, rfl, rfl, rfl⟩
#print axioms assoc_clear

/-- A literal is the inserts in order into a fresh map (a later duplicate key overwrites the value, the first
key object stays). -/
theorem assoc_literal (m : Entries) (ps : List (Key × Key)) (hps : ∀ p ∈ ps, hasHash p.1 = true) :
    Assoc.step m (.literal ps) = (ps.foldl (fun acc p => (Assoc.insertRaw acc p.1 p.2).1) [], .built) := by
  have : ∀ (ps : List (Key × Key)) (acc : Entries), (∀ p ∈ ps, hasHash p.1 = true) →
      Assoc.build acc ps = some (ps.foldl (fun acc p => (Assoc.insertRaw acc p.1 p.2).1) acc) := by
    intro ps
    induction ps with
    | nil => intro acc _; rfl
    | cons p ps ih =>
      intro acc h
      obtain ⟨k, v⟩ := p
      have hk : hasHash k = true := h (k, v) List.mem_cons_self
      simp only [ListMap.build, hk, if_true, List.foldl_cons]
      exact ih _ (fun p hp => h p (List.mem_cons_of_mem _ hp))
  simp only [ListMap.step, this ps [] hps]
#print axioms assoc_literal

-- non-vacuity: a reachable state with several entries, among them one whose key was given as 0.0 then as -0.0
example : MapByEq (Assoc.run [] (exOps.take 4)).1 := assoc_is_map_by_eq _
example : ListMap.keys (Assoc.run [] (exOps.take 4)).1 =
    [.num F64.posZero, .cls 7 [65], .tuple [.num 0x3FF0000000000000, .tuple [.str [], .range 3 1 5]]] := by rfl
example : Assoc.find? (.num F64.negZero) (Assoc.run [] (exOps.take 4)).1 = some (.str [98]) := by rfl

/-! ## 5. unhashable keys -/

/-- An operation presenting a key with `has_hash() == false` (a vec, a map, an instance, ..., or a tuple containing
one) — for a literal: any such key among its pairs — answers `ValueError` and leaves the map as it was, in both
models and for every hash. -/
theorem unhashable_rejected_unchanged (hash : Key → UInt64) (m : Entries) (op : Op)
    (h : ∃ k ∈ op.usedKeys, hasHash k = false) :
    Bucketed.step hash m op = (m, .valueError) ∧ Assoc.step m op = (m, .valueError) :=
  ⟨ListMap.step_unhashable _ m op h, ListMap.step_unhashable _ m op h⟩
#print axioms unhashable_rejected_unchanged

example : hasHash (.tuple [.num 0, .tuple [.unhashable 3]]) = false := by decide
example : Assoc.step [(.nil, .nil)] (.literal [(.nil, .nil), (.tuple [.num 0, .tuple [.unhashable 3]], .nil)])
    = ([(.nil, .nil)], .valueError) :=
  (unhashable_rejected_unchanged valueHash _ _ ⟨_, List.mem_cons_of_mem _ List.mem_cons_self, by decide⟩).2

/-- Stored keys are always hashable, so `impl Hash for Value`'s `panic!("Unhashable value type")` cannot be
reached through a map: holds for both models and every hash. -/
theorem stored_keys_hashable (same : Key → Key → Bool) (ops : List Op) :
    ∀ (m : Entries), (∀ k ∈ ListMap.keys m, hasHash k = true) →
      ∀ k ∈ ListMap.keys (ListMap.run same m ops).1, hasHash k = true := by
  induction ops with
  | nil => intro m hm; exact hm
  | cons op ops ih =>
    intro m hm
    exact ih _ (ListMap.step_keys_hashable same m hm op)
#print axioms stored_keys_hashable

/-! ## 6. NaN keys -/

/-- A hashable key with a NaN inside (`NaN` itself, `(NaN, 1)`, ...): every `insert` of it ADDS an entry and
returns `nil`; no lookup, with any key, ever finds that entry — lookups behave as if it were not there — and
`remove` of it removes nothing.  Same in both models, for every hash.
(Model caveat: for a TUPLE containing NaN this describes lookups through a different tuple object; Rust's
`ObjTuple == ObjTuple` short-circuits on pointer identity, which the model does not represent.) -/
theorem nan_keys (hash : Key → UInt64) (m : Entries) (k v : Key) (hk : hasHash k = true)
    (hnan : k.nanFree = false) :
    (Assoc.step m (.insert k v) = (m ++ [(k, v)], .value .nil) ∧
     Bucketed.step hash m (.insert k v) = (m ++ [(k, v)], .value .nil)) ∧
    (∀ q, Assoc.find? q (m ++ [(k, v)]) = Assoc.find? q m ∧
          Bucketed.find? hash q (m ++ [(k, v)]) = Bucketed.find? hash q m) ∧
    (∀ m', Assoc.find? k m' = none ∧ Bucketed.find? hash k m' = none) ∧
    (∀ m', Assoc.step m' (.remove k) = (m', .value .nil) ∧
           Bucketed.step hash m' (.remove k) = (m', .value .nil)) := by
  have ha : ∀ s, Assoc.same k s = false := fun s => valueEq_nan_left hnan s
  have hb : ∀ s, Bucketed.same hash k s = false := fun s => by simp [Bucketed.same, valueEq_nan_left hnan s]
  have ha' : ∀ q, Assoc.same q k = false := fun q => valueEq_nan_right hnan q
  have hb' : ∀ q, Bucketed.same hash q k = false := fun q => by simp [Bucketed.same, valueEq_nan_right hnan q]
  refine ⟨⟨?_, ?_⟩, fun q => ⟨?_, ?_⟩, fun m' => ⟨?_, ?_⟩, fun m' => ⟨?_, ?_⟩⟩
  · simp [ListMap.step, hk, ListMap.insertRaw_of_never ha]
  · simp [ListMap.step, hk, ListMap.insertRaw_of_never hb]
  · exact ListMap.find?_append_never q v (ha' q) m
  · exact ListMap.find?_append_never q v (hb' q) m
  · exact ListMap.find?_none_of_never ha m'
  · exact ListMap.find?_none_of_never hb m'
  · simp [ListMap.step, hk, ListMap.removeRaw_of_never ha]
  · simp [ListMap.step, hk, ListMap.removeRaw_of_never hb]
#print axioms nan_keys

example : hasHash (.tuple [.num F64.canonNaN, .num 0x3FF0000000000000]) = true ∧
    Key.nanFree (.tuple [.num F64.canonNaN, .num 0x3FF0000000000000]) = false := by decide
-- two inserts of NaN: two entries, neither can be looked up
example : (Assoc.run [] [.insert (.num F64.canonNaN) (.str [97]), .insert (.num F64.canonNaN) (.str [98]),
      .len, .get (.num F64.canonNaN), .hasKey (.num F64.canonNaN)]).2 =
    [.value .nil, .value .nil, .count 2, .value .nil, .value (.bool false)] := by rfl

end Yarel.C12
