/- One obligation of Props/StateWrites (see Base.lean for what these obligations are), in a module of its own so that it fails for the
properties that depend on it and for no others. -/
import Yarel.Props.StateWrites.Base
namespace Yarel.StateWrites
open Yarel

/-- C15: what a run can leave behind in the interpreter -/
theorem writers_of_reuse_state :
    sameSet (writesOf ["handling_exception", "range_cache", "working_class_def", "modules", "native_arity", "call_arity", "active_module"])
    [ ("native_arity", "object.rs", "ObjFiber::set_native_arity", "= .."),
      ("native_arity", "object.rs", "ObjFiber::take_native_arity", ".take"),
      ("handling_exception", "vm.rs", "Vm::execute", "= .."),
      ("range_cache", "vm.rs", "Vm::reset", ".clear"),
      ("modules", "vm.rs", "Vm::reset", ".retain"),
      ("active_module", "vm.rs", "Vm::reset", "= .."),
      ("active_module", "vm.rs", "Vm::reset", ".borrow_mut"),
      ("modules", "vm.rs", "Vm::module", ".insert"),
      ("handling_exception", "vm.rs", "Vm::load_fiber", "= .."),
      ("handling_exception", "vm.rs", "Vm::unload_fiber", "= .."),
      ("active_module", "vm.rs", "Vm::define_global_impl", ".borrow_mut"),
      ("active_module", "vm.rs", "Vm::set_global_impl", ".borrow_mut"),
      ("handling_exception", "vm.rs", "Vm::throw_impl", "= .."),
      ("working_class_def", "vm.rs", "Vm::declare_class_impl", "= .."),
      ("working_class_def", "vm.rs", "Vm::define_class_impl", ".take"),
      ("working_class_def", "vm.rs", "Vm::inherit_impl", ".as_mut"),
      ("handling_exception", "vm.rs", "Vm::unwind_stack", "= .."),
      ("working_class_def", "vm.rs", "Vm::define_method", ".as_mut"),
      ("range_cache", "vm.rs", "Vm::build_range", ".push"),
      ("active_module", "vm.rs", "Vm::load_frame", "= ..") ] = true := by decide +kernel

#print axioms writers_of_reuse_state

end Yarel.StateWrites
