/- One obligation of Props/StateWrites (see Base.lean for what these obligations are), in a module of its own so that it fails for the
properties that depend on it and for no others. -/
import Yarel.Props.StateWrites.Base
namespace Yarel.StateWrites
open Yarel

/-- C14: the registry gains entries in `Vm::module` only, loses them in `reset` only; `imported` is set by FinishImport only; the active module follows the frame -/
theorem writers_of_module_registry :
    sameSet (writesOf ["modules", "imported", "active_module"])
    [ ("modules", "vm.rs", "Vm::reset", ".retain"),
      ("active_module", "vm.rs", "Vm::reset", "= .."),
      ("active_module", "vm.rs", "Vm::reset", ".borrow_mut"),
      ("modules", "vm.rs", "Vm::module", ".insert"),
      ("active_module", "vm.rs", "Vm::define_global_impl", ".borrow_mut"),
      ("active_module", "vm.rs", "Vm::set_global_impl", ".borrow_mut"),
      ("imported", "vm.rs", "Vm::finish_import_impl", "= .."),
      ("active_module", "vm.rs", "Vm::load_frame", "= ..") ] = true := by decide +kernel

#print axioms writers_of_module_registry

end Yarel.StateWrites
