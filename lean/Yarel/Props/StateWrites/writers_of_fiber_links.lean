/- One obligation of Props/StateWrites (see Base.lean for what these obligations are), in a module of its own so that it fails for the
properties that depend on it and for no others. -/
import Yarel.Props.StateWrites.Base
namespace Yarel.StateWrites
open Yarel

/-- C09: the caller link is written by the two fiber-switch functions only -/
theorem writers_of_fiber_links :
    sameSet (writesOf ["caller", "frames", "handling_exception"])
    [ ("frames", "object.rs", "ObjFiber::push_call_frame", ".push"),
      ("frames", "object.rs", "ObjFiber::current_frame_mut", ".last_mut"),
      ("handling_exception", "vm.rs", "Vm::execute", "= .."),
      ("handling_exception", "vm.rs", "Vm::load_fiber", "= .."),
      ("caller", "vm.rs", "Vm::load_fiber", "= .."),
      ("handling_exception", "vm.rs", "Vm::unload_fiber", "= .."),
      ("caller", "vm.rs", "Vm::unload_fiber", "= .."),
      ("handling_exception", "vm.rs", "Vm::throw_impl", "= .."),
      ("frames", "vm.rs", "Vm::return_impl", ".pop"),
      ("frames", "vm.rs", "Vm::unwind_stack", ".truncate"),
      ("handling_exception", "vm.rs", "Vm::unwind_stack", "= .."),
      ("frames", "vm.rs", "Vm::reset_stack", ".clear") ] = true := by decide +kernel

#print axioms writers_of_fiber_links

end Yarel.StateWrites
