/- One obligation of Props/StateWrites (see Base.lean for what these obligations are), in a module of its own so that it fails for the
properties that depend on it and for no others. -/
import Yarel.Props.StateWrites.Base
namespace Yarel.StateWrites
open Yarel

/-- C07: method tables, ancestry and the class under construction are written by the class-definition instructions (and the construction of the built-in classes) only -/
theorem writers_of_class_tables :
    sameSet (writesOf ["methods", "superclass", "metaclass", "working_class_def"])
    [ ("methods", "core.rs", "bind_type_class", "= .."),
      ("metaclass", "core.rs", "new_base_metaclass", "= .."),
      ("methods", "core.rs", "bind_object_class", "= .."),
      ("methods", "core.rs", "bind_gc_obj_string_class", "= .."),
      ("working_class_def", "vm.rs", "Vm::declare_class_impl", "= .."),
      ("working_class_def", "vm.rs", "Vm::define_class_impl", ".take"),
      ("metaclass", "vm.rs", "Vm::define_class_impl", ".into"),
      ("metaclass", "vm.rs", "Vm::define_class_impl", "= .."),
      ("superclass", "vm.rs", "Vm::inherit_impl", "= .."),
      ("working_class_def", "vm.rs", "Vm::inherit_impl", ".as_mut"),
      ("methods", "vm.rs", "Vm::inherit_impl", ".insert"),
      ("working_class_def", "vm.rs", "Vm::define_method", ".as_mut"),
      ("methods", "vm.rs", "Vm::define_method", ".insert"),
      ("methods", "vm.rs", "Vm::define_method", ".remove"),
      ("superclass", "vm.rs", "Vm::init_heap_allocated_data", "= ..") ] = true := by decide +kernel

#print axioms writers_of_class_tables

end Yarel.StateWrites
