/- One obligation of Props/StateWrites (see Base.lean for what these obligations are), in a module of its own so that it fails for the
properties that depend on it and for no others. -/
import Yarel.Props.StateWrites.Base
namespace Yarel.StateWrites
open Yarel

/-- C06: the head of the open-cell list is written by capture and close only -/
theorem writers_of_open_cells :
    sameSet (writesOf ["open_upvalues"])
    [ ("open_upvalues", "object.rs", "ObjFiber::close_upvalues", "= .."),
      ("open_upvalues", "vm.rs", "Vm::capture_upvalue", "= ..") ] = true := by decide +kernel

#print axioms writers_of_open_cells

end Yarel.StateWrites
