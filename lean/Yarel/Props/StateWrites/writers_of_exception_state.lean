/- One obligation of Props/StateWrites (see Base.lean for what these obligations are), in a module of its own so that it fails for the
properties that depend on it and for no others. -/
import Yarel.Props.StateWrites.Base
namespace Yarel.StateWrites
open Yarel

/-- C08 C02: the handler stack, the pending return, the recorded raise site, the exception-in-flight flag and the frame list are written by the translated / modelled operations only (push / pop / unwind / throw / JumpFinally / EndFinally / call / return / the fiber switch / the run prologue) -/
theorem writers_of_exception_state :
    sameSet (writesOf ["exc_handlers", "return_ip", "return_value", "error_ip", "handling_exception", "frames"])
    [ ("frames", "object.rs", "ObjFiber::push_call_frame", ".push"),
      ("frames", "object.rs", "ObjFiber::current_frame_mut", ".last_mut"),
      ("exc_handlers", "object.rs", "ObjFiber::push_exc_handler", ".push"),
      ("exc_handlers", "object.rs", "ObjFiber::pop_exc_handler", ".pop"),
      ("return_ip", "object.rs", "ObjFiber::take_return_data", ".take"),
      ("return_value", "object.rs", "ObjFiber::take_return_data", "= .."),
      ("error_ip", "object.rs", "ObjFiber::record_error_site", "= .."),
      ("handling_exception", "vm.rs", "Vm::execute", "= .."),
      ("handling_exception", "vm.rs", "Vm::load_fiber", "= .."),
      ("handling_exception", "vm.rs", "Vm::unload_fiber", "= .."),
      ("return_ip", "vm.rs", "Vm::jump_finally_impl", "= .."),
      ("return_value", "vm.rs", "Vm::jump_finally_impl", "= .."),
      ("handling_exception", "vm.rs", "Vm::throw_impl", "= .."),
      ("frames", "vm.rs", "Vm::return_impl", ".pop"),
      ("frames", "vm.rs", "Vm::unwind_stack", ".truncate"),
      ("handling_exception", "vm.rs", "Vm::unwind_stack", "= .."),
      ("error_ip", "vm.rs", "Vm::unwind_stack", "= .."),
      ("frames", "vm.rs", "Vm::reset_stack", ".clear") ] = true := by decide +kernel

#print axioms writers_of_exception_state

end Yarel.StateWrites
