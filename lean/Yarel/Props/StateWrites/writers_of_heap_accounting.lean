/- One obligation of Props/StateWrites (see Base.lean for what these obligations are), in a module of its own so that it fails for the
properties that depend on it and for no others. -/
import Yarel.Props.StateWrites.Base
namespace Yarel.StateWrites
open Yarel

/-- C16 C01: the byte counter, the root counts and the colours are written by allocate_raw / collect / the handle operations / the three colouring functions only -/
theorem writers_of_heap_accounting :
    sameSet (writesOf ["bytes_allocated", "num_roots", "colour"])
    [ ("colour", "memory.rs", "GcBox::unmark", ".set"),
      ("colour", "memory.rs", "GcBox::mark", ".replace"),
      ("colour", "memory.rs", "GcBox::blacken", ".replace"),
      ("num_roots", "memory.rs", "GcBox::inc_num_roots", ".replace"),
      ("num_roots", "memory.rs", "GcBox::dec_num_roots", ".replace"),
      ("bytes_allocated", "memory.rs", "Heap::allocate_raw", "op= .."),
      ("bytes_allocated", "memory.rs", "Heap::collect", "op= ..") ] = true := by decide +kernel

#print axioms writers_of_heap_accounting

end Yarel.StateWrites
