/-
Who writes the state the models are about.

The mechanism models (handler stack, fiber links, open-cell list, module registry, class tables, heap accounting, the state that
survives a run) say which operations change which piece of state; their theorems are inductions over exactly those operations.
`Gen.stateWrites` lists, regenerated from the sources on every run (verif_hooks / test items stripped), every place that assigns to a
tracked field, calls a method on it that is not a known read, or borrows it mutably: (field, file, enclosing function, what).  Each
theorem below pins the SET of such places for one group of fields (order and multiplicity do not matter: moving code inside a function
or reordering functions changes nothing).  A write from a new place - a clean-up added to an error path, a cache invalidation, a
"restore" on return - or a write that disappears is a change of the frame the inductions assume.
-/
import Yarel.Gen.CfgSites
namespace Yarel.StateWrites
open Yarel

abbrev Site := String × String × String × String

def sameSet (a b : List Site) : Bool := a.all (fun x => b.contains x) && b.all (fun x => a.contains x)

def writesOf (fields : List String) : List Site := Gen.stateWrites.filter fun e => fields.contains e.1

end Yarel.StateWrites
