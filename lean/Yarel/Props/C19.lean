/-
C19 — numbers: IEEE-754 binary64 arithmetic and number ↔ text conversion as yarel performs them.

Model:  Yarel/Model/F64Core.lean, Yarel/Model/F64.lean (arithmetic), Yarel/Model/NumText.lean (parse / display)
Spec :  Yarel/Spec/F64Spec.lean (`unitsOf`, `absDiff`), Yarel/Spec/NumGrammar.lean (`wellFormed`)
Doubles are `UInt64` bit patterns (`Bits`); texts are `List Char` (`display b : String`, theorems use `.toList`).
-/
import Yarel.Proofs.F64Round
import Yarel.Proofs.F64Nearest
import Yarel.Proofs.F64Overflow
import Yarel.Proofs.F64OfInt
import Yarel.Proofs.NumTextRoundtrip
import Yarel.Proofs.NumTextShape
import Yarel.Proofs.NumTextGrammar

namespace Yarel.Props.C19
open Yarel.F64 Yarel.NumText

/-! ## 1. Rounding -/

/-- **Rounding a representable value is the identity.**  If `num/den` is exactly the magnitude `m * 2^e` of the
finite double `b` (`(_, m, e) = decode b`; the equation is cross-multiplied, one of the two powers is `2^0`),
then `roundRat` with `b`'s sign returns `b` itself. -/
theorem roundRat_exact (b : Bits) (num den : Nat) (hfin : isFinite b = true) (hden : 0 < den)
    (hval : num * 2 ^ (-(decode b).2.2).toNat = (decode b).2.1 * 2 ^ (decode b).2.2.toNat * den) :
    roundRat (signBit b) num den = b :=
  Yarel.F64.roundRat_exact b num den hfin hden hval

#print axioms roundRat_exact

-- non-vacuity: 3/8 is the double 0x3FD8000000000000 (m = 3*2^51, e = -54)
example : isFinite 0x3FD8000000000000 = true ∧ (0 < 8) ∧
    3 * 2 ^ (-(decode 0x3FD8000000000000).2.2).toNat
      = (decode 0x3FD8000000000000).2.1 * 2 ^ (decode 0x3FD8000000000000).2.2.toNat * 8 := by decide +kernel
example : roundRat false 3 8 = 0x3FD8000000000000 := by decide +kernel

/-- **`roundRat` rounds to nearest, ties to even** — for every finite result (normal *and* subnormal range).
`unitsOf v` is the magnitude of `v` in units of `2^-1074`, so `|num/den - |v|| * den * 2^1074` is the natural
number `absDiff (num * 2^1074) (unitsOf v * den)`.  No bit pattern `x` whatsoever (its exponent field is not even
required to be < 2047, `unitsOf` extends the grid beyond the largest double) is closer to `num/den` than the result;
and if some `x` with a different magnitude is equally close, the result's mantissa is even. -/
theorem roundRat_nearest (s : Bool) (num den : Nat) (hden : 0 < den)
    (hfin : isFinite (roundRat s num den) = true) (x : Bits) :
    absDiff (num * 2 ^ 1074) (unitsOf (roundRat s num den) * den) ≤ absDiff (num * 2 ^ 1074) (unitsOf x * den) ∧
    (absDiff (num * 2 ^ 1074) (unitsOf (roundRat s num den) * den) = absDiff (num * 2 ^ 1074) (unitsOf x * den) →
      unitsOf x ≠ unitsOf (roundRat s num den) → mantField (roundRat s num den) % 2 = 0) :=
  roundRat_nearest' s num den hden hfin x

#print axioms roundRat_nearest

-- hypotheses met (finite result) by 1/3; the two neighbours are strictly farther:
example : isFinite (roundRat false 1 3) = true ∧
    absDiff (1 * 2 ^ 1074) (unitsOf (roundRat false 1 3) * 3) < absDiff (1 * 2 ^ 1074) (unitsOf 0x3FD5555555555554 * 3) ∧
    absDiff (1 * 2 ^ 1074) (unitsOf (roundRat false 1 3) * 3) < absDiff (1 * 2 ^ 1074) (unitsOf 0x3FD5555555555556 * 3) := by
  decide +kernel
-- a genuine tie: 2^53 + 1 lies exactly between two doubles, the even mantissa wins
example : absDiff ((2 ^ 53 + 1) * 2 ^ 1074) (unitsOf 0x4340000000000000 * 1)
      = absDiff ((2 ^ 53 + 1) * 2 ^ 1074) (unitsOf 0x4340000000000001 * 1) ∧
    roundRat false (2 ^ 53 + 1) 1 = 0x4340000000000000 := by decide +kernel

/-- `unitsOf` is the decoded value: `m * 2^(e + 1074)`. -/
theorem unitsOf_eq_decode (b : Bits) (h : isFinite b = true) :
    unitsOf b = (decode b).2.1 * 2 ^ ((decode b).2.2 + 1074).toNat :=
  unitsOf_decode b (by have := (isFinite_iff b).1 h; have := expField_lt b; omega)

/-- The sign of the result is the requested sign. -/
theorem roundRat_sign (s : Bool) (num den : Nat) (hden : 0 < den) (hfin : isFinite (roundRat s num den) = true) :
    signBit (roundRat s num den) = s :=
  (roundRat_units s num den hden hfin).2.2

/-- **Overflow**: the result is infinite (`±inf` with the requested sign) exactly when
`num/den ≥ (2^54 - 1) * 2^970` = largest finite double + half an ulp
(both sides multiplied by `2 * den * 2^1074`). Together with `roundRat_nearest` this is the complete
IEEE round-to-nearest-even specification. -/
theorem roundRat_overflow_iff (s : Bool) (num den : Nat) (hden : 0 < den) :
    (isFinite (roundRat s num den) = false ↔ (2 ^ 54 - 1) * (den * 2 ^ 2045) ≤ 2 * (num * 2 ^ 1074)) ∧
    (isFinite (roundRat s num den) = false → roundRat s num den = inf s) :=
  ⟨roundRat_overflow_iff' s num den hden, roundRat_overflow_eq_inf s num den⟩

#print axioms roundRat_overflow_iff

-- non-vacuity: 1/3 is rounded (inexact), a tie (2^53+1) goes to the even mantissa, 1e400 overflows, 1e-400 underflows to 0
example : roundRat false 1 3 = 0x3FD5555555555555 := by decide +kernel
example : roundRat false (2 ^ 53 + 1) 1 = 0x4340000000000000 ∧ roundRat false (2 ^ 53 + 3) 1 = 0x4340000000000002 := by
  decide +kernel
example : roundRat true (10 ^ 400) 1 = negInf ∧ roundRat true 1 (10 ^ 400) = negZero := by decide +kernel
example : roundRat false 1 (10 ^ 320) = 0x00000000000007E8 := by decide +kernel  -- subnormal 1e-320

/-! ## 2. print → parse round trip (headline) -/

/-- **Every bit pattern survives `display` followed by `parseDec`**: NaNs come back as a NaN, everything else
(−0, subnormals, the extremes, ±inf) comes back bit-for-bit. -/
theorem print_parse_roundtrip (b : Bits) :
    (isNaN b = true → ∃ r, parseDec (display b).toList = some r ∧ isNaN r = true) ∧
    (isNaN b = false → parseDec (display b).toList = some b) := by
  unfold display
  rw [String.toList_ofList]
  exact ⟨fun h => ⟨canonNaN, parse_displayChars_nan b h, by decide⟩, parse_displayChars b⟩

#print axioms print_parse_roundtrip

example : (display 0x3FB999999999999A).toList = ['0', '.', '1'] ∧
    parseDec ['0', '.', '1'] = some 0x3FB999999999999A := by
  unfold display; rw [String.toList_ofList]; decide +kernel
example : displayChars 0x8000000000000000 = ['-', '0'] ∧ parseDec ['-', '0'] = some 0x8000000000000000 := by
  decide +kernel
example : isNaN 0xFFF8000000000001 = true ∧ displayChars 0xFFF8000000000001 = ['N', 'a', 'N'] := by decide +kernel

/-! ## 3. Shape of the printed text -/

/-- An integral finite value prints without '.', a non-integral one prints as `[-]digits.digits` with at least one
digit on both sides (hence exactly one '.'). -/
theorem integral_no_fraction (b : Bits) (hfin : isFinite b = true) :
    (isIntegral b = true → '.' ∉ (display b).toList) ∧
    (isIntegral b = false → ∃ ip fr, (display b).toList = signText b ++ ip ++ '.' :: fr ∧
        ip ≠ [] ∧ fr ≠ [] ∧ ip.all isDigit = true ∧ fr.all isDigit = true) := by
  unfold display
  rw [String.toList_ofList]
  obtain ⟨ip, fr, heq, hne, hip, hfr, hI⟩ := displayChars_shape b hfin
  rw [heq]
  constructor
  · intro h
    rw [h] at hI
    have : fr = [] := by simpa using hI
    subst this
    unfold assemble
    simp only [List.isEmpty_nil, if_true, List.mem_append, not_or]
    exact ⟨no_dot_signText b, no_dot_of_digits ip hip⟩
  · intro h
    rw [h] at hI
    have hfrne : fr ≠ [] := by intro h0; subst h0; simp at hI
    refine ⟨ip, fr, ?_, hne, hfrne, hip, hfr⟩
    unfold assemble
    have : fr.isEmpty = false := by simpa using hfrne
    simp [this]

#print axioms integral_no_fraction

/-- Corollary: the text of a non-integral finite value contains exactly one '.'. -/
theorem nonintegral_one_dot (b : Bits) (hfin : isFinite b = true) (h : isIntegral b = false) :
    (display b).toList.count '.' = 1 := by
  obtain ⟨ip, fr, heq, _, _, hip, hfr⟩ := (integral_no_fraction b hfin).2 h
  rw [heq]
  have h1 : (signText b).count '.' = 0 := List.count_eq_zero.2 (no_dot_signText b)
  have h2 : ip.count '.' = 0 := List.count_eq_zero.2 (no_dot_of_digits ip hip)
  have h3 : fr.count '.' = 0 := List.count_eq_zero.2 (no_dot_of_digits fr hfr)
  simp [List.count_append, h1, h2, h3]

example : isFinite 0x444B1AE4D6E2EF50 = true ∧ isIntegral 0x444B1AE4D6E2EF50 = true ∧   -- 1e21, no exponent notation
    displayChars 0x444B1AE4D6E2EF50 = '1' :: List.replicate 21 '0' := by decide +kernel
example : isFinite 0x3E7AD7F29ABCAF48 = true ∧ isIntegral 0x3E7AD7F29ABCAF48 = false ∧
    displayChars 0x3E7AD7F29ABCAF48 = ['0', '.', '0', '0', '0', '0', '0', '0', '1'] := by decide +kernel  -- 1e-7

/-! ## 4. Parsing -/

/-- **Grammar**: `parseDec` succeeds exactly on the texts of Rust's `f64::from_str` grammar (`wellFormed`,
Yarel/Spec/NumGrammar.lean). -/
theorem parse_wellFormed (s : List Char) : (parseDec s).isSome = wellFormed s :=
  parseDec_isSome s

#print axioms parse_wellFormed

/-- **Value**: on a well-formed decimal text (not inf/nan) the result is `roundRat` of the exact rational value
`D * 10^x` of the text, where `D` is the integer spelled by all mantissa digits and `x` the exponent minus the number
of fraction digits — i.e. the correctly rounded (`roundRat_nearest`, `roundRat_overflow_iff`) double. -/
theorem parse_nearest (s : List Char) (D : Nat) (x : Int)
    (hspecial : wfSpecial (splitSign s).2 = false) (hnum : parseNumber (splitSign s).2 = some (D, x)) :
    parseDec s = some (roundRat (splitSign s).1
      (if x < 0 then D else D * 10 ^ x.toNat) (if x < 0 then 10 ^ (-x).toNat else 1)) := by
  unfold parseDec
  rw [wfSpecial_eq] at hspecial
  generalize splitSign s = p at *
  obtain ⟨neg, r⟩ := p
  simp only at hspecial hnum ⊢
  have h1 : isInfText r = false := by cases h : isInfText r <;> simp_all
  have h2 : isNanText r = false := by cases h : isNanText r <;> simp_all
  simp only [h1, h2, Bool.false_eq_true, if_false, hnum]
  rfl

#print axioms parse_nearest

-- hypotheses met by "-1.25e3": D = 125, x = 3 - 2 = 1, value -1250
example : wfSpecial (splitSign ['-', '1', '.', '2', '5', 'e', '3']).2 = false ∧
    parseNumber (splitSign ['-', '1', '.', '2', '5', 'e', '3']).2 = some (125, 1) ∧
    parseDec ['-', '1', '.', '2', '5', 'e', '3'] = some 0xC093880000000000 := by decide +kernel

/-- What `(D, x)` is for the full syntax `ip . fp e±ddd` is `parseNumber`'s definition; for the plain positional
texts that `display` emits: `D` = all digits, `x` = −(number of fraction digits). -/
theorem parseNumber_positional (ip fr : List Char) (hip : ip.all isDigit = true) (hfr : fr.all isDigit = true)
    (hne : ip ≠ []) :
    parseNumber (assemble ip fr) = some (digitsVal 0 (ip ++ fr), -(fr.length : Int)) :=
  parseNumber_assemble ip fr hip hfr hne

example : parseDec ['9','0','0','7','1','9','9','2','5','4','7','4','0','9','9','3'] = some 0x4340000000000000 := by
  decide +kernel
example : parseDec ['1', '.'] = some 0x3FF0000000000000 ∧ parseDec ['.', '5'] = some 0x3FE0000000000000 ∧
    parseDec ['+', '1'] = some 0x3FF0000000000000 ∧ parseDec ['.'] = none ∧ parseDec [] = none ∧
    parseDec ['1', 'e'] = none ∧ parseDec ['1', '_', '0'] = none ∧ parseDec [' ', '1'] = none ∧
    parseDec ['1', 'e', '4', '0', '0'] = some posInf ∧ parseDec ['-', '1', 'e', '-', '4', '0', '0'] = some negZero ∧
    parseDec ['-', 'I', 'n', 'F'] = some negInf ∧ parseDec ['i', 'n', 'f', 'i', 'n', 'i', 't', 'y'] = some posInf ∧
    parseDec ['n', 'A', 'N'] = some canonNaN := by decide +kernel
example : wellFormed ['-', '.', '5', 'E', '+', '0', '7'] = true ∧ wellFormed ['1', '.', '2', '.', '3'] = false := by
  decide +kernel

/-! ## 5. Integer → double -/

/-- **`i as f64` is exact for |i| ≤ 2^53**: finite, sign of `i`, and the decoded magnitude `m * 2^e` equals `|i|`
(cross-multiplied). -/
theorem ofInt_exact (i : Int) (h : i.natAbs ≤ 2 ^ 53) :
    isFinite (ofInt i) = true ∧ signBit (ofInt i) = decide (i < 0) ∧
    (decode (ofInt i)).2.1 * 2 ^ (decode (ofInt i)).2.2.toNat
      = i.natAbs * 2 ^ (-(decode (ofInt i)).2.2).toNat :=
  ofInt_exact' i h

#print axioms ofInt_exact

example : ofInt (2 ^ 53) = 0x4340000000000000 ∧ ofInt (-3) = 0xC008000000000000 := by decide +kernel
-- beyond 2^53 rounding sets in (ties to even):
example : ofInt (2 ^ 53 + 1) = 0x4340000000000000 ∧ ofInt (2 ^ 53 + 3) = 0x4340000000000002 ∧
    ofInt 9223372036854775807 = 0x43E0000000000000 := by decide +kernel

/-! ## 6. Concrete arithmetic (non-vacuity of the model) -/

example : parseDec ['0', '.', '1'] = some 0x3FB999999999999A := by decide +kernel
example : div 0x3FF0000000000000 0x4008000000000000 = 0x3FD5555555555555 ∧
    displayChars 0x3FD5555555555555 = '0' :: '.' :: List.replicate 16 '3' := by decide +kernel
example : displayChars 1 = '0' :: '.' :: (List.replicate 323 '0' ++ ['5']) ∧
    parseDec ['5', 'e', '-', '3', '2', '4'] = some 1 := by decide +kernel
example : displayChars 0x7FEFFFFFFFFFFFFF =
      ['1','7','9','7','6','9','3','1','3','4','8','6','2','3','1','5','7'] ++ List.replicate 292 '0' ∧
    parseDec ['1','.','7','9','7','6','9','3','1','3','4','8','6','2','3','1','5','7','e','3','0','8']
      = some 0x7FEFFFFFFFFFFFFF := by decide +kernel
example : add 0x3FB999999999999A 0x3FC999999999999A = 0x3FD3333333333334 ∧
    displayChars 0x3FD3333333333334 = ['0','.','3'] ++ List.replicate 15 '0' ++ ['4'] := by decide +kernel
example : fmod 0x4016000000000000 0xC000000000000000 = 0x3FF8000000000000 := by decide +kernel  -- 5.5 % -2 = 1.5
example : add 0x3FF0000000000000 0xBFF0000000000000 = posZero ∧ add negZero negZero = negZero ∧
    mul posZero 0xBFF0000000000000 = negZero ∧ fmod 0xC016000000000000 posInf = 0xC016000000000000 ∧
    fmod negZero 0x4000000000000000 = negZero ∧ isNaN (fmod 0x3FF0000000000000 posZero) = true ∧
    isNaN (fmod posInf 0x3FF0000000000000) = true ∧ div 0x3FF0000000000000 negZero = negInf ∧
    isNaN (div posZero negZero) = true ∧ isNaN (sub posInf posInf) = true := by decide +kernel
-- the `as i64` bit operators: 5 & 3, -1 | 0, 1 << 63 (wraps to i64::MIN), 1 << 64 (checked_shl → 0), -8 >> 1, !0
example : band 0x4014000000000000 0x4008000000000000 = 0x3FF0000000000000 ∧
    bor 0xBFF0000000000000 posZero = 0xBFF0000000000000 ∧
    shl 0x3FF0000000000000 0x404F800000000000 = 0xC3E0000000000000 ∧
    shl 0x3FF0000000000000 0x4050000000000000 = posZero ∧
    shr 0xC020000000000000 0x3FF0000000000000 = 0xC010000000000000 ∧
    bnot posZero = 0xBFF0000000000000 := by decide +kernel

end Yarel.Props.C19
